"""install_seed.py <PROP> <A|B>: copy an independently written breaking change from /tmp/seed into
/verif/seeded/<PROP>_<X>/ (patch.diff, demo.py, meta.json)."""
import json, os, shutil, sys
prop, x = sys.argv[1], sys.argv[2]
src = "/tmp/seed"
dst = os.path.join(os.path.dirname(os.path.abspath(__file__)), "..", "seeded", f"{prop}_{x}")
os.makedirs(dst, exist_ok=True)
shutil.copy(f"{src}/{prop}_{x}.diff", f"{dst}/patch.diff")
shutil.copy(f"{src}/{prop}_{x}_demo.py", f"{dst}/demo.py")
meta = json.load(open(f"{src}/{prop}_{x}.json"))
meta["property"] = prop
meta["origin"] = "written by an independent sub-agent given only the property text and a scratch worktree of the library"
json.dump(meta, open(f"{dst}/meta.json", "w"), indent=1)
print("installed", os.path.normpath(dst))
