"""Writes /verif/MANIFEST.json from the table below (kept in one place so that it stays valid)."""
import json
import os

HERE = os.path.dirname(os.path.abspath(__file__))
VERIF = os.path.normpath(os.path.join(HERE, ".."))

CLAIMED = {
    "C01": dict(
        text="Lean 4 theorems about a model of parser.py that is generic in the operator table "
             "regenerated from the source on every run: C01_yield (an accepted token list is exactly "
             "the yield of the returned tree, any length), C01_stratified (every returned tree is a "
             "derivation of the documented precedence/associativity grammar), C01_roundtrip / "
             "C01_parse_iff (parse T ts = ok e <-> Stratified T e and e.flat = ts, with the real fuel), "
             "C01_unique_reading, C01_rejects_non_sentences, C01_fullparen, C01_redundant_parens, scanner "
             "theorems (C01_second_tilde, C01_unterminated, C01_scan_render, C01_ws: any two admissible "
             "layouts scan alike); tie of the regenerated table to the documented one by `decide`. The model is tied to the code by an exhaustive "
             "differential run (all token strings up to a length bound, character strings for the "
             "scanner, generated sentences); the specification (reference parse) is evaluated on the "
             "implementation's own output.",
        note="Trusted: Lean kernel; harness/extract_tables.py; the structural serialisation of the Python "
             "AST; ASCII input only; int()/float() of number lexemes are checked in Python; a history "
             "stage runs look-alike strings through model_description one after the other.",
        technique="Lean 4 proof (fuel induction over the recursive-descent parser model) + table translator "
                  "+ exhaustive differential correspondence",
        ref="6 C01"),
    "C02": dict(
        text="Lean 4 model of the operator overloads of terms.py and of resolver.py (branch by branch, "
             "errors included), the Wilkinson-Rogers expansion as an independent denotation "
             "(Spec.C02.den), the resolver operator table regenerated from the source and tied by `decide`. "
             "Exhaustive differential run over all operator trees with <= 3 leaves plus random deeper "
             "trees; the denotation is evaluated by the Lean driver on the implementation's own output; "
             "failures inside the recorded defect classes (Lean guard predicates + model-predicted "
             "output) are known findings.",
        note="Trusted: Lean kernel; translator; CPython operator dispatch and list semantics as modelled "
             "in Model/Terms.lean; terms compared by name with sorted factors. Refinement theorems "
             "C02_plain_refines_partial / C02_refines_partial (the resolved term list with later duplicates "
             "dropped IS the denotation, for chains of plain items, intercept literals and added / "
             "subtracted group items; guards = the recorded gap classes D3 D22 D24 D25), C02_nodup, "
             "C02_plain_total_partial; C02_scanner_shape_partial: every character string the scanner and "
             "the parser accept whose tree is a formula of the language has the shape the refinement "
             "theorem covers (no tilde, or the tilde at the root; a tilde nested in brackets is outside the "
             "language, which is checked per case, not proved).",
        technique="Lean 4 proof (refinement of the operator-overload model to the Wilkinson-Rogers "
                  "denotation) + table tie (decide) + exhaustive differential correspondence",
        ref="6 C02"),
    "C03": dict(
        text="Lean 4 model mirroring contrasts.py literally and the encoding pipeline of Model.eval, with "
             "the theorem C03_pick_contrasts_partition: for EVERY family of terms in EVERY order "
             "pick_contrasts succeeds (asserts unreachable) and the coded intervals cover each subset of "
             "the down-closure exactly once and nothing else; C03_columns_count (columns = dimension "
             "formula for all level counts); C03_pipeline_partial (under a decidable guard the pipeline's "
             "coded design partitions), C03_hierarchical(_categorical) (margins-first families satisfy the "
             "guard), counterexamples for the recorded defects by `decide`. Exhaustive differential run of "
             "the real pick_contrasts and of design_matrices over all families of <= 3 terms over "
             "{f,g,h,x} in every order (and more); the partition predicate is evaluated by the driver on "
             "the implementation's own codings; failures in the Lean-delimited defect classes with the "
             "model-predicted output are known findings.",
        note="Trusted: Lean kernel; the bridge from `partition` to rank / column space on "
             "complete-factorial data (tensor-basis argument) is mathematics outside Lean, validated by "
             "exact integer elimination on every explored non-failing case (reported as test); the "
             "pipeline guard is a decidable check on the model's intermediate results.",
        technique="Lean 4 proof (counting invariant over absorb steps, induction over the term list) + "
                  "exhaustive differential correspondence + exact-arithmetic rank test",
        ref="6 C03"),
    "C04": dict(
        text="Lean 4 theorems about the evaluation model: the n-ary label product (itertools.product) "
             "and the n-ary data product (get_interaction_matrix folded with reduce) enumerate columns in "
             "one common order for any arity and any column counts (C04_product_order), the group-specific "
             "labels e|g and the Khatri-Rao columns likewise (C04_group_label), full and reduced treatment "
             "columns are exactly the indicators of the level their label names for every level count and "
             "reference (C04_indicator_full / _reduced); for the model's own trainComp / trainTerm / "
             "trainGroup and the whole-pipeline designMatrices every row has exactly one entry per label "
             "(C04_*_labels_partial, C04_design_labels_partial; hypotheses: rectangular frame, namespace "
             "vectors as long as the frame). An independent label decoder (Spec.C04) is evaluated by the "
             "driver on the labels and matrices of real designs and of the matrices evaluate_new_data "
             "returns (frames with all levels, repeated rows, missing levels); level order is judged for "
             "plain variables and coding calls; the evaluation model is compared entry by entry.",
        note="Trusted: Lean kernel; pandas dtype inference / Categorical codes / numpy indexing as "
             "modelled in Model/Matrices.lean; coding decisions (full/reduced) are inputs observed from "
             "the implementation (they are C03's subject); sum-coded and spline/poly columns are not "
             "judged by the decoder.",
        technique="Lean 4 proof (list induction on flatMap/zip) + independent label-decoder spec "
                  "evaluated on real output + model correspondence",
        ref="6 C04"),
    "C05": dict(
        text="Lean 4 theorems about the Khatri-Rao model for every number of groups, effect width and "
             "row: slot g' of an observation of group g holds the effect row when g' = g and zero "
             "otherwise, at positions g'*p + k (C05_block_row), width G*p, cells of g1:g2 in "
             "lexicographic order of the level lists (C05_cell_order); for the model's own trainGroup, "
             "any number of grouping components: every factor row is the unit row of its cell "
             "(C05_factor_indicator), levels sorted / declared (C05_factor_levels), every block row is the "
             "Kronecker row of the cell indicator with the effect row (C05_trainGroup_block / _entries), "
             "labels group-major e|g[l] and as many as columns (C05_trainGroup_labels / _width); the "
             "hypothesis IndicatorCoded is automatic for plain and Treatment-coded factors and cannot be "
             "dropped (C05_factor_sum_counterexample = known finding D30). Spec.C05 (expected groups, "
             "block structure against the observed effect columns; checkNew for the per-term blocks of "
             "evaluate_new_data results incl. unseen groups) is evaluated by the driver on real designs; "
             "the evaluation model is compared entry by entry. The coding-rule clause (reduced vs full "
             "effects) is judged against the redundancy analysis of C03 (driver op c05_rule) and by exact "
             "rank on crossed data.",
        note="Trusted: Lean kernel; scipy.linalg.khatri_rao is modelled by the row product; the effect "
             "columns are read from term.expr.data; the coding-rule clause is only partially covered "
             "(known findings D11, D12; D30 for sum-coded grouping factors).",
        technique="Lean 4 proof (index arithmetic on flatMap) + block-structure spec on real output + "
                  "model correspondence",
        ref="6 C05"),
    "C06": dict(
        text="Lean 4 theorems about the evaluation model (training path and prediction path modelled "
             "separately; transform state is a tree mirroring the lazy call tree): C06_rows - for every "
             "well-formed frame, every index list (any subset, order, repetition, single row) and every "
             "design outside the two recorded defect classes, evaluate_new_data on those rows returns "
             "exactly those rows of the stacked common and group training matrices; built from "
             "C06_evalArg_rows (first call estimates, later calls reuse: center), C06_rows_comp / _term / "
             "_group, C06_state_frozen(_seq) (no sequence of evaluations changes the state), "
             "C06_levels_frozen; counterexamples for D13 and D14 by `decide`, and the guard is exactly "
             "D13 u D14. Spec.C06.holds is evaluated by the driver on real evaluate_new_data results for "
             "6 row selections per design incl. nested / interacting scale, bs, poly; the model is "
             "compared on the modelled atoms.",
        note="Trusted: Lean kernel; numpy/scipy floating point for scale/bs/poly (frozen parameters are "
             "observed through the row identity itself, tolerance 1e-9; their state machines are proved "
             "frozen in C14); the namespace is assumed to hold scalars / lists / encodings only.",
        technique="Lean 4 proof (mutual structural induction over the call tree, row-selection lemmas for "
                  "products / Khatri-Rao / stacking) + row-identity spec on real output + correspondence",
        ref="6 C06"),
    "C07": dict(
        text="Lean 4 state machine over histories (Model/World.lean: build / evaluate-common / "
             "evaluate-group / set-config; prediction returns the transform state after the call) with 25 "
             "theorems: C07_eval_pure (prediction never changes the transform state of any well-shaped "
             "state, and every state produced by training is well-shaped; counterexample for ill-shaped "
             "states), lifted to components / terms / groups and to `step` ((step w (eval i d)).1 = w in "
             "every reachable world), C07_build_fresh, C07_config_frame, C07_history_independence (the "
             "output of an operation after any history equals its output after only the build it refers "
             "to and the last config change), C07_repeatable; ties by `decide` to tables the translator "
             "extracts from the source: config read only at evaluation time, no self.* write on any "
             "eval_new_data path, the only aliasing is the shared slices dict, LazyCall.eval writes only "
             "its own stateful_transform under the `is None` guard, the registry holds classes never "
             "instances, __call__ writes are guarded by params_set. Histories run against the real "
             "library (all histories of length <= 3 over a reduced pool + 300 random of length <= 12), "
             "every operation compared with the same operation in a fresh process (forked pristine "
             "interpreter per relevant history) and with the model's step; training matrices, internal "
             "design state, earlier results, caller's frames and namespace are snapshot-compared after "
             "every operation.",
        note="Trusted: Lean kernel; translator; the model is value-based: absence of writes to numpy arrays "
             "/ DataFrames already handed out, Python object aliasing and the memo dictionaries of "
             "Polynomial are carried by the snapshots of the correspondence only (no theorem can exhibit "
             "them).",
        technique="Lean 4 proof (frame lemmas + induction over histories) + source-shape ties + history "
                  "correspondence against fresh processes",
        ref="6 C07"),
    "C08": dict(
        text="Lean 4 theorems about the evaluation model (31): for every permutation sigma of the rows, "
             "TRAINING on the permuted frame gives the permuted training matrix and exactly the same "
             "remembered state - levels, contrast matrices, fitted means, labels, slices, groups - for "
             "components, terms, group-specific terms and the stacked common / group matrices (C08_perm, "
             "C08_perm_stacks; no fragment guard: C/T/S with levels, ordered categoricals, binary, prop, "
             "offset, center all inside), built on C08_sortLevels_perm (level sorting is order "
             "independent: insertion sort under a strict total order), C08_dedup_perm, C08_mean_perm, "
             "C08_evalArg_perm; C08_unused (frames that agree on the columns the formula names give equal "
             "designs: columns added, removed, reordered). Spec.C08 is evaluated by the driver on pairs of "
             "real runs: 3 row permutations, non-unique string and unsorted float indexes, reversed "
             "columns, extra / removed unused columns, missing values under relabelled indexes; fitted "
             "transform parameters are compared too.",
        note="Trusted: Lean kernel; the row index does not exist in the model (index relabelling is decided "
             "by the runs only); float rounding of sums and the parameters of scale/bs/poly are compared "
             "with tolerance 1e-9 on real runs (their exact-rational models are in C14).",
        technique="Lean 4 proof (permutation invariance of sort/dedup/mean, mutual induction over the call "
                  "tree, row-selection lemmas) + relational spec evaluated on pairs of real runs",
        ref="6 C08"),
    "C09": dict(
        text="Lean 4 model of var_names (CallVarsExtractor over the lazy call tree) and of the NA step of "
             "design_matrices, with theorems: the visitor finds exactly the variable leaves incl. keyword "
             "and nested-call arguments (argVars_eq / atomVars_eq, mutual structural induction), drop = "
             "selected columns restricted to complete rows, C09_drop_eq_filtered (for every rectangular "
             "frame the NA step under drop equals the NA step on the frame from which the incomplete rows "
             "were removed, incl. the refusal when no row is complete), error <=> an incomplete selected "
             "row, pass keeps all rows, other actions and empty frames refused, unused columns ignored, "
             "row alignment of all columns; "
             "accepted actions regenerated from matrices.py and tied by `decide`. Spec.C09 (used variables "
             "= those of the terms of the formula's denotation, so that a variable whose terms are all "
             "removed again with `-` is not used; model: var_names of the resolved model; drop run = run on "
             "the filtered frame, error policy, pass rule against the imputed reference, complete rows under "
             "pass = rows under drop for transforms that fit parameters) is evaluated by the driver on real "
             "runs over generated missingness patterns in used and unused columns, under scrambled / "
             "non-unique row labels; the whole-pipeline Lean model is compared under the drop and pass "
             "policies (C09_pipeline_readings_agree: the pipeline the C04/C15/C17 theorems are about equals "
             "the executed one wherever both readings of 'used' select the same columns).",
        note="Trusted: Lean kernel; translator; pandas isna / boolean selection as modelled; pass is "
             "judged only for missing numeric variables in plain variables / pointwise calls (a missing "
             "categorical value under pass raises TypeError in sorted(): outside the statement).",
        technique="Lean 4 proof + relational spec on real runs + model correspondence of var_names / NA step",
        ref="6 C09"),
    "C10": dict(
        text="Lean 4 theorems about the model of eval_new_data_categoric / GroupSpecificTerm.eval_new_data "
             "/ Config: error mode raises iff a value is unseen (C10_error_iff); in warning/silent mode the "
             "row of an unseen value is the zero row and every other row is its contrast row, warning iff "
             "mode = warning (C10_zero_rows); a zero row zeroes every interaction column "
             "(C10_interaction_zero_*); an observation of an unseen group gets the trailing (G+1)-th block "
             "carrying its effect values, all existing slots zero (C10_new_group_block; lifted to the "
             "model's newGroup on any state produced by trainGroup: C10_newGroup_block / _error / "
             "_unseen_entries / _single); Config accepts "
             "exactly the documented key/values, defaults to error, last setting wins; the field table is "
             "regenerated from config.py and tied by `decide`. Spec.C10 (zero rule, new-group rule, "
             "factors_with_new_levels, slices, raise/warn policy) is evaluated by the driver on pairs of "
             "real evaluations (new frame vs the frame with unseen values replaced); the model is compared "
             "on the same frames under the three policies.",
        note="Trusted: Lean kernel; translator; pandas Categorical codes for unseen values; which "
             "variables a column involves is taken from var_names (C09).",
        technique="Lean 4 proof + relational spec evaluated on real output + model correspondence + "
                  "config table tie (decide)",
        ref="6 C10"),
    "C12": dict(
        text="Lean 4 model of CallResolver and of the lazy nodes (__str__, __eq__, eval) with 23 theorems: "
             "the operator tables read from the live module are Python's operators (tie by `decide`), "
             "C12_same_tree_partial (a tree of the formula grammar that is PowCompatible is Python's own "
             "reading of its tokens), C12_eval_partial (lazy evaluation equals Python evaluation of the "
             "tree: operators, positional then keyword arguments, nested calls, literals), C12_brace "
             "({e} is I(e)), C12_name / _whitespace / _parentheses / _variants (the term name is the "
             "canonical text of the tokens with grouping removed), C12_name_injective_partial; "
             "counterexamples for D15 (sign vs **, ** chains, comparison chains), D16 (names drop "
             "grouping), D27 (1 == True merges calls) by `decide`. Differential run against Python's own "
             "eval/ast of the same text over all operator trees with <= 2 operators + 2 000 random ones; "
             "failures in the Lean-delimited classes with the model-predicted output are known findings.",
        note="Trusted: Lean kernel; translator; that PyStratified is Python's parse relies on the "
             "unambiguity of Python's grammar (argued, and checked against Python's ast on every explored "
             "case); the value domain is partial (int/float one kind, no boolean-column arithmetic).",
        technique="Lean 4 proof (structural induction on the AST, reuse of the C01 theorems) + operator "
                  "table tie + differential correspondence against Python's eval",
        ref="6 C12"),
    "C13": dict(
        text="Lean 4 model of Treatment / Sum / CategoricalBox / C,T,S with 39 theorems for every number "
             "of levels and every reference / omitted level: shapes, reference row zero, zero-sum columns, "
             "explicit two-sided inverses of [1|T] and [1|S] (full rank with the constant), spanning of all "
             "indicators, labels name the columns, levels= fixes the order, aliases; the compact coding "
             "functions of the evaluation model (used by C04-C06, C08, C10, C15-C17) are proved equal to "
             "this model (Bridge.coding_models_agree: same matrix, labels and refusals), so the results "
             "hold for the matrices the whole-design model computes with; registry and default "
             "arguments extracted from the live modules and tied by `decide`. Exhaustive differential run "
             "for n <= 12 and every reference, all permutations of <= 5 levels, alias groups; the spec "
             "predicates are evaluated by the driver on the implementation's matrices; the interchange "
             "clause is proved at the factor-space level and tested on designs by exact column-space "
             "comparison.",
        note="Trusted: Lean kernel; translator; the tensor-basis step from factor spaces to the whole "
             "design matrix is mathematics outside Lean (validated by exact rational rank on every explored "
             "design); custom Encoding subclasses and NaN data are not modelled.",
        technique="Lean 4 proof (entrywise matrix identities over Int/Rat, no Mathlib) + registry "
                  "translator + exhaustive differential correspondence",
        ref="6 C13"),
    "C14": dict(
        text="Lean 4 state-machine models of Center, Scale, BSpline (validation order, knot vector, "
             "Cox-de Boor recursion as the model of splev, percentile by linear interpolation) and "
             "Polynomial (three-term recurrence with memoised alpha / norms2) over exact rationals, with 30 "
             "theorems for all inputs: center mean zero and frozen affine map over any call history, scale "
             "mean 0 / population variance (ddof 0) / frozen map, bs column counts and validation "
             "(iff), partition of unity and non-negativity on [lower, upper) by induction on the degree, "
             "raw powers exact, orthogonality of the recurrence's polynomials for data with > degree "
             "distinct values, poly frozen once memoised; registry / defaults / params_set / np.std "
             "keywords regenerated from the source and tied by `decide`. Exhaustive + random differential "
             "run (direct API and through design_matrices / evaluate_new_data); contract predicates are "
             "evaluated by the driver on the implementation's output.",
        note="Trusted: Lean kernel; translator; np.percentile and scipy splev are modelled, their "
             "agreement rests on the correspondence (tolerance 1e-9; 1e-6 for orthogonal poly with "
             "offsets >= 1e3); single Mathlib modules are imported in Proofs/ only; span equality of poly "
             "columns is proved as 'P_k monic of degree k' and tested numerically.",
        technique="Lean 4 proof (induction on spline degree / recurrence index / call history) + "
                  "translator + differential correspondence",
        ref="6 C14"),
    "C15": dict(
        text="Lean 4 theorems about the model of response handling: the response must be a single "
             "one-component term (C15_single_term, iff), y[level] is the 0/1 indicator of the level "
             "whatever else (C15_subset_value), a numeric response is returned unchanged, prop gives "
             "(successes, trials) with a constant broadcast, a categorical response is coded with the unit "
             "row of each observation's level (C15_full_rows, C15_categorical_value / _entry); in the "
             "whole-pipeline model the predictor parts are a function of the resolved right-hand side and "
             "the frame after the NA step in which the response does not occur (C15_predictors_function), "
             "two runs that differ in the response only have equal predictors (C15_independent*), no `~` "
             "character gives no response (C15_none_chars), an absent level gives the zero column "
             "(C15_subset_absent_level). Spec.C15.expected (computed from the "
             "response expression and the data alone) is compared by the driver with the matrix, levels and "
             "kind of real designs for ~50 response forms (incl. unusual level spellings, compact dtypes) "
             "x right-hand sides x frames; prop trials at prediction on shorter / equal / longer frames "
             "(Spec.C15.expectedTrials); predictor independence, refusal of non-single-term responses and "
             "response-less designs are also relations between real runs.",
        note="Trusted: Lean kernel; pandas dtype inference; the independence theorems are about the "
             "whole-pipeline model (hypotheses: equal resolved right-hand sides, agreement of the frames "
             "after the NA step on the columns read) and are decided for the implementation by the paired "
             "runs.",
        technique="Lean 4 proof + independent expected-response spec evaluated on real output + paired runs",
        ref="6 C15"),
    "C16": dict(
        text="Lean 4 theorems about the model of the helpers: binary(x, s) is accepted iff s occurs and is "
             "then 1 exactly where x = s, the default success is the smallest value (C16_binary_*), "
             "offset contributes its argument unchanged / broadcasts a constant, I is the identity, prop "
             "is accepted iff successes and trials are integers with successes <= trials "
             "(C16_prop_valid_iff); binary on string / categorical data (C16_binary_levels*), offset and "
             "prop recomputed from the new frame at prediction (C16_offset_*_predict, C16_prop_*_predict), "
             "aliases evaluate alike for every argument list and state (C16_alias_eval, "
             "C16_alias_T/S_partial with guard = complement of D25); the alias groups (B = binary, p = prop = proportion, standardize = "
             "scale) are read from the live registry by object identity and tied by `decide`. Spec.C16 is "
             "evaluated by the driver on columns of real designs at training time and on new frames "
             "(offset and prop trials recomputed from the new frame); alias pairs incl. T/S vs C are "
             "compared as paired real runs, also on new data, with two calls that differ in a keyword value, "
             "and with the helper names bound to unrelated objects in the calling scopes.",
        note="Trusted: Lean kernel; translator (live registry introspection); numpy broadcasting. The "
             "prediction-time clause for binary is defect D14 (binary is not stateful), recorded and "
             "classified under C06.",
        technique="Lean 4 proof + registry tie (decide) + pointwise spec evaluated on real columns + paired runs",
        ref="6 C16"),
    "C11": dict(
        text="Lean 4 model of VarLookupDict / Environment.capture / the namespace wiring of "
             "design_matrices and Call.set_type, with 31 theorems for any number of scopes and any "
             "call-stack depth (first match, nested-dict flattening, documented order for arguments and "
             "callees, env depth, undefined names raise, dotted names), the wiring facts extracted from "
             "the source by the translator and tied by `decide`; the finite configuration space (2^5 "
             "scope subsets x role x name form x depth) is enumerated exhaustively against the real code.",
        note="Trusted: Lean kernel; translator (ast patterns of environment.py / call.py / matrices.py); "
             "CPython frame contents (f_locals/f_globals) are taken as given by the model and decided by "
             "the exhaustive enumeration.",
        technique="Lean 4 proof (list induction over scope lists) + wiring translator + exhaustive "
                  "configuration enumeration",
        ref="6 C11"),
    "C17": dict(
        text="Lean 4 theorems about the model of the container bookkeeping of matrices.py for every list "
             "of terms and widths: slices start at zero, are contiguous, follow the term order and cover "
             "exactly the columns (also for the recomputed slices of a widened group matrix), "
             "__getitem__ by known / unknown name, column stacking keeps one row per observation and the "
             "summed width; for the model's own functions: one row per frame row for every expression "
             "(C17_trainComp/Term/Group_rows_partial), prediction keeps the training width or widens by "
             "exactly the effect width for a new group (C17_newTerm/newGroup_shape_partial), the whole "
             "design has one row per row of the frame after the NA step and slices contiguous from 0 "
             "covering every row's width (C17_design_rows/common/group_partial; hypothesis: namespace "
             "vectors as long as the frame, with a counterexample when it fails). Spec.C17.holds is evaluated by the driver on slices / shapes / labels observed "
             "from real objects, including chains of evaluate_new_data with unseen groups; view equalities "
             "and printed shapes are checked on the Python side; the evaluation model is compared with the "
             "implementation on designs over exactly modelled atoms.",
        note="Trusted: Lean kernel; numpy column_stack / slicing and pandas DataFrame construction are "
             "modelled by hstack / slices; designs with bs/poly/scale are checked through the "
             "specification only.",
        technique="Lean 4 proof (list induction) + correspondence of the evaluation model + spec "
                  "evaluated on observed containers",
        ref="6 C17"),
}

NOT_YET = "check not built yet (work in progress, see DESIGN.md section 9.3)"


def main():
    ids = [f"C{i:02d}" for i in range(1, 18)]
    checks = []
    for pid in ids:
        if pid not in CLAIMED:
            continue
        c = CLAIMED[pid]
        checks.append({
            "property_id": pid,
            "quick_cmd": f"./check {pid} quick",
            "thorough_cmd": f"./check {pid} thorough",
            "evidence_file": f"evidence/{pid}.json",
            "replay_cmd_template": f"./check {pid} --replay {{path}}",
            "engine": "lean4-model+correspondence",
            "level_claimed": {"category": c.get("category", "proof"), "text": c["text"],
                              "design_ref": "DESIGN.md section " + c["ref"]},
            "level_note": c["note"],
            "technique": c["technique"],
        })
    man = {
        "version": 1,
        "setup_cmd": "./setup.sh",
        "hooks": {
            "guard": "BAMBINOS_FORMULAE_VERIF",
            "enable": "no source hooks are needed: every observation goes through the public API and "
                      "object attributes; checks import formulae from /repo's working tree",
            "baseline_off_cmd": "cd /repo && /venv/bin/python -m pytest -ra -q -p no:cacheprovider "
                                "--timeout=900 --continue-on-collection-errors",
            "source_commits": [],
            "add_only": True,
        },
        "engines": [{"name": "lean4-model+correspondence", "path": "lean/ harness/ check",
                     "serves_properties": sorted(CLAIMED),
                     "kind_free_text": "Lean 4 model + theorems (lake project), table translator, "
                                       "JSON-lines driver, differential correspondence harness"}],
        "checks": checks,
        "notes": "Fix commits in /repo (one defect each, unguarded, baseline tests pass): 06a3c94 D1, "
                 "c92fc35 D2, 76249d2 D17, 8044325 D21, 85874ae D23, 90aa816 D10/D20, 021c147 D18, "
                 "032aa69 D9, e129cca D28, ae2fc0b D29, 53b5212 D32, 588c0c9 D34; open known findings in known_findings.json; "
                 "DESIGN.md section 10 describes what was built, 10.5 the 254 independently seeded "
                 "breaking changes under seeded/ and which checks report them.",
        "not_applicable": [{"property_id": p, "reason": NOT_YET} for p in ids if p not in CLAIMED],
    }
    with open(os.path.join(VERIF, "MANIFEST.json"), "w") as f:
        json.dump(man, f, indent=1)
        f.write("\n")


if __name__ == "__main__":
    main()
