"""Self-test (not a registered check): apply every seeded breaking change in /verif/seeded/<id>/ to
/repo, confirm its demonstration (fails with the change, passes without), run the property's
check (and optionally all checks), record the verdict in meta.json, and undo the change.

    python3 tools/run_seeded.py [--all-checks] [--tier quick|thorough] [id ...]
"""
import glob
import json
import os
import subprocess
import sys

VERIF = os.path.normpath(os.path.join(os.path.dirname(os.path.abspath(__file__)), ".."))
REPO = "/repo"


def sh(cmd, cwd=None, timeout=3600):
    p = subprocess.run(cmd, cwd=cwd, shell=True, stdout=subprocess.PIPE, stderr=subprocess.STDOUT,
                       text=True, timeout=timeout)
    return p.returncode, p.stdout


def main():
    args = [a for a in sys.argv[1:] if not a.startswith("--")]
    all_checks = "--all-checks" in sys.argv
    tier = "thorough" if "--tier=thorough" in sys.argv else "quick"
    ids = args or sorted(os.path.basename(d) for d in glob.glob(os.path.join(VERIF, "seeded", "*"))
                         if os.path.isdir(d))
    rc, out = sh("git status --porcelain", REPO)
    if out.strip():
        print("refusing: /repo has uncommitted changes\n" + out)
        return 2
    props = [f"C{i:02d}" for i in range(1, 18)]
    summary = []
    # evidence files must describe runs on the unchanged tree: keep them aside and put them back
    import shutil, tempfile
    keep = tempfile.mkdtemp(prefix="evidence_keep_", dir=VERIF)
    for f in glob.glob(os.path.join(VERIF, "evidence", "*.json")):
        shutil.copy(f, keep)
    for sid in ids:
        d = os.path.join(VERIF, "seeded", sid)
        meta_path = os.path.join(d, "meta.json")
        meta = json.load(open(meta_path))
        prop = meta["property"]
        demo = os.path.join(d, "demo.py")
        rc0, _ = sh(f"/venv/bin/python {demo}", REPO)
        rc, out = sh(f"git apply {os.path.join(d, 'patch.diff')}", REPO)
        if rc != 0:
            print(f"{sid}: patch does not apply: {out[-300:]}")
            meta["last_run"] = {"error": "patch does not apply"}
            json.dump(meta, open(meta_path, "w"), indent=1)
            continue
        try:
            rc1, demo_out = sh(f"/venv/bin/python {demo}", REPO)
            tests_rc, tests_out = sh("/venv/bin/python -m pytest -q -p no:cacheprovider "
                                     "--deselect tests/test_poly.py::test_basic "
                                     "--deselect tests/test_poly.py::test_degree", REPO)
            results = {}
            for p in (props if all_checks else [prop]):
                crc, cout = sh(f"./check {p} {tier}", VERIF)
                line = next((l for l in cout.splitlines() if l.startswith("VIOLATION")), "")
                replay = None
                if "replay=" in line:
                    rp = line.split("replay=")[1].split()[0]
                    try:
                        rj = json.load(open(os.path.join(VERIF, rp)))
                        replay = {"kind": rj.get("kind"), "case": rj.get("case"), "why": rj.get("why")}
                    except Exception:  # noqa
                        pass
                results[p] = {"exit": crc, "violation_line": line, "replay": replay}
        finally:
            sh("git checkout -- .", REPO)
        caught = results[prop]["exit"] == 1
        with_input = caught and "no-failing-input-found" not in results[prop]["violation_line"]
        meta["last_run"] = {
            "tier": tier, "demo_exit_without_change": rc0, "demo_exit_with_change": rc1,
            "tests_pass_with_change": tests_rc == 0, "tests_tail": tests_out.strip().splitlines()[-1:],
            "checks": results, "caught_by_own_property_check": caught,
            "caught_with_failing_input": with_input,
            "also_caught_by": [p for p, r in results.items() if p != prop and r["exit"] == 1]}
        json.dump(meta, open(meta_path, "w"), indent=1)
        summary.append((sid, prop, rc0, rc1, tests_rc == 0, caught, with_input,
                        meta["last_run"]["also_caught_by"]))
        print(f"{sid}: property={prop} demo {rc0}->{rc1} tests_green={tests_rc == 0} "
              f"caught={caught} failing_input={with_input} also={meta['last_run']['also_caught_by']}")
    for f in glob.glob(os.path.join(keep, "*.json")):
        shutil.copy(f, os.path.join(VERIF, "evidence"))
    shutil.rmtree(keep, ignore_errors=True)
    rc, out = sh("git status --porcelain", REPO)
    if out.strip():
        print("WARNING: /repo not clean after the run:\n" + out)
    return 0


if __name__ == "__main__":
    sys.exit(main())
