"""Prints the markdown table 'which checks catch which seeded changes' from seeded/*/meta.json
(verdicts recorded by tools/run_seeded.py under "last_run" or by tools/run_seeded_matrix.py under
"own_quick" / "matrix")."""
import glob, json, os
VERIF = os.path.normpath(os.path.join(os.path.dirname(os.path.abspath(__file__)), ".."))
rows = []
for m in sorted(glob.glob(os.path.join(VERIF, "seeded", "*", "meta.json"))):
    d = json.load(open(m))
    sid = os.path.basename(os.path.dirname(m))
    prop = d["property"]
    lr = d.get("last_run", {})
    chk = lr.get("checks", {}).get(prop, {})
    rep = chk.get("replay") or {}
    case = json.dumps(rep.get("case"))[:90] if rep else ""
    own = None
    for src in (d.get("own_quick"), d.get("matrix")):
        if isinstance(src, dict) and prop in src:
            own = src[prop]
    if own is not None:          # the most recent verdict, from a scratch worktree
        caught, with_input = own["exit"] == 1, own["exit"] == 1 and not own["no_input"]
    else:
        caught, with_input = lr.get("caught_by_own_property_check"), lr.get("caught_with_failing_input")
    also = lr.get("also_caught_by", [])
    if isinstance(d.get("matrix"), dict) and "error" not in d["matrix"]:
        also = [p for p, r in d["matrix"].items() if p != prop and r["exit"] == 1]
    green = lr.get("tests_pass_with_change", d.get("tests_green", True))
    rows.append(f"| {sid} | {prop} | {d.get('summary','')[:110]} | {d.get('needs','')[:90]} | "
                f"{'yes' if green else 'NO'} | "
                f"{'caught' if caught else 'MISSED'}"
                f"{' (failing input)' if with_input else ''} | {case} | "
                f"{', '.join(also)} |")
print("| id | property | change | needs | tests green | own check | replay case | also caught by |")
print("|---|---|---|---|---|---|---|---|")
print("\n".join(rows))
