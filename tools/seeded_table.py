"""Prints the markdown table 'which checks catch which seeded changes' from seeded/*/meta.json."""
import glob, json, os
VERIF = os.path.normpath(os.path.join(os.path.dirname(os.path.abspath(__file__)), ".."))
rows = []
for m in sorted(glob.glob(os.path.join(VERIF, "seeded", "*", "meta.json"))):
    d = json.load(open(m))
    sid = os.path.basename(os.path.dirname(m))
    lr = d.get("last_run", {})
    chk = lr.get("checks", {}).get(d["property"], {})
    rep = chk.get("replay") or {}
    case = json.dumps(rep.get("case"))[:90] if rep else ""
    rows.append(f"| {sid} | {d['property']} | {d.get('summary','')[:110]} | {d.get('needs','')[:90]} | "
                f"{'yes' if lr.get('tests_pass_with_change') else 'NO'} | "
                f"{'caught' if lr.get('caught_by_own_property_check') else 'MISSED'}"
                f"{' (failing input)' if lr.get('caught_with_failing_input') else ''} | {case} | "
                f"{', '.join(lr.get('also_caught_by', []))} |")
print("| id | property | change | needs | tests green | own check | replay case | also caught by |")
print("|---|---|---|---|---|---|---|---|")
print("\n".join(rows))
