"""confirm_seed.py <PROP> <X> [...]: confirm an independently written breaking change before it is
kept: in the author's scratch worktree /tmp/seed/<PROP> (never /repo) the demonstration must exit 0
without the change and 1 with it, and the pinned test-suite must stay green with it.  On success
the change is installed as /verif/seeded/<PROP>_<X>/ (patch.diff, demo.py, meta.json with what was
run); the worktree is left clean.

    python3 tools/confirm_seed.py C11 O C11 P
"""
import json
import os
import shutil
import subprocess
import sys

VERIF = os.path.normpath(os.path.join(os.path.dirname(os.path.abspath(__file__)), ".."))
SRC = "/tmp/seed"
TESTS = ("/venv/bin/python -m pytest -q -p no:cacheprovider -x "
         "--deselect tests/test_poly.py::test_basic --deselect tests/test_poly.py::test_degree")


def sh(cmd, cwd):
    p = subprocess.run(cmd, cwd=cwd, shell=True, stdout=subprocess.PIPE, stderr=subprocess.STDOUT,
                       text=True, timeout=1800)
    return p.returncode, p.stdout


def confirm(prop, x):
    wt = f"{SRC}/{prop}"
    diff, demo, meta = (f"{SRC}/{prop}_{x}.diff", f"{SRC}/{prop}_{x}_demo.py", f"{SRC}/{prop}_{x}.json")
    for f in (diff, demo, meta):
        if not os.path.exists(f):
            return f"missing {f}"
    sh("git checkout -- .", wt)
    rc0, _ = sh(f"/venv/bin/python {demo}", wt)
    rc, out = sh(f"git apply {diff}", wt)
    if rc != 0:
        return "patch does not apply: " + out[-200:]
    try:
        rc1, demo_out = sh(f"/venv/bin/python {demo}", wt)
        trc, tout = sh(TESTS, wt)
    finally:
        sh("git checkout -- .", wt)
    tail = tout.strip().splitlines()[-1] if tout.strip() else ""
    if rc0 != 0 or rc1 != 1 or trc != 0 or "135 passed" not in tail:
        return f"not confirmed: demo without={rc0} with={rc1} tests rc={trc} ({tail})"
    dst = os.path.join(VERIF, "seeded", f"{prop}_{x}")
    os.makedirs(dst, exist_ok=True)
    shutil.copy(diff, f"{dst}/patch.diff")
    shutil.copy(demo, f"{dst}/demo.py")
    m = json.load(open(meta))
    m["property"] = prop
    m["origin"] = ("written by an independent sub-agent given only the property text and a scratch "
                   "worktree of the library")
    m["confirmed"] = {"demo_exit_without_change": rc0, "demo_exit_with_change": rc1,
                      "tests_with_change": tail,
                      "ran": ["demo.py in a scratch worktree without / with patch.diff", TESTS]}
    json.dump(m, open(f"{dst}/meta.json", "w"), indent=1)
    return "confirmed and installed"


if __name__ == "__main__":
    a = sys.argv[1:]
    for prop, x in zip(a[0::2], a[1::2]):
        print(prop, x, confirm(prop, x), flush=True)
