"""Self-test (not a registered check): which checks catch which seeded changes.

Every seeded change is applied to a scratch worktree of /repo (never to /repo itself) and ALL
checks are run against that worktree from a scratch copy of /verif (own Lean build directory, own
evidence / replays), several workers in parallel.  The verdicts go to seeded/<id>/meta.json under
"matrix" ({property: exit code, violation line}); the scratch copies are removed at the end.

    python3 tools/run_seeded_matrix.py [--workers=4] [--scratch=/scratch/matrix] [--own] [id ...]
(--own: only the check of the change's own property; result under "own_quick")
"""
import glob
import json
import os
import shutil
import subprocess
import sys
from concurrent.futures import ThreadPoolExecutor

VERIF = os.path.normpath(os.path.join(os.path.dirname(os.path.abspath(__file__)), ".."))
REPO = "/repo"
PROPS = [f"C{i:02d}" for i in range(1, 18)]


def sh(cmd, cwd=None, env=None, timeout=7200):
    p = subprocess.run(cmd, cwd=cwd, shell=True, stdout=subprocess.PIPE, stderr=subprocess.STDOUT,
                       text=True, timeout=timeout, env=env)
    return p.returncode, p.stdout


OWN_ONLY = "--own" in sys.argv


def worker(wi, ids, scratch):
    wdir = os.path.join(scratch, f"w{wi}")
    repo = os.path.join(wdir, "repo")
    verif = os.path.join(wdir, "verif")
    os.makedirs(wdir, exist_ok=True)
    sh(f"git worktree add --detach {repo} HEAD", REPO)
    sh(f"rsync -a --exclude replays --exclude .git {VERIF}/ {verif}/")
    os.makedirs(os.path.join(verif, "replays"), exist_ok=True)
    env = dict(os.environ, VERIF_REPO=repo, VERIF_PROCS="3")
    out = {}
    try:
        for sid in ids:
            patch = os.path.join(VERIF, "seeded", sid, "patch.diff")
            rc, o = sh(f"git apply {patch}", repo)
            if rc != 0:
                out[sid] = {"error": "patch does not apply"}
                continue
            res = {}
            try:
                own = json.load(open(os.path.join(VERIF, "seeded", sid, "meta.json")))["property"]
                for p in ([own] if OWN_ONLY else PROPS):
                    crc, cout = sh(f"./check {p} quick", verif, env)
                    line = next((l for l in cout.splitlines() if l.startswith("VIOLATION")), "")
                    res[p] = {"exit": crc, "no_input": "no-failing-input-found" in line}
            finally:
                sh("git checkout -- .", repo)
            out[sid] = res
            caught = [p for p, r in res.items() if r["exit"] == 1]
            print(f"{sid}: caught by {caught}", flush=True)
    finally:
        sh(f"git worktree remove --force {repo}", REPO)
        shutil.rmtree(wdir, ignore_errors=True)
    return out


def main():
    args = [a for a in sys.argv[1:] if not a.startswith("--")]
    opts = dict(a[2:].split("=", 1) for a in sys.argv[1:] if a.startswith("--") and "=" in a)
    workers = int(opts.get("workers", 4))
    scratch = opts.get("scratch", "/scratch/matrix")
    ids = args or sorted(os.path.basename(d) for d in glob.glob(os.path.join(VERIF, "seeded", "*"))
                         if os.path.isdir(d))
    parts = [ids[i::workers] for i in range(workers)]
    with ThreadPoolExecutor(workers) as ex:
        results = list(ex.map(lambda t: worker(t[0], t[1], scratch), enumerate(parts)))
    sh("git worktree prune", REPO)
    shutil.rmtree(scratch, ignore_errors=True)
    for part in results:
        for sid, res in part.items():
            mp = os.path.join(VERIF, "seeded", sid, "meta.json")
            meta = json.load(open(mp))
            if OWN_ONLY:
                meta["own_quick"] = res
                json.dump(meta, open(mp, "w"), indent=1)
                continue
            meta["matrix"] = res
            if "error" not in res:
                own = meta["property"]
                meta.setdefault("last_run", {})["also_caught_by"] = [
                    p for p, r in res.items() if p != own and r["exit"] == 1]
            json.dump(meta, open(mp, "w"), indent=1)
    return 0


if __name__ == "__main__":
    sys.exit(main())
