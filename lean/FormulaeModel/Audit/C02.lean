import FormulaeModel.Properties.C02
open FormulaeModel
#print axioms C02.resolver_ops_tie
#print axioms C02.resolver_shape
