import FormulaeModel.Properties.C02
open FormulaeModel
#print axioms C02.resolver_ops_tie
#print axioms C02.resolver_shape
#print axioms C02.C02_plain_refines_partial
#print axioms C02.C02_plain_terms_nodup
#print axioms C02.C02_plain_refines_counterexample_D22
#print axioms C02.C02_plain_refines_counterexample_D24
#print axioms C02.C02_plain_refines_counterexample_D25
#print axioms C02.C02_plain_total_expGe2
#print axioms C02.C02_plain_total_partial
#print axioms C02.C02_plain_total_counterexample_D5
#print axioms C02.C02_nodup
#print axioms C02.C02_nodup_counterexample
#print axioms C02.C02_refines_partial
#print axioms C02.C02_refines_counterexample_D3
#print axioms C02.C02_refines_counterexample_D22
#print axioms C02.C02_refines_counterexample_D24
#print axioms C02.C02_refines_counterexample_D25
#print axioms C02.C02_refines_needs_scanner_shape
#print axioms C02.C02_scanner_shape_partial
#print axioms C02.C02_scanner_shape_counterexample
#print axioms C02.C02_refines_text_partial
