import FormulaeModel.Properties.C08
open FormulaeModel
#print axioms C08.C08_col_lookup_extra
#print axioms C08.find?_perm
#print axioms C08.C08_col_lookup_perm
#print axioms C08.sum_perm
#print axioms C08.C08_mean_perm
#print axioms C08.C08_center_perm
