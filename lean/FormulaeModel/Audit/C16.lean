import FormulaeModel.Properties.C16
open FormulaeModel
#print axioms C16.C16_binary_numeric
#print axioms C16.C16_binary_default
#print axioms C16.C16_offset_variable
#print axioms C16.C16_offset_constant
#print axioms C16.C16_I
#print axioms C16.C16_prop_valid_iff
#print axioms C16.aliases_shape
#print axioms C16.aliases_tie
