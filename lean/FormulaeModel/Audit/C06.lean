import FormulaeModel.Properties.C06
open FormulaeModel
#print axioms C06.selectRows_length
