import FormulaeModel.Properties.C06
open FormulaeModel
#print axioms C06.C06_lookup_rows
#print axioms C06.C06_evalArg_rows
#print axioms C06.C06_state_frozen
#print axioms C06.C06_state_frozen_seq
#print axioms C06.C06_levels_frozen
#print axioms C06.C06_rows_comp
#print axioms C06.C06_rows_term
#print axioms C06.C06_rows_group
#print axioms C06.C06_rows_common
#print axioms C06.C06_rows_groups
#print axioms C06.C06_rows
#print axioms C06.C06_tie_commonStack
#print axioms C06.C06_tie_groupStack
#print axioms C06.C06_counterexample_D13
#print axioms C06.C06_counterexample_D13_ordered
#print axioms C06.C06_counterexample_D14
#print axioms C06.C06_classD14_outside_guard
#print axioms C06.C06_guard_syntactic
#print axioms C06.C06_rows_comp_syntactic
