import FormulaeModel.Properties.C12
open FormulaeModel
#print axioms C12.tables_shape
#print axioms C12.tables_tie
#print axioms C12.table_binary_is_python
#print axioms C12.table_unary_is_python
#print axioms C12.C12_same_tree_partial
#print axioms C12.C12_parsed_tree_partial
#print axioms C12.C12_eval_partial
#print axioms C12.C12_value_partial
#print axioms C12.C12_counterexample_D15_sign
#print axioms C12.C12_counterexample_D15_pow
#print axioms C12.C12_counterexample_D15_chain
#print axioms C12.C12_same_tree_statement_false
#print axioms C12.C12_eval_statement_false
#print axioms C12.C12_brace
#print axioms C12.C12_name_parentheses
#print axioms C12.C12_name
#print axioms C12.C12_name_whitespace
#print axioms C12.C12_name_variants
#print axioms C12.C12_name_injective_partial
#print axioms C12.C12_counterexample_D16
#print axioms C12.C12_name_injective_statement_false
#print axioms C12.C12_counterexample_D21
#print axioms C12.C12_term_identity_statement_false
