import FormulaeModel.Properties.C15
open FormulaeModel
#print axioms C15.C15_single_term
#print axioms C15.C15_subset_value
#print axioms C15.C15_numeric_value
#print axioms C15.C15_prop_value
#print axioms C15.C15_prop_constant
#print axioms C15.C15_full_rows
#print axioms C15.C15_predictors_function
#print axioms C15.C15_independent
#print axioms C15.C15_independent_tilde
#print axioms C15.C15_independent_same_data
#print axioms C15.C15_response_only_from_tilde
#print axioms C15.C15_none
#print axioms C15.C15_none_chars
#print axioms C15.C15_tilde_has_response
#print axioms C15.C15_response_coded_full
#print axioms C15.C15_categorical_value
#print axioms C15.C15_categorical_entry
#print axioms C15.C15_subset_value_general
#print axioms C15.C15_subset_absent_level
