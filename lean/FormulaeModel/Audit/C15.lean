import FormulaeModel.Properties.C15
open FormulaeModel
#print axioms C15.C15_single_term
#print axioms C15.C15_subset_value
#print axioms C15.C15_numeric_value
#print axioms C15.C15_prop_value
#print axioms C15.C15_prop_constant
#print axioms C15.C15_full_rows
