import FormulaeModel.Properties.C05
open FormulaeModel
#print axioms C05.C05_block_row
#print axioms C05.C05_block_row_values
#print axioms C05.C05_block_width
#print axioms C05.C05_khatriRao_rows
#print axioms C05.C05_cell_order
