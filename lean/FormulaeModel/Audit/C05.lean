import FormulaeModel.Properties.C05
open FormulaeModel
#print axioms C05.C05_block_row
#print axioms C05.C05_block_row_values
#print axioms C05.C05_block_width
#print axioms C05.C05_khatriRao_rows
#print axioms C05.C05_cell_order
#print axioms C05.C05_plain_factor_indicatorCoded
#print axioms C05.C05_treatment_factor_indicatorCoded
#print axioms C05.C05_factor_indicator
#print axioms C05.C05_factor_levels
#print axioms C05.C05_trainGroup_block
#print axioms C05.C05_trainGroup_entries
#print axioms C05.C05_trainGroup_intercept
#print axioms C05.C05_trainGroup_labels
#print axioms C05.C05_trainGroup_nrows
#print axioms C05.C05_trainGroup_single
#print axioms C05.C05_factor_sum_counterexample
#print axioms C05.C05_single_component
#print axioms C05.C05_group_name_at_cell
#print axioms C05.C05_trainGroup_width
