import FormulaeModel.Properties.C01
open FormulaeModel
#print axioms Tie.parser_shape
#print axioms Tie.parser_table
#print axioms Tie.parser_table_wf
#print axioms C01.C01_yield
#print axioms C01.C01_yield_generated
#print axioms C01.C01_yield_needs_eof_check
#print axioms C01.C01_stratified
#print axioms C01.C01_stratified_documented
#print axioms C01.C01_model_is_reference
