import FormulaeModel.Properties.C04
open FormulaeModel
#print axioms C04.C04_product_order
#print axioms C04.C04_product_count
#print axioms C04.C04_interaction_rows
#print axioms C04.C04_group_label
#print axioms C04.C04_indicator_full
#print axioms C04.C04_labels_full
#print axioms C04.C04_indicator_reduced
#print axioms Bridge.design_treatmentReduced
#print axioms Bridge.design_treatment_basis
#print axioms C04.C04_trainComp_labels_partial
#print axioms C04.C04_trainTerm_labels_partial
#print axioms C04.C04_trainGroup_labels_partial
#print axioms C04.C04_design_labels_partial
