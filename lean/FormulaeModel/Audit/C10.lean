import FormulaeModel.Properties.C10
open FormulaeModel
#print axioms C10.C10_error_iff
#print axioms C10.C10_zero_rows
#print axioms C10.C10_unseen_row_zero
#print axioms C10.C10_interaction_zero_left
#print axioms C10.C10_interaction_zero_right
#print axioms C10.C10_new_group_block
#print axioms C10.C10_appended_column
#print axioms C10.C10_config_accepts
#print axioms C10.C10_config_default
#print axioms C10.C10_config_last_wins
#print axioms C10.config_tie
#print axioms C10.config_shape
#print axioms C10.factorState_of_trainGroup
#print axioms C10.C10_newGroup_error
#print axioms C10.C10_newGroup_block
#print axioms C10.C10_newGroup_unseen_entries
#print axioms C10.C10_newGroup_single
