import FormulaeModel.Properties.C09
open FormulaeModel
#print axioms C09.argVars_eq
#print axioms C09.argsVars_eq
#print axioms C09.atomVars_eq
#print axioms C09.C09_empty_refused
#print axioms C09.C09_action_refused
#print axioms C09.C09_error_iff
#print axioms C09.C09_drop
#print axioms C09.C09_pass
#print axioms C09.C09_unused_ignored
#print axioms C09.C09_row_alignment
#print axioms C09.selectCols_keepRows
#print axioms C09.incompleteRows_after_drop
#print axioms C09.C09_drop_eq_filtered
#print axioms C09.actions_tie
#print axioms C09.C09_pipeline_readings_agree
