import FormulaeModel.Properties.C07
open FormulaeModel
#print axioms C07.tie_shape
#print axioms C07.tie_config
#print axioms C07.tie_config_sites
#print axioms C07.tie_prediction_writes
#print axioms C07.tie_lazycall
#print axioms C07.tie_transforms
#print axioms C07.C07_eval_pure
#print axioms C07.C07_eval_pure_trained
#print axioms C07.C07_eval_pure_counterexample
#print axioms C07.C07_newComp_pure
#print axioms C07.C07_newTerm_pure
#print axioms C07.C07_newGroup_pure
#print axioms C07.C07_newComp_out
#print axioms C07.C07_newTerm_out
#print axioms C07.C07_newGroup_out
#print axioms C07.C07_build_wf
#print axioms C07.C07_reachable_wf
#print axioms C07.C07_eval_common_pure
#print axioms C07.C07_eval_group_pure
#print axioms C07.C07_eval_pure_reachable
#print axioms C07.C07_build_fresh
#print axioms C07.C07_config_frame
#print axioms C07.C07_history_independence
#print axioms C07.C07_repeatable
#print axioms C07.C07_history_spec
