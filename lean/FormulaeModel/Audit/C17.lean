import FormulaeModel.Properties.C17
open FormulaeModel
#print axioms C17.C17_slices_from
#print axioms C17.C17_slices
#print axioms C17.C17_slice_widths
#print axioms C17.C17_getitem_known
#print axioms C17.C17_getitem_unknown
#print axioms C17.C17_hstack_rows
#print axioms C17.C17_hstack_widths
#print axioms C17.C17_stack_slices
#print axioms C17.C17_stack_rows
#print axioms C17.C17_trainComp_rows_partial
#print axioms C17.C17_trainTerm_rows_partial
#print axioms C17.C17_trainGroup_rows_partial
#print axioms C17.C17_newTerm_shape_partial
#print axioms C17.C17_newGroup_shape_partial
#print axioms C17.C17_design_rows_partial
#print axioms C17.C17_design_common_partial
#print axioms C17.C17_design_group_partial
#print axioms C17.C17_design_new_blocks_partial
#print axioms C17.C17_trainComp_rows_counterexample
#print axioms C17.C17_design_rows_counterexample
#print axioms C17.C17_trainTerm_rows_counterexample_empty
