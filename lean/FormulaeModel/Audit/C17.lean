import FormulaeModel.Properties.C17
open FormulaeModel
#print axioms C17.C17_slices_from
#print axioms C17.C17_slices
#print axioms C17.C17_slice_widths
#print axioms C17.C17_getitem_known
#print axioms C17.C17_getitem_unknown
#print axioms C17.C17_hstack_rows
#print axioms C17.C17_hstack_widths
#print axioms C17.C17_stack_slices
#print axioms C17.C17_stack_rows
