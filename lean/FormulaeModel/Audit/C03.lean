import FormulaeModel.Properties.C03
open FormulaeModel
#print axioms C03.C03_pick_contrasts_partition
#print axioms C03.C03_absorb_no_assert
#print axioms C03.partition_of_Partition
#print axioms C03.C03_counterexample_D6
#print axioms C03.C03_counterexample_D7
#print axioms C03.C03_counterexample_D8
#print axioms C03.C03_counterexample_D9
#print axioms C03.C03_counterexample_D21
#print axioms C03.C03_pipeline_false
#print axioms C03.C03_columns_count
#print axioms C03.C03_pick_contrasts_columns
#print axioms C03.C03_widths_one
#print axioms C03.C03_hierarchical
#print axioms C03.C03_pipeline_partial
#print axioms C03.C03_pipeline_partial_holds
#print axioms C03.C03_hierarchical_categorical
