import FormulaeModel.Spec.C15
/-
C16 — reading of the statement: pointwise meaning of the helper functions, computed from the
arguments' values alone, and the documented alias groups.
-/
namespace FormulaeModel.Spec.C16
open FormulaeModel FormulaeModel.Design FormulaeModel.Spec.C04

/-- names that must denote one and the same object in the formula namespace -/
def documentedAliases : List (List String) :=
  [["B", "binary"], ["p", "prop", "proportion"], ["scale", "standardize"]]

/-- `binary(x, s)`: 1 exactly where x equals s; s = the smallest value if omitted -/
def binaryExpected (xs : List (Option Level)) (s : Option Level) : Option (List Entry) :=
  let s' := match s with
    | some l => some l
    | none => (sortLevels (xs.filterMap id)).bind List.head?
  match s' with
  | none => none
  | some l =>
    if xs.contains (some l) then some (xs.map (fun x => some (if x == some l then (1 : Rat) else 0)))
    else none      -- refused: the success value never occurs

def colEq (a b : List Entry) : Bool := a.length == b.length && (List.zipWith closeE a b).all id

/-- `prop` validation: integer successes, integer trials, successes ≤ trials -/
def propValid (ss ts : List Entry) : Bool :=
  ss.all (fun x => match x with | some q => q.den == 1 | none => false) &&
  ts.all (fun x => match x with | some q => q.den == 1 | none => false) &&
  (List.zipWith (fun a b => match a, b with | some x, some y => decide (x ≤ y) | _, _ => false) ss ts).all id

end FormulaeModel.Spec.C16
