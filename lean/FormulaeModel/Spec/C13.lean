import FormulaeModel.Model.Coding
/-
C13 — reading of the statement (executable predicates; no Mathlib).

"For every number of levels and every choice of reference or omitted level, treatment and sum
codings give a reduced matrix with one column fewer than levels that has full rank together with
the constant, and a full matrix spanning all level indicators; treatment columns are level
indicators with the reference row zero, sum columns add up to zero over the levels with the omitted
level coded -1, and labels name the levels of the columns. C, T and S honour their contrast,
reference and levels arguments (levels fix the order, the first level is the default reference),
and replacing one coding of a factor by another never changes the column space of the design
matrix."

Conventions. A matrix is a list of rows (`IMatrix`), one row per level, in level order. Every
predicate below that reads entries through `ent` also demands the shape through `isShape`, so the
default value of `ent` outside the matrix never decides anything (`ent_eq_entry` in
Proofs/Coding.lean).  Finite sums are `sumTo n f = f 0 + … + f (n-1)`.

* shape / rows:     `treatmentReduced`, `treatmentFull`, `sumReduced`, `sumFull`
* full rank with the constant: `[1 | M]` has an explicit two-sided inverse: `treatmentBasis`
  (inverse `treatInv`, integer entries: rows `e_ref` and `e_l - e_ref`) and `sumBasis`
  (inverse `(1/n) · sumInvNum`: rows `(1/n) 1ᵀ` and `e_l - (1/n) 1ᵀ`); stated over `Int` as
  `A·B = n·I` and over `Rat` in Properties/C13.lean
* full matrices span all indicators: `treatmentFull` (the identity) and `sumFull` (`[1 | S]`,
  to which `sumBasis` applies)
* labels name the levels of the columns: `indicatorOfLabel`, `plusOneAtLabel`
* levels / reference / contrast arguments honoured: `meaning` (what a spelling asks for),
  `designHolds` (what an evaluated factor must look like), `expectation`
* interchange: what is *proved* is that every admissible reduced coding together with the constant
  is a basis of the space of functions of the level (`treatmentBasis`, `sumBasis`), and every full
  coding spans it; that equal factor spaces give equal column spaces of the whole design is the
  tensor-product argument of DESIGN.md (C03 bridge), trusted mathematics, and is *tested* in
  harness/c13.py by exact rational column-space comparison.
-/
namespace FormulaeModel.Spec.C13
open FormulaeModel.Coding

/-! ### matrices -/

/-- entry `(i, j)`; to be used together with `isShape` -/
def ent (M : IMatrix) (i j : Nat) : Int := (M.getD i []).getD j 0

/-- entry `(i, j)` when it exists -/
def entry? (M : IMatrix) (i j : Nat) : Option Int := (M[i]?).bind (·[j]?)

/-- `r` rows, each of length `c` -/
def isShape (M : IMatrix) (r c : Nat) : Bool := M.length == r && M.all (·.length == c)

/-- `p 0 ∧ … ∧ p (n-1)` -/
def allLt (n : Nat) (p : Nat → Bool) : Bool := (List.range n).all p

/-- `f 0 + … + f (n-1)` -/
def sumTo : Nat → (Nat → Int) → Int
  | 0, _ => 0
  | n + 1, f => sumTo n f + f n

/-- the same over the rationals -/
def sumToQ : Nat → (Nat → Rat) → Rat
  | 0, _ => 0
  | n + 1, f => sumToQ n f + f n

def rowIsConst (M : IMatrix) (i c : Nat) (v : Int) : Bool := allLt c fun j => ent M i j == v

/-- row `i` (of length `c`) is the unit vector `e_k` -/
def rowIsUnit (M : IMatrix) (i c k : Nat) : Bool :=
  allLt c fun j => ent M i j == if j = k then 1 else 0

/-- sum of column `j` over the `n` rows (levels) -/
def colSum (M : IMatrix) (n j : Nat) : Int := sumTo n fun i => ent M i j

/-- `[1 | M]` -/
def withConst (M : IMatrix) : IMatrix := M.map fun row => 1 :: row

/-- `M` without its first column -/
def dropFirstColumn (M : IMatrix) : IMatrix := M.map fun row => row.drop 1

/-- position, among all levels, of the `j`-th level other than level `r` -/
def skip (r j : Nat) : Nat := if j < r then j else j + 1

/-! ### the codings -/

/-- Reduced treatment coding of `levels` with reference index `r`: `n` rows, `n - 1` columns, the
reference row is zero, the other rows are the unit vectors in level order, the labels are the
levels without the reference (as many as columns). -/
def treatmentReduced (levels : List String) (r : Nat) (M : IMatrix) (labels : List String) : Bool :=
  let n := levels.length
  isShape M n (n - 1) && rowIsConst M r (n - 1) 0
  && allLt n (fun i => i == r || rowIsUnit M i (n - 1) (if i < r then i else i - 1))
  && labels == levels.eraseIdx r && labels.length == n - 1

/-- the identity matrix of size `n` -/
def isIdentity (M : IMatrix) (n : Nat) : Bool := isShape M n n && allLt n fun i => rowIsUnit M i n i

/-- Full treatment coding: the level indicators themselves. -/
def treatmentFull (levels : List String) (M : IMatrix) (labels : List String) : Bool :=
  isIdentity M levels.length && labels == levels

/-- Reduced sum coding with omitted index `o`: `n × (n-1)`, every column sums to zero over the
levels, the omitted row is all `-1`, the other rows are the unit vectors in level order, labels are
the levels without the omitted one. -/
def sumReduced (levels : List String) (o : Nat) (M : IMatrix) (labels : List String) : Bool :=
  let n := levels.length
  isShape M n (n - 1) && rowIsConst M o (n - 1) (-1)
  && allLt n (fun i => i == o || rowIsUnit M i (n - 1) (if i < o then i else i - 1))
  && allLt (n - 1) (fun j => colSum M n j == 0)
  && labels == levels.eraseIdx o && labels.length == n - 1

/-- Full sum coding: the constant (labelled `mean`) followed by the reduced coding. -/
def sumFull (levels : List String) (o : Nat) (M : IMatrix) (labels : List String) : Bool :=
  let n := levels.length
  isShape M n n && allLt n (fun i => ent M i 0 == 1) && labels.head? == some "mean"
  && sumReduced levels o (dropFirstColumn M) (labels.drop 1)

/-! ### full rank together with the constant: explicit inverses -/

/-- entry `(i, k)` of `A · B`, inner dimension `p` -/
def mulEnt (A B : IMatrix) (p i k : Nat) : Int := sumTo p fun m => ent A i m * ent B m k

/-- `A · B = c · I_n` (inner dimension `n`) -/
def mulIsScalar (A B : IMatrix) (n : Nat) (c : Int) : Bool :=
  allLt n fun i => allLt n fun k => mulEnt A B n i k == if i = k then c else 0

/-- Inverse of `[1 | T]`: coefficient of the constant = value at the reference level, coefficient
of the column of level `l` = value at `l` minus value at the reference. -/
def treatInv (n r : Nat) : IMatrix :=
  (List.range n).map fun a => (List.range n).map fun k =>
    if a = 0 then (if k = r then 1 else 0)
    else (if k = skip r (a - 1) then 1 else 0) - (if k = r then 1 else 0)

/-- `n` times the inverse of `[1 | S]`: coefficient of the constant = mean over the levels,
coefficient of the column of level `l` = value at `l` minus the mean. -/
def sumInvNum (n o : Nat) : IMatrix :=
  (List.range n).map fun a => (List.range n).map fun k =>
    if a = 0 then 1 else (if k = skip o (a - 1) then (n : Int) else 0) - 1

/-- `[1 | T]` is square and `treatInv` is its two-sided inverse (over the integers). -/
def treatmentBasis (n r : Nat) (T : IMatrix) : Bool :=
  isShape (withConst T) n n && isShape (treatInv n r) n n
  && mulIsScalar (treatInv n r) (withConst T) n 1 && mulIsScalar (withConst T) (treatInv n r) n 1

/-- `[1 | S]` is square and `(1/n) · sumInvNum` is its two-sided inverse. -/
def sumBasis (n o : Nat) (S : IMatrix) : Bool :=
  decide (0 < n) && isShape (withConst S) n n && isShape (sumInvNum n o) n n
  && mulIsScalar (sumInvNum n o) (withConst S) n n && mulIsScalar (withConst S) (sumInvNum n o) n n

/-- The full sum matrix spans every level indicator: `M · sumInvNum = n · I`. -/
def spansIndicators (n o : Nat) (M : IMatrix) : Bool :=
  decide (0 < n) && isShape M n n && mulIsScalar M (sumInvNum n o) n n

/-! ### labels -/

/-- column `j` is the indicator of the level named by label `j` (treatment codings) -/
def indicatorOfLabel (levels labels : List String) (M : IMatrix) : Bool :=
  allLt labels.length fun j => allLt levels.length fun i =>
    ent M i j == if levels[i]? == labels[j]? then 1 else 0

/-- from column `c0` on, column `j` is `+1` exactly at the level named by label `j` (sum codings;
`c0 = 1` skips the constant of the full matrix) -/
def plusOneAtLabel (levels labels : List String) (M : IMatrix) (c0 : Nat) : Bool :=
  allLt labels.length fun j => decide (j < c0) || allLt levels.length fun i =>
    (ent M i j == 1) == (levels[i]? == labels[j]?)

/-! ### options: reference / omit / levels / contrast -/

/-- Index of the reference: the named level, by default the first level. -/
def referenceIndex? (reference : Option String) (levels : List String) : Option Nat :=
  match reference with
  | none => if levels.isEmpty then none else some 0
  | some x => if levels.contains x then some (levels.idxOf x) else none

/-- Index of the omitted level: the named level, by default the last level. -/
def omitIndex? (omitted : Option String) (levels : List String) : Option Nat :=
  match omitted with
  | none => if levels.isEmpty then none else some (levels.length - 1)
  | some x => if levels.contains x then some (levels.idxOf x) else none

/-- A coding honours its option on `levels`: the matrix and labels are the ones described above
for the resolved index.  `none` when the option names no level (nothing can honour it). -/
def codingHolds (c : Contrast) (spansIntercept : Bool) (levels : List String) (M : IMatrix)
    (labels : List String) : Option Bool :=
  match c with
  | .treatment reference =>
    if spansIntercept then some (treatmentFull levels M labels && indicatorOfLabel levels labels M)
    else (referenceIndex? reference levels).map fun r =>
      treatmentReduced levels r M labels && treatmentBasis levels.length r M
      && indicatorOfLabel levels labels M
  | .sum omitted =>
    (omitIndex? omitted levels).map fun o =>
      if spansIntercept then
        sumFull levels o M labels && spansIndicators levels.length o M
        && plusOneAtLabel levels labels M 1
      else
        sumReduced levels o M labels && sumBasis levels.length o M
        && plusOneAtLabel levels labels M 0

/-- the levels are strictly increasing (Python's `sorted` of distinct strings) -/
def strictlySorted : List String → Bool
  | a :: b :: rest => decide (a < b) && strictlySorted (b :: rest)
  | _ => true

/-- What a spelling of a factor asks for: the contrast and the explicit levels.
`g`, `C(g)` ask for the default (treatment, first level as reference); a class is the instance with
default arguments; `T(x, r)` is `C(x, Treatment(r))`, `S(x, o)` is `C(x, Sum(o))`; an outer call
keeps what the inner `C(...)` fixed unless it says otherwise. -/
def meaning : Spelling → Contrast × Option (List String)
  | .plain => (.treatment none, none)
  | .c contrast levels => (argContrast contrast (.treatment none), levels)
  | .t ref levels => (.treatment ref, levels)
  | .s omitted levels => (.sum omitted, levels)
  | .cc c1 l1 c2 l2 => (argContrast c2 (argContrast c1 (.treatment none)), l2.orElse fun _ => l1)
  | .tc _ l1 ref => (.treatment ref, l1)
  | .sc _ l1 omitted => (.sum omitted, l1)
where
  argContrast (a : ContrastArg) (dflt : Contrast) : Contrast :=
    match a with
    | .none => dflt
    | .cls .Treatment => .treatment none
    | .cls .Sum => .sum none
    | .inst c => c

/-- The level order a spelling fixes for a column: the explicit `levels`, else the categories of
an ordered categorical column, else the distinct observed values in increasing order. -/
def levelsOK (d : Data) (explicit : Option (List String)) (levels : List String) : Bool :=
  match explicit, d.orderedCategories with
  | some lv, _ => levels == lv
  | none, some cats => levels == cats
  | none, none => strictlySorted levels && sameSet levels d.values

/-- every list of levels written in the spelling -/
def explicitLevels : Spelling → List (List String)
  | .plain => []
  | .c _ l | .t _ l | .s _ l => l.toList
  | .cc _ l1 _ l2 => l1.toList ++ l2.toList
  | .tc _ l1 _ | .sc _ l1 _ => l1.toList

/-- the `levels=` of the innermost call of the spelling -/
def innerLevels : Spelling → Option (List String)
  | .plain => none
  | .c _ l | .t _ l | .s _ l => l
  | .cc _ l1 _ _ | .tc _ l1 _ | .sc _ l1 _ => l1

/-- `lv` is an arrangement (permutation) of the levels that occur in the data -/
def arrangement (d : Data) (lv : List String) : Bool := decide lv.Nodup && sameSet lv d.values

/-- Scope of the statement: every explicit `levels=` is an arrangement of the levels that occur
in the data; when the (innermost) call has no explicit levels, the categories of an ordered
categorical column are such an arrangement (for a plain variable they may contain unobserved
categories). Outside this scope
(a listed level that does not occur in the rows: defect D13, which belongs to C06) C13 says
nothing. -/
def inScope (d : Data) (sp : Spelling) : Bool :=
  (explicitLevels sp).all (arrangement d) &&
  match d.orderedCategories with
  | none => true
  | some cats =>
    if sp == .plain then decide cats.Nodup && d.values.all (cats.contains ·)
    else (innerLevels sp).isSome || arrangement d cats

/-- every row of `value` is the row of the contrast matrix that belongs to the observation's level -/
def rowsFollowLevels (levels data : List String) (M value : IMatrix) : Bool :=
  value.length == data.length && allLt data.length fun t =>
    match data[t]? with
    | some v => levels.contains v && value[t]? == M[levels.idxOf v]?
    | none => false

/-- An evaluated factor is what its spelling asks for. `none`: the spelling names a reference /
omitted level that is not a level, so it must be refused. -/
def designHolds (d : Data) (sp : Spelling) (ev : Evaluated) : Option Bool :=
  let (contrast, explicit) := meaning sp
  (codingHolds contrast ev.spansIntercept ev.levels ev.contrast.matrix ev.contrast.labels).map
    fun ok => ok && levelsOK d explicit ev.levels
      && rowsFollowLevels ev.levels d.values ev.contrast.matrix ev.value

/-- Does the named reference / omitted level occur among `vals`? (The full treatment coding has
no reference; an empty column has no level to refer to.) -/
def contrastResolvable (c : Contrast) (spansIntercept : Bool) (vals : List String) : Bool :=
  match c with
  | .treatment reference => spansIntercept || (referenceIndex? reference vals).isSome
  | .sum omitted => (omitIndex? omitted vals).isSome

/-- Does the option of the spelling name a level that occurs in the data? (Within `inScope` the
levels are the values that occur.) -/
def optionResolvable (d : Data) (sp : Spelling) (spansIntercept : Bool) : Bool :=
  contrastResolvable (meaning sp).1 spansIntercept d.values

/-- Verdict on an observed outcome (`some ev` = evaluated, `none` = an exception was raised):
an evaluated factor must be what the spelling asks for; a spelling whose option names an
occurring level (or none) must not be refused. -/
def outcomeHolds (d : Data) (sp : Spelling) (spansIntercept : Bool) (out : Option Evaluated) :
    Bool :=
  match out with
  | some ev => ev.spansIntercept == spansIntercept && (designHolds d sp ev).getD false
  | none => !optionResolvable d sp spansIntercept

/-- Class of the known finding KF-C13-D21: `T` / `S` applied to the result of an inner `C(...)`
(the documented shorthand for `C(x, Treatment(ref))` / `C(x, Sum(omit))` is refused there). -/
def aliasOnBox : Spelling → Bool
  | .tc .. | .sc .. => true
  | _ => false

/-! ### tables -/

/-- The documented registry of encodings. -/
def documentedEncodings : List String := ["Treatment", "Sum"]

/-- The documented signatures: parameter names with their defaults (`"<required>"` = no default). -/
def documentedSignatures : List (String × List (String × String)) :=
  [("Treatment", [("reference", "None")]),
   ("Sum", [("omit", "None")]),
   ("C", [("data", "<required>"), ("contrast", "None"), ("levels", "None")]),
   ("T", [("data", "<required>"), ("ref", "None"), ("levels", "None")]),
   ("S", [("data", "<required>"), ("omit", "None"), ("levels", "None")])]

/-- `C`, `T`, `S` of the formula namespace are the functions of `transforms.py`; `Treatment`, `Sum`
the classes of `categorical.py`. -/
def documentedRegistry : List (String × String) :=
  [("C", "formulae.transforms.C"), ("S", "formulae.transforms.S"), ("T", "formulae.transforms.T"),
   ("Sum", "formulae.categorical.Sum"), ("Treatment", "formulae.categorical.Treatment")]

/-- "the first level is the default reference": index written in `Treatment.code_without_intercept` -/
def documentedDefaultReference : Option Nat := some 0

/-- "by default, omit the last level": expression returned by `Sum._omit_index` -/
def documentedDefaultOmit : String := "len(levels) - 1"

end FormulaeModel.Spec.C13
