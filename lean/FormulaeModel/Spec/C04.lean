import FormulaeModel.Model.Matrices
/-
C04 — reading of the statement as a *label decoder*: what a column must hold is computed from
its label alone (plus the data), independently of how the design was assembled.

  "a column labelled with a numeric variable holds that variable's values, a column labelled v[l]
   for a treatment-coded categorical v is 1 exactly on the rows where v equals level l, a label
   joining several such pieces with ':' denotes their element-wise product, and a group-specific
   label e|g[l] denotes the column e on the rows of group l and 0 elsewhere.  Labels and columns
   are in the same order and equal in number, and levels of unordered data are sorted while
   declared orders are respected."

Pieces the statement does not speak about (sum-coded factors, the i-th column of a spline /
polynomial basis, `prop`) decode to `none` and the column is not judged.
-/
namespace FormulaeModel.Spec.C04
open FormulaeModel FormulaeModel.Design

/-- split at a separator character that is outside brackets, quotes and backquotes -/
def splitTop (sep : Char) (s : String) : List String :=
  let step := fun (st : List String × List Char × Nat × Option Char) (c : Char) =>
    let (done, cur, depth, q) := st
    match q with
    | some qc => (done, c :: cur, depth, if c == qc then none else some qc)
    | none =>
      if c == '\'' || c == '"' || c == '`' then (done, c :: cur, depth, some c)
      else if c == '(' || c == '[' || c == '{' then (done, c :: cur, depth + 1, none)
      else if c == ')' || c == ']' || c == '}' then (done, c :: cur, depth - 1, none)
      else if c == sep && depth == 0 then (String.ofList cur.reverse :: done, [], depth, none)
      else (done, c :: cur, depth, none)
  let (done, cur, _, _) := s.toList.foldl step ([], [], 0, none)
  (String.ofList cur.reverse :: done).reverse

/-- `name[level]` → (name, some level); a piece without a trailing bracket group → (piece, none).
The bracket group is the last one, matched from the end (levels never contain brackets in the
generated data). -/
def stripLevel (piece : String) : String × Option String :=
  let cs := piece.toList
  match cs.reverse with
  | ']' :: rest =>
    let lvl := rest.takeWhile (· != '[')
    let before := (rest.dropWhile (· != '[')).drop 1
    if before.isEmpty then (piece, none)
    else (String.ofList before.reverse, some (String.ofList lvl.reverse))
  | _ => (piece, none)

def indicator (xs : List (Option Level)) (l : String) : List Entry :=
  xs.map (fun x => match x with
    | some v => some (if v.label == l then 1 else 0)
    | none => none)

/-- what one piece of a label denotes on the rows of `env`; `none`: the statement does not define
it.  `tenv` = the frame the design was built from when `env` is a *new* frame handed to
`evaluate_new_data` ("every design" includes those matrices; they carry the training labels): a
call atom is then read as the same call with the state its transforms remembered at training time
(`center(x)` = `x` minus the training mean), everything else is read on `env` alone.  With
`tenv = none` the column is read on `env` alone (a training design). -/
def pieceColumnAt (tenv : Option Env) (env : Env) (table : List (String × Expr)) (piece : String) :
    M (Option (List Entry)) := do
  let n := env.frame.nrows
  if piece == "Intercept" || piece == "1" then pure (some (List.replicate n (some 1))) else
  let (name, level) := stripLevel piece
  -- a piece whose whole text is an atom (e.g. a backquoted name with brackets) wins
  let (name, level) := if (table.find? (·.1 == piece)).isSome then (piece, none) else (name, level)
  match table.find? (·.1 == name) with
  | none => pure none
  | some (_, e) =>
    let r : M Val := match e with
      | .call .. | .brace .. =>
        -- a call of a caller-supplied function (not C / T / S / a built-in transform, which the
        -- model evaluates itself): the harness hands the function's result on the rows of `env`
        -- as an extra frame column named like the atom; the levels `fn(v)[l]` enumerates are the
        -- values of that result
        if (env.frame.col? name).isSome then lookupName env name else
        match tenv with
        | Option.none => do
          let (v, _) ← posOnly (evalArg env e Option.none)
          pure v
        | some te => do
          let (_, ts) ← posOnly (evalArg te e Option.none)
          let (v, _) ← posOnly (evalArg env e (some ts))
          pure v
      | .subset x _ _ _ => lookupName env x.lexeme
      | .quoted t => lookupName env (String.ofList ((t.lexeme.toList.drop 1).dropLast))
      | .variable x => lookupName env x.lexeme
      | _ => .error (.unmodelled "atom")
    match r with
    | .error (.unmodelled _) => pure none          -- outside the exact model: not judged
    | .error er => .error er
    | .ok v =>
    match v, level with
    | .vec xs _, none => pure (some xs)
    | .vec xs _, some l => do pure (some (indicator (← numericLevels xs) l))
    | .lvec xs _, some l => pure (some (indicator xs l))
    | .box b, some l =>
      match b.contrast with
      | some (.sum _) => pure none
      | _ => pure (some (indicator b.data l))
    | .offsetVar xs, none => pure (some xs)
    | .offsetConst q, none => pure (some (List.replicate n (some q)))
    | _, _ => pure none

def pieceColumn (env : Env) (table : List (String × Expr)) (piece : String) : M (Option (List Entry)) :=
  pieceColumnAt Option.none env table piece

def mulCols (a b : List Entry) : List Entry := List.zipWith Entry.mul a b

/-- the column a label denotes: product of its pieces (`:` inside the effect and the group part,
`|` between them) -/
def decodeLabelAt (tenv : Option Env) (env : Env) (table : List (String × Expr)) (label : String) :
    M (Option (List Entry)) := do
  let pieces := (splitTop '|' label).flatMap (splitTop ':')
  let cols ← pieces.mapM (pieceColumnAt tenv env table)
  match cols.mapM id with
  | none => pure none
  | some [] => pure none
  | some (c :: cs) => pure (some (cs.foldl mulCols c))

def decodeLabel (env : Env) (table : List (String × Expr)) (label : String) : M (Option (List Entry)) :=
  decodeLabelAt Option.none env table label

def closeQ (a b : Rat) : Bool :=
  let d := if a ≤ b then b - a else a - b
  let m := max (max (if a < 0 then -a else a) (if b < 0 then -b else b)) 1
  decide (d * 1000000000 ≤ m)

def closeE : Entry → Entry → Bool
  | some a, some b => closeQ a b
  | none, none => true
  | _, _ => false

def column (m : Matrix) (j : Nat) : List Entry := m.map (fun r => r.getD j none)

structure Verdict where
  ok : Bool
  judged : Nat            -- columns the statement defines
  skipped : Nat           -- columns it does not (sum coding, spline columns, …)
  firstBad : Option String

/-- labels and columns equal in number, and every column holds what its label says -/
def checkAt (tenv : Option Env) (env : Env) (table : List (String × Expr)) (labels : List String)
    (m : Matrix) : M Verdict := do
  if labels.length != m.ncols && !(m.isEmpty) then
    pure ⟨false, 0, 0, some "number of labels differs from the number of columns"⟩
  else
    let rec go (ls : List String) (j judged skipped : Nat) : M Verdict :=
      match ls with
      | [] => pure ⟨true, judged, skipped, none⟩
      | l :: rest => do
        match (← decodeLabelAt tenv env table l) with
        | none => go rest (j + 1) judged (skipped + 1)
        | some want =>
          let have_ := column m j
          if want.length == have_.length && (List.zipWith closeE want have_).all id then
            go rest (j + 1) (judged + 1) skipped
          else pure ⟨false, judged, skipped, some l⟩
    go labels 0 0 0

/-- a training design: labels and columns read on the frame the design was built from -/
def check (env : Env) (table : List (String × Expr)) (labels : List String) (m : Matrix) : M Verdict :=
  checkAt Option.none env table labels m

/-- the data column whose levels a single-piece label `name[level]` enumerates: the variable
itself (or the result column of a caller-supplied call, see `levelOrderOk`), or the first argument `v` of a coding call `C(v …)`, `T(v …)`, `S(v …)` that does not pass
an explicit `levels=` (which fixes another order) -/
def levelSource (name : String) : Option String :=
  let cs := name.toList
  match cs with
  | c :: '(' :: rest =>
    if (c == 'C' || c == 'T' || c == 'S') && cs.getLast? == some ')' then
      let arg := rest.takeWhile (fun ch => ch != ',' && ch != ')')
      let tail := String.ofList (rest.drop arg.length)
      let v := String.ofList arg
      if (tail.splitOn "levels").length > 1 || v.toList.any (fun ch => ch == '(' || ch == ' ') then none
      else some v
    else none
  | _ => if cs.any (fun ch => ch == '(') then none else some name

/-- `l1` comes before `l2` in the order of the levels of column `c`: the declared order of an
ordered categorical, numeric order for numeric data, lexicographic order for strings -/
def levelBefore (c : Column) (l1 l2 : String) : Bool :=
  match c.kind with
  | .categorical true cats =>
    (match indexOf? l1 cats, indexOf? l2 cats with
     | some i, some j => decide (i < j)
     | _, _ => false)
  | .numeric _ =>
    (match l1.toInt?, l2.toInt? with
     | some a, some b => decide (a < b)
     | _, _ => true)                     -- non-integer numeric levels: not judged
  | _ => decide (l1 < l2)

/-- order of the levels of one categorical variable in consecutive single-piece labels (`v[l]`,
`C(v)[l]`, `T(v, …)[l]`, `S(v, …)[l]`): sorted for unordered data — numerically for numbers —,
the declared order for an ordered categorical -/
def levelOrderOk (env : Env) (labels : List String) : Bool :=
  let parsed := labels.map (fun l =>
    if (splitTop ':' l).length == 1 && (splitTop '|' l).length == 1 then
      match stripLevel l with
      | (n, some lv) => some (n, lv)
      | _ => none
    else none)
  let pairs := List.zip parsed (parsed.drop 1)
  pairs.all (fun p =>
    match p with
    | (some (n1, l1), some (n2, l2)) =>
      if n1 != n2 then true else
      -- the levels of a caller-supplied call `fn(v)` are those of its result, which the harness
      -- supplies as a frame column named like the atom
      match (if (env.frame.col? n1).isSome then some n1 else levelSource n1) with
      | none => true
      | some v =>
        match env.frame.col? v with
        | some c =>
          -- only labels that name values of the column are levels (`S(f)[mean]` is not one)
          let occurs := fun (l : String) => c.cells.any (fun cell => match cell with
            | .str t => t == l
            | .num q => toString q == l
            | .na => false)
          if !(occurs l1 && occurs l2) then true else
          (match c.kind with
           | .numeric _ => if v == n1 then true else levelBefore c l1 l2   -- plain numeric: no levels
           | _ => levelBefore c l1 l2)
        | none => true
    | _ => true)

end FormulaeModel.Spec.C04
