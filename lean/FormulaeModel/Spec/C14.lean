import FormulaeModel.Model.Transforms
/-
C14 — reading of the statement.

"On the training data center(x) has mean zero and scale/standardize(x) mean zero and unit
population standard deviation, and both are the same affine map on any later data; bs(x, ...)
returns as many columns as df (or knots + degree, plus one with intercept) that are non-negative
and, with intercept=True, sum to one at every x inside the boundary knots. poly(x, d) returns d
orthonormal columns orthogonal to the constant that span the same space as x..x^d, raw=True
returns exactly those powers, and invalid df/degree/knots/bounds are refused."

Every predicate below is executable over `Rat` and takes a tolerance `ε` (`ε = 0`: exact).  The
driver evaluates them on the *implementation's* output (floats converted exactly to rationals);
the theorems of `Properties/C14.lean` prove them, with `ε = 0`, of the model's output.  Where the
real output contains a square root the predicate has a second, root-free form on the model's
`(numerator, denominator²)` representation, and the comment states the equivalence.

Readings fixed here:
* "the same affine map on any later data": all (input, output) pairs of *all* calls on one
  instance lie on one line (`sameAffine`); for `center` the line has slope 1 (`sameShift`).
* "at every x inside the boundary knots" qualifies both "non-negative" and "sum to one"
  (outside, `splev` extrapolates the boundary polynomial pieces: values can be negative).
  "inside" includes both boundary knots: `lower ≤ x ≤ upper`.
* "invalid df/degree/knots/bounds": `validBsArgs` below is the declarative list of what a valid
  combination is; everything else must be refused (the statement does not name the exception
  class; the code uses ValueError for all of them, which the correspondence checks).
This file only shares the *argument types* with the model, none of its functions.
-/
namespace FormulaeModel.Spec.C14
open FormulaeModel.Transforms (BsArgs DfArg DegArg KnotsArg)

def sum : List Rat → Rat
  | [] => 0
  | a :: l => a + sum l

def absR (a : Rat) : Rat := if a < 0 then -a else a
def close (ε a b : Rat) : Bool := absR (a - b) ≤ ε
def len (l : List Rat) : Rat := (l.length : Rat)

/-! ### center / scale -/

/-- mean zero: `|Σ out| ≤ ε·n` -/
def meanZero (ε : Rat) (out : List Rat) : Bool := absR (sum out) ≤ ε * len out

/-- unit population standard deviation: `|Σ (out - mean)² − n| ≤ ε·n` -/
def unitPopVar (ε : Rat) (out : List Rat) : Bool :=
  let m := sum out / len out
  absR (sum (out.map (fun v => (v - m) * (v - m))) - len out) ≤ ε * len out

/-- Root-free form of `meanZero 0 ∧ unitPopVar 0` for the vector `num_i / √var`:
`Σ num_i/√var = 0 ⇔ Σ num_i = 0`, and then `Σ (num_i/√var)² = n ⇔ Σ num_i² = n·var`. -/
def standardizedExact (nums : List Rat) (var : Rat) : Bool :=
  decide (0 < var) && decide (sum nums = 0) && decide (sum (nums.map (fun v => v * v)) = len nums * var)

/-- all pairs are a shift by one constant: `out - input` is the same for every pair -/
def sameShift (ε : Rat) (pairs : List (Rat × Rat)) : Bool :=
  match pairs with
  | [] => true
  | (x0, o0) :: _ => pairs.all (fun (x, o) => close ε (o - x) (o0 - x0))

/-- first training pair whose abscissa differs from the first pair's -/
def secondPoint (x0 : Rat) : List (Rat × Rat) → Option (Rat × Rat)
  | [] => none
  | (x, o) :: l => if x = x0 then secondPoint x0 l else some (x, o)

/-- all pairs lie on the line through two training pairs with distinct abscissae
(cross-multiplied: `(o - o0)(x1 - x0) = (o1 - o0)(x - x0)`, tolerance scaled by `|x1 - x0|`).
Constant training data determine no line: the predicate is then `true` (and `scale` is undefined
there: division by a zero standard deviation). -/
def sameAffine (ε : Rat) (train later : List (Rat × Rat)) : Bool :=
  match train with
  | [] => true
  | (x0, o0) :: rest =>
    match secondPoint x0 rest with
    | none => true
    | some (x1, o1) =>
      (train ++ later).all (fun (x, o) =>
        close (ε * absR (x1 - x0) * (1 + absR o)) ((o - o0) * (x1 - x0)) ((o1 - o0) * (x - x0)))

/-! ### bs -/

/-- "as many columns as df (or knots + degree, plus one with intercept)" -/
def expectedCols (df : Option Nat) (nKnots degree : Nat) (intercept : Bool) : Nat :=
  match df with
  | some d => d
  | none => nKnots + degree + (if intercept then 1 else 0)

def rowNonneg (ε : Rat) (row : List Rat) : Bool := row.all (fun v => decide (-ε ≤ v))
def rowSumsToOne (ε : Rat) (row : List Rat) : Bool := close ε (sum row) 1
def inside (lower upper x : Rat) : Bool := decide (lower ≤ x) && decide (x ≤ upper)

/-- the contract of one row of `bs` evaluated at `x` -/
def bsRowHolds (ε : Rat) (intercept : Bool) (lower upper x : Rat) (ncols : Nat)
    (row : List Rat) : Bool :=
  row.length == ncols &&
  (!inside lower upper x || (rowNonneg ε row && (!intercept || rowSumsToOne ε row)))

def allInside (lower upper : Rat) (inner : List Rat) : Bool :=
  inner.all (fun k => decide (lower ≤ k) && decide (k ≤ upper))

/-- Declarative validity of a `bs` argument combination on data with minimum `dmin`, maximum
`dmax` and `quant m` = the `m` equally spaced inner quantiles of the data (the knots "bs" places
when only `df` is given): degree is an integer ≥ 0; df or knots is given; df is an integer and
large enough (`df − (degree+1) (+1 without intercept) ≥ 0`); when both are given they agree; knots
are one-dimensional; `lower ≤ upper` (bounds default to the data range); all inner knots (given,
or the data quantiles) lie within the bounds. -/
def validBsArgs (dmin dmax : Rat) (quant : Nat → List Rat) (a : BsArgs) : Bool :=
  match a.degree with
  | .nonInt => false
  | .int d =>
    let lower := a.lower.getD dmin
    let upper := a.upper.getD dmax
    decide (0 ≤ d) && decide (lower ≤ upper) &&
    (match a.df, a.knots with
     | .none, .none => false
     | .none, .vec l => allInside lower upper l
     | .none, .nested _ => false
     | .float _, _ => false
     | .int f, k =>
       let nInner : Int := f - (d + 1) + (if a.intercept then 0 else 1)
       decide (0 ≤ nInner) &&
       (match k with
        | .none => allInside lower upper (quant nInner.toNat)
        | .vec l => decide ((l.length : Int) = nInner) && allInside lower upper l
        | .nested _ => false))

/-! ### poly -/

def dot (u v : List Rat) : Rat := sum ((u.zip v).map (fun (a, b) => a * b))

def powR (v : Rat) : Nat → Rat
  | 0 => 1
  | k + 1 => powR v k * v

/-- column `k` (1-based) is exactly `x^k`, and there are `degree` columns -/
def rawPowersFrom (x : List Rat) : Nat → List (List Rat) → Bool
  | _, [] => true
  | k, c :: cs => decide (c = x.map (fun v => powR v k)) && rawPowersFrom x (k + 1) cs

def rawPowers (x : List Rat) (degree : Nat) (cols : List (List Rat)) : Bool :=
  cols.length == degree && rawPowersFrom x 1 cols

/-- columns are orthogonal to the constant: `|Σ c| ≤ ε` -/
def orthToConst (ε : Rat) (cols : List (List Rat)) : Bool := cols.all (fun c => close ε (sum c) 0)

/-- pairwise orthogonal, unit norm -/
def orthonormal (ε : Rat) : List (List Rat) → Bool
  | [] => true
  | c :: cs => close ε (dot c c) 1 && cs.all (fun d => close ε (dot c d) 0) && orthonormal ε cs

/-- Root-free form for columns `P_k / √n_k`: `P_j · P_k = 0` (j ≠ k), `Σ P_k = 0`, and
`P_k · P_k = n_k > 0` (so `(P_k/√n_k)·(P_k/√n_k) = 1`). -/
def orthoExact : List (List Rat × Rat) → Bool
  | [] => true
  | (c, n2) :: cs =>
    decide (0 < n2) && decide (dot c c = n2) && decide (sum c = 0) &&
    cs.all (fun d => decide (dot c d.1 = 0)) && orthoExact cs

end FormulaeModel.Spec.C14
