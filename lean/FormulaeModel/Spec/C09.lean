import FormulaeModel.Model.NA
import FormulaeModel.Spec.C04
import FormulaeModel.Spec.C02
/-
C09 — reading of the statement.

* which variables a formula *uses*: every variable leaf of the AST — inside calls too (positional
  and keyword arguments, nested calls, operators, backquoted names), in interactions, in
  group-specific terms and in the response — but not the names of called functions, keyword
  names or the level of `y[level]`  (`freeVars`);
* `drop`: the design equals the design built from the frame from which exactly the rows with a
  missing value in a used variable were removed; `error`: ValueError iff such a row exists;
  `pass`: all rows kept in order, an incomplete row is NaN exactly in the columns that involve
  its missing variable and equal to the reference elsewhere; any other action refused.
-/
namespace FormulaeModel.Spec.C09
open FormulaeModel FormulaeModel.NA FormulaeModel.Spec.C04

def documentedActions : List String := ["drop", "error", "pass"]

mutual
/-- variable leaves of an expression, skipping callees, keyword names and subset levels -/
def freeVars : Expr → List String
  | .grouping _ e _ => freeVars e
  | .binary l _ r => freeVars l ++ freeVars r
  | .unary _ r => freeVars r
  | .call _ _ as _ => freeVarsArgs as
  | .brace _ e _ => freeVars e
  | .variable n => [n.lexeme]
  | .subset n _ _ _ => [n.lexeme]
  | .quoted t => [unquote t.lexeme]
  | .literal _ => []
  | .assign _ _ v => freeVars v
def freeVarsArgs : Args → List String
  | .nil => []
  | .last e => freeVars e
  | .more e _ rest => freeVars e ++ freeVarsArgs rest
end

/-- every atom at a term position of the formula, with the variables it mentions -/
def atomVarTable : Expr → List (Terms.Atom × List String)
  | .grouping _ e _ => atomVarTable e
  | .binary l _ r => atomVarTable l ++ atomVarTable r
  | .unary _ r => atomVarTable r
  | e =>
    let a := match e with
      | .subset n _ _ _ => some (Terms.Atom.var (.str n.lexeme) none)
      | _ => Spec.C02.atomOf e
    match a with
    | some a => [(a, freeVars e)]
    | none => []

def atomFree (table : List (Terms.Atom × List String)) (a : Terms.Atom) : List String :=
  match table.find? (fun p => p.1.name == a.name) with
  | some p => p.2
  | none => []

/-- **The variables a formula uses**: those mentioned by the terms of its *denotation* (response,
common terms, effect and grouping side of group-specific terms) — a variable all of whose terms
are removed again (`y ~ a + x - x`) is not used, its missing values are ignored.  Outside the
documented language (`den e = none`) every variable written in the formula counts. -/
def usedVars (e : Expr) : List String :=
  match Spec.C02.den e with
  | some d =>
    let table := atomVarTable e
    (match d.resp with | some a => atomFree table a | none => []) ++
    d.common.flatMap (fun t => t.flatMap (atomFree table)) ++
    d.group.flatMap (fun g => (match g.eff with | some t => t.flatMap (atomFree table) | none => []) ++
      g.fac.flatMap (atomFree table))
  | none => freeVars e

def usedColumns (e : Expr) (f : Frame) : List String :=
  (f.map (·.name)).filter (fun c => (usedVars e).contains c)

/-- rows that have no missing value in any used column -/
def completeRows (e : Expr) (f : Frame) : List Bool :=
  let used := usedColumns e f
  (List.range f.nrows).map (fun r =>
    f.all (fun c => !used.contains c.name || !cellMissing (c.cells.getD r .na)))

def matricesEqual (a b : Matrix) : Bool :=
  a.length == b.length &&
  (List.zipWith (fun ra rb => ra.length == rb.length && (List.zipWith closeE ra rb).all id) a b).all id

/-- `pass`: per row and column, NaN exactly where the column involves a variable missing in that
row; the reference entry (same frame with the missing values filled in) elsewhere -/
def passRule (ref new : Matrix) (colVars rowMissing : List (List String)) : Bool :=
  ref.length == new.length &&
  (List.range new.length).all (fun r =>
    let rr := ref.getD r []
    let rn := new.getD r []
    rr.length == rn.length && rn.length == colVars.length &&
    (List.range rn.length).all (fun c =>
      let want : Entry :=
        if (rowMissing.getD r []).any ((colVars.getD c []).contains ·) then none else rr.getD c none
      closeE want (rn.getD c none)))

end FormulaeModel.Spec.C09
