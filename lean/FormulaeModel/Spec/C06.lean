import FormulaeModel.Spec.C04
/-
C06 — reading of the statement: for a design built from formula F and data D, evaluating the
common or the group-specific matrix on a new frame made of rows `is` of D (any subset, order or
repetition) returns exactly the rows `is` of the training matrix, with the same columns.

Also the predicates that delimit the two recorded defect classes of the pinned tree:
D13 (`C/T/S` with explicit or declared levels refuse a frame that lacks one of them) and
D14 (`binary` is not stateful: its success value is re-derived from / re-checked against the
frame being predicted).
-/
namespace FormulaeModel.Spec.C06
open FormulaeModel FormulaeModel.Design FormulaeModel.Spec.C04

def selectRows (m : Matrix) (is : List Nat) : Matrix := is.map (fun i => m.getD i [])

def rowsEqual (a b : Matrix) : Bool :=
  a.length == b.length &&
  (List.zipWith (fun ra rb => ra.length == rb.length && (List.zipWith closeE ra rb).all id) a b).all id

/-- the new-data matrix is the selected rows of the training matrix -/
def holds (train new : Matrix) (is : List Nat) : Bool := rowsEqual new (selectRows train is)

mutual
/-- every call node of an expression (callee name, argument list) -/
def callsOf : Expr → List (String × Args)
  | .grouping _ e _ => callsOf e
  | .binary l _ r => callsOf l ++ callsOf r
  | .unary _ r => callsOf r
  | .call c _ as _ =>
    (match c with | .variable n => [(n.lexeme, as)] | _ => []) ++ callsOfArgs as
  | .brace _ e _ => callsOf e
  | .assign _ _ v => callsOf v
  | _ => []
def callsOfArgs : Args → List (String × Args)
  | .nil => []
  | .last e => callsOf e
  | .more e _ rest => callsOf e ++ callsOfArgs rest
end

def argExprs : Args → List Expr
  | .nil => []
  | .last e => [e]
  | .more e _ rest => e :: argExprs rest

def isKw (name : String) : Expr → Bool
  | .assign (.variable t) _ _ => t.lexeme == name
  | _ => false

def valuesOf (env : Env) (e : Expr) : List (Option Level) :=
  match posOnly (evalArg env e none) with
  | .ok (.vec xs _, _) => (numericLevels xs).toOption.getD []
  | .ok (.lvec xs _, _) => xs
  | .ok (.box b, _) => b.data
  | _ => []

/-- D13: a `C/T/S` call with `levels=` (or over an ordered categorical, whose declared categories
become the levels) evaluated on a frame in which one of those levels does not occur. -/
def classD13 (trainEnv newEnv : Env) (e : Expr) : Bool :=
  (callsOf e).any (fun (callee, as) =>
    (callee == "C" || callee == "T" || callee == "S") &&
    (match argExprs as with
     | d :: rest =>
       let explicit := rest.any (isKw "levels") || rest.length ≥ 2
       let declaredOrdered := match d with
         | .variable v => (match trainEnv.frame.col? v.lexeme with
             | some c => (match c.kind with | .categorical true _ => true | _ => false)
             | none => false)
         | _ => false
       let trainVals := dedupL ((valuesOf trainEnv d).filterMap id)
       let newVals := dedupL ((valuesOf newEnv d).filterMap id)
       let declaredLevels : List Level := match d with
         | .variable v => (match trainEnv.frame.col? v.lexeme with
             | some c => (match c.kind with | .categorical true cats => cats.map Level.s | _ => trainVals)
             | none => trainVals)
         | _ => trainVals
       (explicit || declaredOrdered) && !(declaredLevels.all (newVals.contains ·))
     | [] => false))

/-- D14: a `binary` / `B` call whose success value does not occur in the new frame, or is omitted
and the smallest value of the new frame differs from the smallest training value. -/
def classD14 (trainEnv newEnv : Env) (e : Expr) : Bool :=
  (callsOf e).any (fun (callee, as) =>
    (callee == "binary" || callee == "B") &&
    (match argExprs as with
     | [d] =>
       let tv := sortLevels ((valuesOf trainEnv d).filterMap id)
       let nv := sortLevels ((valuesOf newEnv d).filterMap id)
       (tv.bind List.head?) != (nv.bind List.head?)
     | d :: s :: _ =>
       let sv := match posOnly (evalArg trainEnv (match s with | .assign _ _ v => v | x => x) none) with
         | .ok (v, _) => levelOfVal v
         | _ => none
       !((valuesOf newEnv d).contains sv)
     | [] => false))

end FormulaeModel.Spec.C06
