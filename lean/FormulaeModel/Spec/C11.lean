import FormulaeModel.Model.Env
/-
C11 — reading of the statement.

"A name used as a call argument is looked up first among the data-frame columns, then among
formulae's built-in transforms and encodings, then in the caller's local variables, then the
caller's globals, then extra_namespace, and the first match wins; function names follow the same
order without the data frame, dotted names being resolved by attribute access.  The env argument
selects how many frames above the caller provide locals and globals, and a name defined in none
of these raises instead of resolving to something else."

* The five scopes are given abstractly (`Scopes`): which names each of them binds, to what.
  Only the types `Val`/`Scope` (object = identity tag + attribute table; dict = association list)
  are shared with the model; nothing of `VarLookupDict`, `Environment`, `capture` is used here.
* `firstMatch` is "the first scope of the list that binds the name wins" (`List.findSome?`).
* `Outcome` is what a resolution may do: produce an object or raise.
* `expectedArg` / `expectedCallee` are the two orders of the statement; a dotted function name
  `a.b.c` resolves `a` in the callee order and then follows the attributes `b`, `c`
  (a missing attribute raises: nothing else is tried).
* `selectedFrame callers k`: the callers of `design_matrices`, innermost first; `env = k` takes
  locals and globals from `callers[k]`; there is no such frame when `k ≥ callers.length`, and
  then nothing can be resolved: the call must raise.
* A dotted name in *argument* position is not covered by the attribute clause (it speaks of
  function names): it is the literal key `"a.b"` in the five scopes (a data column may be called
  `a.b`; a backquoted name may be any string).
-/
namespace FormulaeModel.Spec.C11
open FormulaeModel.Env

/-- The documented wiring of the source (`matrices.py`, `environment.py`, `call.py`,
`call_resolver.py`). -/
def documentedWiring : Wiring :=
  { reference := 1,
    captureLoopExtra := 1,
    frameScopes := ["f_locals", "f_globals"],
    callEnvOrder := ["builtins", "outer"],
    lazyVariableOrder := ["data", "env"],
    leadingEmptyDict := true,
    outerAppended := true }

/-- "binds": independent formulation of what a dict / data frame defines. -/
def binds (s : Scope) (n : String) : Option Val := (s.find? (fun kv => kv.1 = n)).map (·.2)

/-- The first scope that binds the name wins. -/
def firstMatch (ss : List Scope) (n : String) : Option Val := ss.findSome? (fun s => binds s n)

structure Scopes where
  data : Scope
  builtins : Scope
  locals : Scope
  globals : Scope
  extra : Scope
  deriving Repr

def argOrder (c : Scopes) : List Scope := [c.data, c.builtins, c.locals, c.globals, c.extra]
def calleeOrder (c : Scopes) : List Scope := [c.builtins, c.locals, c.globals, c.extra]

inductive Outcome where
  | value (v : Val)
  | raises
  deriving Repr, DecidableEq

def expectedArg (c : Scopes) (n : String) : Outcome :=
  match firstMatch (argOrder c) n with
  | some v => .value v
  | none => .raises

/-- attribute access along a dotted path -/
def follow : Val → List String → Outcome
  | v, [] => .value v
  | .obj _ attrs, a :: rest =>
    match binds attrs a with
    | some w => follow w rest
    | none => .raises

def expectedCallee (c : Scopes) (segments : List String) : Outcome :=
  match segments with
  | [] => .raises
  | a :: rest =>
    match firstMatch (calleeOrder c) a with
    | some v => follow v rest
    | none => .raises

/-- `extra_namespace=None` means "no extra names". -/
def extraOf : Option Scope → Scope
  | some x => x
  | none => []

/-- `env = k`: the frame `k` above the caller of `design_matrices`. -/
def selectedFrame (callers : List Frame) (k : Nat) : Option Frame := callers[k]?

def scopesOf (data builtins : Scope) (fr : Frame) (extra : Scope) : Scopes :=
  { data := data, builtins := builtins, locals := fr.locals, globals := fr.globals, extra := extra }

inductive Role where
  | argument
  | callee
  deriving Repr, DecidableEq

/-- What the statement prescribes for one configuration. `name` is the text of the name
(`segments` its split at dots, used for callees only). -/
def expected (role : Role) (data builtins : Scope) (callers : List Frame) (k : Nat) (extra : Scope)
    (name : String) (segments : List String) : Outcome :=
  match selectedFrame callers k with
  | none => .raises
  | some fr =>
    match role with
    | .argument => expectedArg (scopesOf data builtins fr extra) name
    | .callee => expectedCallee (scopesOf data builtins fr extra) segments

/-- The property on one observed outcome. -/
def holds (role : Role) (data builtins : Scope) (callers : List Frame) (k : Nat) (extra : Scope)
    (name : String) (segments : List String) (observed : Outcome) : Bool :=
  observed == expected role data builtins callers k extra name segments

/-- Model outcomes seen through the statement's eyes: any exception is "raises". -/
def outcomeOf : Except Err Val → Outcome
  | .ok v => .value v
  | .error _ => .raises

/-- Well-formedness of the registry keys the resolution relies on: no duplicates, no key is
dotted (so the head of a dotted name is never a registry key by accident of spelling), and none
contains a backquote. -/
def builtinsKeysWF (keys : List String) : Bool :=
  !keys.isEmpty && decide keys.Nodup && keys.all (fun k => !k.toList.contains '.' && !k.toList.contains '`')

end FormulaeModel.Spec.C11
