import FormulaeModel.Model.Parser
import FormulaeModel.Model.Scanner
/-
C01 — reading of the statement.

"Every formula string is either rejected with an exception or interpreted exactly as its fully
parenthesised form under the documented precedence (~ lowest, then |, comparisons, + -, * /, :,
**, unary sign, call/atom highest; binary operators left-associative) … no accepted formula
contains a token that was ignored."

* `documentedTable` is that precedence list.
* `Stratified T e` says that the tree `e` is a derivation of the grammar with table `T`: a binary
  node whose operator belongs to level `i` has a left child of level `≥ i` (left associativity)
  and a right child of level `> i`; the operand of a prefix sign is at least at the unary level;
  `~` occurs only at the root of an `expression` position (top level, inside parentheses / braces,
  as a call argument) with an addition-level right operand; `=` only there, with a variable on the
  left; punctuation tokens have their kinds.
* "nothing ignored" is `e.flat = tokens` (the yield of the tree is the whole input).
* "interpreted exactly as its fully parenthesised form" is: parsing `(groupAll e).flat` gives
  `groupAll e`, where `groupAll` wraps both operands of every operator in parentheses, and
  `Expr.ungroup (groupAll e) = Expr.ungroup e`.
-/
namespace FormulaeModel.Spec.C01
open FormulaeModel FormulaeModel.Parser

def documentedTable : Table :=
  { levels := [[.PIPE],
               [.EQUAL_EQUAL, .BANG_EQUAL, .LESS_EQUAL, .LESS, .GREATER_EQUAL, .GREATER],
               [.MINUS, .PLUS],
               [.STAR, .SLASH],
               [.COLON],
               [.STAR_STAR]],
    unaryOps := [.PLUS, .MINUS],
    tildeRight := 2,
    eofCheck := true }

/-- Well-formedness of an operator table: the levels are pairwise disjoint and none of them
contains the one-shot operators `~`, `=` or punctuation that delimits expressions. -/
def closers : List Kind := [.RIGHT_PAREN, .RIGHT_BRACKET, .RIGHT_BRACE, .COMMA, .EQUAL, .TILDE,
  .LEFT_PAREN]

def disjointLevels : List (List Kind) → Bool
  | [] => true
  | ops :: rest => rest.all (fun o => ops.all (fun k => !o.contains k)) && disjointLevels rest

def levelsOK (T : Table) : Bool :=
  (List.range T.levels.length).all (fun m =>
    (T.levels.getD m []).all (fun k => T.levels.findIdx? (fun ops => ops.contains k) == some m))

def TableWF (T : Table) : Bool :=
  levelsOK T && T.levels.all (fun ops => ops.all (fun k => !closers.contains k))
  && T.unaryOps.all (fun k => !closers.contains k) && T.tildeRight ≤ T.levels.length

section
variable (T : Table)

def opLevel (k : Kind) : Option Nat := T.levels.findIdx? (fun ops => ops.contains k)

/-- Level of the root of a tree: index of the binary level, `L` for a prefix sign, `L + 1` for
calls and atoms. (`~` and `=` nodes are only allowed where `stratTop` accepts them.) -/
def lvl : Expr → Nat
  | .binary _ op _ => (opLevel T op.kind).getD 0
  | .unary .. => T.levels.length
  | _ => T.levels.length + 1

def isPrimary : Expr → Bool
  | .variable _ | .subset .. | .literal _ | .quoted _ | .grouping .. | .brace .. => true
  | _ => false

def isCall : Expr → Bool
  | .call .. => true
  | _ => false

mutual
/-- `e` is a derivation at an operator position (what `binLevel` can return). -/
def stratBin : Expr → Bool
  | .binary l op r =>
    match opLevel T op.kind with
    | some i => stratBin l && stratBin r && decide (i ≤ lvl T l) && decide (i < lvl T r)
    | none => false
  | .unary op r => T.unaryOps.contains op.kind && stratBin r && decide (T.levels.length ≤ lvl T r)
  | .call c lp as rp =>
    (isPrimary c || isCall c) && stratBin c && lp.kind == .LEFT_PAREN && rp.kind == .RIGHT_PAREN
      && stratArgs as
  | .variable n => n.kind == .IDENTIFIER
  | .subset n lb lv rb =>
    n.kind == .IDENTIFIER && lb.kind == .LEFT_BRACKET && rb.kind == .RIGHT_BRACKET
      && isPrimary lv && subsetLevelOk lv && stratBin lv
  | .literal t => t.kind == .NUMBER || t.kind == .STRING || t.kind == .PYTHON_LITERAL
  | .quoted t => t.kind == .BQNAME
  | .grouping lp e rp => lp.kind == .LEFT_PAREN && rp.kind == .RIGHT_PAREN && stratTop e
  | .brace lb e rb => lb.kind == .LEFT_BRACE && rb.kind == .RIGHT_BRACE && stratTop e
  | .assign .. => false
/-- `e` is a derivation at an `expression` position (`~` and `=` allowed at the root). -/
def stratTop : Expr → Bool
  | .assign n eq v =>
    isVariable n && stratBin n && eq.kind == .EQUAL && stratBin v
      && decide (T.tildeRight ≤ lvl T v)
  | .binary l op r =>
    if op.kind == .TILDE then stratBin l && stratBin r && decide (T.tildeRight ≤ lvl T r)
    else stratBin (.binary l op r)
  | e => stratBin e
def stratArgs : Args → Bool
  | .nil => true
  | .last e => stratTop e
  | .more e c rest => stratTop e && c.kind == .COMMA && stratArgs rest && (match rest with | .nil => false | _ => true)
end

/-- The tree is a derivation of the grammar given by `T`. -/
def Stratified (e : Expr) : Bool := stratTop T e

end

/-- The interpretation the statement prescribes: the parse under the *documented* table. -/
def refParse (ts : List Token) : Except ParseErr Expr := Parser.parse documentedTable ts

def lp : Token := ⟨.LEFT_PAREN, "("⟩
def rp : Token := ⟨.RIGHT_PAREN, ")"⟩

mutual
/-- Fully parenthesised form: both operands of every operator wrapped in parentheses. -/
def groupAll : Expr → Expr
  | .assign n eq v => .assign n eq (.grouping lp (groupAll v) rp)
  | .grouping l e r => .grouping l (groupAll e) r
  | .binary l op r => .binary (.grouping lp (groupAll l) rp) op (.grouping lp (groupAll r) rp)
  | .unary op r => .unary op (.grouping lp (groupAll r) rp)
  | .call c l as r => .call (groupAll c) l (groupAllArgs as) r
  | .brace l e r => .brace l (groupAll e) r
  | .subset n lb lv rb => .subset n lb lv rb
  | e => e
def groupAllArgs : Args → Args
  | .nil => .nil
  | .last e => .last (groupAll e)
  | .more e c rest => .more (groupAll e) c (groupAllArgs rest)
end

mutual
/-- Remove all grouping parentheses (they carry no meaning: both resolvers visit through them). -/
def ungroup : Expr → Expr
  | .assign n eq v => .assign (ungroup n) eq (ungroup v)
  | .grouping _ e _ => ungroup e
  | .binary l op r => .binary (ungroup l) op (ungroup r)
  | .unary op r => .unary op (ungroup r)
  | .call c l as r => .call (ungroup c) l (ungroupArgs as) r
  | .brace l e r => .brace l (ungroup e) r
  | .subset n lb lv rb => .subset n lb lv rb
  | e => e
def ungroupArgs : Args → Args
  | .nil => .nil
  | .last e => .last (ungroup e)
  | .more e c rest => .more (ungroup e) c (ungroupArgs rest)
end

end FormulaeModel.Spec.C01
