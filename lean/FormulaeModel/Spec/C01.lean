import FormulaeModel.Model.Parser
import FormulaeModel.Model.Scanner
/-
C01 — reading of the statement.

"Every formula string is either rejected with an exception or interpreted exactly as its fully
parenthesised form under the documented precedence (~ lowest, then |, comparisons, + -, * /, :,
**, unary sign, call/atom highest; binary operators left-associative) … no accepted formula
contains a token that was ignored."

* `documentedTable` is that precedence list.
* `Stratified T e` says that the tree `e` is a derivation of the grammar with table `T`: a binary
  node whose operator belongs to level `i` has a left child of level `≥ i` (left associativity)
  and a right child of level `> i`; the operand of a prefix sign is at least at the unary level;
  `~` occurs only at the root of an `expression` position (top level, inside parentheses / braces,
  as a call argument) with an addition-level right operand; `=` only there, with a variable on the
  left; punctuation tokens have their kinds.
* "nothing ignored" is `e.flat = tokens` (the yield of the tree is the whole input).
* "interpreted exactly as its fully parenthesised form" is: parsing `(groupAll e).flat` gives
  `groupAll e`, where `groupAll` wraps both operands of every operator in parentheses, and
  `Expr.ungroup (groupAll e) = Expr.ungroup e`.
-/
namespace FormulaeModel.Spec.C01
open FormulaeModel FormulaeModel.Parser

def documentedTable : Table :=
  { levels := [[.PIPE],
               [.EQUAL_EQUAL, .BANG_EQUAL, .LESS_EQUAL, .LESS, .GREATER_EQUAL, .GREATER],
               [.MINUS, .PLUS],
               [.STAR, .SLASH],
               [.COLON],
               [.STAR_STAR]],
    unaryOps := [.PLUS, .MINUS],
    tildeRight := 2,
    eofCheck := true }

/-- Well-formedness of an operator table: the levels are pairwise disjoint and none of them
contains the one-shot operators `~`, `=` or punctuation that delimits expressions (closing
brackets, the comma, and the two postfix openers `(` of a call and `[` of `name[level]`); a prefix
operator is, in addition, not a token that starts a primary expression. -/
def closers : List Kind := [.RIGHT_PAREN, .RIGHT_BRACKET, .RIGHT_BRACE, .COMMA, .EQUAL, .TILDE,
  .LEFT_PAREN, .LEFT_BRACKET]

/-- Token kinds with which `primary` starts an expression. -/
def starters : List Kind := [.IDENTIFIER, .NUMBER, .STRING, .PYTHON_LITERAL, .BQNAME, .LEFT_PAREN,
  .LEFT_BRACE]

def disjointLevels : List (List Kind) → Bool
  | [] => true
  | ops :: rest => rest.all (fun o => ops.all (fun k => !o.contains k)) && disjointLevels rest

def levelsOK (T : Table) : Bool :=
  (List.range T.levels.length).all (fun m =>
    (T.levels.getD m []).all (fun k => T.levels.findIdx? (fun ops => ops.contains k) == some m))

def TableWF (T : Table) : Bool :=
  levelsOK T && T.levels.all (fun ops => ops.all (fun k => !closers.contains k))
  && T.unaryOps.all (fun k => !closers.contains k && !starters.contains k)
  && T.tildeRight ≤ T.levels.length

section
variable (T : Table)

def opLevel (k : Kind) : Option Nat := T.levels.findIdx? (fun ops => ops.contains k)

/-- Level of the root of a tree: index of the binary level, `L` for a prefix sign, `L + 1` for
calls and atoms. (`~` and `=` nodes are only allowed where `stratTop` accepts them.) -/
def lvl : Expr → Nat
  | .binary _ op _ => (opLevel T op.kind).getD 0
  | .unary .. => T.levels.length
  | _ => T.levels.length + 1

def isPrimary : Expr → Bool
  | .variable _ | .subset .. | .literal _ | .quoted _ | .grouping .. | .brace .. => true
  | _ => false

def isCall : Expr → Bool
  | .call .. => true
  | _ => false

mutual
/-- `e` is a derivation at an operator position (what `binLevel` can return). -/
def stratBin : Expr → Bool
  | .binary l op r =>
    match opLevel T op.kind with
    | some i => stratBin l && stratBin r && decide (i ≤ lvl T l) && decide (i < lvl T r)
    | none => false
  | .unary op r => T.unaryOps.contains op.kind && stratBin r && decide (T.levels.length ≤ lvl T r)
  | .call c lp as rp =>
    (isPrimary c || isCall c) && stratBin c && lp.kind == .LEFT_PAREN && rp.kind == .RIGHT_PAREN
      && stratArgs as
  | .variable n => n.kind == .IDENTIFIER
  | .subset n lb lv rb =>
    n.kind == .IDENTIFIER && lb.kind == .LEFT_BRACKET && rb.kind == .RIGHT_BRACKET
      && isPrimary lv && subsetLevelOk lv && stratBin lv
  | .literal t => t.kind == .NUMBER || t.kind == .STRING || t.kind == .PYTHON_LITERAL
  | .quoted t => t.kind == .BQNAME
  | .grouping lp e rp => lp.kind == .LEFT_PAREN && rp.kind == .RIGHT_PAREN && stratTop e
  | .brace lb e rb => lb.kind == .LEFT_BRACE && rb.kind == .RIGHT_BRACE && stratTop e
  | .assign .. => false
/-- `e` is a derivation at an `expression` position (`~` and `=` allowed at the root). -/
def stratTop : Expr → Bool
  | .assign n eq v =>
    isVariable n && stratBin n && eq.kind == .EQUAL && stratBin v
      && decide (T.tildeRight ≤ lvl T v)
  | .binary l op r =>
    if op.kind == .TILDE then stratBin l && stratBin r && decide (T.tildeRight ≤ lvl T r)
    else stratBin (.binary l op r)
  | e => stratBin e
def stratArgs : Args → Bool
  | .nil => true
  | .last e => stratTop e
  | .more e c rest => stratTop e && c.kind == .COMMA && stratArgs rest && (match rest with | .nil => false | _ => true)
end

/-- The tree is a derivation of the grammar given by `T`. -/
def Stratified (e : Expr) : Bool := stratTop T e

end

/-- The interpretation the statement prescribes: the parse under the *documented* table. -/
def refParse (ts : List Token) : Except ParseErr Expr := Parser.parse documentedTable ts

def lp : Token := ⟨.LEFT_PAREN, "("⟩
def rp : Token := ⟨.RIGHT_PAREN, ")"⟩

mutual
/-- Fully parenthesised form: both operands of every operator wrapped in parentheses. -/
def groupAll : Expr → Expr
  | .assign n eq v => .assign n eq (.grouping lp (groupAll v) rp)
  | .grouping l e r => .grouping l (groupAll e) r
  | .binary l op r => .binary (.grouping lp (groupAll l) rp) op (.grouping lp (groupAll r) rp)
  | .unary op r => .unary op (.grouping lp (groupAll r) rp)
  | .call c l as r => .call (groupAll c) l (groupAllArgs as) r
  | .brace l e r => .brace l (groupAll e) r
  | .subset n lb lv rb => .subset n lb lv rb
  | e => e
def groupAllArgs : Args → Args
  | .nil => .nil
  | .last e => .last (groupAll e)
  | .more e c rest => .more (groupAll e) c (groupAllArgs rest)
end

mutual
/-- Remove all grouping parentheses (they carry no meaning: both resolvers visit through them). -/
def ungroup : Expr → Expr
  | .assign n eq v => .assign (ungroup n) eq (ungroup v)
  | .grouping _ e _ => ungroup e
  | .binary l op r => .binary (ungroup l) op (ungroup r)
  | .unary op r => .unary op (ungroup r)
  | .call c l as r => .call (ungroup c) l (ungroupArgs as) r
  | .brace l e r => .brace l (ungroup e) r
  | .subset n lb lv rb => .subset n lb lv rb
  | e => e
def ungroupArgs : Args → Args
  | .nil => .nil
  | .last e => .last (ungroup e)
  | .more e c rest => .more (ungroup e) c (ungroupArgs rest)
end


/-! ### Scanner: layout of a formula string

The reading of "whitespace between tokens never changes the model" and "unterminated quotes are
rejected": a formula text is a sequence of token spellings (`Lexeme`) separated by gaps of
whitespace (`render`); a layout is admissible when every gap is whitespace and an empty gap is used
only where the next character does not merge with the token before it (`sepOk`). -/
namespace Layout
open FormulaeModel.Scanner

/-- Which character may directly follow a token of kind `k` without changing how it is scanned
(identifier/number followed by an identifier character, a digit or `.`; the two-character
operators `**`, `//`, `==`, `!=`, `<=`, `>=`; `.` followed by a digit).  Slightly conservative for
numbers: `1.x` would scan as `1`, `.`, `x`, but a `.` directly after a number is not admitted. -/
def sepOk (k : Kind) : List Char → Bool
  | [] => true
  | c :: _ =>
    match k with
    | .IDENTIFIER | .PYTHON_LITERAL => !isIdChar c
    | .NUMBER => !c.isDigit && c != '.'
    | .PERIOD => !c.isDigit
    | .SLASH => c != '/'
    | .STAR => c != '*'
    | .BANG | .EQUAL | .LESS | .GREATER => c != '='
    | _ => true

/-- The operator and punctuation tokens with their only spelling. -/
def fixedLexemes : List (Kind × List Char) :=
  [(.LEFT_PAREN, ['(']), (.RIGHT_PAREN, [')']), (.LEFT_BRACKET, ['[']), (.RIGHT_BRACKET, [']']),
   (.LEFT_BRACE, ['{']), (.RIGHT_BRACE, ['}']), (.COMMA, [',']), (.PERIOD, ['.']), (.PLUS, ['+']),
   (.MINUS, ['-']), (.SLASH_SLASH, ['/', '/']), (.SLASH, ['/']), (.STAR_STAR, ['*', '*']), (.STAR, ['*']),
   (.BANG_EQUAL, ['!', '=']), (.BANG, ['!']), (.EQUAL_EQUAL, ['=', '=']), (.EQUAL, ['=']),
   (.LESS_EQUAL, ['<', '=']), (.LESS, ['<']), (.GREATER_EQUAL, ['>', '=']), (.GREATER, ['>']),
   (.MODULO, ['%']), (.TILDE, ['~']), (.COLON, [':']), (.PIPE, ['|'])]

/-- The spellings of a token of kind `k` that the scanner produces. -/
inductive Lexeme : Kind → List Char → Prop
  | fixed (k : Kind) (cs : List Char) (h : (k, cs) ∈ fixedLexemes) : Lexeme k cs
  | numInt (c : Char) (ds : List Char) (hc : c.isDigit = true) (hds : ∀ d ∈ ds, d.isDigit = true) :
      Lexeme .NUMBER (c :: ds)
  | numFloat (c : Char) (ds : List Char) (f : Char) (fs : List Char) (hc : c.isDigit = true)
      (hds : ∀ d ∈ ds, d.isDigit = true) (hf : f.isDigit = true) (hfs : ∀ d ∈ fs, d.isDigit = true) :
      Lexeme .NUMBER (c :: ds ++ '.' :: f :: fs)
  | numDot (f : Char) (fs : List Char) (hf : f.isDigit = true) (hfs : ∀ d ∈ fs, d.isDigit = true) :
      Lexeme .NUMBER ('.' :: f :: fs)
  | ident (c : Char) (body : List Char) (hc : c.isAlpha = true) (hb : ∀ d ∈ body, isIdChar d = true)
      (hpy : pyLiterals.contains (String.ofList (c :: body)) = false) : Lexeme .IDENTIFIER (c :: body)
  | pyLit (c : Char) (body : List Char) (hc : c.isAlpha = true) (hb : ∀ d ∈ body, isIdChar d = true)
      (hpy : pyLiterals.contains (String.ofList (c :: body)) = true) : Lexeme .PYTHON_LITERAL (c :: body)
  | str (q : Char) (body : List Char) (q' : Char) (hq : isQuote q = true) (hq' : isQuote q' = true)
      (hb : ∀ d ∈ body, isQuote d = false) : Lexeme .STRING (q :: body ++ [q'])
  | bq (body : List Char) (hb : ∀ d ∈ body, d ≠ '`') : Lexeme .BQNAME ('`' :: body ++ ['`'])

/-- A token spelling together with the whitespace in front of it. -/
structure Piece where
  gap : List Char
  kind : Kind
  chars : List Char

def Piece.tok (p : Piece) : Token := Scanner.mk p.kind p.chars

/-- The text: gap, lexeme, gap, lexeme, …, trailing gap. -/
def render : List Piece → List Char → List Char
  | [], trail => trail
  | p :: ps, trail => p.gap ++ (p.chars ++ render ps trail)

/-- Admissible layout: gaps consist of whitespace, lexemes are spellings of their kinds, and what
follows a lexeme (the next gap if non-empty, else the next lexeme) does not merge with it. -/
def Admissible : List Piece → List Char → Prop
  | [], trail => ∀ c ∈ trail, isWs c = true
  | p :: ps, trail =>
    (∀ c ∈ p.gap, isWs c = true) ∧ Lexeme p.kind p.chars ∧ sepOk p.kind (render ps trail) = true ∧
      Admissible ps trail

/-- Outside the modelled alphabet (`scan` answers `.nonAscii`, "not modelled"). -/
def nonAscii (c : Char) : Bool := decide (c.toNat ≥ 128)

/-- `r` is reached from `cs` by complete `scan_token` steps: `r` starts at a token boundary. -/
inductive Boundary : List Char → List Char → Prop
  | here (cs : List Char) : Boundary cs cs
  | step {cs cs' r : List Char} {t : Option Token} :
      scanToken cs = .ok (t, cs') → Boundary cs' r → Boundary cs r

end Layout

end FormulaeModel.Spec.C01
