import FormulaeModel.Spec.C04
/-
C05 — reading of the first half of the statement (block structure):

  "For each group-specific term (e|g) the block of columns is the row-wise Kronecker product of the
   complete indicator matrix of g (levels sorted; cells of g1:g2 in lexicographic order) with the
   effect columns of e, so every row is non-zero only in the slots of its own group and carries
   e's values there."

The second half (the effect columns are coded by the same rule as common effects) is stated in
terms of the redundancy analysis of C03 (see Properties/C05.lean).
-/
namespace FormulaeModel.Spec.C05
open FormulaeModel FormulaeModel.Design FormulaeModel.Spec.C04

/-- values of one grouping component, row by row -/
def componentValues (env : Env) (table : List (String × Expr)) (name : String) : M (List (Option Level)) := do
  match table.find? (·.1 == name) with
  | none => .error (.unmodelled ("component " ++ name))
  | some (_, e) =>
    let v ← match e with
      | .call .. | .brace .. => do
        let (v, _) ← posOnly (evalArg env e none)
        pure v
      | .quoted t => lookupName env (String.ofList ((t.lexeme.toList.drop 1).dropLast))
      | .variable x => lookupName env x.lexeme
      | _ => .error (.unmodelled "atom")
    match v with
    | .vec xs _ => numericLevels xs
    | .lvec xs _ => pure xs
    | .box b => pure b.data
    | _ => .error (.unmodelled "grouping value")

/-- the levels of a grouping component in the order the statement prescribes: declared order for
an ordered categorical (or explicit `levels=`), sorted otherwise -/
def componentLevels (env : Env) (table : List (String × Expr)) (name : String) : M (List Level) := do
  let declared : Option (List Level) :=
    match table.find? (·.1 == name) with
    | some (_, .variable x) =>
      match env.frame.col? x.lexeme with
      | some c => match c.kind with
        | .categorical true cats => some (cats.map Level.s)
        | _ => none
      | none => none
    | some (_, e@(.call ..)) =>
      match posOnly (evalArg env e none) with
      | .ok (.box b, _) => b.levels
      | _ => none
    | _ => none
  match declared with
  | some ls => pure ls
  | none =>
    match sortLevels ((← componentValues env table name).filterMap id) with
    | some ls => pure ls
    | none => .error .typeError

/-- cell labels in lexicographic order of the components' level orders (first component slowest) -/
def expectedGroups (levelLists : List (List Level)) : List String :=
  match levelLists.map (fun ls => ls.map Level.label) with
  | [] => []
  | l :: ls => ls.foldl (fun acc x => acc.flatMap (fun a => x.map (fun b => a ++ ":" ++ b))) l

def cellLabel (vals : List (Option Level)) : Option String :=
  (vals.mapM id).map (fun ls => ":".intercalate (ls.map Level.label))

/-- row `r` of the block: slot `g` carries the effect row when the row belongs to group `g`,
zeros otherwise -/
def blockRowOk (groups : List String) (cell : Option String) (x z : List Entry) : Bool :=
  let p := x.length
  z.length == groups.length * p &&
  (List.range groups.length).all (fun g =>
    (List.range p).all (fun k =>
      let want : Entry := if cell == groups[g]? then x.getD k none else
        (match x.getD k none with | some _ => some 0 | none => none)
      closeE want (z.getD (g * p + k) none)))

mutual
/-- does an argument expression mention the `Sum` encoding (as a name or as a call)? -/
def mentionsSum : Expr → Bool
  | .variable n => n.lexeme == "Sum"
  | .call c _ as _ => mentionsSum c || argsMentionSum as
  | .assign _ _ v => mentionsSum v
  | .grouping _ e _ => mentionsSum e
  | _ => false
def argsMentionSum : Args → Bool
  | .nil => false
  | .last e => mentionsSum e
  | .more e _ rest => mentionsSum e || argsMentionSum rest
end

/-- a component that asks for sum-to-zero coding: `S(g, …)` or `C(g, Sum…)` -/
def sumCodedComponent : Expr → Bool
  | .call (.variable c) _ as _ => c.lexeme == "S" || (c.lexeme == "C" && argsMentionSum as)
  | _ => false

/-- class of the known finding D30: the grouping factor of a group-specific term has a component
that asks for sum-to-zero coding.  The library then codes the *grouping factor* with the full-rank
sum matrix (a `mean` column and level-minus-omitted columns) instead of the complete indicator
matrix, so the block is not "one slot per group" (theorem `C05_factor_sum_counterexample`). -/
def classD30 (table : List (String × Expr)) (factorComps : List String) : Bool :=
  factorComps.any (fun n => match table.find? (·.1 == n) with
    | some p => sumCodedComponent p.2
    | none => false)

structure Verdict where
  groupsOk : Bool
  blocksOk : Bool
  everyRowInOneGroup : Bool

def check (env : Env) (table : List (String × Expr)) (factorComps : List String)
    (implGroups : List String) (x z : Matrix) : M Verdict := do
  let levelLists ← factorComps.mapM (componentLevels env table)
  let vals ← factorComps.mapM (componentValues env table)
  let n := env.frame.nrows
  let cells := (List.range n).map (fun r => cellLabel (vals.map (fun v => (v.getD r none))))
  let groups := expectedGroups levelLists
  pure ⟨implGroups == groups,
        (List.range n).all (fun r => blockRowOk implGroups (cells.getD r none) (x.getD r []) (z.getD r [])),
        cells.all (fun c => match c with | some l => implGroups.contains l | none => false)⟩

/-! ### The same block structure on the objects returned by `evaluate_new_data`

"every row is non-zero only in the slots of its own group and carries e's values there" is a
statement about every block one can read from a group matrix, also from the one derived for a new
frame (`new[name]`, i.e. through the derived object's own slices).  There the slots are the training
groups of the term, in their training order; a row whose grouping cell was not seen in training
(possible under the 'warning' / 'silent' policies) has the ONE appended trailing slot as its own,
and that slot exists iff there is such a row. -/

/-- name of the appended slot (any string that is no training group would do) -/
def newSlot : String := "__NEW_FACTOR_GROUP__"

structure NewVerdict where
  blocksOk : Bool
  anyUnseen : Bool

/-- `env` holds the NEW frame; `trainGroups` the group names of the term; `x` the effect columns on
the new frame; `z` the block read from the derived object. -/
def checkNew (env : Env) (table : List (String × Expr)) (factorComps : List String)
    (trainGroups : List String) (x z : Matrix) : M NewVerdict := do
  let vals ← factorComps.mapM (componentValues env table)
  let n := env.frame.nrows
  let cells := (List.range n).map (fun r => cellLabel (vals.map (fun v => (v.getD r none))))
  if cells.any Option.isNone then .error (.unmodelled "missing grouping value in new data")
  else if trainGroups.contains newSlot then .error (.unmodelled "a training group named like the new slot")
  else
    let own : List (Option String) := cells.map (fun c => c.map (fun l =>
      if trainGroups.contains l then l else newSlot))
    let anyUnseen := own.contains (some newSlot)
    let groups := if anyUnseen then trainGroups ++ [newSlot] else trainGroups
    pure ⟨x.length == n && z.length == n &&
          (List.range n).all (fun r =>
            blockRowOk groups (own.getD r none) (x.getD r []) (z.getD r [])),
          anyUnseen⟩

/-! ### New frames made of training rows: the effect columns without asking the effect object

For a new frame whose row `r` is row `src[r]` of the training frame (grouping values possibly replaced
by labels never seen in training), "carries e's values there" can be judged without evaluating the
effect again: e's values for a training row are what the *training* block carries in that row's own
slot, and the effect columns of a term at prediction time are the training-time coding of the effect
applied to the new rows.  So the block of the derived object must be `checkNew` with those rows as
`x` — in particular it has the training width per slot. -/

/-- the effect row the training block carries for each training row: the segment of the row's own
slot (`p` = block width / number of groups) -/
def trainEffectRows (env : Env) (table : List (String × Expr)) (factorComps : List String)
    (trainGroups : List String) (zTrain : Matrix) : M Matrix := do
  let vals ← factorComps.mapM (componentValues env table)
  let n := env.frame.nrows
  let g := trainGroups.length
  let w := (zTrain.headD []).length
  if g == 0 || w % g != 0 || zTrain.length != n then
    .error (.unmodelled "training block: width is not a multiple of the number of groups")
  else
    let p := w / g
    (List.range n).mapM (fun r =>
      match cellLabel (vals.map (fun v => (v.getD r none))) with
      | none => .error (.unmodelled "training row without a grouping cell")
      | some l =>
        match trainGroups.findIdx? (· == l) with
        | none => .error (.unmodelled "training row whose cell is no group of the term")
        | some i => pure (((zTrain.getD r []).drop (i * p)).take p))

/-- `trainEnv` holds the training frame, `newEnv` the new frame whose row `r` is training row
`src[r]` as far as the effect's variables go; `zTrain` / `zNew` are the term's blocks read from the
training object and from the derived object. -/
def checkNewFromTraining (trainEnv newEnv : Env) (table : List (String × Expr))
    (factorComps : List String) (trainGroups : List String) (src : List Nat)
    (zTrain zNew : Matrix) : M NewVerdict := do
  let xt ← trainEffectRows trainEnv table factorComps trainGroups zTrain
  if src.any (fun i => i ≥ xt.length) then .error (.unmodelled "source row outside the training frame")
  else checkNew newEnv table factorComps trainGroups (src.map (fun i => xt.getD i [])) zNew

/-- slots of a derived block: the training slots, one more iff some row's cell was not seen in
training; every slot as wide as at training time -/
def newWidthOk (trainGroups : List String) (trainWidth : Nat) (anyUnseen : Bool) (zNew : Matrix) : Bool :=
  let g := trainGroups.length
  g != 0 && trainWidth % g == 0 &&
  zNew.all (fun row => row.length == (g + (if anyUnseen then 1 else 0)) * (trainWidth / g))

/-! ### Labels: one per column, group-major like the block -/

/-- the label of every group on the grouping side: `comp[level]` joined by `:`, in the order of
`expectedGroups` -/
def expectedFactorLabels (factorComps : List String) (levelLists : List (List Level)) : List String :=
  match (factorComps.zip levelLists).map (fun (c, ls) => ls.map (fun l => c ++ "[" ++ l.label ++ "]")) with
  | [] => []
  | l :: ls => ls.foldl (fun acc x => acc.flatMap (fun a => x.map (fun b => a ++ ":" ++ b))) l

/-- `labels` has one entry per column of the block (`width`), and the label of column `g·p + k` is
`<label of effect column k>|<label of group g>` (the effect labels are read off the first slot) -/
def labelsOk (factorLabels : List String) (labels : List String) (width : Nat) : Bool :=
  let g := factorLabels.length
  labels.length == width && g != 0 && width % g == 0 &&
  (let p := width / g
   let suffix0 := ("|" ++ factorLabels.headD "").toList
   let prefixes : List (Option String) := (labels.take p).map (fun l =>
     if suffix0.isSuffixOf l.toList then some (String.ofList (l.toList.take (l.length - suffix0.length)))
     else none)
   prefixes.all Option.isSome &&
   (List.range g).all (fun gi => (List.range p).all (fun k =>
     labels[gi * p + k]? == ((prefixes.getD k none).map (fun a => a ++ "|" ++ factorLabels.getD gi "")))))

/-- labels of a group-specific term against the levels of its grouping components in `env`
(the training frame) -/
def checkLabels (env : Env) (table : List (String × Expr)) (factorComps : List String)
    (labels : List String) (width : Nat) : M Bool := do
  let levelLists ← factorComps.mapM (componentLevels env table)
  pure (labelsOk (expectedFactorLabels factorComps levelLists) labels width)

end FormulaeModel.Spec.C05
