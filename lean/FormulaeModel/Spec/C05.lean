import FormulaeModel.Spec.C04
/-
C05 — reading of the first half of the statement (block structure):

  "For each group-specific term (e|g) the block of columns is the row-wise Kronecker product of the
   complete indicator matrix of g (levels sorted; cells of g1:g2 in lexicographic order) with the
   effect columns of e, so every row is non-zero only in the slots of its own group and carries
   e's values there."

The second half (the effect columns are coded by the same rule as common effects) is stated in
terms of the redundancy analysis of C03 (see Properties/C05.lean).
-/
namespace FormulaeModel.Spec.C05
open FormulaeModel FormulaeModel.Design FormulaeModel.Spec.C04

/-- values of one grouping component, row by row -/
def componentValues (env : Env) (table : List (String × Expr)) (name : String) : M (List (Option Level)) := do
  match table.find? (·.1 == name) with
  | none => .error (.unmodelled ("component " ++ name))
  | some (_, e) =>
    let v ← match e with
      | .call .. | .brace .. => do
        let (v, _) ← posOnly (evalArg env e none)
        pure v
      | .quoted t => lookupName env (String.ofList ((t.lexeme.toList.drop 1).dropLast))
      | .variable x => lookupName env x.lexeme
      | _ => .error (.unmodelled "atom")
    match v with
    | .vec xs _ => numericLevels xs
    | .lvec xs _ => pure xs
    | .box b => pure b.data
    | _ => .error (.unmodelled "grouping value")

/-- the levels of a grouping component in the order the statement prescribes: declared order for
an ordered categorical (or explicit `levels=`), sorted otherwise -/
def componentLevels (env : Env) (table : List (String × Expr)) (name : String) : M (List Level) := do
  let declared : Option (List Level) :=
    match table.find? (·.1 == name) with
    | some (_, .variable x) =>
      match env.frame.col? x.lexeme with
      | some c => match c.kind with
        | .categorical true cats => some (cats.map Level.s)
        | _ => none
      | none => none
    | some (_, e@(.call ..)) =>
      match posOnly (evalArg env e none) with
      | .ok (.box b, _) => b.levels
      | _ => none
    | _ => none
  match declared with
  | some ls => pure ls
  | none =>
    match sortLevels ((← componentValues env table name).filterMap id) with
    | some ls => pure ls
    | none => .error .typeError

/-- cell labels in lexicographic order of the components' level orders (first component slowest) -/
def expectedGroups (levelLists : List (List Level)) : List String :=
  match levelLists.map (fun ls => ls.map Level.label) with
  | [] => []
  | l :: ls => ls.foldl (fun acc x => acc.flatMap (fun a => x.map (fun b => a ++ ":" ++ b))) l

def cellLabel (vals : List (Option Level)) : Option String :=
  (vals.mapM id).map (fun ls => ":".intercalate (ls.map Level.label))

/-- row `r` of the block: slot `g` carries the effect row when the row belongs to group `g`,
zeros otherwise -/
def blockRowOk (groups : List String) (cell : Option String) (x z : List Entry) : Bool :=
  let p := x.length
  z.length == groups.length * p &&
  (List.range groups.length).all (fun g =>
    (List.range p).all (fun k =>
      let want : Entry := if cell == groups[g]? then x.getD k none else
        (match x.getD k none with | some _ => some 0 | none => none)
      closeE want (z.getD (g * p + k) none)))

mutual
/-- does an argument expression mention the `Sum` encoding (as a name or as a call)? -/
def mentionsSum : Expr → Bool
  | .variable n => n.lexeme == "Sum"
  | .call c _ as _ => mentionsSum c || argsMentionSum as
  | .assign _ _ v => mentionsSum v
  | .grouping _ e _ => mentionsSum e
  | _ => false
def argsMentionSum : Args → Bool
  | .nil => false
  | .last e => mentionsSum e
  | .more e _ rest => mentionsSum e || argsMentionSum rest
end

/-- a component that asks for sum-to-zero coding: `S(g, …)` or `C(g, Sum…)` -/
def sumCodedComponent : Expr → Bool
  | .call (.variable c) _ as _ => c.lexeme == "S" || (c.lexeme == "C" && argsMentionSum as)
  | _ => false

/-- class of the known finding D30: the grouping factor of a group-specific term has a component
that asks for sum-to-zero coding.  The library then codes the *grouping factor* with the full-rank
sum matrix (a `mean` column and level-minus-omitted columns) instead of the complete indicator
matrix, so the block is not "one slot per group" (theorem `C05_factor_sum_counterexample`). -/
def classD30 (table : List (String × Expr)) (factorComps : List String) : Bool :=
  factorComps.any (fun n => match table.find? (·.1 == n) with
    | some p => sumCodedComponent p.2
    | none => false)

structure Verdict where
  groupsOk : Bool
  blocksOk : Bool
  everyRowInOneGroup : Bool

def check (env : Env) (table : List (String × Expr)) (factorComps : List String)
    (implGroups : List String) (x z : Matrix) : M Verdict := do
  let levelLists ← factorComps.mapM (componentLevels env table)
  let vals ← factorComps.mapM (componentValues env table)
  let n := env.frame.nrows
  let cells := (List.range n).map (fun r => cellLabel (vals.map (fun v => (v.getD r none))))
  let groups := expectedGroups levelLists
  pure ⟨implGroups == groups,
        (List.range n).all (fun r => blockRowOk implGroups (cells.getD r none) (x.getD r []) (z.getD r [])),
        cells.all (fun c => match c with | some l => implGroups.contains l | none => false)⟩

/-! ### The same block structure on the objects returned by `evaluate_new_data`

"every row is non-zero only in the slots of its own group and carries e's values there" is a
statement about every block one can read from a group matrix, also from the one derived for a new
frame (`new[name]`, i.e. through the derived object's own slices).  There the slots are the training
groups of the term, in their training order; a row whose grouping cell was not seen in training
(possible under the 'warning' / 'silent' policies) has the ONE appended trailing slot as its own,
and that slot exists iff there is such a row. -/

/-- name of the appended slot (any string that is no training group would do) -/
def newSlot : String := "__NEW_FACTOR_GROUP__"

structure NewVerdict where
  blocksOk : Bool
  anyUnseen : Bool

/-- `env` holds the NEW frame; `trainGroups` the group names of the term; `x` the effect columns on
the new frame; `z` the block read from the derived object. -/
def checkNew (env : Env) (table : List (String × Expr)) (factorComps : List String)
    (trainGroups : List String) (x z : Matrix) : M NewVerdict := do
  let vals ← factorComps.mapM (componentValues env table)
  let n := env.frame.nrows
  let cells := (List.range n).map (fun r => cellLabel (vals.map (fun v => (v.getD r none))))
  if cells.any Option.isNone then .error (.unmodelled "missing grouping value in new data")
  else if trainGroups.contains newSlot then .error (.unmodelled "a training group named like the new slot")
  else
    let own : List (Option String) := cells.map (fun c => c.map (fun l =>
      if trainGroups.contains l then l else newSlot))
    let anyUnseen := own.contains (some newSlot)
    let groups := if anyUnseen then trainGroups ++ [newSlot] else trainGroups
    pure ⟨x.length == n && z.length == n &&
          (List.range n).all (fun r =>
            blockRowOk groups (own.getD r none) (x.getD r []) (z.getD r [])),
          anyUnseen⟩

end FormulaeModel.Spec.C05
