import FormulaeModel.Spec.C04
import FormulaeModel.Spec.C05
import FormulaeModel.Spec.C06
/-
C15 — reading of the statement: what the response matrix must be, computed from the response
expression and the data alone.

  numeric response        the column, unchanged
  categorical response    one indicator column per level, levels sorted / in declared order
  y[level]                a single 0/1 column, 1 exactly where y equals the level
  prop(y, n)              two columns: successes, trials (a constant is broadcast)
-/
namespace FormulaeModel.Spec.C15
open FormulaeModel FormulaeModel.Design FormulaeModel.Spec.C04

structure Expected where
  matrix : Matrix
  levels : Option (List String)      -- `ResponseMatrix.levels`
  kind : String

def unq (s : String) : String := String.ofList ((s.toList.drop 1).dropLast)

/-- levels of a categorical column in the order the statement prescribes -/
def levelOrder (xs : List (Option Level)) (declared : Option (Bool × List String)) : Option (List Level) :=
  match declared with
  | some (true, cats) => some (cats.map Level.s)
  | _ => sortLevels (xs.filterMap id)

def expected (env : Env) (resp : Expr) : M Expected := do
  match resp with
  | .subset v _ lv _ =>
    let level := match lv with
      | .variable l => l.lexeme
      | .literal t => unq t.lexeme
      | _ => ""
    match ← lookupName env v.lexeme with
    | .lvec xs _ => pure ⟨xs.map (fun x => [some (if (x.map Level.label) == some level then 1 else 0)]),
                          none, "categoric"⟩
    | _ => .error (.unmodelled "subset of a non-categorical")
  | .variable _ | .quoted _ =>
    let name := match resp with
      | .variable v => v.lexeme
      | .quoted t => unq t.lexeme
      | _ => ""
    match ← lookupName env name with
    | .vec xs _ => pure ⟨xs.map (fun x => [x]), none, "numeric"⟩
    | .lvec xs d =>
      match levelOrder xs d with
      | some ls =>
        pure ⟨xs.map (fun x => ls.map (fun l => some (if x == some l then (1 : Rat) else 0))),
              some (ls.map Level.label), "categoric"⟩
      | none => .error .typeError
    | _ => .error (.unmodelled "response value")
  | .call (.variable c) _ as _ =>
    if c.lexeme == "p" || c.lexeme == "prop" || c.lexeme == "proportion" then
      match Spec.C06.argExprs as with
      | [s, t] => do
        let (sv, _) ← posOnly (evalArg env s none)
        let (tv, _) ← posOnly (evalArg env t none)
        match sv, tv with
        | .vec ss _, .vec ts _ => pure ⟨List.zipWith (fun a b => [a, b]) ss ts, none, "proportion"⟩
        | .vec ss _, .num q _ => pure ⟨ss.map (fun a => [a, some q]), none, "proportion"⟩
        | _, _ => .error (.unmodelled "prop arguments")
      | _ => .error (.unmodelled "prop arity")
    else do
      -- any other call: its value
      let (v, _) ← posOnly (evalArg env resp none)
      match v with
      | .vec xs _ => pure ⟨xs.map (fun x => [x]), none, "numeric"⟩
      | _ => .error (.unmodelled "call response")
  | .brace .. => do
    let (v, _) ← posOnly (evalArg env resp none)
    match v with
    | .vec xs _ => pure ⟨xs.map (fun x => [x]), none, "numeric"⟩
    | _ => .error (.unmodelled "call response")
  | _ => .error (.unmodelled "response form")

/-- Prediction: a `prop(y, n)` response evaluated on a *new* frame reports the trials column the
expression denotes on that frame — the column `n` of the new frame, or the constant broadcast to the
row count of the **new** frame (whatever the row count at training was).  Only the trials argument
is looked at: a prediction frame need not carry the successes. -/
def expectedTrials (env : Env) (resp : Expr) : M (List Entry) := do
  match resp with
  | .call (.variable c) _ as _ =>
    if c.lexeme == "p" || c.lexeme == "prop" || c.lexeme == "proportion" then
      match Spec.C06.argExprs as with
      | [_, t] => do
        let (tv, _) ← posOnly (evalArg env t none)
        match tv with
        | .vec ts _ => pure ts
        | .num q _ => pure (List.replicate env.frame.nrows (some q))
        | _ => .error (.unmodelled "prop arguments")
      | _ => .error (.unmodelled "prop arity")
    else .error (.unmodelled "not a proportion response")
  | _ => .error (.unmodelled "not a proportion response")

def matEq (a b : Matrix) : Bool :=
  a.length == b.length &&
  (List.zipWith (fun ra rb => ra.length == rb.length && (List.zipWith closeE ra rb).all id) a b).all id

def holds (e : Expected) (m : Matrix) (levels : Option (List String)) (kind : String) : Bool :=
  matEq e.matrix m && e.levels == levels && e.kind == kind

/-! "A numeric response is returned unchanged": for a response that is a bare (or back-quoted)
numeric column the comparison is exact — every returned entry is the rational the frame holds, with
no tolerance (an integer beyond 2^53 that came back through a float is a different number). -/
def entryEq : Entry → Entry → Bool
  | some a, some b => a == b
  | none, none => true
  | _, _ => false

def matEqExact (a b : Matrix) : Bool :=
  a.length == b.length &&
  (List.zipWith (fun ra rb => ra.length == rb.length && (List.zipWith entryEq ra rb).all id) a b).all id

def isBare : Expr → Bool
  | .variable _ => true
  | .quoted _ => true
  | _ => false

def unchanged (e : Expected) (m : Matrix) : Bool := matEqExact e.matrix m

/-- The array the implementation returned has one row per retained observation and the columns the
statement names: `[n, #levels]` for a categorical response (one indicator column per level — also
when there is one level, also when there is one row), `[n, 2]` for `prop` (successes, trials), and
a single column for a numeric response and for `y[level]` (`[n]`, or `[n, 1]`).  `shape` is the
numpy shape of `response.design_matrix`; `n` is the row count of the frame after the NA step. -/
def shapeHolds (e : Expected) (shape : List Nat) : Bool :=
  let n := e.matrix.length
  match e.levels with
  | some ls => shape == [n, ls.length]
  | none => if e.kind == "proportion" then shape == [n, 2] else (shape == [n] || shape == [n, 1])

/-- the values returned by `response.evaluate_new_data(new)` are the expected trials, one per row -/
def holdsTrials (expectedCol returned : List Entry) : Bool :=
  matEq (expectedCol.map (fun x => [x])) (returned.map (fun x => [x]))

end FormulaeModel.Spec.C15
