import FormulaeModel.Spec.C04
import FormulaeModel.Spec.C05
import FormulaeModel.Spec.C06
/-
C15 — reading of the statement: what the response matrix must be, computed from the response
expression and the data alone.

  numeric response        the column, unchanged
  categorical response    one indicator column per level, levels sorted / in declared order
                          (a column, or a boxing call C(v …) / T(v …) / S(v …) over a column; numbers
                          sort numerically; `levels=` declares the order)
  y[level]                a single 0/1 column, 1 exactly where y equals the level
  prop(y, n)              two columns: successes, trials (a constant is broadcast)
-/
namespace FormulaeModel.Spec.C15
open FormulaeModel FormulaeModel.Design FormulaeModel.Spec.C04

structure Expected where
  matrix : Matrix
  levels : Option (List String)      -- `ResponseMatrix.levels`
  kind : String

def unq (s : String) : String := String.ofList ((s.toList.drop 1).dropLast)

/-- levels of a categorical column in the order the statement prescribes -/
def levelOrder (xs : List (Option Level)) (declared : Option (Bool × List String)) : Option (List Level) :=
  match declared with
  | some (true, cats) => some (cats.map Level.s)
  | _ => sortLevels (xs.filterMap id)

/-! ### a categorical response written as a boxing call: `C(v …)`, `T(v …)`, `S(v …)`

"One indicator column per level in sorted or declared order" whatever the spelling: the declared
order is the `levels=` argument of the call or the order of an ordered Categorical (`mkBox` has put
either into the box), otherwise the levels are sorted — numerically for numbers. -/
def boxLevelOrder (b : Box) : Option (List Level) :=
  match b.levels with
  | some ls => some ls
  | none => sortLevels (b.data.filterMap id)

/-- `str(x)` of a float level: exact for the dyadic fractions with at most four binary places and a
moderate magnitude (`2.0`, `-0.5`, `10.25`, `0.0625`); other floats are outside the modelled space -/
def floatLabel (q : Rat) : Option String :=
  let places : Option Nat :=
    if q.den == 1 then some 1 else if q.den == 2 then some 1 else if q.den == 4 then some 2
    else if q.den == 8 then some 3 else if q.den == 16 then some 4 else none
  places.bind fun k =>
    let a := q.num.natAbs
    if a ≥ 1000000000000 * q.den then none else
    let ip := a / q.den
    let fp := (a % q.den) * 10 ^ k / q.den
    let fs := toString fp
    let pad := String.ofList (List.replicate (k - fs.length) '0') ++ fs
    some ((if q < 0 then "-" else "") ++ toString ip ++ "." ++ pad)

/-- `sorted(set(values))` of numbers -/
def sortRats (xs : List Rat) : List Rat := sortBy (fun a b => decide (a < b)) (dedupL xs)

/-- the data of a boxing call over a FLOAT column without a `levels` argument (`C(v)`, `T(v)`,
`S(v)`, `C(v, Treatment)`, `T(v, ref)`): the design model keeps integer and string levels only, the
response specification reads the float column directly -/
def floatBoxData (env : Env) (resp : Expr) : Option (List Entry) :=
  match resp with
  | .call (.variable c) _ as _ =>
    if c.lexeme == "C" || c.lexeme == "T" || c.lexeme == "S" then
      match Spec.C06.argExprs as with
      | (.variable v) :: rest =>
        if rest.length ≤ 1 && !(rest.any (Spec.C06.isKw "levels")) then
          match env.frame.col? v.lexeme with
          | some col => match colVal col with
            | .vec xs false => some xs
            | _ => none
          | none => none
        else none
      | _ => none
    else none
  | _ => none

/-- class of the finding D33: the response is a boxing call that asks for sum-to-zero coding
(`S(y)`, `C(y, Sum)`).  The library then returns the full-rank Sum coding (a `mean` column of ones,
rows of -1 for the omitted level, which is missing from `levels`) instead of one indicator column
per level. -/
def classD33 (resp : Expr) : Bool := Spec.C05.sumCodedComponent resp

/-- What the library is recorded to return for a response of class D33 — the full-rank Sum coding
of the levels in the order the statement prescribes: the row of level `i` of `Sum.code_with_intercept`
for every observation, `levels` = "mean" followed by the labels without the omitted one.  Only a
response that deviates from the specification in exactly this way is attributed to the finding. -/
def d33Coded (idx : List (Option Nat)) (labels : List String) (o : Nat) : M Expected := do
  let n := labels.length
  let cm ← sumFull (some (Level.n (Int.ofNat o))) ((List.range n).map (fun i => Level.n (Int.ofNat i)))
  pure ⟨idx.map (fun x => match x with
          | some i => (cm.rows.getD i []).map (fun (v : Int) => (some (v : Rat) : Entry))
          | none => []),
        some ("mean" :: (labels.take o ++ labels.drop (o + 1))), "categoric"⟩

def d33Returned (env : Env) (resp : Expr) : M Expected := do
  if !classD33 resp then .error (.unmodelled "not of class D33") else
  match floatBoxData env resp with
  | some xs =>
    let vals := sortRats (xs.filterMap id)
    let plain := match resp with
      | .call _ _ as _ => (Spec.C06.argExprs as).length == 1 || (match resp with
          | .call (.variable c) _ _ _ => c.lexeme == "C" | _ => false)
      | _ => false
    match vals.mapM floatLabel, plain with
    | some labs, true =>
      d33Coded (xs.map (fun x => x.bind (fun q => indexOf? q vals))) labs (vals.length - 1)
    | _, _ => .error (.unmodelled "float level label / omitted level")
  | none => do
    let (v, _) ← posOnly (evalArg env resp none)
    match v with
    | .box b =>
      match boxLevelOrder b, b.contrast with
      | some ls, some (.sum om) => do
        let o ← sumOmitIndex om ls
        d33Coded (b.data.map (fun x => x.bind (fun l => indexOf? l ls))) (ls.map Level.label) o
      | _, _ => .error (.unmodelled "not sum coded")
    | _ => .error (.unmodelled "call response")

def expected (env : Env) (resp : Expr) : M Expected := do
  match resp with
  | .subset v _ lv _ =>
    let level := match lv with
      | .variable l => l.lexeme
      | .literal t => unq t.lexeme
      | _ => ""
    match ← lookupName env v.lexeme with
    | .lvec xs _ => pure ⟨xs.map (fun x => [some (if (x.map Level.label) == some level then 1 else 0)]),
                          none, "categoric"⟩
    | _ => .error (.unmodelled "subset of a non-categorical")
  | .variable _ | .quoted _ =>
    let name := match resp with
      | .variable v => v.lexeme
      | .quoted t => unq t.lexeme
      | _ => ""
    match ← lookupName env name with
    | .vec xs _ => pure ⟨xs.map (fun x => [x]), none, "numeric"⟩
    | .lvec xs d =>
      match levelOrder xs d with
      | some ls =>
        pure ⟨xs.map (fun x => ls.map (fun l => some (if x == some l then (1 : Rat) else 0))),
              some (ls.map Level.label), "categoric"⟩
      | none => .error .typeError
    | _ => .error (.unmodelled "response value")
  | .call (.variable c) _ as _ =>
    if c.lexeme == "p" || c.lexeme == "prop" || c.lexeme == "proportion" then
      match Spec.C06.argExprs as with
      | [s, t] => do
        let (sv, _) ← posOnly (evalArg env s none)
        let (tv, _) ← posOnly (evalArg env t none)
        match sv, tv with
        | .vec ss _, .vec ts _ => pure ⟨List.zipWith (fun a b => [a, b]) ss ts, none, "proportion"⟩
        | .vec ss _, .num q _ => pure ⟨ss.map (fun a => [a, some q]), none, "proportion"⟩
        | _, _ => .error (.unmodelled "prop arguments")
      | _ => .error (.unmodelled "prop arity")
    else
      match floatBoxData env resp with
      | some xs =>
        if xs.any Option.isNone then .error (.unmodelled "missing value in categorical data") else
        let vals := sortRats (xs.filterMap id)
        match vals.mapM floatLabel with
        | some labs =>
          pure ⟨xs.map (fun x => vals.map (fun l => some (if x == some l then (1 : Rat) else 0))),
                some labs, "categoric"⟩
        | none => .error (.unmodelled "label of a float level")
      | none => do
      -- any other call: its value
      let (v, _) ← posOnly (evalArg env resp none)
      match v with
      | .vec xs _ => pure ⟨xs.map (fun x => [x]), none, "numeric"⟩
      | .box b =>
        -- a boxed categorical: one indicator column per level, whatever contrast the call names
        match boxLevelOrder b with
        | some ls =>
          pure ⟨b.data.map (fun x => ls.map (fun l => some (if x == some l then (1 : Rat) else 0))),
                some (ls.map Level.label), "categoric"⟩
        | none => .error .typeError
      | _ => .error (.unmodelled "call response")
  | .brace .. => do
    let (v, _) ← posOnly (evalArg env resp none)
    match v with
    | .vec xs _ => pure ⟨xs.map (fun x => [x]), none, "numeric"⟩
    | _ => .error (.unmodelled "call response")
  | _ => .error (.unmodelled "response form")

/-- Prediction: a `prop(y, n)` response evaluated on a *new* frame reports the trials column the
expression denotes on that frame — the column `n` of the new frame, or the constant broadcast to the
row count of the **new** frame (whatever the row count at training was).  Only the trials argument
is looked at: a prediction frame need not carry the successes. -/
def expectedTrials (env : Env) (resp : Expr) : M (List Entry) := do
  match resp with
  | .call (.variable c) _ as _ =>
    if c.lexeme == "p" || c.lexeme == "prop" || c.lexeme == "proportion" then
      match Spec.C06.argExprs as with
      | [_, t] => do
        let (tv, _) ← posOnly (evalArg env t none)
        match tv with
        | .vec ts _ => pure ts
        | .num q _ => pure (List.replicate env.frame.nrows (some q))
        | _ => .error (.unmodelled "prop arguments")
      | _ => .error (.unmodelled "prop arity")
    else .error (.unmodelled "not a proportion response")
  | _ => .error (.unmodelled "not a proportion response")

def matEq (a b : Matrix) : Bool :=
  a.length == b.length &&
  (List.zipWith (fun ra rb => ra.length == rb.length && (List.zipWith closeE ra rb).all id) a b).all id

def holds (e : Expected) (m : Matrix) (levels : Option (List String)) (kind : String) : Bool :=
  matEq e.matrix m && e.levels == levels && e.kind == kind

/-! "A numeric response is returned unchanged": for a response that is a bare (or back-quoted)
numeric column the comparison is exact — every returned entry is the rational the frame holds, with
no tolerance (an integer beyond 2^53 that came back through a float is a different number). -/
def entryEq : Entry → Entry → Bool
  | some a, some b => a == b
  | none, none => true
  | _, _ => false

def matEqExact (a b : Matrix) : Bool :=
  a.length == b.length &&
  (List.zipWith (fun ra rb => ra.length == rb.length && (List.zipWith entryEq ra rb).all id) a b).all id

def isBare : Expr → Bool
  | .variable _ => true
  | .quoted _ => true
  | _ => false

def unchanged (e : Expected) (m : Matrix) : Bool := matEqExact e.matrix m

/-- The array the implementation returned has one row per retained observation and the columns the
statement names: `[n, #levels]` for a categorical response (one indicator column per level — also
when there is one level, also when there is one row), `[n, 2]` for `prop` (successes, trials), and
a single column for a numeric response and for `y[level]` (`[n]`, or `[n, 1]`).  `shape` is the
numpy shape of `response.design_matrix`; `n` is the row count of the frame after the NA step. -/
def shapeHolds (e : Expected) (shape : List Nat) : Bool :=
  let n := e.matrix.length
  match e.levels with
  | some ls => shape == [n, ls.length]
  | none => if e.kind == "proportion" then shape == [n, 2] else (shape == [n] || shape == [n, 1])

/-- the values returned by `response.evaluate_new_data(new)` are the expected trials, one per row -/
def holdsTrials (expectedCol returned : List Entry) : Bool :=
  matEq (expectedCol.map (fun x => [x])) (returned.map (fun x => [x]))

end FormulaeModel.Spec.C15
