import FormulaeModel.Model.Encoding
/-
C03 — "the common-effects matrix has full column rank and spans exactly the model space".

Reading of the statement (independent of how the code computes codings).

A *family* is a list of terms; a term has a categorical part `cat` and a numeric part `num`
(lists of variable names read as sets; the intercept is the term with both parts empty).  A *coded*
term additionally says, per categorical factor, whether it is coded **reduced** (n − 1 contrast
columns, does not span the constant) or **full** (n indicator columns).

Interval semantics.  Write W_U for the "pure interaction" directions of the factor set U.  The
full indicator coding of a term T spans ⊕_{U ⊆ cat T} W_U (times its numeric part); a term coded
with reduced factors R and full factors P spans ⊕_{R ⊆ U ⊆ R ∪ P} W_U.  Terms with different
numeric parts (as sets) live in independent blocks when the numeric columns are in general
position.  Hence, on complete-factorial data,

  columns independent  ∧  column space = model space
     ⇔  within every numeric block the intervals of the coded terms are pairwise disjoint and
        their union is the down-closure ⋃_T 𝒫(cat T) of the block's terms                (`Partition`)

The step "⇔" (tensor-product-of-bases argument) is trusted mathematics (DESIGN.md section 7); it is
validated on every explored case by exact rank computations in `harness/c03.py`.

The second half of the file names the regions of the input space where the pinned code is known
to break the property (decidable guards over the pipeline model, used to classify failures).
-/
namespace FormulaeModel.Spec.C03

/-- a term of the family as written: categorical and numeric variable names -/
structure STerm where
  cat : List String
  num : List String
  deriving Repr, DecidableEq

/-- a coded term: reduced / full categorical factors and numeric variables -/
structure CTerm where
  red : List String
  full : List String
  num : List String
  deriving Repr, DecidableEq

def subsetOf (a b : List String) : Bool := a.all (fun x => b.contains x)
def sameSet (a b : List String) : Bool := subsetOf a b && subsetOf b a

/-- `U` lies in the interval `{U | R ⊆ U ⊆ R ∪ P}` of the coded term -/
def inInterval (c : CTerm) (U : List String) : Bool :=
  subsetOf c.red U && subsetOf U (c.red ++ c.full)

/-- `U` lies in the down-closure of the categorical parts of the family's terms with numeric
part `N` -/
def inDownset (fam : List STerm) (N U : List String) : Bool :=
  fam.any (fun t => sameSet t.num N && subsetOf U t.cat)

/-- how many coded terms of numeric block `N` have `U` in their interval -/
def count (coding : List CTerm) (N U : List String) : Nat :=
  coding.countP (fun c => sameSet c.num N && inInterval c U)

/-- **The specification**: in every numeric block, every subset of the down-closure is covered by
exactly one coded term and nothing else is covered. -/
def Partition (fam : List STerm) (coding : List CTerm) : Prop :=
  ∀ N U : List String, count coding N U = if inDownset fam N U then 1 else 0

/-! executable version (the driver runs it on the implementation's output) -/

def sublists {α : Type} : List α → List (List α)
  | [] => [[]]
  | x :: xs => sublists xs ++ (sublists xs).map (x :: ·)

def dedupStr : List String → List String
  | [] => []
  | x :: xs => if xs.contains x then dedupStr xs else x :: dedupStr xs

/-- all categorical factor names that occur -/
def factorUniverse (fam : List STerm) (coding : List CTerm) : List String :=
  dedupStr (fam.flatMap (·.cat) ++ coding.flatMap (fun c => c.red ++ c.full))

/-- all numeric parts that occur -/
def numParts (fam : List STerm) (coding : List CTerm) : List (List String) :=
  fam.map (·.num) ++ coding.map (·.num)

def partition (fam : List STerm) (coding : List CTerm) : Bool :=
  (numParts fam coding).all fun N =>
    (sublists (factorUniverse fam coding)).all fun U =>
      count coding N U == (if inDownset fam N U then 1 else 0)

/-! ### dimension formula (treatment coding: full = n columns, reduced = n − 1) -/

def prodList : List Nat → Nat
  | [] => 1
  | x :: xs => x * prodList xs

def sumList : List Nat → Nat
  | [] => 0
  | x :: xs => x + sumList xs

/-- number of columns of a coded term (numeric variables contribute one column each) -/
def columns (levels : String → Nat) (c : CTerm) : Nat :=
  prodList (c.red.map (fun f => levels f - 1)) * prodList (c.full.map levels)

def totalColumns (levels : String → Nat) (coding : List CTerm) : Nat :=
  sumList (coding.map (columns levels))

/-- weight of one subset of the down-closure: Π_{f ∈ U} (n_f − 1) -/
def weight (levels : String → Nat) (U : List String) : Nat :=
  prodList (U.map (fun f => levels f - 1))

/-- dimension of numeric block `N`: Σ_{U ∈ downset} Π_{f ∈ U} (n_f − 1), the sum running over the
subsets of a duplicate-free list `univ` of factor names -/
def blockDim (levels : String → Nat) (univ : List String) (fam : List STerm) (N : List String) : Nat :=
  sumList ((sublists univ).map (fun U => if inDownset fam N U then weight levels U else 0))

/-- numeric parts of the family, one representative per set -/
def distinctParts : List (List String) → List (List String)
  | [] => []
  | N :: rest => if rest.any (sameSet N) then distinctParts rest else N :: distinctParts rest

/-- dimension of the model space of the family -/
def modelDim (levels : String → Nat) (fam : List STerm) : Nat :=
  let univ := dedupStr (fam.flatMap (·.cat))
  sumList ((distinctParts (fam.map (·.num))).map (blockDim levels univ fam))

/-! ### numeric atoms with several columns (`poly(v, 2)`: 2 columns, `bs(v, df=3)`: 3)

The interval semantics is about the categorical part only: a numeric block `N` multiplies every
direction of its down-closure by the columns of its numeric atoms, `Π_{a ∈ N} width a` of them on
data in general position.  With `width = fun _ => 1` these are `columns` / `totalColumns` /
`modelDim` above (about which `C03_columns_count` is proved); the width-aware versions are used by
the driver for the cases that contain such atoms (*test*). -/

def numWidth (width : String → Nat) (num : List String) : Nat := prodList ((dedupStr num).map width)

def columnsW (levels width : String → Nat) (c : CTerm) : Nat := columns levels c * numWidth width c.num

def totalColumnsW (levels width : String → Nat) (coding : List CTerm) : Nat :=
  sumList (coding.map (columnsW levels width))

def modelDimW (levels width : String → Nat) (fam : List STerm) : Nat :=
  let univ := dedupStr (fam.flatMap (·.cat))
  sumList ((distinctParts (fam.map (·.num))).map (fun N => blockDim levels univ fam N * numWidth width N))

/-! ### from the pipeline model to the specification's vocabulary -/
open FormulaeModel.Encoding

def ofTerm (t : TermDesc) : STerm :=
  { cat := (t.comps.filter (·.kind == .categoric)).map (·.name),
    num := (t.comps.filter (·.kind == .numeric)).map (·.name) }

def ofCoded (t : CodedTerm) : CTerm :=
  { red := (t.2.filter (fun cf => cf.1.kind == .categoric && !cf.2)).map (·.1.name),
    full := (t.2.filter (fun cf => cf.1.kind == .categoric && cf.2)).map (·.1.name),
    num := (t.2.filter (fun cf => cf.1.kind == .numeric)).map (·.1.name) }

/-- the property evaluated on a family and on the terms that make up the design matrix -/
def holds (fam : List TermDesc) (design : List CodedTerm) : Bool :=
  partition (fam.map ofTerm) (design.map ofCoded)

/-- the property evaluated on the pipeline model's own output (errors: the property fails, there
is no matrix) -/
def modelHolds (envCopyable : Bool) (fam : List TermDesc) : Bool :=
  match run envCopyable fam with
  | .ok coded => holds fam (designTerms coded)
  | .error _ => false

/-! ### guards: where the pinned code is known to break the property -/

/-- result of the second analysis: the family after `add_extra_terms` and its codings -/
def secondPass (envCopyable : Bool) (fam : List TermDesc) :
    Option (List TermDesc × Contrasts.Dict (List Contrasts.Coding)) :=
  match secondFamily envCopyable fam with
  | .error _ => none
  | .ok fam2 => match encodingBools fam2 with
    | .error _ => none
    | .ok enc2 => some (fam2, enc2)

/-- D6: the second analysis leaves some term without any coding (`encodings[name][0]` raises) -/
def emptyCodingSecondPass (envCopyable : Bool) (fam : List TermDesc) : Bool :=
  match secondPass envCopyable fam with
  | none => false
  | some (fam2, enc2) => fam2.any (fun t => Contrasts.Dict.get? enc2 t.name == some [])

/-- D7: the second analysis still returns several codings for a term; only the first is used -/
def multipleSubtermsSecondPass (envCopyable : Bool) (fam : List TermDesc) : Bool :=
  match secondPass envCopyable fam with
  | none => false
  | some (fam2, enc2) =>
    fam2.any (fun t => match Contrasts.Dict.get? enc2 t.name with
      | some l => decide (l.length > 1)
      | none => false)

/-- the second analysis succeeds and every term it analyses (every term that has an entry in
`encodings`) gets exactly one coding -/
def SinglePass2 (envCopyable : Bool) (fam : List TermDesc) : Bool :=
  match secondPass envCopyable fam with
  | none => false
  | some (fam2, enc2) =>
    fam2.all (fun t => match Contrasts.Dict.get? enc2 t.name with
      | some l => decide (l.length = 1)
      | none => true)

def numericNames (t : TermDesc) : List String := (t.comps.filter (·.kind == .numeric)).map (·.name)
def categoricNames (t : TermDesc) : List String := (t.comps.filter (·.kind == .categoric)).map (·.name)

/-- D8: a term with categorical and numeric factors whose numeric part exists in the family as a
term of its own, but written in another order, so that the lookup of `":".join(numeric)` by name
misses it.  (Syntactic, on the family as written: a sufficient description of the D8 class used to
attribute failures; `faithfulB` below is the exact condition the theorem needs.) -/
def numericPartOrderMismatch (fam : List TermDesc) : Bool :=
  fam.any fun t =>
    !(categoricNames t).isEmpty && !(numericNames t).isEmpty &&
    fam.any fun u =>
      (categoricNames u).isEmpty && !u.isIntercept && sameSet (numericNames u) (numericNames t) &&
      u.name != ":".intercalate (numericNames t)

/-- two terms of the family that are the same set of factors written in different orders; the code
treats them as different terms -/
def duplicateTermUpToOrder (fam : List TermDesc) : Bool :=
  let rec go : List TermDesc → Bool
    | [] => false
    | t :: rest =>
      rest.any (fun u => t.isIntercept == u.isIntercept &&
        sameSet (t.comps.map (·.name)) (u.comps.map (·.name))) || go rest
  go fam

/-- D9: the first analysis asks for an extra term that contains a `Call` component, which
`create_extra_term` cannot deep-copy -/
def extraTermNeedsCallCopy (fam : List TermDesc) : Bool :=
  match secondFamily false fam with
  | .error .deepcopy => true
  | _ => false

end FormulaeModel.Spec.C03

/-! ### decidable guards used by the theorems of Properties/C03 (evaluated by the driver) -/

namespace FormulaeModel.Contrasts

/-- same elements (lists of factor names read as sets) -/
def memEq (S U : List Factor) : Bool := S.all (fun x => U.contains x) && U.all (fun x => S.contains x)

/-- `U` is a subset of one of the earlier terms -/
def inDown (prev : List (List Factor)) (U : List Factor) : Bool :=
  prev.any (fun cs => U.all (fun u => cs.contains u))

/-- the condition on one term of a group: every subset produced by `_sorted_subsets` other than the
term itself is already covered, the term itself is not -/
def marginsBefore (prev : List (List Factor)) (cs : List Factor) : Bool :=
  (sortedSubsets cs).all (fun S => memEq S cs || inDown prev S) && !inDown prev cs

/-- margins first: every term of the group has all its proper subsets covered by earlier terms and
is itself new; the first term may instead be a single factor (model without intercept) -/
def hierAux (prev : List (List Factor)) : List (String × List Factor) → Bool
  | [] => true
  | (_, cs) :: rest =>
    (marginsBefore prev cs || (prev.isEmpty && decide (cs.length ≤ 1))) && hierAux (prev ++ [cs]) rest

def hierGroup (g : List (String × List Factor)) : Bool := hierAux [] g

end FormulaeModel.Contrasts

namespace FormulaeModel.Encoding
open FormulaeModel.Contrasts FormulaeModel.Spec.C03

/-- every analysis group of the family lists margins first (and has duplicate-free terms) -/
def hierFamily (fam : List TermDesc) : Bool :=
  (encodingGroups fam).all (fun g => g.all (fun e => decide e.2.Nodup) && hierGroup g)

/-- decidable check that the grouping stage is faithful on the family it analyses
(`Proofs/Encoding.lean: Faithful`), clause by clause:
1. component names inside a term are pairwise distinct;
2. names determine terms;
3. the keys of all groups are pairwise distinct (so merging the per-group results loses nothing);
4. every group entry is (name, categorical part) of a term of the family;
5. a group holds exactly the terms of one numeric block: if `t` is in the group then `u` is in it
   iff `u` has the same set of numeric variables;
6. a term in no group has no categorical factor and is alone in its numeric block. -/
def faithfulB (fam2 : List TermDesc) (groups : List (Dict (List String))) : Bool :=
  fam2.all (fun t => decide ((t.comps.map (·.name)).Nodup)) &&
  fam2.all (fun t => fam2.all (fun u => t.name != u.name || t == u)) &&
  decide ((groups.flatMap Dict.keys).Nodup) &&
  groups.all (fun g => g.all (fun e => fam2.any (fun t => t.name == e.1 && categoricNames t == e.2))) &&
  groups.all (fun g => fam2.all (fun t => fam2.all (fun u =>
    !g.contains (t.name, categoricNames t) ||
      (g.contains (u.name, categoricNames u) == sameSet (numericNames u) (numericNames t))))) &&
  fam2.all (fun t => groups.any (fun g => g.contains (t.name, categoricNames t)) ||
    ((categoricNames t).isEmpty &&
      fam2.all (fun u => !sameSet (numericNames u) (numericNames t) || u.name == t.name)))

/-- the family of the second analysis has the same down-closures as the family as written: every
term of the latter is kept, every extra term lies below a term of the family in its block -/
def marginsOf (fam fam2 : List TermDesc) : Bool :=
  fam.all (fun t => fam2.contains t) &&
  fam2.all (fun t2 => fam.any (fun t => sameSet (numericNames t2) (numericNames t) &&
    subsetOf (categoricNames t2) (categoricNames t)))

/-- the guard of `C03_pipeline_partial`: the second analysis gives exactly one coding to every term
(`SinglePass2`, excludes D6 and D7), the grouping stage is faithful on the family it analyses
(excludes D8 and D21), and the extra terms are margins of terms of the family -/
def pipelineGuard (envc : Bool) (fam : List TermDesc) : Bool :=
  SinglePass2 envc fam &&
  match secondFamily envc fam with
  | .ok fam2 => faithfulB fam2 (encodingGroups fam2) && marginsOf fam fam2
  | .error _ => false

end FormulaeModel.Encoding

