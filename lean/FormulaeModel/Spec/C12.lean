import FormulaeModel.Model.Lazy
import FormulaeModel.Model.Parser
import FormulaeModel.Spec.C01
/-
C12 — reading of the statement.

"The value of a call term equals the result of evaluating the same text as a Python expression
over the resolved names: positional and keyword arguments, nested calls, number, string,
True/False/None literals, arithmetic and comparison operators with Python's precedence and
associativity, and parentheses; {expr} is exactly I(expr).  The term's name is the call's source
text normalised to single spaces with the quote style of string literals preserved, so textual
variants of one call are one term and different calls are different terms."

This file is an independent reading of **Python's** expression grammar and evaluation rules on the
token alphabet of the formula scanner (it does not look at `CallResolver` or its tables):

    comparison:  sum (comp_op sum)*          a chain  a < b < c  means  (a < b) and (b < c)
    sum:         sum ('+'|'-') term | term                          left-associative
    term:        term ('*'|'/') factor | factor                     left-associative
    factor:      ('+'|'-') factor | power                           unary sign binds LOOSER than **
    power:       primary ['**' factor]                              right-associative, `2 ** -x` allowed
    primary:     NAME '(' [arguments] ')' | atom
    atom:        NAME | NUMBER | STRING | True | False | None | '(' comparison ')'
    arguments:   positional (',' positional)* (',' NAME '=' comparison)*   keywords distinct

* `PyAlphabet e`    the tree uses only constructs that exist in that fragment of Python
* `PyStratified e`  the tree is a derivation of the grammar above for its own yield, a chain
                    `a < b < c` being represented by the left-nested spine `((a < b) < c)` *without*
                    parentheses (binary trees have no n-ary node); `pyEval` reads such a spine as
                    the chain it stands for
* `PyCompatible e`  the region where the formula grammar (C01) and Python's grammar produce the
                    same tree with the same meaning: no `**` node whose left operand is a bare
                    unary sign or another `**` (`-x**2`, `2**x**2`), no comparison chain
* `pyEval`          Python's evaluation of the tree (operators of `Model/Lazy.lean`'s value domain,
                    positional then keyword arguments)
* `canonText`       a token sequence written with single spaces (binary operators spaced, prefix
                    signs / parentheses / `=` glued, `, ` after commas; NUMBER tokens print as
                    Python prints their value; STRING tokens keep their quotes)
* `GroupingInert e` removing the grouping parentheses of `e` from the text and parsing again gives
                    the same tree (the parentheses were redundant)
-/
namespace FormulaeModel.Spec.C12
open FormulaeModel FormulaeModel.Lazy

/-! ### Python's operators -/

/-- Python's meaning of an infix operator token. -/
def pyBinOp : Kind → Option BinOp
  | .PLUS => some .add | .MINUS => some .sub | .STAR => some .mul | .SLASH => some .truediv
  | .STAR_STAR => some .pow | .EQUAL_EQUAL => some .eq | .BANG_EQUAL => some .ne
  | .LESS_EQUAL => some .le | .LESS => some .lt | .GREATER_EQUAL => some .ge | .GREATER => some .gt
  | _ => none

/-- Python's meaning of a prefix operator token. -/
def pyUnOp : Kind → Option UnOp
  | .PLUS => some .pos | .MINUS => some .neg
  | _ => none

/-- How Python spells the operator / punctuation tokens. -/
def pySymbol : Kind → String
  | .PLUS => "+" | .MINUS => "-" | .STAR => "*" | .SLASH => "/" | .STAR_STAR => "**"
  | .EQUAL_EQUAL => "==" | .BANG_EQUAL => "!=" | .LESS_EQUAL => "<=" | .LESS => "<"
  | .GREATER_EQUAL => ">=" | .GREATER => ">"
  | .LEFT_PAREN => "(" | .RIGHT_PAREN => ")" | .COMMA => "," | .EQUAL => "="
  | k => k.name

def isCmp : Kind → Bool
  | .EQUAL_EQUAL | .BANG_EQUAL | .LESS_EQUAL | .LESS | .GREATER_EQUAL | .GREATER => true
  | _ => false

/-- Level of the grammar above an infix operator belongs to, with the least level its left and
right operands must have: comparison 0, sum 1, term 2, factor (prefix sign) 3, power 4,
primary / atom 5. -/
structure PyRule where
  lvl : Nat
  leftMin : Nat
  rightMin : Nat

def pyRule (k : Kind) : Option PyRule :=
  if isCmp k then some ⟨0, 0, 1⟩                       -- left operand: the chain so far
  else match k with
    | .PLUS | .MINUS => some ⟨1, 1, 2⟩
    | .STAR | .SLASH => some ⟨2, 2, 3⟩
    | .STAR_STAR => some ⟨4, 5, 3⟩                     -- primary ** factor
    | _ => none

def pyLvl : Expr → Nat
  | .binary _ op _ =>
    match pyRule op.kind with
    | some ρ => ρ.lvl
    | none => 0
  | .unary .. => 3
  | _ => 5

/-! ### the fragment of Python that the token alphabet can spell -/

/-- A NUMBER lexeme that is also a Python literal with a modelled value (`007` is not Python). -/
def pyNumberOk (lex : String) : Bool :=
  match splitNumber lex with
  | some (ip, none) => (numberLit lex).isSome && (ip.length == 1 || ip.head? != some '0')
  | some (_, some _) => (numberLit lex).isSome
  | none => false

/-- A STRING lexeme that is also a Python string literal meaning its own contents: same quote at
both ends (the scanner closes a string at *any* quote character) and no backslash. -/
def pyStringOk (lex : String) : Bool :=
  match lex.toList with
  | q :: rest =>
    (q == '\'' || q == '"') && rest.getLast? == some q && rest.length ≥ 1
      && !(rest.dropLast.contains q) && !(rest.contains '\\')
  | [] => false

def pyLiteralOk (t : Token) : Bool :=
  match t.kind with
  | .NUMBER => pyNumberOk t.lexeme
  | .STRING => pyStringOk t.lexeme
  | .PYTHON_LITERAL => t.lexeme == "True" || t.lexeme == "False" || t.lexeme == "None"
  | _ => false

def isPlainVariable : Expr → Bool
  | .variable n => n.kind == .IDENTIFIER
  | _ => false

def isAssign : Expr → Bool
  | .assign .. => true
  | _ => false

/-- keyword names of an argument list, in order -/
def kwNames : Args → List String
  | .nil => []
  | .last e =>
    match e with
    | .assign n _ _ => (assignName n).toList
    | _ => []
  | .more e _ rest =>
    match e with
    | .assign n _ _ => (assignName n).toList ++ kwNames rest
    | _ => kwNames rest

mutual
/-- only constructs of the Python fragment; `alphaArgs as kw`: `kw` = a keyword argument has been
seen (then only keyword arguments may follow) -/
def alpha : Expr → Bool
  | .binary l op r => (pyBinOp op.kind).isSome && alpha l && alpha r
  | .unary op r => (pyUnOp op.kind).isSome && alpha r
  | .call c lp as rp =>
    isPlainVariable c && lp.kind == .LEFT_PAREN && rp.kind == .RIGHT_PAREN
      && alphaArgs as false && decide (kwNames as).Nodup
  | .grouping lp e rp => lp.kind == .LEFT_PAREN && rp.kind == .RIGHT_PAREN && alpha e
  | .variable n => n.kind == .IDENTIFIER
  | .literal t => pyLiteralOk t
  | .assign .. => false
  | .brace .. => false
  | .subset .. => false
  | .quoted _ => false
def alphaArgs : Args → Bool → Bool
  | .nil, _ => true
  | .last e, kw =>
    match e with
    | .assign n eq v => isPlainVariable n && eq.kind == .EQUAL && alpha v
    | e' => !kw && alpha e'
  | .more e c rest, kw =>
    c.kind == .COMMA && (match rest with | .nil => false | _ => true) &&
    match e with
    | .assign n eq v => isPlainVariable n && eq.kind == .EQUAL && alpha v && alphaArgs rest true
    | e' => !kw && alpha e' && alphaArgs rest false
end

/-- The tree is written in the Python fragment. -/
def PyAlphabet (e : Expr) : Bool := alpha e

mutual
/-- the level conditions of Python's grammar -/
def pyLevels : Expr → Bool
  | .binary l op r =>
    match pyRule op.kind with
    | some ρ => pyLevels l && pyLevels r && decide (ρ.leftMin ≤ pyLvl l)
                  && decide (ρ.rightMin ≤ pyLvl r)
    | none => false
  | .unary _ r => pyLevels r && decide (3 ≤ pyLvl r)
  | .call c _ as _ => pyLevels c && pyLevelsArgs as
  | .grouping _ e _ => pyLevels e
  | .assign _ _ v => pyLevels v
  | .brace _ e _ => pyLevels e
  | .variable _ => true
  | .subset .. => true
  | .quoted _ => true
  | .literal _ => true
def pyLevelsArgs : Args → Bool
  | .nil => true
  | .last e => pyLevels e
  | .more e _ rest => pyLevels e && pyLevelsArgs rest
end

/-- The tree is Python's reading of its own yield (chains as unparenthesised left spines). -/
def PyStratified (e : Expr) : Bool := PyAlphabet e && pyLevels e

/-! ### where the two grammars agree -/

def isPrimaryLevel : Expr → Bool
  | .binary .. => false
  | .unary .. => false
  | _ => true

def isCmpNode : Expr → Bool
  | .binary _ op _ => isCmp op.kind
  | _ => false

mutual
/-- no `**` whose left operand is a bare prefix sign or another bare `**` -/
def powOk : Expr → Bool
  | .binary l op r => powOk l && powOk r && (op.kind != .STAR_STAR || isPrimaryLevel l)
  | .unary _ r => powOk r
  | .call c _ as _ => powOk c && powOkArgs as
  | .grouping _ e _ => powOk e
  | .assign _ _ v => powOk v
  | .brace _ e _ => powOk e
  | .variable _ => true
  | .subset .. => true
  | .quoted _ => true
  | .literal _ => true
def powOkArgs : Args → Bool
  | .nil => true
  | .last e => powOk e
  | .more e _ rest => powOk e && powOkArgs rest
end

mutual
/-- no comparison whose left operand is a bare comparison (a chain) -/
def chainless : Expr → Bool
  | .binary l op r => chainless l && chainless r && !(isCmp op.kind && isCmpNode l)
  | .unary _ r => chainless r
  | .call c _ as _ => chainless c && chainlessArgs as
  | .grouping _ e _ => chainless e
  | .assign _ _ v => chainless v
  | .brace _ e _ => chainless e
  | .variable _ => true
  | .subset .. => true
  | .quoted _ => true
  | .literal _ => true
def chainlessArgs : Args → Bool
  | .nil => true
  | .last e => chainless e
  | .more e _ rest => chainless e && chainlessArgs rest
end

def PowCompatible (e : Expr) : Bool := powOk e
def Chainless (e : Expr) : Bool := chainless e
/-- The formula grammar and Python's grammar give the same tree with the same meaning. -/
def PyCompatible (e : Expr) : Bool := PowCompatible e && Chainless e

/-! ### Python's evaluation -/

/-- `bool(v)` -/
def truthy : Val → Except EvalErr Bool
  | .num q => .ok (q != 0)
  | .bool b => .ok b
  | .str s => .ok (s != "")
  | .none => .ok false
  | .vec [x] => .ok (x != 0)
  | .bvec [b] => .ok b
  | .vec _ => .error .ambiguous
  | .bvec _ => .error .ambiguous

def pyLiteralVal (t : Token) : Except EvalErr Val :=
  match t.kind with
  | .NUMBER =>
    match numberLit t.lexeme with
    | some v => .ok v.toVal
    | none => .error .unsupported
  | .STRING => .ok (.str (dropEnds t.lexeme))
  | .PYTHON_LITERAL =>
    if t.lexeme == "True" then .ok (.bool true)
    else if t.lexeme == "False" then .ok (.bool false)
    else if t.lexeme == "None" then .ok .none
    else .error .notPython
  | _ => .error .notPython

section
variable (env : Env)

mutual
/-- Python's value of the expression the tree spells.  A comparison whose left operand is a bare
comparison is a chain: `l op r` with `l = (… op' m)` evaluates the chain `l`; if that is false it
is the result (`and` short-circuits); otherwise the result is `m op r`, `m` being evaluated once
(`pyChain` hands its value on). -/
def pyEval : Expr → Except EvalErr Val
  | .binary l op r =>
    match pyBinOp op.kind with
    | none => .error .notPython
    | some o =>
      if isCmp op.kind && isCmpNode l then do
        let (c, m) ← pyChain l
        if ← truthy c then do
          let y ← pyEval r
          o.apply m y
        else pure c
      else do
        let x ← pyEval l
        let y ← pyEval r
        o.apply x y
  | .unary op r =>
    match pyUnOp op.kind with
    | none => .error .notPython
    | some o => do
      let x ← pyEval r
      o.apply x
  | .call c _ as _ =>
    match c with
    | .variable n =>
      match env.fn n.lexeme with
      | none => .error (.name n.lexeme)
      | some f => do
        let (xs, ks) ← pyEvalArgs as
        f xs ks
    | _ => .error .notPython
  | .grouping _ e _ => pyEval e
  | .variable n =>
    match env.var n.lexeme with
    | some v => .ok v
    | none => .error (.name n.lexeme)
  | .literal t => pyLiteralVal t
  | .assign .. => .error .notPython
  | .brace .. => .error .notPython
  | .subset .. => .error .notPython
  | .quoted _ => .error .notPython
/-- a bare comparison node as a chain: (value of the chain, value of its last operand) -/
def pyChain : Expr → Except EvalErr (Val × Val)
  | .binary l op r =>
    match pyBinOp op.kind with
    | none => .error .notPython
    | some o =>
      if isCmp op.kind && isCmpNode l then do
        let (c, m) ← pyChain l
        if ← truthy c then do
          let y ← pyEval r
          let z ← o.apply m y
          pure (z, y)
        else pure (c, c)
      else do
        let x ← pyEval l
        let y ← pyEval r
        let z ← o.apply x y
        pure (z, y)
  | _ => .error .notPython
/-- positional values and keyword values, in source order -/
def pyEvalArgs : Args → Except EvalErr (List Val × List (String × Val))
  | .nil => .ok ([], [])
  | .last e =>
    match e with
    | .assign n _ v => do
      let x ← pyEval v
      match n with
      | .variable k => pure ([], [(k.lexeme, x)])
      | _ => .error .notPython
    | e' => do
      let x ← pyEval e'
      pure ([x], [])
  | .more e _ rest =>
    match e with
    | .assign n _ v => do
      let x ← pyEval v
      match n with
      | .variable k => do
        let (xs, ks) ← pyEvalArgs rest
        pure (xs, (k.lexeme, x) :: ks)
      | _ => .error .notPython
    | e' => do
      let x ← pyEval e'
      let (xs, ks) ← pyEvalArgs rest
      pure (x :: xs, ks)
end

end

/-! ### the normalised source text -/

/-- Tokens written with single spaces.  `prev` = the previous token ends an operand, i.e. a
following `+`/`-` is infix. -/
def canonGo : Bool → List Token → String
  | _, [] => ""
  | prev, t :: ts =>
    match t.kind with
    | .IDENTIFIER => t.lexeme ++ canonGo true ts
    | .STRING => t.lexeme ++ canonGo true ts
    | .PYTHON_LITERAL => t.lexeme ++ canonGo true ts
    | .NUMBER => (numberShown t.lexeme).getD t.lexeme ++ canonGo true ts
    | .LEFT_PAREN => "(" ++ canonGo false ts
    | .RIGHT_PAREN => ")" ++ canonGo true ts
    | .COMMA => ", " ++ canonGo false ts
    | .EQUAL => "=" ++ canonGo false ts
    | k =>
      if prev then " " ++ pySymbol k ++ " " ++ canonGo false ts
      else pySymbol k ++ canonGo false ts

def canonText (ts : List Token) : String := canonGo false ts

/-! ### grouping that does not change the tree -/

-- structural equality of syntax trees (instances local to this namespace)
deriving instance DecidableEq for Expr, Args

def exprOfParse : Except Parser.ParseErr Expr → Option Expr
  | .ok e => some e
  | .error _ => none

/-- Deleting the grouping parentheses of `e` from the token sequence and parsing again (with the
formula grammar `T`) gives the tree of `e` without its grouping nodes. -/
def GroupingInert (T : Parser.Table) (e : Expr) : Bool :=
  exprOfParse (Parser.parse T (Spec.C01.ungroup e).flat) == some (Spec.C01.ungroup e)

/-- Two calls that are different lazy trees but print the same name (defect class D16). -/
def nameCollision (O : OpTable) (e₁ e₂ : Expr) : Bool :=
  match resolveCall O e₁, resolveCall O e₂ with
  | .ok t₁, .ok t₂ => t₁ != t₂ && t₁.str == t₂.str
  | _, _ => false

/-- Two calls that are different lazy trees (different text, different name or different literal
types) which `__eq__` nevertheless identifies, so that the formula keeps only one of the two terms
(defect class D21: `f(2)` / `f(2.0)`, `f(1)` / `f(True)`). -/
def literalMerge (O : OpTable) (e₁ e₂ : Expr) : Bool :=
  match resolveCall O e₁, resolveCall O e₂ with
  | .ok t₁, .ok t₂ => t₁ != t₂ && t₁.pyEq t₂ && t₁.str != t₂.str
  | _, _ => false

/-- The documented tables of `call_resolver.py`. -/
def documentedOps : OpTable :=
  { binary := [("PLUS", "add"), ("MINUS", "sub"), ("STAR_STAR", "pow"), ("STAR", "mul"),
               ("SLASH", "truediv"), ("EQUAL_EQUAL", "eq"), ("BANG_EQUAL", "ne"),
               ("LESS_EQUAL", "le"), ("LESS", "lt"), ("GREATER_EQUAL", "ge"), ("GREATER", "gt")]
    unary := [("PLUS", "pos"), ("MINUS", "neg")]
    symbols := [("add", "+"), ("pos", "+"), ("sub", "-"), ("neg", "-"), ("pow", "**"),
                ("mul", "*"), ("truediv", "/"), ("eq", "=="), ("ne", "!="), ("le", "<="),
                ("lt", "<"), ("ge", ">="), ("gt", ">")] }

end FormulaeModel.Spec.C12
