import FormulaeModel.Model.Matrices
/-
C17 — reading of the statement on what the harness observes of one matrix object
(CommonEffectsMatrix / GroupEffectsMatrix, from `design_matrices` or from `evaluate_new_data`):
per-term slices contiguous, starting at zero, in term order, exactly covering the columns;
labels as many as columns and unique; one row per retained observation.
-/
namespace FormulaeModel.Spec.C17
open FormulaeModel FormulaeModel.Design

/-- slices follow the given term order, start at `start`, are contiguous, and end at `stop` -/
def slicesFrom : List Slice → List String → Nat → Nat → Bool
  | [], [], start, stop => start == stop
  | s :: ss, n :: ns, start, stop =>
    s.name == n && s.start == start && s.start ≤ s.stop && slicesFrom ss ns s.stop stop
  | _, _, _, _ => false

def slicesOk (ss : List Slice) (termNames : List String) (ncols : Nat) : Bool :=
  slicesFrom ss termNames 0 ncols

def nodupStr : List String → Bool
  | [] => true
  | x :: xs => !xs.contains x && nodupStr xs

/-- what is observed of one matrix object -/
structure View where
  nrows : Nat
  ncols : Nat
  rowLens : List Nat            -- length of every row of design_matrix
  slices : List Slice
  termNames : List String
  labels : Option (List String)
  /-- the term labels describe this object's columns (not the case for a group matrix widened by
  unseen groups: its terms still carry the training labels and it has no data-frame view) -/
  checkLabels : Bool
  expectedRows : Nat            -- retained observations
  /-- width of every term's own block on the data of this object, in term order (observed from the
  terms themselves, not from the slices); `none` = not observed -/
  termWidths : Option (List Nat) := none

/-- every slice delimits its term's block: slice widths = the terms' own widths (`C17_slice_widths`) -/
def widthsOk (ss : List Slice) : Option (List Nat) → Bool
  | none => true
  | some ws => ss.map (fun s => s.stop - s.start) == ws

def holds (v : View) : Bool :=
  slicesOk v.slices v.termNames v.ncols
  && widthsOk v.slices v.termWidths
  && v.rowLens.length == v.nrows && v.rowLens.all (· == v.ncols)
  && v.nrows == v.expectedRows
  && (!v.checkLabels ||
      match v.labels with
      | some ls => ls.length == v.ncols && nodupStr ls
      | none => false)

/-- `__getitem__`: a known name gives its slice, an unknown one is refused -/
def getItem (ss : List Slice) (name : String) : Option Slice := ss.find? (·.name == name)

end FormulaeModel.Spec.C17
