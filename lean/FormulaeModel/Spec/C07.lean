import FormulaeModel.Model.World
/-
C07 — "Designs are isolated: no state leaks across evaluations, designs or calls."

Reading of the statement.  A *history* is a sequence of the operations build-design,
evaluate-common, evaluate-group and set-config executed in one process.  The statement says that
the output of every operation of a history is the output of the same operation in a *fresh
process-state* in which only what the operation is entitled to depend on has happened:

  * the result of `evaluate_new_data` depends only on the design and that frame (and on the
    configuration in force, which is the documented meaning of `config`): the fresh state has seen
    the last configuration change and the one `design_matrices` call that created the design;
  * building a design depends on nothing (neither on earlier designs nor on the configuration);
  * and nothing that was handed out before (training matrices, earlier results) or handed in
    (the caller's frame and namespace) is altered afterwards.

`holds` is that predicate on what was observed of one history: the pairs (output in the history,
output in the fresh state) and the outcomes of the "unchanged" observations.  It is evaluated by
the driver on the implementation's canonicalised outputs (`Out`, the output type of the model), and
the theorems of Properties/C07.lean say that the model's histories satisfy it.

What the model cannot exhibit — carried by the correspondence (harness/c07.py) only:
  * absence of writes to numpy arrays / DataFrames that were already returned or passed in: in the
    model training matrices and earlier results are immutable values; the harness compares them
    with snapshots after every operation (`unchanged` flags);
  * Python object aliasing: `evaluate_new_data` shares the `Term` objects and (for the common
    part) the `slices` dictionary between the original and the derived matrix object; the model
    has values, not references, so "the shared object is not written" is observable only through
    the snapshots of the live objects;
  * the `Polynomial` memo dictionaries (`alpha`, `norms2`, filled on the first call, read
    afterwards) and its never-set `params_set`; `Scale` and `BSpline` state: `scale/bs/poly` are
    outside the exact-rational evaluation model; their histories are compared with fresh
    processes and their instance dictionaries with snapshots, not with the model;
  * the `TRANSFORMS` registry of *classes*: the model has one transform state per call node by
    construction (`TS`); that the registry holds classes and the instance lives on the `LazyCall`
    node is tied by the translator (harness/extract_c07.py → `Generated.c07…`, `tie_lazycall`,
    `tie_transforms` in Properties/C07.lean) and exercised by histories with two designs
    over the same transform;
  * a failed operation: `step` leaves the world as it was when an evaluation raises.  That is the
    definition of `step`, not a theorem — `Except` drops the state reached before the error.  The
    justification is `C07_eval_pure` applied to every successful sub-evaluation (all intermediate
    states equal the initial one); the harness checks it on the real code (a raising evaluation
    is followed by further operations on the same design in the enumerated histories).
-/
namespace FormulaeModel.Spec.C07
open FormulaeModel FormulaeModel.Design FormulaeModel.World

/-- every operation's output equals its fresh-state output, and nothing observed changed -/
def holds (pairs : List (Out × Out)) (unchanged : List Bool) : Bool :=
  pairs.all (fun p => p.1 == p.2) && unchanged.all id

/-- the last configuration change of a history (a list of length ≤ 1) -/
def lastConfig : List Op → List Op
  | [] => []
  | o :: h =>
    match lastConfig h with
    | [] => if o.configures then [o] else []
    | l => l

/-- the operation that created design number `i` of a history (a list of length ≤ 1) -/
def creator : List Op → Nat → List Op
  | [], _ => []
  | o :: h, i =>
    if o.creates then
      match i with
      | 0 => [o]
      | j + 1 => creator h j
    else creator h i

/-- what an operation is entitled to depend on -/
def relevant (h : List Op) : Op → List Op
  | .evalCommon i _ => lastConfig h ++ creator h i
  | .evalGroup i _ => lastConfig h ++ creator h i
  | .build _ _ => []
  | .setConfig _ _ => []

/-- the operation as it is issued in the fresh state (where its design is design number 0) -/
def reindex : Op → Op
  | .evalCommon _ f => .evalCommon 0 f
  | .evalGroup _ f => .evalGroup 0 f
  | o => o

/-- output of `o` in a fresh process-state that has only seen `relevant h o` -/
def freshOutput (h : List Op) (o : Op) : Out :=
  (step (run World.init (relevant h o)) (reindex o)).2

/-- the fresh-state outputs of the operations `h`, issued after the prefix `pre` -/
def freshOutputs (pre : List Op) : List Op → List Out
  | [] => []
  | o :: h => freshOutput pre o :: freshOutputs (pre ++ [o]) h

/-- the statement about histories, for the model -/
def HistoryIndependent : Prop :=
  ∀ (h : List Op) (o : Op), (step (run World.init h) o).2 = freshOutput h o

end FormulaeModel.Spec.C07
