import FormulaeModel.Spec.C04
import FormulaeModel.Model.Config
/-
C10 — reading of the statement as relations between what the implementation returns on a new
frame with unseen values (`new`) and on the reference frame in which every unseen value has been
replaced by a seen one (`ref`), plus the documented configuration table.
-/
namespace FormulaeModel.Spec.C10
open FormulaeModel FormulaeModel.Design FormulaeModel.Spec.C04

def documentedFields : Config.Fields := [("EVAL_UNSEEN_CATEGORIES", ["error", "warning", "silent"])]

def intersects (a b : List String) : Bool := a.any b.contains

def zeroLike : Entry → Entry
  | some _ => some 0
  | none => none

/-- "every column involving that variable is zero on exactly those rows, all other entries are what
they would be without them": `colVars[c]` are the variables column `c` involves, `rowUnseen[r]`
the variables with an unseen value in row `r`. -/
def zeroRule (ref new : Matrix) (colVars rowUnseen : List (List String)) : Bool :=
  ref.length == new.length &&
  (List.range new.length).all (fun r =>
    let rr := ref.getD r []
    let rn := new.getD r []
    rr.length == rn.length && rn.length == colVars.length &&
    (List.range rn.length).all (fun c =>
      let want : Entry :=
        if intersects (rowUnseen.getD r []) (colVars.getD c []) then some 0 else rr.getD c none
      closeE want (rn.getD c none)))

def sumSlots (row : List Entry) (G p k : Nat) : Entry :=
  (List.range G).foldl (fun acc g =>
    match acc, row.getD (g * p + k) none with
    | some a, some b => some (a + b)
    | _, _ => none) (some 0)

/-- "an unseen group is mapped to one additional trailing group block per term of that factor
carrying the effect values of exactly those rows, existing blocks are unchanged": one
group-specific term with effect width `p`; `rowNewGroup[r]`: the grouping cell of row `r` is
unseen; `rowEffUnseen[r]`: an effect variable of the term has an unseen value in row `r`
(then, as for predictors, the whole row of the block is zero). -/
def groupRule (zref znew : Matrix) (p : Nat) (rowNewGroup rowEffUnseen : List Bool) : Bool :=
  let wref := zref.ncols
  let G := if p == 0 then 0 else wref / p
  let anyNew := rowNewGroup.any id
  let wnew := if anyNew then wref + p else wref
  zref.length == znew.length &&
  (List.range znew.length).all (fun r =>
    let rr := zref.getD r []
    let rn := znew.getD r []
    rn.length == wnew &&
    (List.range wnew).all (fun c =>
      let want : Entry :=
        if rowEffUnseen.getD r false then some 0
        else if rowNewGroup.getD r false then
          (if c < wref then some 0 else sumSlots rr G p (c - wref))
        else (if c < wref then rr.getD c none else some 0)
      closeE want (rn.getD c none)))

/-- ordered duplicate-free list of the factor names of the terms that got a new group -/
def expectedFactors (terms : List (String × Bool)) : List String :=
  terms.foldl (fun acc t => if t.2 && !acc.contains t.1 then acc ++ [t.1] else acc) []

end FormulaeModel.Spec.C10
