import FormulaeModel.Spec.C06
/-
C08 — reading of the statement as relations between a base run and a transformed run of
`design_matrices`:

* rows permuted by σ  ⇒ response / common / group matrices have their rows permuted by σ and
  nothing else changes (labels, column order, levels, slices, fitted transform parameters);
* index relabelled, columns reordered, unused columns added or removed ⇒ nothing changes at all.
-/
namespace FormulaeModel.Spec.C08
open FormulaeModel FormulaeModel.Design FormulaeModel.Spec.C04 FormulaeModel.Spec.C06

/-- `sigma[i]` = the base row that is row `i` of the permuted frame -/
def permutedOk (base permuted : Matrix) (sigma : List Nat) : Bool :=
  rowsEqual permuted (selectRows base sigma)

def unchangedOk (base other : Matrix) : Bool := rowsEqual other base

def isPermutation (sigma : List Nat) (n : Nat) : Bool :=
  sigma.length == n && (List.range n).all sigma.contains

end FormulaeModel.Spec.C08
