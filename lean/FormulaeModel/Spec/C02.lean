import FormulaeModel.Model.Resolver
/-
C02 — reading of the statement: the Wilkinson–Rogers / lme4 expansion as a denotation of the AST.

A term is its ordered duplicate-free factor list (`List Atom`); sets of terms are represented by
lists and compared as sets (`sameSet`).

  +  union            -  difference          a:b  pairwise, repeated factors collapsed
  a*b = a + b + a:b   a/b = a + (all factors of a):b
  (e)**n = e + all interactions of 2..n distinct terms of e
  (eff | grp) = one group-specific term per term of eff (plus the implicit intercept unless eff
                removes it with 0 / -1) and per term of grp
  1 / 0 / -1 as additive items of the right-hand side or of the effect side add / remove the
  intercept (the last one wins); the right-hand side has the intercept by default — the scanner
  makes that explicit by inserting `1 +`, so the chain semantics starts without it.
-/
namespace FormulaeModel.Spec.C02
open FormulaeModel FormulaeModel.Terms FormulaeModel.Resolver

abbrev STerm := List Atom

/-- a group-specific term: effect (`none` = intercept) and grouping factor -/
structure SG where
  eff : Option STerm
  fac : STerm
  deriving DecidableEq

structure Sem where
  resp : Option Atom
  icpt : Bool
  common : List STerm
  group : List SG

def union [BEq α] (a b : List α) : List α := a ++ b.filter (fun x => !a.contains x)
def diff [BEq α] (a b : List α) : List α := a.filter (fun x => !b.contains x)
/-- duplicates removed, first occurrence kept (the list represents a set; the order only fixes
the factor order of the terms `/` builds from "all factors of a") -/
def nub [BEq α] (l : List α) : List α := dedup l

def interT (a b : STerm) : STerm := dedup (a ++ b)
def interS (a b : List STerm) : List STerm := nub (a.flatMap (fun x => b.map (fun y => interT x y)))

def natOfLexeme (s : String) : Option Nat :=
  if s.toList.all Char.isDigit then some (digitsVal s.toList) else none

/-- the atom of an atomic expression (variable, backquoted name, call, `{…}`) -/
def atomOf : Expr → Option Atom
  | .variable n => some (.var (.str n.lexeme) none)
  | .quoted t => some (.var (.str (String.ofList ((t.lexeme.toList.drop 1).dropLast))) none)
  | .call c _ as _ => (callAtom c as).toOption
  | .brace lb e rb =>
    match noKw (lazyArg (.brace lb e rb)) with
    | .ok (nm, key) => some (.call nm key)
    | .error _ => none
  | _ => none

/-- Denotation of an intercept-free expression: a set of terms (`none`: not in the language). -/
def denT : Expr → Option (List STerm)
  | .grouping _ e _ => denT e
  | .binary l op r =>
    match op.kind with
    | .PLUS => do let a ← denT l; let b ← denT r; pure (union a b)
    | .MINUS => do let a ← denT l; let b ← denT r; pure (diff a b)
    | .COLON => do let a ← denT l; let b ← denT r; pure (interS a b)
    | .STAR => do let a ← denT l; let b ← denT r; pure (union (union a b) (interS a b))
    | .SLASH => do
      let a ← denT l; let b ← denT r
      let fa := dedup a.flatten
      pure (union a (nub (b.map (fun y => interT fa y))))
    | .STAR_STAR => do
      let a ← denT l
      match r with
      | .literal t =>
        match (if t.kind == .NUMBER then natOfLexeme t.lexeme else none) with
        | some n =>
          if n ≥ 1 then
            let combs := (List.range (n + 1)).flatMap (fun i =>
              if i ≥ 2 then combinations a i else [])
            pure (union a (nub (combs.map (fun ts => dedup ts.flatten))))
          else none
        | none => none
      | _ => none
    | _ => none
  | e => (atomOf e).map (fun a => [[a]])

/-- every `**` exponent is a literal ≥ 2: the part of the intercept-free fragment on which
nothing is refused (`** 1` is D5) -/
def expGe2 : Expr → Bool
  | .grouping _ e _ => expGe2 e
  | .binary l op r =>
    if op.kind == .STAR_STAR then
      expGe2 l && (match r with
        | .literal t => (match natOfLexeme t.lexeme with | some n => decide (n ≥ 2) | none => false)
        | _ => false)
    else expGe2 l && expGe2 r
  | _ => true

/-- the terms of a resolved intercept-free value (a `Term`, or a `Model` of `Term`s), in the
order the implementation holds them -/
def termsOf : Obj → List STerm
  | .c (.term cs) => [cs]
  | .model m => m.common.filterMap (fun t => match t with | .term cs => some cs | _ => none)
  | _ => []

/-- a `Term`, or a `Model` without response and group-specific terms whose common terms are all
`Term`s -/
def isPlainValue : Obj → Bool
  | .c (.term _) => true
  | .model m => m.group.isEmpty && m.resp.isNone &&
      m.common.all (fun t => match t with | .term _ => true | _ => false)
  | _ => false

/-- additive chain: items with their sign, leftmost first -/
def chain : Expr → List (Bool × Expr)
  | .binary l op r =>
    if op.kind == .PLUS then chain l ++ [(true, r)]
    else if op.kind == .MINUS then chain l ++ [(false, r)]
    else [(true, .binary l op r)]
  | e => [(true, e)]

inductive Item
  | addI | remI
  | plain (pos : Bool) (ts : List STerm)
  | grp (pos : Bool) (gs : List SG)

def isLit (e : Expr) (s : String) : Bool :=
  match e with
  | .literal t => t.kind == .NUMBER && t.lexeme == s
  | _ => false

/-- intercept literal items in the documented spellings: `+ 1`, `+ 0`, `- 1`, `+ -1` -/
def literalItem (pos : Bool) (e : Expr) : Option Item :=
  if pos && isLit e "1" then some .addI
  else if pos && isLit e "0" then some .remI
  else if !pos && isLit e "1" then some .remI
  else match e with
    | .unary op r => if pos && op.kind == .MINUS && isLit r "1" then some .remI else none
    | _ => none

/-- one item of the effect side of `|` -/
def effStep (st : Bool × List STerm) (it : Bool × Expr) : Option (Bool × List STerm) :=
  match literalItem it.1 it.2 with
  | some .addI => some (true, st.2)
  | some .remI => some (false, st.2)
  | _ => do
    let ts ← denT it.2
    pure (st.1, if it.1 then union st.2 ts else diff st.2 ts)

/-- effect side of `|`: last intercept literal wins, implicit intercept by default -/
def effChain (items : List (Bool × Expr)) : Option (Bool × List STerm) :=
  items.foldlM effStep (true, [])

def stripGroup : Expr → Expr
  | .grouping _ e _ => stripGroup e
  | e => e

/-- `(eff | grp)` -/
def denG (e : Expr) : Option (List SG) :=
  match stripGroup e with
  | .binary eff op grp =>
    if op.kind == .PIPE then do
      let (icpt, ets) ← effChain (chain eff)
      let gts ← denT grp
      let effs : List (Option STerm) := (if icpt then [none] else []) ++ ets.map some
      -- an empty effect side, `(0 | g)`, is not a formula of the language
      if effs.isEmpty || gts.isEmpty then none
      else pure (effs.flatMap (fun x => gts.map (fun f => ⟨x, f⟩)))
    else none
  | _ => none

def isGroupExpr (e : Expr) : Bool :=
  match stripGroup e with
  | .binary _ op _ => op.kind == .PIPE
  | _ => false

def topItem (it : Bool × Expr) : Option Item :=
  match literalItem it.1 it.2 with
  | some i => some i
  | none =>
    if isGroupExpr it.2 then (denG it.2).map (.grp it.1)
    else match it.2 with
      | .grouping .. => if isGroupExpr it.2 then none else (denT it.2).map (.plain it.1)
      | _ => (denT it.2).map (.plain it.1)

def respAtom : Expr → Option Atom
  | .subset n _ lv _ =>
    match lv with
    | .variable l => some (.var (.str n.lexeme) (some l.lexeme))
    | .literal t =>
      if t.kind == .STRING then
        some (.var (.str n.lexeme) (some (String.ofList ((t.lexeme.toList.drop 1).dropLast))))
      else none
    | _ => none
  | e => atomOf e

/-- right-hand side of a formula -/
def rhsOf : Expr → Expr
  | .binary l op r => if op.kind == .TILDE then r else .binary l op r
  | e => e

/-- left-hand side of a formula, if it has one -/
def respOf : Expr → Option Expr
  | .binary l op _ => if op.kind == .TILDE then some l else none
  | _ => none

/-- state of the additive chain of the right-hand side: intercept, common terms, group terms -/
abbrev ChainSt := Bool × List STerm × List SG

def stepItem (st : ChainSt) : Item → ChainSt
  | .addI => (true, st.2.1, st.2.2)
  | .remI => (false, st.2.1, st.2.2)
  | .plain true ts => (st.1, union st.2.1 ts, st.2.2)
  | .plain false ts => (st.1, diff st.2.1 ts, st.2.2)
  | .grp true gs => (st.1, st.2.1, union st.2.2 gs)
  | .grp false gs => (st.1, st.2.1, diff st.2.2 gs)

/-- the additive chain of a right-hand side, items taken left to right -/
def denRhs (rhs : Expr) : Option ChainSt := do
  let items ← (chain rhs).mapM topItem
  pure (items.foldl stepItem (false, [], []))

/-- Denotation of a whole formula AST; `none` = outside the documented language (`Lang`). -/
def den (e : Expr) : Option Sem := do
  let ra ← match respOf e with
    | some r => (respAtom r).map some
    | none => some none
  let st ← denRhs (rhsOf e)
  pure ⟨ra, st.1, st.2.1, st.2.2⟩

def Lang (e : Expr) : Bool := (den e).isSome

/-- leftmost item of an additive chain -/
def chainHead : Expr → Expr
  | .binary l op r =>
    if op.kind == .PLUS || op.kind == .MINUS then chainHead l else .binary l op r
  | e => e

/-- the right-hand side is an additive chain that starts with the literal `1` — what the scanner's
implicit `1 +` produces (whenever the formula has a `~`, and without one unless a bare `|` ends up
on top) -/
def implicitOne (e : Expr) : Bool := isLit (chainHead (rhsOf e)) "1"

/-- the whole formula is one bare `eff | grp` (no `~`; the scanner's `1 +` ends up inside `eff`) -/
def barePipe (e : Expr) : Bool :=
  match e with
  | .binary _ op _ => op.kind == .PIPE
  | _ => false

/-- a common term read as a term of the algebra: `none` = the intercept; a left-over
NegatedIntercept is not a term -/
def cOf : CTerm → Option (Option STerm)
  | .term cs => some (some cs)
  | .intercept => some none
  | .negIntercept => none

/-- a group-specific term read as a term of the algebra -/
def sgOf (g : GTerm) : Option SG :=
  match g.expr, g.factor with
  | .term a, .term f => some ⟨some a, f⟩
  | .intercept, .term f => some ⟨none, f⟩
  | _, _ => none

/-- What `model_description` returned, read as a `Sem` (`none` if it contains something that is
not a term of the algebra, e.g. a left-over NegatedIntercept). -/
def semOfModel (m : ModelV) : Option Sem := do
  let cs ← m.common.mapM cOf
  let gs ← m.group.mapM sgOf
  let ra ← match m.resp with
    | some [a] => some (some a)
    | none => some none
    | _ => none
  pure ⟨ra, cs.contains none, cs.filterMap id, gs⟩

def semEq (a b : Sem) : Bool :=
  a.resp == b.resp && a.icpt == b.icpt && sameSet a.common b.common && sameSet a.group b.group

-- ---------------------------------------------------------------------------------------------
-- known gaps of the pinned tree (classes of inputs on which the implementation answers wrongly)
-- ---------------------------------------------------------------------------------------------
def isRemItem : Option Item → Bool
  | some .remI => true
  | _ => false

def isAddItem : Option Item → Bool
  | some .addI => true
  | _ => false

/-- D3: on the effect side of `|`, an intercept-removing literal that is not the first item, or
an intercept-adding literal after a removal: the implementation forgets the removal. -/
def effGapD3 (items : List (Bool × Expr)) : Bool :=
  let lits := items.map (fun it => literalItem it.1 it.2)
  (lits.drop 1).any isRemItem || ((lits.take 1).any isRemItem && (lits.drop 1).any isAddItem)

/-- the D3 class of one chain item -/
def itemD3 (r : Expr) : Bool :=
  match stripGroup r with
  | .binary eff op _ => op.kind == .PIPE && effGapD3 (chain eff)
  | _ => false

def hasGapD3 (e : Expr) : Bool := (chain (rhsOf e)).any (fun it => itemD3 it.2)

mutual
/-- some sub-expression (outside call arguments) satisfies `p` -/
def anySub (p : Expr → Bool) : Expr → Bool
  | .grouping l e r => p (.grouping l e r) || anySub p e
  | .binary l op r => p (.binary l op r) || anySub p l || anySub p r
  | .unary op r => p (.unary op r) || anySub p r
  | e => p e
end

/-- all atoms at term positions of an expression -/
def atomsOf : Expr → List Atom
  | .grouping _ e _ => atomsOf e
  | .binary l _ r => atomsOf l ++ atomsOf r
  | .unary _ r => atomsOf r
  | e => (atomOf e).toList

/-- two call atoms with the same structure (Python: the same component) but different text:
the model's structural equality is finer than Python's there; such formulas are not compared. -/
def ambiguousIdentity (e : Expr) : Bool :=
  let as := atomsOf e
  as.any (fun a => as.any (fun b =>
    match a, b with
    | .call n k, .call n' k' => k == k' && n != n'
    | _, _ => false))

section
variable (ops : OpTable)

/-- D22: `m * n` for two *equal* multi-term models returns `m`: `Model.__mul__` starts with
`if self == other: return self`, so `(a + b) * (a + b)` loses `a:b`. -/
def gapD22 (e : Expr) : Bool :=
  anySub (fun x =>
    match x with
    | .binary l op r =>
      op.kind == .STAR &&
      (match resolve ops l, resolve ops r with
       | .ok (.model m), .ok (.model o) =>
         (match modelEq m o with | .ok true => (nub m.common).length ≥ 2 | _ => false)
       | _, _ => false)
    | _ => false) e

/-- an integer literal of value 1 (`1`, `01`, …) -/
def isOneLit (e : Expr) : Bool :=
  match e with
  | .literal t => t.kind == .NUMBER && natOfLexeme t.lexeme == some 1
  | _ => false

/-- D5: `(…) ** 1` — the literal 1 is resolved to an Intercept. -/
def gapD5 (e : Expr) : Bool :=
  anySub (fun x =>
    match x with
    | .binary _ op r => op.kind == .STAR_STAR && (isLit (stripGroup r) "1" || isOneLit r)
    | _ => false) e

/-- D4: missing overloads around intercept literals (`Term ± literal`, `Intercept - Term`,
`NegatedIntercept - …`): both operands resolve, one of them to a bare (negated) intercept, and the
operator raises TypeError. -/
def gapD4 (e : Expr) : Bool :=
  let bare := fun (o : Obj) => match o with
    | .c .intercept => true | .c .negIntercept => true | _ => false
  anySub (fun x =>
    match x with
    | .binary l op r =>
      (op.kind == .PLUS || op.kind == .MINUS) &&
      (match resolve ops l, resolve ops r with
       | .ok a, .ok b =>
         (bare a || bare b) &&
         (match (if op.kind == .PLUS then add a b else sub a b) with
          | .error .typeError => true | _ => false)
       | _, _ => false)
    | _ => false) e

/-- D24: `Model(*terms)` keeps duplicates (e.g. the operands of `*` share a term) and
`Model.__sub__` removes only the first occurrence, so a subtraction applied to such a model before
the next de-duplicating `+` leaves a copy behind: `((a + b) * (a + c) - a) : d` still has `a:d`. -/
def gapD24 (e : Expr) : Bool :=
  anySub (fun x =>
    match x with
    | .binary l op _ =>
      op.kind == .MINUS &&
      (match resolve ops l with
       | .ok (.model m) => (nub m.common).length != m.common.length || (nub m.group).length != m.group.length
       | _ => false)
    | _ => false) e

/-- D25: same root cause as D24 (`Model(*terms)` keeps duplicates), exposed by `**`:
`Model.__pow__` forms `itertools.combinations` of the term list *with* its duplicates, so the two
copies of a term pair with a third term in both orders and the same interaction comes out twice
with permuted factors: `((p + r + p:q):q) ** 2` has both `p:q:r` and `r:q:p` (and a following
`- p:q:r` leaves `r:q:p` behind). -/
def gapD25 (e : Expr) : Bool :=
  anySub (fun x =>
    match x with
    | .binary l op _ =>
      op.kind == .STAR_STAR &&
      (match resolve ops l with
       | .ok (.model m) => (nub m.common).length != m.common.length
       | _ => false)
    | _ => false) e

/-- D26: same root cause again (`Model(*terms)` keeps duplicates), exposed by a bare top-level
`|` (only possible without a `~`: `a | (g + h) * (g + k)` is scanned to `1 + a | …` and parsed as
`(1 + a) | …`): the result of `Model.__or__` is returned as it is, no `add_term` ever runs, and a
duplicate on either side of `|` gives the same group-specific term twice. -/
def gapD26 (e : Expr) : Bool :=
  match e with
  | .binary _ op _ =>
    op.kind == .PIPE &&
    (match describe ops e with
     | .ok m => (nub m.group).length != m.group.length
     | .error _ => false)
  | _ => false

def gapClasses (e : Expr) : List String :=
  (if hasGapD3 e then ["D3"] else []) ++ (if gapD4 ops e then ["D4"] else []) ++ (if gapD5 e then ["D5"] else []) ++
  (if gapD22 ops e then ["D22"] else []) ++ (if gapD24 ops e then ["D24"] else []) ++
  (if gapD25 ops e then ["D25"] else []) ++ (if gapD26 ops e then ["D26"] else [])
end

end FormulaeModel.Spec.C02
