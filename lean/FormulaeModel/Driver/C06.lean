import FormulaeModel.Driver.Base
import FormulaeModel.Driver.C04
import FormulaeModel.Spec.C06
namespace FormulaeModel.Driver.C06
open Lean FormulaeModel FormulaeModel.Driver FormulaeModel.Design FormulaeModel.Driver.C04

/-- Spec.C06 on what the implementation returned: the new-data matrix equals the selected
training rows; plus the defect classes of the (formula, training frame, new frame) triple -/
def specC06 (j : Json) : Json :=
  let s := getStr j "formula"
  match Scanner.scan s.toList with
  | .error _ => errJ "scan"
  | .ok ts =>
    match Parser.parse Generated.parserTable ts with
    | .error _ => errJ "parse"
    | .ok e =>
      let frame := frameOfJson ((j.getObjVal? "frame").toOption.getD Json.null)
      let names := namesOfJson ((j.getObjVal? "names").toOption.getD Json.null)
      let env : Env := { frame, names }
      let checks := (getArr j "checks").map (fun c =>
        let idx := (getArr c "idx").filterMap (fun x => x.getNat?.toOption)
        let train := matrixOfJson ((c.getObjVal? "train").toOption.getD Json.null)
        let newEnv : Env := { frame := frame.rows idx, names }
        let classes :=
          (if Spec.C06.classD13 env newEnv e then ["D13"] else []) ++
          (if Spec.C06.classD14 env newEnv e then ["D14"] else [])
        match c.getObjVal? "new" with
        | .ok (.arr a) =>
          Json.mkObj [("holds", Spec.C06.holds train (matrixOfJson (.arr a)) idx),
                      ("classes", jStrs classes)]
        | _ => Json.mkObj [("holds", false), ("classes", jStrs classes)])
      Json.mkObj [("checks", Json.arr checks.toArray)]

def handle (op : String) (j : Json) : Option Json :=
  match op with
  | "c06_spec" => some (specC06 j)
  | _ => none

end FormulaeModel.Driver.C06
