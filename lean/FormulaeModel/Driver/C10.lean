import FormulaeModel.Driver.Base
import FormulaeModel.Driver.C04
import FormulaeModel.Driver.C17
import FormulaeModel.Spec.C10
import FormulaeModel.Spec.C17
import FormulaeModel.Generated.Tables
namespace FormulaeModel.Driver.C10
open Lean FormulaeModel FormulaeModel.Driver FormulaeModel.Design FormulaeModel.Driver.C04

def strLists (j : Json) (k : String) : List (List String) :=
  (getArr j k).map (fun x => match x with
    | .arr a => a.toList.filterMap (fun y => match y with | .str s => some s | _ => none)
    | _ => [])

def boolList (j : Json) (k : String) : List Bool :=
  (getArr j k).map (fun x => match x with | .bool b => b | _ => false)

/-- raise / warn policy: error mode raises (ValueError) iff something is unseen, otherwise never;
warning mode warns iff something is unseen; silent never warns -/
def policyOk (mode : String) (anyUnseen : Bool) (err : Option String) (warn : Bool) : Bool :=
  if mode == "error" then
    (if anyUnseen then err == some "ValueError" else err == none) && !warn
  else err == none && (warn == (mode == "warning" && anyUnseen))

def optStr (j : Json) (k : String) : Option String :=
  match j.getObjVal? k with
  | .ok (.str s) => some s
  | _ => none

def specC10 (j : Json) : Json :=
  let mode := getStr j "mode"
  let common : Json :=
    match j.getObjVal? "common" with
    | .ok (.obj o) =>
      let c := Json.obj o
      let anyUnseen := getBool c "any_unseen"
      let pol := policyOk mode anyUnseen (optStr c "err") (getBool c "warn")
      let zr := match c.getObjVal? "new" with
        | .ok (.arr a) =>
          Spec.C10.zeroRule (matrixOfJson ((c.getObjVal? "ref").toOption.getD Json.null))
            (matrixOfJson (.arr a)) (strLists c "col_vars") (strLists c "row_unseen")
        | _ => true
      Json.mkObj [("policy_ok", pol), ("zero_rule_ok", zr)]
    | _ => Json.null
  let group : Json :=
    match j.getObjVal? "group" with
    | .ok (.obj o) =>
      let g := Json.obj o
      let anyUnseen := getBool g "any_unseen"
      let pol := policyOk mode anyUnseen (optStr g "err") (getBool g "warn")
      let terms := getArr g "terms"
      let rules := terms.map (fun t =>
        match t.getObjVal? "new" with
        | .ok (.arr a) =>
          Spec.C10.groupRule (matrixOfJson ((t.getObjVal? "ref").toOption.getD Json.null))
            (matrixOfJson (.arr a)) (getNat t "p") (boolList t "row_new") (boolList t "row_eff")
        | _ => true)
      let expectedF := Spec.C10.expectedFactors (terms.map (fun t =>
        (getStr t "factor", (boolList t "row_new").any id)))
      let fOk := (optStr g "err").isSome || strList g "factors_with_new_levels" == expectedF
      let slices := (getArr g "slices").filterMap Driver.C17.sliceOfJson
      let sOk := (optStr g "err").isSome ||
        Spec.C17.slicesOk slices (terms.map (fun t => getStr t "name")) (getNat g "ncols")
      Json.mkObj [("policy_ok", pol), ("group_rule_ok", rules.all id), ("factors_ok", fOk),
                  ("slices_ok", sOk), ("expected_factors", jStrs expectedF)]
    | _ => Json.null
  Json.mkObj [("common", common), ("group", group)]

/-- the configuration object: which (key, value) pairs are accepted, by the model generic in the
regenerated field table -/
def configOp (j : Json) : Json :=
  let key := getStr j "key"
  let value := getStr j "value"
  match Config.set Generated.configFields (Config.init Generated.configFields) key value with
  | .ok st => Json.mkObj [("ok", true), ("value", match Config.get st key with | .ok v => Json.str v | _ => Json.null)]
  | .error .keyError => errJ "KeyError"
  | .error .valueError => errJ "ValueError"
  | .error .attributeError => errJ "AttributeError"

/-- a sequence of assignments `config[key] = value` starting from `Config()`: per step whether the
model accepts it (`Config.set`) and the value of EVAL_UNSEEN_CATEGORIES in force afterwards.  A
refused assignment yields no new state (`Config.set` returns `.error`), so the state in force stays
the previous one — the statement's "accepts only its documented keys and values". -/
def configSeqOp (j : Json) : Json :=
  let steps := (getArr j "steps").map (fun s => match s with
    | .arr #[.str k, .str v] => (k, v)
    | _ => ("", ""))
  let inForce (st : Config.State) : Json :=
    match Config.get st "EVAL_UNSEEN_CATEGORIES" with | .ok v => Json.str v | _ => Json.null
  let (_, outs) := steps.foldl (fun (acc : Config.State × List Json) kv =>
    let (st, outs) := acc
    match Config.set Generated.configFields st kv.1 kv.2 with
    | .ok st' => (st', outs ++ [Json.mkObj [("ok", true), ("value", inForce st')]])
    | .error e =>
      let cls := match e with
        | .keyError => "KeyError" | .valueError => "ValueError" | .attributeError => "AttributeError"
      (st, outs ++ [Json.mkObj [("err", cls), ("value", inForce st)]]))
    (Config.init Generated.configFields, [])
  Json.mkObj [("steps", Json.arr outs.toArray)]

def handle (op : String) (j : Json) : Option Json :=
  match op with
  | "c10_spec" => some (specC10 j)
  | "c10_config" => some (configOp j)
  | "c10_config_seq" => some (configSeqOp j)
  | _ => none

end FormulaeModel.Driver.C10
