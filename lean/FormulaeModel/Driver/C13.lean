import FormulaeModel.Driver.Base
import FormulaeModel.Model.Coding
import FormulaeModel.Spec.C13
/-
Driver operations of C13.

* `c13_code`    `Treatment(arg).code_*` / `Sum(arg).code_*` on a list of levels: the model's answer,
                and the specification (`Spec.C13.codingHolds`: shape, rows, zero sums, basis with
                the explicit inverse, labels) evaluated on the *implementation's* matrix and labels.
* `c13_design`  a factor written in one of the spellings, evaluated on a column: the model's
                answer (`evalSpelling`), the guards (`inScope`, `aliasOnBox`) and the specification
                (`Spec.C13.outcomeHolds`) on the implementation's levels / contrast matrix / labels /
                design rows.
* `c13_rows`    the prediction path: `Spec.C13.rowsFollowLevels` (the predicate `c13_design` uses for
                the training rows) on the rows `evaluate_new_data` returned for a new column, with
                the levels and the contrast matrix the factor remembered from training.
-/
namespace FormulaeModel.Driver.C13
open Lean FormulaeModel FormulaeModel.Driver FormulaeModel.Coding FormulaeModel.Spec.C13

def optStr (j : Json) (k : String) : Option String :=
  match j.getObjVal? k with
  | .ok (.str s) => some s
  | _ => none

def optStrList (j : Json) (k : String) : Option (List String) :=
  match j.getObjVal? k with
  | .ok (.arr a) => some (a.toList.filterMap fun x => match x with | .str s => some s | _ => none)
  | _ => none

def intList (j : Json) : List Int :=
  match j with
  | .arr a => a.toList.filterMap fun x => (x.getInt?).toOption
  | _ => []

def matrixOf (j : Json) (k : String) : IMatrix := (getArr j k).map intList

def jMatrix (m : IMatrix) : Json :=
  Json.arr (m.map fun row => Json.arr (row.map fun (x : Int) => toJson x).toArray).toArray

def errJson (e : Err) : Json := Json.mkObj [("err", e.tag), ("cls", e.pyClass)]

def cmJson (cm : ContrastMatrix) : Json :=
  Json.mkObj [("matrix", jMatrix cm.matrix), ("labels", jStrs cm.labels)]

def contrastOf (enc : String) (arg : Option String) : Contrast :=
  if enc == "Sum" then .sum arg else .treatment arg

def implObj (j : Json) : Json := (j.getObjVal? "impl").toOption.getD Json.null
def implIsErr (j : Json) : Bool := (optStr (implObj j) "err").isSome

def verdict (b : Bool) : Json := if b then "holds" else "fails"

/-- individual predicates of the coding, for diagnostics -/
def codeParts (c : Contrast) (spans : Bool) (levels : List String) (M : IMatrix)
    (labels : List String) : Json :=
  let n := levels.length
  match c, spans with
  | .treatment ref, false =>
    match referenceIndex? ref levels with
    | some r => Json.mkObj [("index", (r : Nat)), ("shape_rows", treatmentReduced levels r M labels),
        ("basis", treatmentBasis n r M), ("labels", indicatorOfLabel levels labels M)]
    | none => Json.mkObj [("index", Json.null)]
  | .treatment _, true =>
    Json.mkObj [("identity", treatmentFull levels M labels),
      ("labels", indicatorOfLabel levels labels M)]
  | .sum om, false =>
    match omitIndex? om levels with
    | some o => Json.mkObj [("index", (o : Nat)), ("shape_rows_zero_sum", sumReduced levels o M labels),
        ("basis", sumBasis n o M), ("labels", plusOneAtLabel levels labels M 0)]
    | none => Json.mkObj [("index", Json.null)]
  | .sum om, true =>
    match omitIndex? om levels with
    | some o => Json.mkObj [("index", (o : Nat)), ("full", sumFull levels o M labels),
        ("spans", spansIndicators n o M), ("labels", plusOneAtLabel levels labels M 1)]
    | none => Json.mkObj [("index", Json.null)]

def runCode (j : Json) : Json :=
  let enc := getStr j "enc"
  let arg := optStr j "arg"
  let levels := strList j "levels"
  let spans := getBool j "with"
  let c := contrastOf enc arg
  let model := match c.code spans levels with
    | .ok cm => okJ (cmJson cm)
    | .error e => errJson e
  let impl := implObj j
  let spec :=
    if !(decide levels.Nodup) then Json.mkObj [("verdict", "unspecified"), ("why", "levels not distinct")]
    else if implIsErr j then
      Json.mkObj [("verdict", verdict (!contrastResolvable c spans levels)), ("expect",
        if contrastResolvable c spans levels then "evaluated" else "refused")]
    else
      let M := matrixOf impl "matrix"
      let labels := strList impl "labels"
      Json.mkObj [("verdict", verdict ((codingHolds c spans levels M labels).getD false)),
        ("expect", if contrastResolvable c spans levels then "evaluated" else "refused"),
        ("parts", codeParts c spans levels M labels)]
  Json.mkObj [("model", model), ("spec", spec)]

def contrastArgOf (j : Json) (k : String) : ContrastArg :=
  match j.getObjVal? k with
  | .ok o =>
    match optStr o "cls", optStr o "inst" with
    | some "Sum", _ => .cls .Sum
    | some _, _ => .cls .Treatment
    | none, some enc => .inst (contrastOf enc (optStr o "arg"))
    | none, none => .none
  | _ => .none

def spellingOf (j : Json) : Spelling :=
  match getStr j "kind" with
  | "c" => .c (contrastArgOf j "contrast") (optStrList j "levels")
  | "t" => .t (optStr j "arg") (optStrList j "levels")
  | "s" => .s (optStr j "arg") (optStrList j "levels")
  | "cc" => .cc (contrastArgOf j "c1") (optStrList j "l1") (contrastArgOf j "c2") (optStrList j "l2")
  | "tc" => .tc (contrastArgOf j "c1") (optStrList j "l1") (optStr j "arg")
  | "sc" => .sc (contrastArgOf j "c1") (optStrList j "l1") (optStr j "arg")
  | _ => .plain

def evJson (ev : Evaluated) : Json :=
  Json.mkObj [("levels", jStrs ev.levels), ("matrix", jMatrix ev.contrast.matrix),
    ("labels", jStrs ev.contrast.labels), ("value", jMatrix ev.value),
    ("spans", ev.spansIntercept)]

def runDesign (j : Json) : Json :=
  let d : Data := ⟨strList j "data", optStrList j "ordered"⟩
  let sp := spellingOf ((j.getObjVal? "spelling").toOption.getD Json.null)
  let spans := getBool j "spans"
  let model := match evalSpelling d sp spans with
    | .ok ev => okJ (evJson ev)
    | .error e => errJson e
  let impl := implObj j
  let out : Option Evaluated :=
    if implIsErr j then none
    else some ⟨strList impl "levels", ⟨matrixOf impl "matrix", strList impl "labels"⟩,
      matrixOf impl "value", getBool impl "spans"⟩
  let scope := inScope d sp
  let (contrast, explicit) := meaning sp
  let parts := match out with
    | some ev => Json.mkObj [
        ("coding", match codingHolds contrast ev.spansIntercept ev.levels ev.contrast.matrix ev.contrast.labels with
          | some b => toJson b | none => Json.null),
        ("levels_order", levelsOK d explicit ev.levels),
        ("rows", rowsFollowLevels ev.levels d.values ev.contrast.matrix ev.value),
        ("spans", ev.spansIntercept == spans)]
    | none => Json.mkObj [("resolvable", optionResolvable d sp spans)]
  let spec :=
    if !scope then Json.mkObj [("verdict", "unspecified"), ("why", "outside the scope (levels are not an arrangement of the observed levels)")]
    else Json.mkObj [("verdict", verdict (outcomeHolds d sp spans out)), ("parts", parts)]
  Json.mkObj [("model", model), ("spec", spec), ("in_scope", scope),
    ("classes", jStrs (if aliasOnBox sp then ["aliasOnBox"] else []))]

/-- every row of the new-data matrix is the contrast row of that row's level -/
def runRows (j : Json) : Json :=
  Json.mkObj [("rows", rowsFollowLevels (strList j "levels") (strList j "data") (matrixOf j "matrix")
    (matrixOf j "value"))]

def handle (op : String) (j : Json) : Option Json :=
  match op with
  | "c13_code" => some (runCode j)
  | "c13_rows" => some (runRows j)
  | "c13_design" => some (runDesign j)
  | _ => none

end FormulaeModel.Driver.C13
