import FormulaeModel.Driver.Base
import FormulaeModel.Driver.C04
import FormulaeModel.Spec.C07
/-
Driver op "c07_check": histories of build / evaluate-common / evaluate-group / set-config.

Request
  frames    : [frame]                        table of data frames (cf. Driver/C04 `frameOfJson`)
  builds    : [{formula, frame, names, response, common, group}]
                                             table of `design_matrices` calls with the coding
                                             decisions observed from the implementation
  outs      : [out]                          table of canonical outputs (implementation, in the
                                             history and in a fresh process-state)
  histories : [{impl: [outIdx], fresh: [outIdx], unchanged: [bool],
                mops: [op] | null, mimpl: [outIdx]}]
              op = ["b", buildIdx] | ["c", designIdx, frameIdx] | ["g", designIdx, frameIdx]
                 | ["s", key, value]
Answer, per history
  holds     : Spec.C07.holds on the decoded (impl, fresh) pairs and the `unchanged` flags
  bad       : positions of the pairs that differ (or do not decode)
  model     : per op of `mops`: "same" | "diff" | "skip:<why>"  (model `step` vs implementation)
  model_out : the model's output where it differs
  wf        : the model's world after the history is well-formed
-/
namespace FormulaeModel.Driver.C07
open Lean FormulaeModel FormulaeModel.Driver FormulaeModel.Design FormulaeModel.World
open FormulaeModel.Driver.C04 (ratOfJson? matrixJson frameOfJson namesOfJson termSpecOfJson atomTable slicesJson)

-- strict decoding of canonical outputs (anything unexpected does not decode)
def entryOfJson? : Json → Option Entry
  | .null => some none
  | j => (ratOfJson? j).map some

def listOfJson? {α} (f : Json → Option α) : Json → Option (List α)
  | .arr a => a.toList.mapM f
  | _ => none

def matrixOfJson? (j : Json) : Option Matrix := listOfJson? (listOfJson? entryOfJson?) j

def strOfJson? : Json → Option String
  | .str s => some s
  | _ => none

def sliceOfJson? : Json → Option Slice
  | .arr #[.str n, a, b] =>
    match a.getNat?, b.getNat? with
    | .ok s, .ok e => some ⟨n, s, e⟩
    | _, _ => none
  | _ => none

def field? (j : Json) (k : String) : Option Json := (j.getObjVal? k).toOption

def partOfJson? (j : Json) : Option (Option PartOut) :=
  match j with
  | .null => some none
  | j => do
    let m ← matrixOfJson? (← field? j "matrix")
    let labels ← match ← field? j "labels" with
      | .null => some none
      | l => (listOfJson? strOfJson? l).map some
    let sl ← listOfJson? sliceOfJson? (← field? j "slices")
    let info ← listOfJson? strOfJson? (← field? j "info")
    pure (some ⟨m, labels, sl, info⟩)

def outOfJson? (j : Json) : Option Out := do
  let t ← strOfJson? (← field? j "t")
  if t == "built" then do
    let r ← partOfJson? (← field? j "response")
    let c ← partOfJson? (← field? j "common")
    let g ← partOfJson? (← field? j "group")
    pure (.built ⟨r, c, g⟩)
  else if t == "eval" then do
    let m ← matrixOfJson? (← field? j "matrix")
    let sl ← listOfJson? sliceOfJson? (← field? j "slices")
    let nf ← listOfJson? strOfJson? (← field? j "new_factors")
    let w ← match ← field? j "warn" with
      | .bool b => some b
      | _ => none
    pure (.evaluated m sl nf w)
  else if t == "absent" then pure .absent
  else if t == "config" then pure .configSet
  else if t == "raised" then do pure (.raised (← strOfJson? (← field? j "cls")))
  else if t == "nodesign" then pure .noDesign
  else none

def partJson : Option PartOut → Json
  | none => Json.null
  | some p => Json.mkObj [("matrix", matrixJson p.matrix),
      ("labels", match p.labels with | some l => jStrs l | none => Json.null),
      ("slices", slicesJson p.slices), ("info", jStrs p.info)]

def outJson : Out → Json
  | .built b => Json.mkObj [("t", "built"), ("response", partJson b.response),
      ("common", partJson b.common), ("group", partJson b.group)]
  | .evaluated m sl nf w => Json.mkObj [("t", "eval"), ("matrix", matrixJson m),
      ("slices", slicesJson sl), ("new_factors", jStrs nf), ("warn", Json.bool w)]
  | .absent => Json.mkObj [("t", "absent")]
  | .configSet => Json.mkObj [("t", "config")]
  | .raised c => Json.mkObj [("t", "raised"), ("cls", c)]
  | .noDesign => Json.mkObj [("t", "nodesign")]

structure BuildReq where
  spec : BuildSpec
  frame : Nat

def buildOfJson (j : Json) : Option BuildReq :=
  match Scanner.scan (getStr j "formula").toList with
  | .error _ => none
  | .ok ts =>
    match Parser.parse Generated.parserTable ts with
    | .error _ => none
    | .ok e =>
      let response := match j.getObjVal? "response" with
        | .ok (.obj o) => some (termSpecOfJson (.obj o))
        | _ => none
      let group := (getArr j "group").map (fun g =>
        let expr := match g.getObjVal? "expr" with
          | .ok (.obj o) => some (termSpecOfJson (.obj o))
          | _ => none
        let factor := termSpecOfJson ((g.getObjVal? "factor").toOption.getD Json.null)
        ({ name := getStr g "name", expr, factor } : GroupSpec))
      some { spec := { table := atomTable e, response, common := (getArr j "common").map termSpecOfJson,
                       group, names := namesOfJson ((j.getObjVal? "names").toOption.getD Json.null) },
             frame := getNat j "frame" }

def opOfJson (frames : Array Frame) (builds : Array (Option BuildReq)) (j : Json) : Option Op :=
  match j with
  | .arr #[.str "b", b] => do
    let r ← (builds[(← b.getNat?.toOption)]?).join
    pure (.build r.spec (← frames[r.frame]?))
  | .arr #[.str "c", i, f] => do
    pure (.evalCommon (← i.getNat?.toOption) (← frames[(← f.getNat?.toOption)]?))
  | .arr #[.str "g", i, f] => do
    pure (.evalGroup (← i.getNat?.toOption) (← frames[(← f.getNat?.toOption)]?))
  | .arr #[.str "s", .str k, .str v] => some (.setConfig k v)
  | _ => none

def natList (j : Json) (k : String) : List Nat := (getArr j k).filterMap (fun x => x.getNat?.toOption)

def isUnmodelled : Out → Bool
  | .raised c => c.startsWith "unmodelled"
  | _ => false

def historyJson (frames : Array Frame) (builds : Array (Option BuildReq)) (outs : Array (Option Out))
    (h : Json) : Json :=
  let get (i : Nat) : Option Out := (outs[i]?).join
  let impl := natList h "impl"
  let fresh := natList h "fresh"
  let unchanged := (getArr h "unchanged").map (fun x => match x with | .bool b => b | _ => false)
  let decoded := (impl.zip fresh).map (fun p => (get p.1, get p.2))
  let pairs := decoded.filterMap (fun p => match p with | (some a, some b) => some (a, b) | _ => none)
  let complete := pairs.length == decoded.length && impl.length == fresh.length
  let holds := complete && Spec.C07.holds pairs unchanged
  let bad := (List.range decoded.length).filter (fun k =>
    match decoded[k]? with
    | some (some a, some b) => a != b
    | _ => true)
  let modelPart : List (String × Json) :=
    match h.getObjVal? "mops" with
    | .ok (.arr mops) =>
      match mops.toList.mapM (opOfJson frames builds) with
      | none => [("model", Json.arr #[Json.str "skip:undecodable op"])]
      | some ops =>
        let mouts := outputs World.init ops
        let mimpl := natList h "mimpl"
        let unm := (ops.zip mouts).any (fun p => match p.1 with | .build _ _ => isUnmodelled p.2 | _ => false)
        let verdicts := (mouts.zip mimpl).map (fun p =>
          if unm then "skip:unmodelled build in this history"
          else if isUnmodelled p.1 then "skip:" ++ (match p.1 with | .raised c => c | _ => "")
          else match get p.2 with
            | some o => if o == p.1 then "same" else "diff"
            | none => "diff")
        let diffs := ((List.range mouts.length).zip (mouts.zip verdicts)).filterMap (fun p =>
          if p.2.2 == "diff" then some (Json.mkObj [("k", (p.1 : Nat)), ("out", outJson p.2.1)]) else none)
        [("model", jStrs verdicts), ("model_out", Json.arr diffs.toArray),
         ("wf", Json.bool (run World.init ops).wf)]
    | _ => []
  Json.mkObj ([("holds", Json.bool holds), ("bad", Json.arr (bad.map (fun (k : Nat) => (k : Json))).toArray)]
    ++ modelPart)

def handle (op : String) (j : Json) : Option Json :=
  match op with
  | "c07_check" =>
    let frames := ((getArr j "frames").map frameOfJson).toArray
    let builds := ((getArr j "builds").map buildOfJson).toArray
    let outs := ((getArr j "outs").map outOfJson?).toArray
    some (Json.mkObj [("results", Json.arr ((getArr j "histories").map
      (historyJson frames builds outs)).toArray),
      ("undecodable_outs", Json.arr (((List.range outs.size).filter (fun i =>
        match outs[i]? with | some (some _) => false | _ => true)).map (fun (k : Nat) => (k : Json))).toArray)])
  | _ => none

end FormulaeModel.Driver.C07
