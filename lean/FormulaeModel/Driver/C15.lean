import FormulaeModel.Driver.Base
import FormulaeModel.Driver.C04
import FormulaeModel.Spec.C15
namespace FormulaeModel.Driver.C15
open Lean FormulaeModel FormulaeModel.Driver FormulaeModel.Design FormulaeModel.Driver.C04

/-- Spec.C15 on the response matrix the implementation returned -/
def handle (op : String) (j : Json) : Option Json :=
  match op with
  | "c15_spec" =>
    match Scanner.scan (getStr j "formula").toList with
    | .error _ => some (errJ "scan")
    | .ok ts =>
      match Parser.parse Generated.parserTable ts with
      | .error _ => some (errJ "parse")
      | .ok e =>
        let resp : Option Expr := match e with
          | .binary l op _ => if op.kind == .TILDE then some l else none
          | _ => none
        match resp with
        | none => some (Json.mkObj [("has_response", false)])
        | some r =>
          let frame := frameOfJson ((j.getObjVal? "frame").toOption.getD Json.null)
          let names := namesOfJson ((j.getObjVal? "names").toOption.getD Json.null)
          let env : Env := { frame, names }
          match Spec.C15.expected env r with
          | .error er => some (errTag er)
          | .ok ex =>
            let m := matrixOfJson ((j.getObjVal? "matrix").toOption.getD Json.null)
            let levels := match j.getObjVal? "levels" with
              | .ok (.arr a) => some (a.toList.filterMap (fun x => match x with | .str s => some s | _ => none))
              | _ => none
            let shape : List Nat := (getArr j "shape").filterMap (fun x => x.getNat?.toOption)
            some (Json.mkObj [("has_response", true),
                              ("holds", Spec.C15.holds ex m levels (getStr j "kind")),
                              ("shape_holds", Spec.C15.shapeHolds ex shape),
                              ("bare_numeric", Spec.C15.isBare r && ex.kind == "numeric"),
                              ("class_d33", Spec.C15.classD33 r),
                              ("d33_as_recorded", match Spec.C15.d33Returned env r with
                                | .ok rec => Spec.C15.holds rec m levels (getStr j "kind")
                                | .error _ => false),
                              ("unchanged", Spec.C15.unchanged ex m),
                              ("expected_rows", ex.matrix.length),
                              ("expected_levels", match ex.levels with | some l => jStrs l | none => Json.null),
                              ("expected_kind", ex.kind)])
  | "c15_predict" =>
    -- Spec.C15.expectedTrials on the values `response.evaluate_new_data(new frame)` returned
    match Scanner.scan (getStr j "formula").toList with
    | .error _ => some (errJ "scan")
    | .ok ts =>
      match Parser.parse Generated.parserTable ts with
      | .error _ => some (errJ "parse")
      | .ok e =>
        match e with
        | .binary r op _ =>
          if op.kind == .TILDE then
            let frame := frameOfJson ((j.getObjVal? "frame").toOption.getD Json.null)
            let names := namesOfJson ((j.getObjVal? "names").toOption.getD Json.null)
            let env : Env := { frame, names }
            match Spec.C15.expectedTrials env r with
            | .error er => some (errTag er)
            | .ok ex =>
              let got : List Entry := (getArr j "column").map (fun x =>
                match x with | .null => none | v => ratOfJson? v)
              some (Json.mkObj [("holds", Spec.C15.holdsTrials ex got),
                                ("expected_rows", ex.length), ("returned_rows", got.length)])
          else some (Json.mkObj [("has_response", false)])
        | _ => some (Json.mkObj [("has_response", false)])
  | _ => none

end FormulaeModel.Driver.C15
