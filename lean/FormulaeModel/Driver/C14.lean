import FormulaeModel.Driver.Base
import FormulaeModel.Model.Transforms
import FormulaeModel.Spec.C14
/-
Driver operations of C14.  Rationals cross the protocol as `[num, den]` (or a plain integer).
  c14_center   {"calls": [[q…], …]}                      history on one `Center` instance
  c14_scale    {"calls": [[q…], …]}                      history on one `Scale` instance
  c14_bs_run   {"calls": [{"x": [q…], "args": {…}}, …]}  history on one `BSpline` instance
  c14_bs_eval  {"knots": [q…], "degree": k, "intercept": b, "x": [q…]}   `BSpline.eval` only
  c14_poly_run {"calls": [{"x": [q…], "degree": d, "raw": b}, …]}        history on one `Polynomial`
  c14_spec     {"kind": …}   the predicates of Spec/C14.lean on the implementation's output
-/
namespace FormulaeModel.Driver.C14
open Lean FormulaeModel FormulaeModel.Driver FormulaeModel.Transforms

def ratOfJson? (j : Json) : Option Rat :=
  match j with
  | .arr #[a, b] =>
    match a.getInt?, b.getNat? with
    | .ok n, .ok d => if d = 0 then none else some (mkRat n d)
    | _, _ => none
  | _ => match j.getInt? with
    | .ok n => some (n : Rat)
    | _ => none

def ratJ (q : Rat) : Json := Json.arr #[toJson q.num, toJson q.den]
def numJ : Option Rat → Json
  | some q => ratJ q
  | none => Json.null

def ratsOf (j : Json) : List Rat :=
  match j with
  | .arr a => a.toList.filterMap ratOfJson?
  | _ => []
def getRats (j : Json) (k : String) : List Rat := (getArr j k).filterMap ratOfJson?
def getRat? (j : Json) (k : String) : Option Rat :=
  match j.getObjVal? k with
  | .ok v => ratOfJson? v
  | _ => none
def ratsJ (l : List Rat) : Json := Json.arr (l.map ratJ).toArray
def matJ (m : List (List Rat)) : Json := Json.arr (m.map ratsJ).toArray
def getMat (j : Json) (k : String) : List (List Rat) := (getArr j k).map ratsOf
def boolsJ (l : List Bool) : Json := Json.arr (l.map Json.bool).toArray

def cellJ : Cell → Json
  | .quot n d => Json.arr #["q", ratJ n, ratJ d]
  | .nan => "nan"
  | .posInf => "inf"
  | .negInf => "-inf"

def errName : Err → String
  | .value => "ValueError" | .type => "TypeError" | .index => "IndexError"

def outJ : Out → Json
  | .vals l => Json.mkObj [("vals", ratsJ l)]
  | .nans n => Json.mkObj [("nans", n)]

/-! ### argument decoding -/
def bsArgsOf (j : Json) : BsArgs :=
  let df : DfArg :=
    match j.getObjVal? "df" with
    | .ok (.obj _) => .float (getBool ((j.getObjVal? "df").toOption.getD Json.null) "float")
    | .ok v => match v.getInt? with
      | .ok n => .int n
      | _ => .none
    | _ => .none
  let knots : KnotsArg :=
    match j.getObjVal? "knots" with
    | .ok (.arr a) => .vec (a.toList.filterMap ratOfJson?)
    | .ok (.obj o) => .nested (getNat (.obj o) "nested")
    | _ => .none
  let degree : DegArg :=
    match j.getObjVal? "degree" with
    | .ok v => match v.getInt? with
      | .ok n => .int n
      | _ => .nonInt
    | _ => .int 3
  { df := df, knots := knots, degree := degree, intercept := getBool j "intercept",
    lower := getRat? j "lower", upper := getRat? j "upper" }

/-! ### bs -/
def bsParamsJ (p : BsParams) : List (String × Json) :=
  [("knots", ratsJ p.knots), ("degree", p.degree), ("intercept", p.intercept),
   ("ncols", bsNCols p),
   ("lower", ratJ (tk p.knots p.degree)),
   ("upper", ratJ (tk p.knots (p.knots.length - p.degree - 1)))]

def bsClasses (x : List Rat) (a : BsArgs) : List (String × Json) :=
  match min? x, max? x with
  | some lo, some hi =>
    [("valid", Spec.C14.validBsArgs lo hi
        (fun m => (range1 m).map (fun i => percentile (sort x) i m)) a),
     ("df_float_zero", decide (a.df = .float true))]
  | _, _ => [("valid", Json.null), ("df_float_zero", decide (a.df = .float true))]

def bsRunGo (s : BS.St) : List Json → List Json
  | [] => []
  | c :: cs =>
    let x := getRats c "x"
    let a := bsArgsOf ((c.getObjVal? "args").toOption.getD (Json.mkObj []))
    let cls := bsClasses x a
    match BS.call s x a with
    | .error e =>
      -- a refusal inside `eval` (empty x) happens after the parameters were stored
      let s' : BS.St := match s with
        | some p => some p
        | none => match bsInitialize x a with | .ok p => some p | .error _ => none
      Json.mkObj ([("err", Json.str (errName e))] ++ cls) :: bsRunGo s' cs
    | .ok (s', rows) =>
      let p := s'.getD ⟨false, 0, []⟩
      Json.mkObj ([("rows", matJ rows),
                   ("degenerate", boolsJ (x.map (fun v => bsDegenerate p.knots p.degree v)))]
                  ++ bsParamsJ p ++ cls) :: bsRunGo s' cs

/-! ### poly -/
def memoJ (m : Poly.Memo) : Json :=
  let keys : List Nat := ((m.map (·.1)).toArray.qsort (fun a b => decide (a < b))).toList
  Json.arr (keys.map (fun (k : Nat) =>
    Json.arr #[toJson k, numJ ((List.lookup k m).getD none)])).toArray

def polyRunGo (s : Poly.St) : List Json → List Json × Poly.St
  | [] => ([], s)
  | c :: cs =>
    let x := getRats c "x"
    match Poly.call s x (getNat c "degree" 1) (getBool c "raw") with
    | .error e =>
      -- `degree`/`raw` were already overwritten when `column_stack` refuses
      let s1 : Poly.St := if s.paramsSet then s else
        { s with degree := getNat c "degree" 1, raw := getBool c "raw" }
      let (r, sf) := polyRunGo s1 cs
      (Json.mkObj [("err", Json.str (errName e))] :: r, sf)
    | .ok (s', .raw cols) =>
      let (r, sf) := polyRunGo s' cs
      (Json.mkObj [("raw", matJ cols)] :: r, sf)
    | .ok (s', .ortho cols) =>
      let (r, sf) := polyRunGo s' cs
      (Json.mkObj [("ortho", Json.arr (cols.map (fun (p, n2) =>
          Json.mkObj [("p", Json.arr (p.map numJ).toArray), ("n2", numJ n2)])).toArray)] :: r, sf)

/-! ### Spec predicates on the implementation's output -/
def pairsOf (x o : List Rat) : List (Rat × Rat) := x.zip o

def laterPairs (j : Json) : List (Rat × Rat) :=
  (getArr j "later").flatMap (fun c => pairsOf (getRats c "x") (getRats c "out"))

def specOf (j : Json) : Json :=
  let eps := (getRat? j "eps").getD 0
  match getStr j "kind" with
  | "center" =>
    let train := pairsOf (getRats j "x") (getRats j "out")
    Json.mkObj [("mean_zero", Spec.C14.meanZero eps (getRats j "out")),
                ("same_shift", Spec.C14.sameShift eps (train ++ laterPairs j))]
  | "scale" =>
    let train := pairsOf (getRats j "x") (getRats j "out")
    Json.mkObj [("mean_zero", Spec.C14.meanZero eps (getRats j "out")),
                ("unit_var", Spec.C14.unitPopVar eps (getRats j "out")),
                ("same_affine", Spec.C14.sameAffine eps train (laterPairs j))]
  | "bs" =>
    let lower := (getRat? j "lower").getD 0
    let upper := (getRat? j "upper").getD 0
    let ncols := getNat j "ncols"
    let icpt := getBool j "intercept"
    let rows := getMat j "rows"
    let holds := ((getRats j "x").zip rows).map (fun (x, row) =>
      Spec.C14.bsRowHolds eps icpt lower upper x ncols row)
    Json.mkObj [("holds", boolsJ holds),
                ("expected_cols", Spec.C14.expectedCols
                   (match j.getObjVal? "df" with
                    | .ok v => match v.getNat? with | .ok n => some n | _ => none
                    | _ => none)
                   (getNat j "n_knots") (getNat j "degree") icpt)]
  | "poly_raw" =>
    Json.mkObj [("holds", Spec.C14.rawPowers (getRats j "x") (getNat j "degree") (getMat j "cols"))]
  | "poly_ortho" =>
    let cols := getMat j "cols"
    Json.mkObj [("orthonormal", Spec.C14.orthonormal eps cols),
                ("orth_const", Spec.C14.orthToConst eps cols),
                ("ncols_ok", cols.length == getNat j "degree")]
  | k => errJ ("unknown_kind:" ++ k)

def handle (op : String) (j : Json) : Option Json :=
  match op with
  | "c14_center" =>
    let calls := (getArr j "calls").map ratsOf
    let (s, outs) := Center.run Center.init calls
    some (Json.mkObj [("outs", Json.arr (outs.map outJ).toArray), ("mean", numJ s.mean),
                      ("params_set", s.paramsSet)])
  | "c14_scale" =>
    let calls := (getArr j "calls").map ratsOf
    let (s, outs) := Scale.run Scale.init calls
    some (Json.mkObj [("outs", Json.arr (outs.map (fun o => Json.arr (o.map cellJ).toArray)).toArray),
                      ("mean", numJ s.mean), ("var", numJ s.var), ("params_set", s.paramsSet)])
  | "c14_bs_run" => some (Json.mkObj [("results", Json.arr (bsRunGo BS.init (getArr j "calls")).toArray)])
  | "c14_bs_eval" =>
    let p : BsParams := ⟨getBool j "intercept", getNat j "degree", getRats j "knots"⟩
    let x := getRats j "x"
    some (Json.mkObj [("rows", matJ (x.map (bsRow p))),
                      ("degenerate", boolsJ (x.map (fun v => bsDegenerate p.knots p.degree v))),
                      ("ncols", bsNCols p)])
  | "c14_poly_run" =>
    let (rs, s) := polyRunGo Poly.init (getArr j "calls")
    some (Json.mkObj [("results", Json.arr rs.toArray), ("alpha", memoJ s.alpha),
                      ("norms2", memoJ s.norms2), ("degree", s.degree), ("raw", s.raw),
                      ("params_set", s.paramsSet)])
  | "c14_spec" => some (specOf j)
  | _ => none

end FormulaeModel.Driver.C14
