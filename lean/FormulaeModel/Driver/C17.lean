import FormulaeModel.Driver.Base
import FormulaeModel.Spec.C17
namespace FormulaeModel.Driver.C17
open Lean FormulaeModel FormulaeModel.Driver FormulaeModel.Design FormulaeModel.Spec.C17

def sliceOfJson : Json → Option Slice
  | .arr #[.str n, a, b] =>
    match a.getNat?, b.getNat? with
    | .ok s, .ok e => some ⟨n, s, e⟩
    | _, _ => none
  | _ => none

def viewOfJson (j : Json) : View :=
  { nrows := getNat j "nrows", ncols := getNat j "ncols",
    rowLens := (getArr j "row_lens").filterMap (fun x => x.getNat?.toOption),
    slices := (getArr j "slices").filterMap sliceOfJson,
    termNames := strList j "terms",
    labels := match j.getObjVal? "labels" with
      | .ok (.arr a) => some (a.toList.filterMap (fun x => match x with | .str s => some s | _ => none))
      | _ => none,
    checkLabels := getBool j "check_labels" true,
    expectedRows := getNat j "expected_rows",
    termWidths := match j.getObjVal? "widths" with
      | .ok (.arr a) => some (a.toList.filterMap (fun x => x.getNat?.toOption))
      | _ => none }

def handle (op : String) (j : Json) : Option Json :=
  match op with
  | "c17_spec" =>
    let views := (getArr j "views").map viewOfJson
    some (Json.mkObj [("holds", Json.arr (views.map (fun v => Json.bool (holds v))).toArray),
                      ("slices_ok", Json.arr (views.map (fun v =>
                          Json.bool (slicesOk v.slices v.termNames v.ncols))).toArray),
                      ("widths_ok", Json.arr (views.map (fun v =>
                          Json.bool (widthsOk v.slices v.termWidths))).toArray)])
  | _ => none

end FormulaeModel.Driver.C17
