import FormulaeModel.Driver.Base
import FormulaeModel.Model.Env
import FormulaeModel.Model.EnvWiring
import FormulaeModel.Spec.C11
/-
Driver ops of C11 (name resolution).

  {"op":"c11", "role":"arg"|"callee", "name":"zz", "segments":["mq","fn"]?,
   "data":[[k,val]…], "var_names":[…], "builtins":[[k,val]…], "real_builtins":true|false,
   "stack":[{"locals":[[k,val]…],"globals":[[k,val]…]}…],      -- as seen inside Environment.capture
   "env":{"int":k} | {"environment":[ns…]} | "other",
   "extra": null | [[k,val]…]}
  val = {"t":tag, "a":[[k,val]…]?}        ns = {"dict":[[k,val]…]} | {"vld":[ns…]}

  -> {"model": out, "model_documented": out, "spec": out | null, "frame": k | null}
  out = {"ok": val} | {"err": class}

`model` runs `Env.resolveArg/resolveCallee` under the wiring regenerated from the source
(`Env.generatedWiring`; the documented one if the translator did not recognise the source
shape, `Generated.envShapeOk = false`), `model_documented` under `Spec.C11.documentedWiring`; `spec` is
`Spec.C11.expected` (defined for integer `env ≥ 0` only: the statement's quantifier).
With `real_builtins` the registry scope is extended by one entry `builtin:<key>` per key of
`Generated.builtinsKeys`.

  {"op":"c11_tables"} -> the generated tables (for the harness' bookkeeping)
-/
namespace FormulaeModel.Driver.C11
open Lean FormulaeModel FormulaeModel.Driver FormulaeModel.Env

partial def valOfJson (j : Json) : Val :=
  let attrs := (getArr j "a").filterMap (fun kv =>
    match kv with
    | .arr #[.str k, v] => some (k, valOfJson v)
    | _ => none)
  .obj (getStr j "t") attrs

partial def valToJson : Val → Json
  | .obj t attrs =>
    if attrs.isEmpty then Json.mkObj [("t", t)]
    else Json.mkObj [("t", t), ("a", Json.arr (attrs.map (fun (k, v) => Json.arr #[k, valToJson v])).toArray)]

def scopeOfJson (l : List Json) : Scope :=
  l.filterMap (fun kv =>
    match kv with
    | .arr #[.str k, v] => some (k, valOfJson v)
    | _ => none)

partial def nsOfJson (j : Json) : Ns :=
  match j.getObjVal? "vld" with
  | .ok (.arr a) => .vld (a.toList.map nsOfJson)
  | _ => .dict (scopeOfJson (getArr j "dict"))

def frameOfJson (j : Json) : Frame := ⟨scopeOfJson (getArr j "locals"), scopeOfJson (getArr j "globals")⟩

def envArgOfJson (j : Json) : EnvArg :=
  match j.getObjVal? "env" with
  | .ok e =>
    match e.getObjValAs? Int "int" with
    | .ok k => .int k
    | .error _ =>
      match e.getObjVal? "environment" with
      | .ok (.arr a) => .env ⟨a.toList.map nsOfJson⟩
      | _ => .other
  | .error _ => .other

def outJson : Except Err Val → Json
  | .ok v => Json.mkObj [("ok", valToJson v)]
  | .error e => Json.mkObj [("err", e.className)]

def outcomeJson : Spec.C11.Outcome → Json
  | .value v => Json.mkObj [("ok", valToJson v)]
  | .raises => Json.mkObj [("err", "raises")]

def splitDots (s : String) : List String := s.splitOn "."

def handle (op : String) (j : Json) : Option Json :=
  match op with
  | "c11" =>
    let role := getStr j "role"
    let name := getStr j "name"
    let segments := match j.getObjVal? "segments" with
      | .ok (.arr a) => a.toList.filterMap (fun x => match x with | .str s => some s | _ => none)
      | _ => splitDots name
    let real := getBool j "real_builtins" true
    let builtins := scopeOfJson (getArr j "builtins") ++
      (if real then Generated.builtinsKeys.map (fun k => (k, Val.const ("builtin:" ++ k))) else [])
    let extra : Option Scope := match j.getObjVal? "extra" with
      | .ok (.arr a) => some (scopeOfJson a.toList)
      | _ => none
    let stack := (getArr j "stack").map frameOfJson
    let envArg := envArgOfJson j
    let inp : Input := { data := scopeOfJson (getArr j "data"), varNames := strList j "var_names",
                         builtins := builtins, stack := stack, envArg := envArg, extra := extra }
    let run (W : Wiring) : Except Err Val :=
      if role == "callee" then resolveCallee W inp segments else resolveArg W inp name
    let spec : Json := match envArg with
      | .int k =>
        if k < 0 then Json.null else
        outcomeJson (Spec.C11.expected (if role == "callee" then .callee else .argument)
          inp.data builtins (stack.drop 2) k.toNat (Spec.C11.extraOf extra)
          name segments)
      | _ => Json.null
    let frame : Json := match envArg with
      | .int k => if k < 0 then Json.null else
          (match Spec.C11.selectedFrame (stack.drop 2) k.toNat with
           | some _ => (k.toNat : Json) | none => Json.null)
      | _ => Json.null
    -- an unrecognised source shape leaves holes in the regenerated wiring (the tie is then broken
    -- anyway): the correspondence falls back to the documented wiring
    let Wm := if Generated.envShapeOk then Env.generatedWiring else Spec.C11.documentedWiring
    some (Json.mkObj [("model", outJson (run Wm)),
                      ("model_documented", outJson (run Spec.C11.documentedWiring)),
                      ("spec", spec), ("frame", frame)])
  | "c11_tables" =>
    some (Json.mkObj [("reference", (Generated.captureReference : Json)),
                      ("loop_extra", (Generated.captureLoopExtra : Json)),
                      ("frame_scopes", jStrs Generated.frameScopes),
                      ("call_env_order", jStrs Generated.callEnvOrder),
                      ("lazy_variable_order", jStrs Generated.lazyVariableOrder),
                      ("leading_empty", Generated.varLookupLeadingEmpty),
                      ("outer_appended", Generated.outerNamespaceAppended),
                      ("builtins_merge", jStrs Generated.builtinsMergeOrder),
                      ("builtins_keys", jStrs Generated.builtinsKeys),
                      ("shape_ok", Generated.envShapeOk)])
  | _ => none

end FormulaeModel.Driver.C11
