import FormulaeModel.Driver.Base
import FormulaeModel.Driver.C04
import FormulaeModel.Driver.C10
import FormulaeModel.Spec.C09
import FormulaeModel.Generated.Tables
import FormulaeModel.Model.Pipeline
namespace FormulaeModel.Driver.C09
open Lean FormulaeModel FormulaeModel.Driver FormulaeModel.Design FormulaeModel.Driver.C04 FormulaeModel.NA

def insertStr (x : String) : List String → List String
  | [] => [x]
  | y :: ys => if x ≤ y then x :: y :: ys else y :: insertStr x ys

def sortedDedup (xs : List String) : List String := (dedupL xs).foldr insertStr []

def withAst (j : Json) (k : Expr → Json) : Json :=
  match Scanner.scan (getStr j "formula").toList with
  | .error _ => errJ "scan"
  | .ok ts =>
    match Parser.parse Generated.parserTable ts with
    | .error _ => errJ "parse"
    | .ok e => k e

def handle (op : String) (j : Json) : Option Json :=
  match op with
  | "c09_rows" => some (withAst j (fun e =>
      let frame := frameOfJson ((j.getObjVal? "frame").toOption.getD Json.null)
      let cols := frame.map (·.name)
      -- model: var_names ∩ columns, the NA step for the requested action
      let used := (Pipeline.usedVars Generated.resolverOps e).filter cols.contains
      let action := getStr j "action"
      let step : Json := match naStep Generated.naActions action used frame with
        | .ok f => Json.mkObj [("rows", f.nrows), ("cols", jStrs (sortedDedup (f.map (·.name))))]
        | .error _ => errJ "ValueError"
      -- spec: used columns by `freeVars`, complete rows
      Json.mkObj [("model_used", jStrs (sortedDedup used)), ("model_step", step),
                  ("spec_used", jStrs (sortedDedup (Spec.C09.usedColumns e frame))),
                  ("complete", Json.arr ((Spec.C09.completeRows e frame).map Json.bool).toArray)]))
  | "c09_spec" =>
    let parts := (getArr j "parts").map (fun p =>
      let a := matrixOfJson ((p.getObjVal? "a").toOption.getD Json.null)
      let b := matrixOfJson ((p.getObjVal? "b").toOption.getD Json.null)
      match getStr p "rule" with
      | "equal" => Json.bool (Spec.C09.matricesEqual a b)
      | "pass" => Json.bool (Spec.C09.passRule a b (Driver.C10.strLists p "col_vars")
                              (Driver.C10.strLists p "row_missing"))
      | _ => Json.bool false)
    some (Json.mkObj [("parts", Json.arr parts.toArray)])
  | _ => none

end FormulaeModel.Driver.C09
