import FormulaeModel.Driver.Base
namespace FormulaeModel.Driver.C02
open Lean FormulaeModel FormulaeModel.Driver

def handle (_op : String) (_j : Json) : Option Json := none

end FormulaeModel.Driver.C02
