import FormulaeModel.Driver.Base
import FormulaeModel.Model.Scanner
import FormulaeModel.Model.Parser
import FormulaeModel.Model.Resolver
import FormulaeModel.Generated.Tables
import FormulaeModel.Spec.C02
import FormulaeModel.Spec.C01
namespace FormulaeModel.Driver.C02
open Lean FormulaeModel FormulaeModel.Driver FormulaeModel.Terms FormulaeModel.Resolver
open FormulaeModel.Spec.C02

def errTag : Err → String
  | .typeError => "TypeError" | .valueError => "ValueError" | .attributeError => "AttributeError"
  | .other => "Other"

def gName (g : GTerm) : String :=
  (match g.expr with | .intercept => "1" | t => t.name) ++ "|" ++ g.factor.name

def stName (t : STerm) : String := ":".intercalate (t.map Atom.name)
def sgName (g : SG) : String := (match g.eff with | none => "1" | some t => stName t) ++ "|" ++ stName g.fac

def isSubsetOf (a b : List String) : Bool := a.all b.contains

/-- split at a separator character that is outside brackets and quotes -/
def splitTop (sep : Char) (s : String) : List String :=
  let step := fun (st : List String × List Char × Nat × Option Char) (c : Char) =>
    let (done, cur, depth, q) := st
    match q with
    | some qc => (done, c :: cur, depth, if c == qc then none else some qc)
    | none =>
      if c == '\'' || c == '"' || c == '`' then (done, c :: cur, depth, some c)
      else if c == '(' || c == '[' || c == '{' then (done, c :: cur, depth + 1, none)
      else if c == ')' || c == ']' || c == '}' then (done, c :: cur, depth - 1, none)
      else if c == sep && depth == 0 then (String.ofList cur.reverse :: done, [], depth, none)
      else (done, c :: cur, depth, none)
  let (done, cur, _, _) := s.toList.foldl step ([], [], 0, none)
  (String.ofList cur.reverse :: done).reverse

def insertStr (x : String) : List String → List String
  | [] => [x]
  | y :: ys => if x ≤ y then x :: y :: ys else y :: insertStr x ys

/-- a term name with its factors sorted (the statement speaks of sets of terms; the order of the
factors inside a term produced by `/`, `*`, `:` is not part of it) -/
def canonTerm (s : String) : String := ":".intercalate ((splitTop ':' s).foldr insertStr [])
def canonGroup (s : String) : String := "|".intercalate ((splitTop '|' s).map canonTerm)

/-- Spec.C02 on the implementation's output: the denotation of the tree `e` — the DOCUMENTED reading
of the text, `Spec.C01.refParse` — against the names `model_description` returned -/
def specJson (e : Expr) (impl : Json) : Json :=
  match den e with
  | none => Json.mkObj [("lang", false)]
  | some d =>
    let common := (if d.icpt then ["Intercept"] else []) ++ d.common.map stName
    let group := d.group.map sgName
    let resp := match d.resp with | some a => Json.str a.name | none => Json.null
    -- Spec.holds on the implementation's actual output (names)
    let icRaw := strList impl "common"
    let igRaw := strList impl "group"
    let ic := icRaw.map canonTerm
    let ig := igRaw.map canonGroup
    let common := common.map canonTerm
    let group := group.map canonGroup
    let ir := (impl.getObjVal? "response").toOption.getD Json.null
    let holds := isSubsetOf ic common && isSubsetOf common ic && isSubsetOf ig group
      && isSubsetOf group ig && icRaw.length == (Spec.C02.nub icRaw).length
      && igRaw.length == (Spec.C02.nub igRaw).length && ir == resp
      && (impl.getObjVal? "err").toOption.isNone
    Json.mkObj [("lang", true), ("response", resp), ("common", jStrs common),
                ("group", jStrs group), ("holds", holds)]

def handle (op : String) (j : Json) : Option Json :=
  match op with
  | "c02" =>
    let s := getStr j "s"
    let impl := (j.getObjVal? "impl").toOption.getD Json.null
    match Scanner.scan s.toList with
    | .error _ => some (Json.mkObj [("parse_err", "scan")])
    | .ok ts =>
      -- the specification reads the text with the documented precedence table (Spec.C01.refParse);
      -- the model of the implementation reads it with the table regenerated from parser.py.  On the
      -- unchanged tree the two tables are equal (Properties/Tie.lean: parser_table)
      let doc := Spec.C01.refParse ts
      match Parser.parse Generated.parserTable ts with
      | .error _ =>
        (match doc with
         | .ok eS => some (Json.mkObj [("parse_err", "parse"), ("spec", specJson eS impl),
                                       ("parse_agrees", false)])
         | .error _ => some (Json.mkObj [("parse_err", "parse")]))
      | .ok e =>
        let model : Json :=
          match describe Generated.resolverOps e with
          | .ok m =>
            -- GroupSpecificTerm.name raises ValueError unless expr is Intercept/Term and factor a Term
            if m.group.any (fun g => (match g.factor with | .term _ => false | _ => true) ||
                                     (match g.expr with | .negIntercept => true | _ => false)) then
              errJ "name:ValueError"
            else Json.mkObj [
              ("response", match m.resp with | some cs => Json.str (CTerm.term cs).name | none => Json.null),
              ("common", jStrs (m.common.map CTerm.name)),
              ("group", jStrs (m.group.map gName)),
              ("sem_ok", match semOfModel m, den e with
                          | some a, some b => Json.bool (semEq a b)
                          | _, _ => Json.null)]
          | .error er => errJ (errTag er)
        let (spec, agrees) : Json × Bool :=
          match doc with
          | .ok eS => (specJson eS impl, eS.sexp == e.sexp && eS.flat == e.flat)
          | .error _ => (Json.mkObj [("lang", false)], false)    -- not a text of the documented grammar
        some (Json.mkObj [("model", model), ("spec", spec), ("ambiguous_identity", ambiguousIdentity e),
                          ("scanner_shape", implicitOne e || barePipe e),
                          ("parse_agrees", agrees),
                          ("classes", jStrs (gapClasses Generated.resolverOps e))])
  | _ => none

end FormulaeModel.Driver.C02
