import FormulaeModel.Driver.Base
import FormulaeModel.Model.Scanner
import FormulaeModel.Model.Parser
import FormulaeModel.Generated.Tables
import FormulaeModel.Spec.C01
namespace FormulaeModel.Driver.C01
open Lean FormulaeModel FormulaeModel.Driver

def scanErrTag : Scanner.ScanErr → String
  | .empty => "empty" | .unexpected _ => "unexpected" | .unterminatedString => "unterminated_string"
  | .unterminatedBackquote => "unterminated_backquote" | .tildes => "tildes"
  | .nonAscii => "non_ascii" | .fuel => "fuel"

def parseErrTag : Parser.ParseErr → String
  | .fuel => "fuel" | .unexpected => "unexpected" | .expected k => "expected_" ++ k.name
  | .invalidTarget => "invalid_target" | .badSubset => "bad_subset" | .leftover => "leftover"

def c01Run (T : Parser.Table) (s : String) (addInt : Bool) : Json :=
  match Scanner.scan s.toList addInt with
  | .error e => errJ ("scan:" ++ scanErrTag e)
  | .ok ts =>
    let toks := Json.arr (ts.map tokJson).toArray
    match Parser.parse T ts with
    | .ok e =>
      -- the fully parenthesised form (C01_fullparen): its text, its tree, and the model's re-parse
      let g := Spec.C01.groupAll e
      let fpOk := match Parser.parse T g.flat with
        | .ok e' => e'.sexp == g.sexp
        | .error _ => false
      Json.mkObj [("toks", toks), ("ast", e.sexp), ("yield_ok", e.flat == ts),
                  ("stratified", Spec.C01.Stratified Spec.C01.documentedTable e),
                  ("fp_src", " ".intercalate (g.flat.map (·.lexeme))), ("fp_ast", g.sexp),
                  ("fp_ok", fpOk), ("ungrouped", (Spec.C01.ungroup e).sexp)]
    | .error e => Json.mkObj [("toks", toks), ("err", "parse:" ++ parseErrTag e)]

def handle (op : String) (j : Json) : Option Json :=
  match op with
  | "c01" =>
    let s := getStr j "s"
    let addInt := !(getBool j "noint")
    some (Json.mkObj [("model", c01Run Generated.parserTable s addInt),
                      ("spec", c01Run Spec.C01.documentedTable s addInt)])
  | _ => none

end FormulaeModel.Driver.C01
