import FormulaeModel.Driver.Base
import FormulaeModel.Model.Contrasts
import FormulaeModel.Model.Encoding
import FormulaeModel.Spec.C03
/-
Driver operations of C03.

  c03_pick  {"group": [[name, [factor, …]], …], "impl": <codings of the real pick_contrasts or null>}
            → model output of `pickContrasts`, and the interval-partition predicate evaluated on the
              model's and on the implementation's codings
  c03_pipe  {"terms": [<term>, …], "env_copyable": bool, "levels": {factor: n}, "impl": <design or null>,
             "widths": {numeric atom: columns}  (optional; atoms not listed have one column)}
            <term> = {"i": true} | {"c": [[name, "n"|"c", isCall], …]}
            <design> = [[term name, [[component name, "n"|"c", flag], …]], …]
            → model output of `Encoding.run`, the terms of the design, guard classes, the
              specification evaluated on the model's output and on the implementation's design,
              column count / dimension formula for the given level counts
-/
namespace FormulaeModel.Driver.C03
open Lean FormulaeModel FormulaeModel.Driver FormulaeModel.Contrasts FormulaeModel.Encoding

def codingJson (c : Coding) : Json :=
  Json.arr (c.map (fun e => Json.arr #[Json.str e.1, Json.bool e.2])).toArray

def pickJson (d : Dict (List Coding)) : Json :=
  Json.arr (d.map (fun e => Json.arr #[Json.str e.1, Json.arr (e.2.map codingJson).toArray])).toArray

def jList (j : Json) : List Json := match j with | .arr a => a.toList | _ => []
def jStr (j : Json) : String := match j with | .str s => s | _ => ""
def jBool (j : Json) : Bool := match j with | .bool b => b | _ => false

def groupOfJson (j : Json) : List (String × List Factor) :=
  (jList j).map (fun e => match e with
    | .arr #[.str n, fs] => (n, (jList fs).map jStr)
    | _ => ("", []))

def codingsOfJson (j : Json) : Dict (List Coding) :=
  (jList j).map (fun e => match e with
    | .arr #[.str n, cs] => (n, (jList cs).map (fun c => (jList c).map (fun p => match p with
        | .arr #[.str f, .bool b] => (f, b)
        | _ => ("", false))))
    | _ => ("", []))

/-- interval-partition predicate on codings of one group (executable form of the statement of
`C03_pick_contrasts_partition`): every subset of the down-closure of the group's terms is in the
interval of exactly one coding, nothing else is covered, and the names are the group's names in
order -/
def pickPartition (group : List (String × List Factor)) (out : Dict (List Coding)) : Bool :=
  let fam : List Spec.C03.STerm := group.map (fun g => { cat := g.2, num := [] })
  let coding : List Spec.C03.CTerm := out.flatMap (fun e => e.2.map (fun c =>
    { red := (c.filter (fun p => !p.2)).map (·.1), full := (c.filter (fun p => p.2)).map (·.1), num := [] }))
  out.map (·.1) == group.map (·.1) &&
  out.all (fun e => e.2.all (fun c => (Spec.C03.dedupStr (c.map (·.1))).length == c.length)) &&
  Spec.C03.partition fam coding

def kindOfJson (j : Json) : Encoding.Kind := if jStr j == "n" then .numeric else .categoric
def kindStr : Encoding.Kind → String | .numeric => "n" | .categoric => "c"

def termOfJson (j : Json) : Option TermDesc :=
  if getBool j "i" then some .intercept else
  match (getArr j "c").map (fun c => match c with
      | .arr #[.str n, k, .bool call] => ({ name := n, kind := kindOfJson k, isCall := call } : Comp)
      | _ => { name := "", kind := .numeric, isCall := false }) with
  | [] => none
  | c :: cs => some (.term c cs)

def codedJson (t : CodedTerm) : Json :=
  Json.arr #[Json.str t.1, Json.arr (t.2.map (fun cf =>
    Json.arr #[Json.str cf.1.name, Json.str (kindStr cf.1.kind), Json.bool cf.2])).toArray]

def codedOfJson (j : Json) : CodedTerm :=
  match j with
  | .arr #[.str n, cs] => (n, (jList cs).map (fun c => match c with
      | .arr #[.str cn, k, .bool b] => (({ name := cn, kind := kindOfJson k, isCall := false } : Comp), b)
      | _ => (({ name := "", kind := .numeric, isCall := false } : Comp), false)))
  | _ => ("", [])

def levelsOfJson (j : Json) : String → Nat :=
  let tbl : List (String × Nat) := match j with
    | .obj kvs => kvs.toList.map (fun (k, v) => (k, (v.getNat?).toOption.getD 0))
    | _ => []
  fun f => ((tbl.find? (·.1 == f)).map (·.2)).getD 0

/-- column counts of numeric atoms with several columns; 1 when not listed -/
def widthsOfJson (j : Json) : String → Nat :=
  let tbl : List (String × Nat) := match j with
    | .obj kvs => kvs.toList.map (fun (k, v) => (k, (v.getNat?).toOption.getD 1))
    | _ => []
  fun a => ((tbl.find? (·.1 == a)).map (·.2)).getD 1

def pipe (j : Json) : Json :=
  let terms := (getArr j "terms").map termOfJson
  if terms.any Option.isNone then errJ "malformed_term" else
  let fam := terms.filterMap id
  let envc := getBool j "env_copyable"
  let levels := levelsOfJson ((j.getObjVal? "levels").toOption.getD Json.null)
  let widths := widthsOfJson ((j.getObjVal? "widths").toOption.getD Json.null)
  let sfam := fam.map Spec.C03.ofTerm
  let model := match run envc fam with
    | .ok coded => Json.mkObj [("ok", Json.arr (coded.map codedJson).toArray),
        ("design", Json.arr ((designTerms coded).map codedJson).toArray),
        ("cols", Spec.C03.totalColumnsW levels widths ((designTerms coded).map Spec.C03.ofCoded))]
    | .error e => Json.mkObj [("err", e.tag)]
  let second := match secondFamily envc fam with
    | .ok f2 => jStrs (f2.map (·.name))
    | .error e => Json.mkObj [("err", e.tag)]
  let classes : List String :=
    (if Spec.C03.extraTermNeedsCallCopy fam && !envc then ["extraTermNeedsCallCopy"] else []) ++
    (if Spec.C03.emptyCodingSecondPass envc fam then ["emptyCodingSecondPass"] else []) ++
    (if Spec.C03.multipleSubtermsSecondPass envc fam then ["multipleSubtermsSecondPass"] else []) ++
    (if Spec.C03.numericPartOrderMismatch fam then ["numericPartOrderMismatch"] else []) ++
    (if Spec.C03.duplicateTermUpToOrder fam then ["duplicateTermUpToOrder"] else [])
  let implJ := (j.getObjVal? "impl").toOption.getD Json.null
  let implPart := match implJ with
    | .arr a =>
      let design := a.toList.map codedOfJson
      [("spec", Json.bool (Spec.C03.holds fam design)),
       ("impl_cols", Json.num (Spec.C03.totalColumnsW levels widths (design.map Spec.C03.ofCoded)))]
    | _ => []
  Json.mkObj ([("model", model), ("second_family", second), ("classes", jStrs classes),
    ("single_pass2", Json.bool (Spec.C03.SinglePass2 envc fam)),
    ("model_holds", Json.bool (Spec.C03.modelHolds envc fam)),
    ("pipeline_guard", Json.bool (Encoding.pipelineGuard envc fam)),
    ("hier_family", Json.bool (Encoding.hierFamily fam)),
    ("dim", Json.num (Spec.C03.modelDimW levels widths sfam))] ++ implPart)

def handle (op : String) (j : Json) : Option Json :=
  match op with
  | "c03_pick" =>
    let group := groupOfJson ((j.getObjVal? "group").toOption.getD Json.null)
    let model := match pickContrasts group with
      | .ok out => Json.mkObj [("ok", pickJson out), ("partition", Json.bool (pickPartition group out))]
      | .error e => Json.mkObj [("err", e.tag)]
    let implJ := (j.getObjVal? "impl").toOption.getD Json.null
    let implPart := match implJ with
      | .arr _ => [("spec", Json.bool (pickPartition group (codingsOfJson implJ)))]
      | _ => []
    some (Json.mkObj ([("model", model)] ++ implPart))
  | "c03_pipe" => some (pipe j)
  | _ => none

end FormulaeModel.Driver.C03
