import FormulaeModel.Driver.Base
import FormulaeModel.Driver.C04
import FormulaeModel.Spec.C16
namespace FormulaeModel.Driver.C16
open Lean FormulaeModel FormulaeModel.Driver FormulaeModel.Design FormulaeModel.Driver.C04

def levelsOfJson (j : Json) (k : String) : List (Option Level) :=
  (getArr j k).map (fun x => match x with
    | .null => none
    | v => levelOfJson v)

def entriesOfJson (j : Json) (k : String) : List Entry :=
  (getArr j k).map (fun x => match x with | .null => none | v => ratOfJson? v)

/-- Spec.C16 on columns the implementation returned -/
def handle (op : String) (j : Json) : Option Json :=
  match op with
  | "c16_binary" =>
    let xs := levelsOfJson j "x"
    let s := match j.getObjVal? "success" with
      | .ok .null => none
      | .ok v => levelOfJson v
      | _ => none
    let expected := Spec.C16.binaryExpected xs s
    let got : Option (List Entry) := match j.getObjVal? "column" with
      | .ok (.arr _) => some (entriesOfJson j "column")
      | _ => none
    let ok := match expected, got with
      | some e, some g => Spec.C16.colEq e g
      | none, none => getStr j "err" == "ValueError"
      | _, _ => false
    some (Json.mkObj [("holds", ok), ("expected_refused", expected.isNone)])
  | "c16_column" =>
    -- a column that must equal a given vector (offset, I, prediction-time trials)
    some (Json.mkObj [("holds", Spec.C16.colEq (entriesOfJson j "expected") (entriesOfJson j "column"))])
  | "c16_prop" =>
    let ss := entriesOfJson j "successes"
    let ts := entriesOfJson j "trials"
    let valid := Spec.C16.propValid ss ts
    let accepted := getBool j "accepted"
    let ok := valid == accepted &&
      (!accepted || (Spec.C16.colEq ss (entriesOfJson j "col0") && Spec.C16.colEq ts (entriesOfJson j "col1"))) &&
      (accepted || getStr j "err" == "ValueError")
    some (Json.mkObj [("holds", ok), ("valid", valid)])
  | _ => none

end FormulaeModel.Driver.C16
