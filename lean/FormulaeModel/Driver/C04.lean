import FormulaeModel.Driver.Base
import FormulaeModel.Model.Scanner
import FormulaeModel.Model.Parser
import FormulaeModel.Model.Matrices
import FormulaeModel.Generated.Tables
import FormulaeModel.Spec.C04
import FormulaeModel.Model.Pipeline
/-
Driver op "design": the evaluation model (Model/Design.lean, Model/Matrices.lean) on a formula,
a frame, the coding decisions observed from the implementation, and new frames.
Shared by C04, C05, C06, C10, C15, C16, C17.
-/
namespace FormulaeModel.Driver.C04
open Lean FormulaeModel FormulaeModel.Driver FormulaeModel.Design

def ratOfJson? : Json → Option Rat
  | .arr #[a, b] =>
    match a.getInt?, b.getInt? with
    | .ok n, .ok d => if d == 0 then none else some ((n : Rat) / (d : Rat))
    | _, _ => none
  | j => match j.getInt? with
    | .ok n => some (n : Rat)
    | _ => none

def ratJson (q : Rat) : Json := Json.arr #[Json.num (JsonNumber.fromInt q.num), Json.num (JsonNumber.fromNat q.den)]

def entryJson : Entry → Json
  | some q => ratJson q
  | none => Json.null

def matrixJson (m : Matrix) : Json := Json.arr (m.map (fun r => Json.arr (r.map entryJson).toArray)).toArray

def cellOfJson (numeric : Bool) (j : Json) : Cell :=
  match j with
  | .null => .na
  | .str s => if numeric then .na else .str s
  | j => match ratOfJson? j with
    | some q => .num q
    | none => .na

def columnOfJson (j : Json) : Column :=
  let kind := getStr j "kind"
  let ck : ColKind :=
    if kind == "int" then .numeric true
    else if kind == "float" then .numeric false
    else if kind == "cat" then .categorical (getBool j "ordered") (strList j "categories")
    else .string
  let numeric := kind == "int" || kind == "float"
  { name := getStr j "name", kind := ck, cells := (getArr j "cells").map (cellOfJson numeric) }

def frameOfJson (j : Json) : Frame := (getArr j "cols").map columnOfJson

def levelOfJson : Json → Option Level
  | .str s => some (.s s)
  | j => match j.getInt? with
    | .ok n => some (.n n)
    | _ => none

def valOfJson (j : Json) : Option Val :=
  match j.getObjVal? "levels" with
  | .ok (.arr a) => some (.levels (a.toList.filterMap levelOfJson))
  | _ =>
    match j.getObjVal? "str" with
    | .ok (.str s) => some (.str s)
    | _ =>
      match j.getObjVal? "num" with
      | .ok n => (ratOfJson? n).map (fun q => .num q (getBool j "int"))
      | _ => none

def namesOfJson (j : Json) : List (String × Val) :=
  match j with
  | .obj kvs => kvs.toList.filterMap (fun (k, v) => (valOfJson v).map (fun x => (k, x)))
  | _ => []

def termSpecOfJson (j : Json) : TermSpec :=
  { name := getStr j "name",
    comps := (getArr j "comps").filterMap (fun c =>
      match c with
      | .arr #[.str n, .bool b] => some (n, b)
      | _ => none) }

def atomTable : Expr → List (String × Expr) := Pipeline.atomTable

def errTag : Err → Json
  | .keyError n => Json.mkObj [("err", "KeyError"), ("what", n)]
  | .typeError => Json.mkObj [("err", "TypeError")]
  | .valueError w => Json.mkObj [("err", "ValueError"), ("what", w)]
  | .unmodelled w => Json.mkObj [("err", "unmodelled"), ("what", w)]

def optLabels : Option (List String) → Json
  | some l => jStrs l
  | none => Json.null

def slicesJson (s : List Slice) : Json :=
  Json.arr (s.map (fun x => Json.arr #[Json.str x.name, (x.start : Nat), (x.stop : Nat)])).toArray

def modeOf (s : String) : UnseenMode :=
  if s == "warning" then .warning else if s == "silent" then .silent else .error

structure Trained where
  response : Option TermOut
  common : List (String × Option TermOut)      -- none = Intercept
  group : List GroupOut

def interceptPart (n : Nat) : String × Matrix × Option (List String) :=
  ("Intercept", onesCol n, some ["Intercept"])

def train (env : Env) (table : List (String × Expr)) (j : Json) : M Trained := do
  let response ← match j.getObjVal? "response" with
    | .ok (.obj o) => do
      let t ← trainTerm env table (termSpecOfJson (.obj o)) false true
      pure (some t)
    | _ => pure none
  let common ← (getArr j "common").mapM (fun t => do
    let spec := termSpecOfJson t
    if spec.name == "Intercept" && spec.comps.isEmpty then pure (spec.name, none)
    else do pure (spec.name, some (← trainTerm env table spec false false)))
  let group ← (getArr j "group").mapM (fun g => do
    let expr := match g.getObjVal? "expr" with
      | .ok (.obj o) => some (termSpecOfJson (.obj o))
      | _ => none
    let factor := termSpecOfJson ((g.getObjVal? "factor").toOption.getD Json.null)
    trainGroup env table { name := getStr g "name", expr, factor })
  pure ⟨response, common, group⟩

def commonStack (n : Nat) (t : Trained) : Stacked :=
  stack n (t.common.map (fun p =>
    match p.2 with
    | none => interceptPart n
    | some o => (p.1, o.data, o.labels)))

def groupStack (n : Nat) (t : Trained) : Stacked :=
  stack n (t.group.map (fun g => (g.st.name, g.data, g.labels)))

def trainedJson (n : Nat) (t : Trained) : Json :=
  let c := commonStack n t
  let g := groupStack n t
  Json.mkObj [
    ("response", match t.response with
      | some r => Json.mkObj [("matrix", matrixJson r.data), ("labels", optLabels r.labels),
                              ("kind", r.st.kind),
                              ("levels", match r.st.comps with
                                | [cst] => if cst.kind == .categoric then jStrs (cst.levels.map Level.label)
                                           else Json.null
                                | _ => Json.null)]
      | none => Json.null),
    ("common", if t.common.isEmpty then Json.null else Json.mkObj [
      ("matrix", matrixJson c.matrix), ("labels", optLabels c.labels), ("slices", slicesJson c.slices),
      ("kinds", jStrs (t.common.map (fun p => match p.2 with | none => "intercept" | some o => o.st.kind)))]),
    ("group", if t.group.isEmpty then Json.null else Json.mkObj [
      ("matrix", matrixJson g.matrix), ("labels", optLabels g.labels), ("slices", slicesJson g.slices),
      ("kinds", jStrs (t.group.map (·.st.kind))),
      ("groups", Json.arr (t.group.map (fun x => jStrs x.st.groups)).toArray)])]

/-- `evaluate_new_data` of the common and the group matrix on one new frame -/
def newJson (t : Trained) (j : Json) (names : List (String × Val)) : Json :=
  let frame := frameOfJson ((j.getObjVal? "frame").toOption.getD Json.null)
  let env : Env := { frame, names }
  let n := frame.nrows
  let mode := modeOf (getStr j "mode")
  let common : Json :=
    if t.common.isEmpty then Json.null else
    match t.common.mapM (fun p =>
      match p.2 with
      | none => pure (p.1, onesCol n, false)
      | some o => do
        let (m, w) ← newTerm o.st env mode
        pure (p.1, m, w)) with
    | .ok parts =>
      Json.mkObj [("matrix", matrixJson (hstack (parts.map (·.2.1)) n)),
                  ("warn", parts.any (·.2.2))]
    | .error e => errTag e
  let group : Json :=
    if t.group.isEmpty then Json.null else
    match t.group.mapM (fun g => do
      let (m, w) ← newGroup g.st env mode
      pure (g, m, w)) with
    | .ok parts =>
      let widths := parts.map (fun p => (p.1.st.name, p.2.1.ncols))
      let fwnl := parts.foldl (fun acc p =>
        if p.2.1.ncols != p.1.data.ncols && !acc.contains p.1.st.factor.name
        then acc ++ [p.1.st.factor.name] else acc) ([] : List String)
      Json.mkObj [("matrix", matrixJson (hstack (parts.map (·.2.1)) n)),
                  ("slices", slicesJson (slices widths 0)),
                  ("factors_with_new_levels", jStrs fwnl),
                  ("warn", parts.any (·.2.2))]
    | .error e => errTag e
  Json.mkObj [("common", common), ("group", group)]

def matrixOfJson (j : Json) : Matrix :=
  match j with
  | .arr rows => rows.toList.map (fun r =>
      match r with
      | .arr es => es.toList.map (fun e => match e with | .null => none | x => ratOfJson? x)
      | _ => [])
  | _ => []

/-- Spec.C04 on what the implementation returned: every column holds what its label says -/
def specC04 (j : Json) : Json :=
  let s := getStr j "formula"
  match Scanner.scan s.toList with
  | .error _ => errJ "scan"
  | .ok ts =>
    match Parser.parse Generated.parserTable ts with
    | .error _ => errJ "parse"
    | .ok e =>
      let table := atomTable e
      let frame := frameOfJson ((j.getObjVal? "frame").toOption.getD Json.null)
      let names := namesOfJson ((j.getObjVal? "names").toOption.getD Json.null)
      let env : Env := { frame, names }
      -- "train_frame" present: `frame` is a new frame given to evaluate_new_data, the matrices are
      -- the new matrices (same labels); call atoms keep their training-time transform state
      let tenv : Option Env := match j.getObjVal? "train_frame" with
        | .ok (.obj o) => some { frame := frameOfJson (.obj o), names }
        | _ => none
      let parts := (getArr j "parts").map (fun p =>
        let labels := strList p "labels"
        let m := matrixOfJson ((p.getObjVal? "matrix").toOption.getD Json.null)
        match Spec.C04.checkAt tenv env table labels m with
        | .ok v => Json.mkObj [("ok", v.ok), ("judged", v.judged), ("skipped", v.skipped),
                               ("first_bad", match v.firstBad with | some l => Json.str l | none => Json.null),
                               ("level_order_ok", Spec.C04.levelOrderOk env labels)]
        | .error er => errTag er)
      Json.mkObj [("parts", Json.arr parts.toArray)]

def pErrJson : Pipeline.PErr → Json
  | .scan => errJ "scan" | .parse => errJ "parse"
  | .resolve _ => errJ "resolve" | .na => errJ "ValueError"
  | .encoding e => Json.mkObj [("err", "encoding"), ("what", e.tag)]
  | .eval e => errTag e
  | .shape w => Json.mkObj [("err", "unmodelled"), ("what", w)]

/-- the whole pipeline in Lean: nothing but formula, data, names and the NA policy enters -/
def pipelineOp (j : Json) : Json :=
  let frame := frameOfJson ((j.getObjVal? "frame").toOption.getD Json.null)
  let names := namesOfJson ((j.getObjVal? "names").toOption.getD Json.null)
  let env : Env := { frame, names }
  let action := if getStr j "na_action" == "" then "drop" else getStr j "na_action"
  match Pipeline.designMatricesModel Generated.parserTable Generated.resolverOps Generated.naActions
      (getStr j "formula") env action with
  | .error e => pErrJson e
  | .ok b =>
    let t : Trained := ⟨b.response, b.common, b.group⟩
    let news := (getArr j "new").map (fun nj => newJson t nj names)
    Json.mkObj [("train", trainedJson b.frame.nrows t), ("new", Json.arr news.toArray),
                ("terms", jStrs (b.common.map (·.1)))]

def handle (op : String) (j : Json) : Option Json :=
  match op with
  | "pipeline" => some (pipelineOp j)
  | "c04_spec" => some (specC04 j)
  | "design" =>
    let s := getStr j "formula"
    match Scanner.scan s.toList with
    | .error _ => some (errJ "scan")
    | .ok ts =>
      match Parser.parse Generated.parserTable ts with
      | .error _ => some (errJ "parse")
      | .ok e =>
        let table := atomTable e
        let frame := frameOfJson ((j.getObjVal? "frame").toOption.getD Json.null)
        let names := namesOfJson ((j.getObjVal? "names").toOption.getD Json.null)
        let env : Env := { frame, names }
        match train env table j with
        | .error er => some (errTag er)
        | .ok t =>
          let news := (getArr j "new").map (fun nj => newJson t nj names)
          some (Json.mkObj [("train", trainedJson frame.nrows t), ("new", Json.arr news.toArray)])
  | _ => none

end FormulaeModel.Driver.C04
