import FormulaeModel.Driver.Base
import FormulaeModel.Driver.C04
import FormulaeModel.Spec.C05
namespace FormulaeModel.Driver.C05
open Lean FormulaeModel FormulaeModel.Driver FormulaeModel.Design FormulaeModel.Driver.C04

/-- Spec.C05 (block structure) on what the implementation returned for every group-specific term -/
def specC05 (j : Json) : Json :=
  let s := getStr j "formula"
  match Scanner.scan s.toList with
  | .error _ => errJ "scan"
  | .ok ts =>
    match Parser.parse Generated.parserTable ts with
    | .error _ => errJ "parse"
    | .ok e =>
      let table := atomTable e
      let frame := frameOfJson ((j.getObjVal? "frame").toOption.getD Json.null)
      let names := namesOfJson ((j.getObjVal? "names").toOption.getD Json.null)
      let env : Env := { frame, names }
      let terms := (getArr j "terms").map (fun t =>
        let x := matrixOfJson ((t.getObjVal? "x").toOption.getD Json.null)
        let z := matrixOfJson ((t.getObjVal? "z").toOption.getD Json.null)
        match Spec.C05.check env table (strList t "factor") (strList t "groups") x z with
        | .ok v => Json.mkObj [("groups_ok", v.groupsOk), ("blocks_ok", v.blocksOk),
                               ("rows_in_one_group", v.everyRowInOneGroup)]
        | .error er => errTag er)
      Json.mkObj [("terms", Json.arr terms.toArray)]

def handle (op : String) (j : Json) : Option Json :=
  match op with
  | "c05_spec" => some (specC05 j)
  | _ => none

end FormulaeModel.Driver.C05
