import FormulaeModel.Driver.Base
import FormulaeModel.Driver.C04
import FormulaeModel.Spec.C05
import FormulaeModel.Model.Encoding
namespace FormulaeModel.Driver.C05
open Lean FormulaeModel FormulaeModel.Driver FormulaeModel.Design FormulaeModel.Driver.C04

/-- Spec.C05 (block structure) on what the implementation returned for every group-specific term -/
def specC05 (j : Json) : Json :=
  let s := getStr j "formula"
  match Scanner.scan s.toList with
  | .error _ => errJ "scan"
  | .ok ts =>
    match Parser.parse Generated.parserTable ts with
    | .error _ => errJ "parse"
    | .ok e =>
      let table := atomTable e
      let frame := frameOfJson ((j.getObjVal? "frame").toOption.getD Json.null)
      let names := namesOfJson ((j.getObjVal? "names").toOption.getD Json.null)
      let env : Env := { frame, names }
      let terms := (getArr j "terms").map (fun t =>
        let x := matrixOfJson ((t.getObjVal? "x").toOption.getD Json.null)
        let z := matrixOfJson ((t.getObjVal? "z").toOption.getD Json.null)
        let d30 := Spec.C05.classD30 table (strList t "factor")
        -- the group names the evaluation model predicts for this grouping factor (the model
        -- mirrors D30: a factor that carries its own contrast is coded with it)
        let modelGroups : Json :=
          match trainGroup env table ⟨"", none, ⟨"", (strList t "factor").map (fun c => (c, true))⟩⟩ with
          | .ok g => jStrs g.st.groups
          | .error _ => Json.null
        -- labels (when sent): one per column, group-major
        let labelsOk : Json :=
          match t.getObjVal? "labels" with
          | .ok (.arr _) =>
            (match Spec.C05.checkLabels env table (strList t "factor") (strList t "labels")
                    ((z.headD []).length) with
             | .ok b => Json.bool b
             | .error _ => Json.null)
          | _ => Json.null
        match Spec.C05.check env table (strList t "factor") (strList t "groups") x z with
        | .ok v => Json.mkObj [("groups_ok", v.groupsOk), ("blocks_ok", v.blocksOk),
                               ("rows_in_one_group", v.everyRowInOneGroup), ("class_d30", d30),
                               ("model_groups", modelGroups), ("labels_ok", labelsOk)]
        | .error er => ((errTag er).setObjVal! "class_d30" d30).setObjVal! "model_groups" modelGroups)
      Json.mkObj [("terms", Json.arr terms.toArray)]

/-- Spec.C05.checkNew (block structure of the per-term blocks of an object returned by
`evaluate_new_data`) on what the implementation returned; "frame" is the NEW frame -/
def specC05New (j : Json) : Json :=
  let s := getStr j "formula"
  match Scanner.scan s.toList with
  | .error _ => errJ "scan"
  | .ok ts =>
    match Parser.parse Generated.parserTable ts with
    | .error _ => errJ "parse"
    | .ok e =>
      let table := atomTable e
      let frame := frameOfJson ((j.getObjVal? "frame").toOption.getD Json.null)
      let names := namesOfJson ((j.getObjVal? "names").toOption.getD Json.null)
      let env : Env := { frame, names }
      let hasTrain := (j.getObjVal? "train_frame").toOption.isSome
      let trainEnv : Env := { frame := frameOfJson ((j.getObjVal? "train_frame").toOption.getD Json.null), names }
      let src := (getArr j "src").filterMap (fun x => x.getNat?.toOption)
      let terms := (getArr j "terms").map (fun t =>
        let x := matrixOfJson ((t.getObjVal? "x").toOption.getD Json.null)
        let z := matrixOfJson ((t.getObjVal? "z").toOption.getD Json.null)
        let d30 := Spec.C05.classD30 table (strList t "factor")
        -- with "train_frame" + "src" + the term's "z_train": e's values on the new rows are read
        -- from the training block (own slot of the source row), not from the effect object
        let zTrain := matrixOfJson ((t.getObjVal? "z_train").toOption.getD Json.null)
        let fromTraining := hasTrain && (t.getObjVal? "z_train").toOption.isSome
        let verdict :=
          if fromTraining then
            Spec.C05.checkNewFromTraining trainEnv env table (strList t "factor") (strList t "groups")
              src zTrain z
          else Spec.C05.checkNew env table (strList t "factor") (strList t "groups") x z
        match verdict with
        | .ok v =>
          -- "train_width": the derived block has the training slots (+ the appended one), each as
          -- wide as at training; "labels": still one per training column, group-major
          let widthOk : Json := match (t.getObjValAs? Nat "train_width").toOption with
            | some w => Json.bool (Spec.C05.newWidthOk (strList t "groups") w v.anyUnseen z)
            | none => Json.null
          let labelsOk : Json :=
            match t.getObjVal? "labels", (t.getObjValAs? Nat "train_width").toOption with
            | .ok (.arr _), some w =>
              if hasTrain then
                (match Spec.C05.checkLabels trainEnv table (strList t "factor") (strList t "labels") w with
                 | .ok b => Json.bool b
                 | .error _ => Json.null)
              else Json.null
            | _, _ => Json.null
          Json.mkObj [("blocks_ok", v.blocksOk), ("any_unseen", v.anyUnseen),
                      ("class_d30", d30), ("width_ok", widthOk), ("labels_ok", labelsOk),
                      ("from_training", fromTraining)]
        | .error er => (errTag er).setObjVal! "class_d30" d30)
      Json.mkObj [("terms", Json.arr terms.toArray)]

def termDescOfJson (j : Json) : Option Encoding.TermDesc :=
  if getBool j "i" then some .intercept else
  match (getArr j "c").filterMap (fun c =>
    match c with
    | .arr #[.str n, .str k, .bool isCall] =>
      some (⟨n, if k == "c" then Encoding.Kind.categoric else Encoding.Kind.numeric, isCall⟩ : Encoding.Comp)
    | _ => none) with
  | c :: cs => some (.term c cs)
  | [] => none

/-- the rule the statement prescribes for the effects of one grouping factor: the common-effects
redundancy analysis (C03) of the effect family; `agrees` = it yields exactly one coding per term
and that coding is the one the implementation used -/
def ruleOp (j : Json) : Json :=
  let fam := (getArr j "family").filterMap termDescOfJson
  let used : List (String × List (String × Bool)) := (getArr j "used").filterMap (fun t =>
    match t with
    | .arr #[.str n, .arr fl] => some (n, fl.toList.filterMap (fun p =>
        match p with | .arr #[.str c, .bool b] => some (c, b) | _ => none))
    | _ => none)
  match Encoding.encodingBools fam with
  | .error _ => Json.mkObj [("agrees", false), ("why", "analysis error")]
  | .ok enc =>
    let agrees := used.all (fun (name, flags) =>
      match Contrasts.Dict.get? enc name with
      | some [coding] => flags.all (fun (c, b) => (Contrasts.Dict.get? coding c).getD false == b)
      | some _ => false                       -- none or several codings: helper terms would be needed
      | none => flags.all (fun p => p.2 == false))
    Json.mkObj [("agrees", agrees), ("has_intercept", fam.any Encoding.TermDesc.isIntercept)]

def handle (op : String) (j : Json) : Option Json :=
  match op with
  | "c05_rule" => some (ruleOp j)
  | "c05_spec" => some (specC05 j)
  | "c05_new_spec" => some (specC05New j)
  | _ => none

end FormulaeModel.Driver.C05
