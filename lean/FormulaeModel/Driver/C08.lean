import FormulaeModel.Driver.Base
import FormulaeModel.Driver.C04
import FormulaeModel.Spec.C08
namespace FormulaeModel.Driver.C08
open Lean FormulaeModel FormulaeModel.Driver FormulaeModel.Design FormulaeModel.Driver.C04

def natList (j : Json) (k : String) : List Nat := (getArr j k).filterMap (fun x => x.getNat?.toOption)

/-- Spec.C08 on pairs (base run, transformed run) of the real implementation -/
def handle (op : String) (j : Json) : Option Json :=
  match op with
  | "c08_spec" =>
    let pairs := (getArr j "pairs").map (fun p =>
      let base := matrixOfJson ((p.getObjVal? "base").toOption.getD Json.null)
      let other := matrixOfJson ((p.getObjVal? "other").toOption.getD Json.null)
      let metaOk := getStr p "meta_base" == getStr p "meta_other"
      let paramsOk :=
        let a := matrixOfJson ((p.getObjVal? "params_base").toOption.getD Json.null)
        let b := matrixOfJson ((p.getObjVal? "params_other").toOption.getD Json.null)
        Spec.C06.rowsEqual a b
      let dataOk := match getStr p "rule" with
        | "perm" =>
          let sigma := natList p "sigma"
          Spec.C08.isPermutation sigma base.length && Spec.C08.permutedOk base other sigma
        | _ => Spec.C08.unchangedOk base other
      Json.mkObj [("data_ok", dataOk), ("meta_ok", metaOk), ("params_ok", paramsOk)])
    some (Json.mkObj [("pairs", Json.arr pairs.toArray)])
  | _ => none

end FormulaeModel.Driver.C08
