import FormulaeModel.Driver.Base
import FormulaeModel.Model.Scanner
import FormulaeModel.Model.Parser
import FormulaeModel.Model.Lazy
import FormulaeModel.Generated.Tables
import FormulaeModel.Spec.C01
import FormulaeModel.Spec.C12
/-
Driver operations of C12.

  {"op":"c12", "s": "<text of one call term>", "n": <rows>, "vars": {name: value, …},
   "impl_name": <name the implementation gave, optional>}
      -> tokens, tree, lazy tree (name, fully parenthesised Python text), model value, Python
         value of the tree (`pyEval`), guard predicates, the normalised token text, and the name
         part of the specification evaluated on the implementation's name
  {"op":"c12_pair", "a": <text>, "b": <text>}
      -> whether the two calls collide (different lazy trees, same name), guards

Values cross the protocol as {"n":[num,den]} | {"b":bool} | {"s":str} | {"none":true} |
{"v":[[num,den],…]} | {"bv":[bool,…]}.

The environment has the recording callees of harness/c12.py:
  f(*args, **kwargs) = Σ (i+1)·num(args[i]) + Σ w(k)·num(kwargs[k])   as a column of n rows
  g(v, k=1)          = v * 2 + k          (Python operators, scalars stay scalars)
  I(x)               = x
and, for dotted callees, the module-like objects of the request ("mods": a flat table of the
objects reachable from the namespace, each identified by its attribute path; an entry with
"m" is the recording function  u(v, k=1) = v * m + k, an entry without it a plain namespace
object, which is not callable):
  {"mods": [{"p": ["tk"]}, {"p": ["tk", "unit"], "m": [3, 1]}, {"p": ["tk", "v2"]}, …]}
-/
namespace FormulaeModel.Driver.C12
open Lean FormulaeModel FormulaeModel.Driver FormulaeModel.Lazy FormulaeModel.Spec.C12

def ops : OpTable := ⟨Generated.callBinaryOps, Generated.callUnaryOps, Generated.callSymbols⟩

/-! values ⇄ JSON -/

def ratJ (q : Rat) : Json := Json.arr #[Json.num (JsonNumber.fromInt q.num), Json.num (JsonNumber.fromNat q.den)]

def valJ : Val → Json
  | .num q => Json.mkObj [("n", ratJ q)]
  | .bool b => Json.mkObj [("b", Json.bool b)]
  | .str s => Json.mkObj [("s", Json.str s)]
  | .none => Json.mkObj [("none", Json.bool true)]
  | .vec xs => Json.mkObj [("v", Json.arr (xs.map ratJ).toArray)]
  | .bvec bs => Json.mkObj [("bv", Json.arr (bs.map Json.bool).toArray)]

def ratOfJ? (j : Json) : Option Rat :=
  match j with
  | .arr #[a, b] =>
    match a.getInt?, b.getInt? with
    | .ok n, .ok d => if d = 0 then none else some ((n : Rat) / (d : Rat))
    | _, _ => none
  | _ => none

def valOfJ? (j : Json) : Option Val :=
  match j.getObjVal? "n" with
  | .ok q => (ratOfJ? q).map Val.num
  | .error _ =>
  match j.getObjVal? "b" with
  | .ok (.bool b) => some (.bool b)
  | _ =>
  match j.getObjVal? "s" with
  | .ok (.str s) => some (.str s)
  | _ =>
  match j.getObjVal? "none" with
  | .ok _ => some .none
  | .error _ =>
  match j.getObjVal? "v" with
  | .ok (.arr xs) => (xs.toList.mapM ratOfJ?).map Val.vec
  | _ =>
  match j.getObjVal? "bv" with
  | .ok (.arr xs) =>
    (xs.toList.mapM (fun (x : Json) => match x with | Json.bool b => some b | _ => none)).map Val.bvec
  | _ => none

def evalErrTag : EvalErr → String
  | .name n => "name:" ++ n
  | .zeroDiv => "zero_div"
  | .shape => "shape"
  | .ambiguous => "ambiguous"
  | .unsupported => "unsupported"
  | .unknownOp fn => "unknown_op:" ++ fn
  | .callee => "callee"
  | .notPython => "not_python"

def resErrTag : ResErr → String
  | .binaryKind k => "binary_kind:" ++ k.name
  | .unaryKind k => "unary_kind:" ++ k.name
  | .symbol fn => "symbol:" ++ fn
  | .calleeNotVariable => "callee_not_variable"
  | .assignVisited => "assign_visited"
  | .unmodelledLiteral => "unmodelled_literal"

def evalJ : Except EvalErr Val → Json
  | .ok v => Json.mkObj [("ok", valJ v)]
  | .error e => Json.mkObj [("err", evalErrTag e)]

/-! the recording callees -/

def strCode (s : String) : Rat := (((s.toList.map Char.toNat).sum % 7 + 1 : Nat) : Rat)
def kwWeight (k : String) : Rat := ((10 + (k.toList.map Char.toNat).sum % 10 : Nat) : Rat)

/-- `num(v)` as a column of `n` rows -/
def numOf (n : Nat) : Val → Except EvalErr (List Rat)
  | .vec xs => if xs.length = n then .ok xs else .error .shape
  | .bvec bs => if bs.length = n then .ok (bs.map b2q) else .error .shape
  | .num q => .ok (List.replicate n q)
  | .bool b => .ok (List.replicate n (b2q b))
  | .str s => .ok (List.replicate n (strCode s))
  | .none => .ok (List.replicate n (-3))

def addScaled (w : Rat) (acc xs : List Rat) : List Rat := List.zipWith (fun a x => a + w * x) acc xs

def fPos (n : Nat) : Nat → List Rat → List Val → Except EvalErr (List Rat)
  | _, acc, [] => .ok acc
  | i, acc, v :: vs => do
    let xs ← numOf n v
    fPos n (i + 1) (addScaled ((i + 1 : Nat) : Rat) acc xs) vs

def fKw (n : Nat) : List Rat → List (String × Val) → Except EvalErr (List Rat)
  | acc, [] => .ok acc
  | acc, (k, v) :: ks => do
    let xs ← numOf n v
    fKw n (addScaled (kwWeight k) acc xs) ks

def fnF (n : Nat) (xs : List Val) (ks : List (String × Val)) : Except EvalErr Val := do
  let a ← fPos n 0 (List.replicate n 0) xs
  let b ← fKw n a ks
  if b.all inRange then pure (.vec b) else .error .unsupported

def fnG (xs : List Val) (ks : List (String × Val)) : Except EvalErr Val :=
  match xs, ks with
  | [v], [] => do BinOp.add.apply (← BinOp.mul.apply v (.num 2)) (.num 1)
  | [v], [("k", k)] => do BinOp.add.apply (← BinOp.mul.apply v (.num 2)) k
  | _, _ => .error .callee

def fnI (xs : List Val) (ks : List (String × Val)) : Except EvalErr Val :=
  match xs, ks with
  | [v], [] => .ok v
  | _, _ => .error .callee

/-! module-like objects for dotted callees -/

/-- one object reachable from the namespace: its attribute path (the first segment is the name
it is bound to in the namespace) and, if it is a recording function, its multiplier -/
structure ModEntry where
  path : List String
  mult : Option Rat

/-- `u(v, k=1) = v * m + k` -/
def fnUnit (m : Rat) (xs : List Val) (ks : List (String × Val)) : Except EvalErr Val :=
  match xs, ks with
  | [v], [] => do BinOp.add.apply (← BinOp.mul.apply v (.num m)) (.num 1)
  | [v], [("k", k)] => do BinOp.add.apply (← BinOp.mul.apply v (.num m)) k
  | _, _ => .error .callee

def findObj (tbl : List ModEntry) (p : List String) : Option ModEntry := tbl.find? (fun e => e.path == p)

/-- `getattr(obj, a)`, objects identified by their path (`none`: AttributeError) -/
def getattrObj (tbl : List ModEntry) (obj : List String) (a : String) : Option (List String) :=
  (findObj tbl (obj ++ [a])).map (·.path)

/-- `get_function_from_module(name, env)` for `names = name.split(".")`: `env.namespace[names[0]]`,
then `getattr` along `names[1:]`, each step on the object reached so far.  It is also what Python
means by the attribute chain `a.b.c.f` (`Spec.C12.pyEval` reads a callee through the same `Env`). -/
def lookupDotted (tbl : List ModEntry) (names : List String) : Option ModEntry :=
  match names with
  | [] => none
  | head :: rest =>
    match findObj tbl [head] with
    | none => none
    | some top =>
      match rest.foldlM (getattrObj tbl) top.path with
      | none => none
      | some p => findObj tbl p

def mkEnv (n : Nat) (vars : List (String × Val)) (mods : List ModEntry := []) : Env where
  var := fun name => (vars.find? (fun p => p.1 == name)).map (·.2)
  fn := fun name =>
    if name == "f" then some (fnF n)
    else if name == "g" then some fnG
    else if name == "I" then some fnI
    else
      match lookupDotted mods (name.splitOn ".") with
      | some ⟨_, some m⟩ => some (fnUnit m)
      | some ⟨_, none⟩ => some (fun _ _ => .error .callee)     -- a namespace object is not callable
      | none => none

def modsOfJ (j : Json) : List ModEntry :=
  (getArr j "mods").filterMap (fun e =>
    match e.getObjVal? "p" with
    | .ok (.arr ps) =>
      some ⟨ps.toList.filterMap (fun x => match x with | .str s => some s | _ => none),
            match e.getObjVal? "m" with | .ok q => ratOfJ? q | .error _ => none⟩
    | _ => none)

def varsOfJ (j : Json) : List (String × Val) :=
  match j.getObjVal? "vars" with
  | .ok (.obj kvs) => kvs.toList.filterMap (fun (k, v) => (valOfJ? v).map (fun x => (k, x)))
  | _ => []

/-! the operations -/

def scanErrTag : Scanner.ScanErr → String
  | .empty => "empty" | .unexpected _ => "unexpected" | .unterminatedString => "unterminated_string"
  | .unterminatedBackquote => "unterminated_backquote" | .tildes => "tildes"
  | .nonAscii => "non_ascii" | .fuel => "fuel"

def parseErrTag : Parser.ParseErr → String
  | .fuel => "fuel" | .unexpected => "unexpected" | .expected k => "expected_" ++ k.name
  | .invalidTarget => "invalid_target" | .badSubset => "bad_subset" | .leftover => "leftover"

def isCallTerm : Expr → Bool
  | .call .. => true
  | .brace .. => true
  | _ => false

/-- text of one call term -> tree (formula grammar, regenerated table) -/
def treeOfText (s : String) : Except String (List Token × Expr) :=
  match Scanner.scan s.toList false with
  | .error e => .error ("scan:" ++ scanErrTag e)
  | .ok ts =>
    match Parser.parse Generated.parserTable ts with
    | .error e => .error ("parse:" ++ parseErrTag e)
    | .ok e => if isCallTerm e then .ok (ts, e) else .error "not_a_call"

/-- `{e}` is `I(e)` (C12_brace): the guards of a brace term are those of the call it stands for -/
def desugar : Expr → Expr
  | .brace _ e _ => .call (.variable ⟨.IDENTIFIER, "I"⟩) ⟨.LEFT_PAREN, "("⟩ (.last e) ⟨.RIGHT_PAREN, ")"⟩
  | e => e

def guardsJ (e0 : Expr) : Json :=
  let e := desugar e0
  Json.mkObj [
    ("stratified", Spec.C01.Stratified Spec.C01.documentedTable e),
    ("py_alphabet", PyAlphabet e),
    ("pow_ok", PowCompatible e),
    ("chainless", Chainless e),
    ("py_compatible", PyCompatible e),
    ("py_stratified", PyStratified e),
    ("grouping_inert", GroupingInert Generated.parserTable e),
    ("ungrouped_py_compatible", PyCompatible (Spec.C01.ungroup e))]

def c12Run (j : Json) : Json :=
  let s := getStr j "s"
  match treeOfText s with
  | .error e => Json.mkObj [("err", e)]
  | .ok (ts, e) =>
    let env := mkEnv (getNat j "n" 0) (varsOfJ j) (modsOfJ j)
    let canon := canonText (Spec.C01.ungroup (desugar e)).flat
    let base : List (String × Json) :=
      [("toks", Json.arr (ts.map tokJson).toArray), ("ast", Json.str e.sexp),
       ("guards", guardsJ e), ("canon", Json.str canon),
       ("py_value", evalJ (pyEval env (desugar e)))]
    match resolveCall ops e with
    | .error r => Json.mkObj (base ++ [("res_err", Json.str (resErrTag r))])
    | .ok t =>
      let name := t.str
      -- name part of the specification, evaluated on the implementation's name: inside the
      -- Python alphabet with inert grouping the name must be the normalised token text
      let implName := j.getObjValAs? String "impl_name"
      let specName : Json :=
        match implName with
        | .ok n =>
          if PyAlphabet (desugar e) && GroupingInert Generated.parserTable (desugar e) then
            Json.bool (n == canon)
          else Json.null
        | .error _ => Json.null
      Json.mkObj (base ++ ([("name", Json.str name), ("paren", Json.str t.parenStr),
        ("value", evalJ (t.eval env)), ("spec_name_ok", specName),
        ("name_is_canon", Json.bool (name == canon))] : List (String × Json)))

def pairRun (j : Json) : Json :=
  match treeOfText (getStr j "a"), treeOfText (getStr j "b") with
  | .ok (_, a), .ok (_, b) =>
    let ra := resolveCall ops a
    let rb := resolveCall ops b
    let sameLazy := match ra, rb with
      | .ok x, .ok y => decide (x = y)
      | _, _ => false
    let pyEq := match ra, rb with
      | .ok x, .ok y => x.pyEq y
      | _, _ => false
    Json.mkObj [
      ("collision", nameCollision ops a b),
      ("py_eq", pyEq),
      ("literal_merge", literalMerge ops a b),
      ("same_lazy", sameLazy),
      ("name_a", match ra with | .ok x => Json.str x.str | .error _ => Json.null),
      ("name_b", match rb with | .ok x => Json.str x.str | .error _ => Json.null),
      ("same_tokens_ungrouped",
        decide ((Spec.C01.ungroup a).flat = (Spec.C01.ungroup b).flat)),
      ("inert_a", GroupingInert Generated.parserTable a),
      ("inert_b", GroupingInert Generated.parserTable b),
      ("alphabet", PyAlphabet (desugar a) && PyAlphabet (desugar b)),
      ("ungrouped_compatible", PyCompatible (Spec.C01.ungroup (desugar a))
        && PyCompatible (Spec.C01.ungroup (desugar b)))]
  | .error e, _ => Json.mkObj [("err", e)]
  | _, .error e => Json.mkObj [("err", e)]

def handle (op : String) (j : Json) : Option Json :=
  match op with
  | "c12" => some (c12Run j)
  | "c12_pair" => some (pairRun j)
  | _ => none

end FormulaeModel.Driver.C12
