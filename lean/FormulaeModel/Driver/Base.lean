import Lean.Data.Json
import FormulaeModel.Model.Token
/-
Shared helpers of the JSON-lines driver. Each property has a `FormulaeModel/Driver/Cxx.lean`
exposing `handle : String → Json → Option Json` (first argument: the "op" field).
-/
namespace FormulaeModel.Driver
open Lean FormulaeModel

def tokJson (t : Token) : Json := Json.arr #[t.kind.name, t.lexeme]

def tokOfJson? (j : Json) : Option Token :=
  match j with
  | .arr #[.str k, .str l] => (Kind.ofName? k).map (fun k => ⟨k, l⟩)
  | _ => none

def errJ (s : String) : Json := Json.mkObj [("err", s)]
def okJ (j : Json) : Json := Json.mkObj [("ok", j)]

def getStr (j : Json) (k : String) : String := (j.getObjValAs? String k).toOption.getD ""
def getBool (j : Json) (k : String) (d : Bool := false) : Bool := (j.getObjValAs? Bool k).toOption.getD d
def getNat (j : Json) (k : String) (d : Nat := 0) : Nat := (j.getObjValAs? Nat k).toOption.getD d
def getInt (j : Json) (k : String) (d : Int := 0) : Int := (j.getObjValAs? Int k).toOption.getD d
def getArr (j : Json) (k : String) : List Json :=
  match j.getObjVal? k with
  | .ok (.arr a) => a.toList
  | _ => []
def strList (j : Json) (k : String) : List String :=
  (getArr j k).filterMap (fun x => match x with | .str s => some s | _ => none)
def jStrs (l : List String) : Json := Json.arr (l.map Json.str).toArray

end FormulaeModel.Driver
