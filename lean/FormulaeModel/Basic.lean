def hello := "world"
