import FormulaeModel.Proofs.ShapeEval
import FormulaeModel.Proofs.RowsTerm
set_option linter.unusedSimpArgs false
set_option linter.unusedVariables false
/-
Shape lemmas (C04 / C17), part 2: one component.  `trainComp` returns one row per row of the
frame, every row as wide as the list of labels, and a state (levels, contrast matrix) from which
`newComp` produces, on any later rectangular frame, one row per row of that frame and the same
number of columns.
-/
namespace FormulaeModel.Design
open FormulaeModel

/-- every row of `m` has exactly `w` entries -/
def HasWidth (m : Matrix) (w : Nat) : Prop := ∀ r ∈ m, r.length = w

theorem hasWidth_colOfEntries (xs : List Entry) : HasWidth (colOfEntries xs) 1 := by
  intro r hr
  simp only [colOfEntries, List.mem_map] at hr
  obtain ⟨x, _, rfl⟩ := hr
  rfl

theorem hasWidth_replicate (n : Nat) (row : List Entry) : HasWidth (List.replicate n row) row.length := by
  intro r hr
  rw [(List.mem_replicate.1 hr).2]

theorem colOfEntries_length (xs : List Entry) : (colOfEntries xs).length = xs.length := by
  simp [colOfEntries]

/-! ### contrast matrices -/

/-- one row per level, every row as wide as the list of column labels -/
def ContrastMatrix.shapeOk (cm : ContrastMatrix) (nlevels : Nat) : Prop :=
  cm.rows.length = nlevels ∧ ∀ r ∈ cm.rows, r.length = cm.labels.length

theorem reducedLike_shape (levels : List Level) (r : Nat) (z : Int)
    (hr : levels.length ≠ 0 → r < levels.length) :
    ContrastMatrix.shapeOk
      ⟨(List.range levels.length).map (fun i =>
          if i < r then unitRow (levels.length - 1) i
          else if i == r then List.replicate (levels.length - 1) z
          else unitRow (levels.length - 1) (i - 1)),
        ((levels.take r) ++ (levels.drop (r + 1))).map Level.label⟩ levels.length := by
  refine ⟨by simp, ?_⟩
  intro row hrow
  simp only [List.mem_map, List.mem_range] at hrow
  obtain ⟨i, hi, rfl⟩ := hrow
  have hr' := hr (by omega)
  have hl : (((levels.take r) ++ (levels.drop (r + 1))).map Level.label).length = levels.length - 1 := by
    simp only [List.length_map, List.length_append, List.length_take, List.length_drop]
    omega
  simp only [hl]
  split
  · simp [unitRow]
  · split <;> simp [unitRow]

theorem treatmentReduced_shape (reference : Option Level) (levels : List Level) (cm : ContrastMatrix)
    (h : treatmentReduced reference levels = .ok cm) : cm.shapeOk levels.length := by
  obtain ⟨r, hr, hrows, hlabels⟩ := treatmentReduced_ok reference levels cm h
  have := reducedLike_shape levels r 0 (by
    intro hne
    rcases hr with ⟨_, rfl⟩ | ⟨l, _, hl⟩
    · omega
    · exact (indexOf?_some _ _ _ hl).1)
  obtain ⟨rows, labels⟩ := cm
  simp only at hrows hlabels
  subst hrows hlabels
  simpa [reducedRows] using this

theorem sumOmitIndex_lt (omitL : Option Level) (levels : List Level) (r : Nat)
    (h : sumOmitIndex omitL levels = .ok r) (hne : levels.length ≠ 0) : r < levels.length := by
  unfold sumOmitIndex at h
  split at h
  · simp only [pure_ok] at h; omega
  · split at h
    · rename_i i hi
      simp only [pure_ok] at h
      subst h
      exact (indexOf?_some _ _ _ hi).1
    · simp at h

theorem sumReduced_shape (omitL : Option Level) (levels : List Level) (cm : ContrastMatrix)
    (h : sumReduced omitL levels = .ok cm) : cm.shapeOk levels.length := by
  unfold sumReduced at h
  rw [bind_ok] at h
  obtain ⟨r, hr, h⟩ := h
  simp only [pure_ok] at h
  subst h
  exact reducedLike_shape levels r (-1) (sumOmitIndex_lt omitL levels r hr)

/-- every coding the model knows produces a matrix with one row per level and one label per column -/
theorem code_shape (c : Contrast) (full : Bool) (levels : List Level) (cm : ContrastMatrix)
    (h : c.code full levels = .ok cm) : cm.shapeOk levels.length := by
  unfold Contrast.code at h
  split at h
  · simp only [pure_ok] at h
    subst h
    refine ⟨by simp [treatmentFull], ?_⟩
    intro row hrow
    simp only [treatmentFull, List.mem_map, List.mem_range] at hrow
    obtain ⟨i, _, rfl⟩ := hrow
    simp [treatmentFull, unitRow]
  · exact treatmentReduced_shape _ _ _ h
  · unfold sumFull at h
    simp only [bind_ok, pure_ok] at h
    obtain ⟨c', hc', rfl⟩ := h
    obtain ⟨h1, h2⟩ := sumReduced_shape _ _ _ hc'
    refine ⟨by simpa using h1, ?_⟩
    intro row hrow
    simp only [List.mem_map] at hrow
    obtain ⟨r', hr', rfl⟩ := hrow
    simp [h2 r' hr']
  · exact sumReduced_shape _ _ _ h

theorem rowOfInts_length (r : List Int) : (rowOfInts r).length = r.length := by simp [rowOfInts]

theorem getD_rows_length (cm : ContrastMatrix) (n i : Nat) (hs : cm.shapeOk n) (hi : i < n) :
    (rowOfInts (cm.rows.getD i [])).length = cm.labels.length := by
  rw [rowOfInts_length]
  have hi' : i < cm.rows.length := by rw [hs.1]; exact hi
  simp only [List.getD_eq_getElem?_getD, List.getElem?_eq_getElem hi', Option.getD_some]
  exact hs.2 _ (List.getElem_mem _)

/-- `contrast_matrix.matrix[codes]`: every coded row has one entry per column label -/
theorem codeRows_width (cm : ContrastMatrix) (levels : List Level) (xs : List (Option Level))
    (m : Matrix) (hs : cm.shapeOk levels.length) (h : codeRows cm levels xs = .ok m) :
    HasWidth m cm.labels.length := by
  apply mapM_forall _ (fun r => r.length = cm.labels.length) xs m h
  intro x _ y hy
  split at hy
  · split at hy
    · rename_i l i hi
      simp only [pure_ok] at hy
      subst hy
      exact getD_rows_length cm _ i hs (indexOf?_some _ _ _ hi).1
    · simp at hy
  · simp at hy

theorem evalCategoric_shape (name : String) (xs : List (Option Level))
    (d : Option (Bool × List String)) (full : Bool) (levels : List Level) (cm : ContrastMatrix)
    (m : Matrix) (h : evalCategoric name xs d full = .ok (levels, cm, m)) :
    m.length = xs.length ∧ cm.shapeOk levels.length ∧ HasWidth m cm.labels.length := by
  have hrows := evalCategoric_ok name xs d full levels cm m h
  have hcm : cm.shapeOk levels.length := by
    unfold evalCategoric at h
    repeat' split at h
    all_goals first
      | (simp [bind, Except.bind] at h; done)
      | (simp only [bind_ok, pure_ok, Prod.mk.injEq] at h
         obtain ⟨ls, _, cm', hcm, m', hm, rfl, rfl, rfl⟩ := h
         exact code_shape _ _ _ _ hcm)
  exact ⟨codeRows_length _ _ _ _ hrows, hcm, codeRows_width _ _ _ _ hcm hrows⟩

theorem evalBox_shape (b : Box) (full : Bool) (levels : List Level) (cm : ContrastMatrix)
    (m : Matrix) (h : evalBox b full = .ok (levels, cm, m)) :
    m.length = b.data.length ∧ cm.shapeOk levels.length ∧ HasWidth m cm.labels.length := by
  have hrows := evalBox_ok b full levels cm m h
  have hcm : cm.shapeOk levels.length := by
    unfold evalBox at h
    repeat' split at h
    all_goals first
      | (simp [bind, Except.bind] at h; done)
      | (simp only [bind_ok, pure_ok, Prod.mk.injEq] at h
         obtain ⟨ls, _, cm', hcm, m', hm, rfl, rfl, rfl⟩ := h
         exact code_shape _ _ _ _ hcm)
  exact ⟨codeRows_length _ _ _ _ hrows, hcm, codeRows_width _ _ _ _ hcm hrows⟩

/-! ### the trained component -/

/-- the number of columns of a trained component (training and new data) -/
def CompState.width (st : CompState) : Nat :=
  match st.kind, st.contrast with
  | .categoric, some cm => cm.labels.length
  | _, _ => 1

/-- what a trained state guarantees: a remembered contrast matrix belongs to a categoric component,
has one row per remembered level and one label per column -/
def CompState.shapeOk (st : CompState) : Prop :=
  ∀ cm, st.contrast = some cm → st.kind = .categoric ∧ cm.shapeOk st.levels.length

/-- the shape facts about what `trainComp` returns -/
structure CompOut.Shaped (n : Nat) (out : CompOut) : Prop where
  rows : out.value.length = n
  state : out.st.shapeOk
  cols : ∀ ls, out.labels = some ls → HasWidth out.value ls.length ∧ ls.length = out.st.width
  uniform : ∃ w, HasWidth out.value w

theorem Shaped.plain (n : Nat) (st : CompState) (value : Matrix) (labels : Option (List String))
    (h1 : value.length = n) (hc : st.contrast = none) (hu : ∃ w, HasWidth value w)
    (hl : ∀ ls, labels = some ls → ls.length = 1 ∧ HasWidth value 1) :
    CompOut.Shaped n ⟨st, value, labels⟩ := by
  refine ⟨h1, ?_, ?_, hu⟩
  · intro cm hcm; rw [hc] at hcm; cases hcm
  · intro ls hls
    obtain ⟨a, b⟩ := hl ls hls
    refine ⟨by rw [a]; exact b, ?_⟩
    simp only [CompState.width, hc]
    rw [a]
    split <;> simp_all

theorem Shaped.coded (n : Nat) (st : CompState) (cm : ContrastMatrix) (m : Matrix) (nm : String)
    (hk : st.kind = .categoric) (hc : st.contrast = some cm) (hs : cm.shapeOk st.levels.length)
    (hl : m.length = n) (hw : HasWidth m cm.labels.length) :
    CompOut.Shaped n ⟨st, m, some (categoricLabels nm cm)⟩ := by
  refine ⟨hl, ?_, ?_, ⟨_, hw⟩⟩
  · intro cm' hcm'
    rw [hc] at hcm'
    cases hcm'
    exact ⟨hk, hs⟩
  · intro ls hls
    cases hls
    simp only [categoricLabels, List.length_map, CompState.width, hk, hc]
    exact ⟨hw, trivial⟩

theorem zipWith_pair_width (ss ts : List Entry) : HasWidth (List.zipWith (fun a b => [a, b]) ss ts) 2 := by
  intro r hr
  rw [List.mem_iff_getElem] at hr
  obtain ⟨i, hi, rfl⟩ := hr
  simp

theorem Shaped.ofCategoric (n : Nat) (nm nm' : String) (xs : List (Option Level))
    (d : Option (Bool × List String)) (full : Bool) (levels : List Level) (cm : ContrastMatrix)
    (m : Matrix) (hcat : evalCategoric nm xs d full = .ok (levels, cm, m)) (hx : xs.length = n)
    (st : CompState) (hk : st.kind = .categoric) (hc : st.contrast = some cm)
    (hlv : st.levels = levels) : CompOut.Shaped n ⟨st, m, some (categoricLabels nm' cm)⟩ := by
  obtain ⟨h1, h2, h3⟩ := evalCategoric_shape _ _ _ _ _ _ _ hcat
  exact Shaped.coded _ _ cm m _ hk hc (by rw [hlv]; exact h2) (by rw [h1, hx]) h3

theorem Shaped.ofBox (n : Nat) (nm' : String) (b : Box) (full : Bool) (levels : List Level)
    (cm : ContrastMatrix) (m : Matrix) (hcat : evalBox b full = .ok (levels, cm, m))
    (hx : b.data.length = n) (st : CompState) (hk : st.kind = .categoric)
    (hc : st.contrast = some cm) (hlv : st.levels = levels) :
    CompOut.Shaped n ⟨st, m, some (categoricLabels nm' cm)⟩ := by
  obtain ⟨h1, h2, h3⟩ := evalBox_shape _ _ _ _ _ hcat
  exact Shaped.coded _ _ cm m _ hk hc (by rw [hlv]; exact h2) (by rw [h1, hx]) h3

theorem hasWidth_map {α : Type} (f : α → List Entry) (xs : List α) (w : Nat)
    (h : ∀ x, (f x).length = w) : HasWidth (xs.map f) w := by
  intro r hr
  simp only [List.mem_map] at hr
  obtain ⟨x, _, rfl⟩ := hr
  exact h x

set_option hygiene false in
/-- closes a leaf of `trainComp` -/
macro "shape_leaf" : tactic => `(tactic|
  first
  | (simp at h; done)
  | (simp only [bind_ok] at h; simp at h; done)
  | (simp only [pure_ok] at h
     subst h
     first
     | exact Shaped.plain _ _ _ _ (by simp_all [colOfEntries_length, Val.sized]) rfl
         ⟨1, hasWidth_colOfEntries _⟩
         (by intro ls hls; cases hls; exact ⟨rfl, hasWidth_colOfEntries _⟩)
     | exact Shaped.plain _ _ _ _ (by simp) rfl ⟨1, hasWidth_replicate _ [_]⟩
         (by intro ls hls; cases hls; exact ⟨rfl, hasWidth_replicate _ [_]⟩)
     | exact Shaped.plain _ _ _ _ (by simp_all [Val.sized]) rfl ⟨2, zipWith_pair_width _ _⟩
         (by intro ls hls; cases hls))
  | (simp only [pure_bind, pure_ok] at h
     subst h
     exact Shaped.plain _ _ _ _ (by simp_all [Val.sized]) rfl ⟨1, hasWidth_map _ _ 1 (fun _ => rfl)⟩
       (by intro ls hls; cases hls; exact ⟨rfl, hasWidth_map _ _ 1 (fun _ => rfl)⟩))
  | (simp only [bind_ok, pure_ok] at h
     obtain ⟨ls, hls, ⟨levels, cm, m⟩, hcat, rfl⟩ := h
     exact Shaped.ofCategoric _ _ _ _ _ _ _ _ _ hcat
       (by rw [numericLevels_length _ _ hls]; simp_all [Val.sized]) _ rfl rfl rfl)
  | (simp only [bind_ok, pure_ok] at h
     obtain ⟨⟨levels, cm, m⟩, hcat, rfl⟩ := h
     first
     | exact Shaped.ofCategoric _ _ _ _ _ _ _ _ _ hcat (by simp_all [Val.sized]) _ rfl rfl rfl
     | exact Shaped.ofBox _ _ _ _ _ _ _ hcat (by simp_all [Val.sized]) _ rfl rfl rfl))

/-- `set_type` + `set_data` of one component: one row per row of the frame, one entry per label in
every row, and a state whose remembered coding is well shaped — for every expression -/
theorem trainComp_shape (env : Env) (hwf : env.frame.wellFormed = true)
    (hn : env.namesSized env.frame.nrows = true) (name : String) (e : Expr)
    (forced isResponse full : Bool) (out : CompOut)
    (h : trainComp env name e forced isResponse full = .ok out) : out.Shaped env.frame.nrows := by
  unfold trainComp at h
  simp only [] at h
  split at h
  · rw [bind_ok] at h
    obtain ⟨⟨v, ts⟩, hv, h⟩ := h
    rw [posOnly_ok] at hv
    have hs := evalArg_sized env hwf hn _ _ _ _ _ hv
    simp only [] at h
    repeat' split at h
    all_goals shape_leaf
  · rw [bind_ok] at h
    obtain ⟨⟨v, ts⟩, hv, h⟩ := h
    rw [posOnly_ok] at hv
    have hs := evalArg_sized env hwf hn _ _ _ _ _ hv
    simp only [] at h
    repeat' split at h
    all_goals shape_leaf
  · split at h
    · simp at h
    · rename_i c hc
      have hs := colVal_sized c
      rw [frame_col?_length env.frame hwf _ c hc] at hs
      split at h
      · rename_i xs isInt hcv
        rw [hcv] at hs
        repeat' split at h
        all_goals shape_leaf
      · rename_i xs d hcv
        rw [hcv] at hs
        repeat' split at h
        all_goals shape_leaf
      · simp at h

/-! ### new data -/

theorem CompState.width_of_contrast (st : CompState) (cm : ContrastMatrix) (hk : st.kind = .categoric)
    (hc : st.contrast = some cm) : st.width = cm.labels.length := by
  simp [CompState.width, hk, hc]

theorem CompState.width_of_kind (st : CompState) (hk : st.kind ≠ .categoric) : st.width = 1 := by
  unfold CompState.width
  split
  · rename_i h _; exact absurd h hk
  · rfl

theorem newCategoric_shape (st : CompState) (hst : st.shapeOk) (mode : UnseenMode)
    (xs : List (Option Level)) (m : Matrix) (w : Bool)
    (h : newCategoric st mode xs = .ok (m, w)) : m.length = xs.length ∧ HasWidth m st.width := by
  unfold newCategoric at h
  split at h
  · simp at h
  · rename_i cm hc
    obtain ⟨hk, hs⟩ := hst cm hc
    rw [CompState.width_of_contrast st cm hk hc]
    simp only [] at h
    split at h
    · simp only [bind_ok, pure_ok, Prod.mk.injEq] at h
      obtain ⟨m', hm', rfl, rfl⟩ := h
      exact ⟨codeRows_length _ _ _ _ hm', codeRows_width _ _ _ _ hs hm'⟩
    · split at h
      · simp at h
      · simp only [pure_ok, Prod.mk.injEq] at h
        obtain ⟨rfl, rfl⟩ := h
        refine ⟨by simp, ?_⟩
        apply hasWidth_map
        intro x
        split
        · rename_i i hi
          rw [Option.bind_eq_some_iff] at hi
          obtain ⟨l, _, hl⟩ := hi
          exact getD_rows_length cm _ i hs (indexOf?_some _ _ _ hl).1
        · simp

theorem col?_sized (f : Frame) (hwf : f.wellFormed = true) (name : String) (c : Column)
    (h : f.col? name = some c) : (colVal c).sized f.nrows = true := by
  rw [← frame_col?_length f hwf name c h]
  exact colVal_sized c

theorem bind_col?_sized (f : Frame) (hwf : f.wellFormed = true) (o : Option String) (c : Column)
    (h : o.bind f.col? = some c) : (colVal c).sized f.nrows = true := by
  rw [Option.bind_eq_some_iff] at h
  obtain ⟨name, _, hc⟩ := h
  exact col?_sized f hwf name c hc

theorem newCategoric_shape' (st : CompState) (hst : st.shapeOk) (mode : UnseenMode)
    (xs : List (Option Level)) (m : Matrix) (w : Bool) (n : Nat)
    (h : newCategoric st mode xs = .ok (m, w)) (hx : xs.length = n) :
    m.length = n ∧ HasWidth m st.width := by
  obtain ⟨h1, h2⟩ := newCategoric_shape st hst mode xs m w h
  exact ⟨by rw [h1, hx], h2⟩

set_option hygiene false in
macro "shape_new_leaf" : tactic => `(tactic|
  first
  | (simp at h; done)
  | (simp only [bind_ok] at h; simp at h; done)
  | (simp only [pure_ok, Prod.mk.injEq] at h
     obtain ⟨rfl, rfl⟩ := h
     first
     | exact ⟨by simp_all [colOfEntries_length, Val.sized], by
         rw [CompState.width_of_kind _ (by simp_all)]; exact hasWidth_colOfEntries _⟩
     | exact ⟨by simp, by
         rw [CompState.width_of_kind _ (by simp_all)]; exact hasWidth_replicate _ [_]⟩)
  | exact newCategoric_shape' _ hst _ _ _ _ _ h (by simp_all [Val.sized])
  | (simp only [bind_ok] at h
     obtain ⟨ls, hls, h⟩ := h
     exact newCategoric_shape' _ hst _ _ _ _ _ h
       (by rw [numericLevels_length _ _ hls]; simp_all [Val.sized])))

/-- `eval_new_data` of one component on any rectangular frame: one row per row of that frame, and
the number of columns the state stands for -/
theorem newComp_shape (st : CompState) (hst : st.shapeOk) (env : Env)
    (hwf : env.frame.wellFormed = true) (hn : env.namesSized env.frame.nrows = true)
    (mode : UnseenMode) (m : Matrix) (w : Bool) (h : newComp st env mode = .ok (m, w)) :
    m.length = env.frame.nrows ∧ HasWidth m st.width := by
  unfold newComp at h
  simp only [] at h
  split at h
  · split at h
    · split at h
      · shape_new_leaf
      · rw [bind_ok] at h
        obtain ⟨⟨v, ts⟩, hv, h⟩ := h
        rw [posOnly_ok] at hv
        have hs := evalArg_sized env hwf hn _ _ _ _ _ hv
        simp only [] at h
        repeat' split at h
        all_goals shape_new_leaf
    · split at h
      · shape_new_leaf
      · split at h
        · rename_i c hc
          have hs := bind_col?_sized env.frame hwf _ c hc
          split at h
          · rename_i xs isInt hcv
            rw [hcv] at hs
            shape_new_leaf
          · simp at h
        · simp at h
    · rw [bind_ok] at h
      obtain ⟨⟨v, ts⟩, hv, h⟩ := h
      rw [posOnly_ok] at hv
      have hs := evalArg_sized env hwf hn _ _ _ _ _ hv
      simp only [] at h
      repeat' split at h
      all_goals shape_new_leaf
  · split at h
    · split at h
      · shape_new_leaf
      · rw [bind_ok] at h
        obtain ⟨⟨v, ts⟩, hv, h⟩ := h
        rw [posOnly_ok] at hv
        have hs := evalArg_sized env hwf hn _ _ _ _ _ hv
        simp only [] at h
        repeat' split at h
        all_goals shape_new_leaf
    · split at h
      · shape_new_leaf
      · split at h
        · rename_i c hc
          have hs := bind_col?_sized env.frame hwf _ c hc
          split at h
          · rename_i xs isInt hcv
            rw [hcv] at hs
            shape_new_leaf
          · simp at h
        · simp at h
    · rw [bind_ok] at h
      obtain ⟨⟨v, ts⟩, hv, h⟩ := h
      rw [posOnly_ok] at hv
      have hs := evalArg_sized env hwf hn _ _ _ _ _ hv
      simp only [] at h
      repeat' split at h
      all_goals shape_new_leaf
  · split at h
    · simp at h
    · rename_i c hc
      have hs := col?_sized env.frame hwf _ c hc
      repeat' split at h
      all_goals shape_new_leaf


end FormulaeModel.Design
