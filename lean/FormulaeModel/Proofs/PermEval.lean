import FormulaeModel.Proofs.RowsEval
import FormulaeModel.Proofs.PermSort
set_option linter.unusedSimpArgs false
set_option linter.unusedSectionVars false
set_option linter.unusedVariables false
/-
Helper lemmas for C08 (part 2): *training* on a row-permuted frame.  For `sigma` a permutation of
`0..n-1`, evaluating an expression for the first time (`ts = none`) on `env.rows sigma` gives the
value with its rows permuted and the **same** remembered transform state.  No fragment guard:
`C/T/S` with explicit levels and `binary` are included (a permutation keeps the set of values, the
minimum, the mean).
-/
namespace FormulaeModel.Design
open FormulaeModel

/-- `sigma` lists every row index `0..n-1` exactly once -/
def IsPerm (sigma : List Nat) (n : Nat) : Prop := sigma.Perm (List.range n)

theorem IsPerm.lt {sigma : List Nat} {n : Nat} (h : IsPerm sigma n) : ∀ i ∈ sigma, i < n := by
  intro i hi
  simpa using h.mem_iff.1 hi

theorem IsPerm.length {sigma : List Nat} {n : Nat} (h : IsPerm sigma n) : sigma.length = n := by
  simpa using h.length_eq

theorem range_map_getD {α : Type} (xs : List α) (d : α) :
    (List.range xs.length).map (fun i => xs.getD i d) = xs := by
  apply List.ext_getElem
  · simp
  · intro i h1 h2
    simp only [List.length_map, List.length_range] at h1
    simp [List.getD_eq_getElem?_getD, List.getElem?_eq_getElem h1]

/-- the permuted column is a permutation of the column -/
theorem pick_perm {α : Type} {sigma : List Nat} {n : Nat} (hp : IsPerm sigma n) (d : α) (xs : List α)
    (hx : xs.length = n) : (pick sigma d xs).Perm xs := by
  have h1 : (pick sigma d xs).Perm ((List.range n).map (fun i => xs.getD i d)) := List.Perm.map _ hp
  rw [← hx, range_map_getD] at h1
  exact h1

/-- mapping over the picked rows = picking from the mapped column (indices inside the column) -/
theorem pick_map' {α β : Type} (g : α → β) (is : List Nat) (d : α) (d' : β) (xs : List α)
    (h : ∀ i ∈ is, i < xs.length) : pick is d' (xs.map g) = (pick is d xs).map g := by
  rw [← pick_map]
  exact pick_default is d' (g d) _ (by simpa using h)

/-! ### `mean` -/

theorem foldl_sum_perm (xs ys : List Entry) (hp : xs.Perm ys) (init : Entry) :
    xs.foldl (fun acc x => entryOp (fun a b => some (a + b)) acc x) init
      = ys.foldl (fun acc x => entryOp (fun a b => some (a + b)) acc x) init := by
  apply List.Perm.foldl_eq' hp
  intro x _ y _ z
  cases x <;> cases y <;> cases z <;> simp [entryOp]
  all_goals grind

theorem mean_perm (xs ys : List Entry) (hp : xs.Perm ys) : mean xs = mean ys := by
  unfold mean
  have hl := hp.length_eq
  have he : xs.isEmpty = ys.isEmpty := by
    cases xs <;> cases ys <;> simp_all
  rw [he, hl, foldl_sum_perm xs ys hp]

/-! ### values with `n` rows (no restriction on explicit levels) -/

def Val.len (n : Nat) : Val → Prop
  | .vec xs _ => xs.length = n
  | .lvec xs _ => xs.length = n
  | .box b => b.data.length = n
  | .offsetVar xs => xs.length = n
  | .prop ss ts _ => ss.length = n ∧ ts.length = n
  | _ => True

theorem Val.len_of_good (n : Nat) (v : Val) (h : v.good n) : v.len n := by
  cases v <;> simp_all [Val.good, Val.len]

theorem lookupName_len (env : Env) (hwf : env.frame.wellFormed = true) (hn : env.namesScalar = true)
    (name : String) (v : Val) (h : lookupName env name = .ok v) : v.len env.frame.nrows :=
  Val.len_of_good _ _ (lookupName_good env hwf hn name v h)

theorem vecOp_len (f : Rat → Rat → Option Rat) (a b c : Val) (n : Nat) (ha : a.len n) (hb : b.len n)
    (h : vecOp f a b = .ok c) : c.len n := by
  unfold vecOp at h
  split at h
  · simp only [pure, Except.pure, Except.ok.injEq] at h; subst h
    simp only [Val.len] at *; simp [ha, hb]
  · simp only [pure, Except.pure, Except.ok.injEq] at h; subst h
    simp only [Val.len] at *; simp [ha]
  · simp only [pure, Except.pure, Except.ok.injEq] at h; subst h
    simp only [Val.len] at *; simp [hb]
  · split at h
    · simp only [pure, Except.pure, Except.ok.injEq] at h; subst h; simp [Val.len]
    · simp at h
  · simp at h

def CallArgs.len (n : Nat) (a : CallArgs) : Prop :=
  (∀ v ∈ a.pos, v.len n) ∧ (∀ p ∈ a.kw, p.2.len n)

theorem CallArgs.get_len (a : CallArgs) (n : Nat) (h : a.len n) (i : Nat) (name : String) :
    (a.get i name).len n := by
  simp only [CallArgs.get]
  cases hp : a.pos[i]? with
  | some v => exact h.1 v (List.mem_of_getElem? hp)
  | none =>
    cases hk : List.find? (fun x => x.1 == name) a.kw with
    | none => simp [Val.len]
    | some p => exact h.2 p (List.mem_of_find?_eq_some hk)

theorem CallArgs.len_snoc_pos (n : Nat) (acc : CallArgs) (x : Val) (h : acc.len n) (hx : x.len n) :
    CallArgs.len n ⟨acc.pos ++ [x], acc.kw⟩ := by
  refine ⟨?_, h.2⟩
  intro v hv
  simp only [List.mem_append, List.mem_singleton] at hv
  rcases hv with hv | rfl
  · exact h.1 v hv
  · exact hx

theorem CallArgs.len_snoc_kw (n : Nat) (acc : CallArgs) (k : String) (x : Val) (h : acc.len n)
    (hx : x.len n) : CallArgs.len n ⟨acc.pos, acc.kw ++ [(k, x)]⟩ := by
  refine ⟨h.1, ?_⟩
  intro p hp
  simp only [List.mem_append, List.mem_singleton] at hp
  rcases hp with hp | rfl
  · exact h.2 p hp
  · exact hx

theorem dataLevels_len (d : Val) (n : Nat) (hg : d.len n) (xs : List (Option Level))
    (decl : Option (Bool × List String)) (h : dataLevels d = .ok (xs, decl)) : xs.length = n := by
  unfold dataLevels at h
  split at h
  · simp only [pure, Except.pure, Except.ok.injEq, Prod.mk.injEq] at h
    obtain ⟨rfl, rfl⟩ := h
    simpa [Val.len] using hg
  · simp only [pure, Except.pure, Except.ok.injEq, Prod.mk.injEq] at h
    obtain ⟨rfl, rfl⟩ := h
    simpa [Val.len] using hg
  · simp at h

/-! ### `CategoricalBox`: the `levels` setter check sees the *set* of the data -/

theorem sameSet_perm {α : Type} [DecidableEq α] (ls : List α) {p q : List α} (h : p.Perm q) :
    sameSet ls p = sameSet ls q := by
  unfold sameSet
  rw [all_perm _ h]
  congr 1
  apply List.all_congr rfl
  intro x
  exact h.contains_eq

theorem present_perm {sigma : List Nat} {n : Nat} (hp : IsPerm sigma n) (data : List (Option Level))
    (hl : data.length = n) :
    (dedupL ((pick sigma none data).filterMap id)).Perm (dedupL (data.filterMap id)) :=
  dedupL_perm ((pick_perm hp none data hl).filterMap id)

/-- the levels a `CategoricalBox` is given: explicit ones, else the declared order of an ordered
categorical (data independent) -/
def boxLevels (l : Option (List Level)) (decl : Option (Bool × List String)) : Option (List Level) :=
  match l, decl with
  | Option.none, some (true, cats) => some (cats.map Level.s)
  | l, _ => l

def mkBoxCore (data : List (Option Level)) (contrast : Option Contrast) : Option (List Level) → M Box
  | some ls =>
    if data.any Option.isNone then .error (.unmodelled "missing value in categorical data")
    else if sameSet ls (dedupL (data.filterMap id)) then pure ⟨data, contrast, some ls⟩
    else .error (.valueError "levels and data differ")
  | Option.none => pure ⟨data, contrast, Option.none⟩

theorem mkBox_eq (data : List (Option Level)) (decl : Option (Bool × List String))
    (c : Option Contrast) (l : Option (List Level)) :
    mkBox data decl c l = mkBoxCore data c (boxLevels l decl) := by
  unfold mkBox boxLevels mkBoxCore
  rfl

theorem mkBox_perm {sigma : List Nat} {n : Nat} (hp : IsPerm sigma n) (data : List (Option Level))
    (hl : data.length = n) (decl : Option (Bool × List String)) (c : Option Contrast)
    (l : Option (List Level)) (b : Box) (h : mkBox data decl c l = .ok b) :
    b.data.length = n ∧
      mkBox (pick sigma none data) decl c l = .ok { b with data := pick sigma none b.data } := by
  rw [mkBox_eq] at h ⊢
  generalize boxLevels l decl = lv at h ⊢
  cases lv with
  | none =>
    simp only [mkBoxCore, pure_ok] at h ⊢
    subst h
    exact ⟨hl, rfl⟩
  | some ls =>
    simp only [mkBoxCore] at h ⊢
    rw [any_perm _ (pick_perm hp none data hl), sameSet_perm ls (present_perm hp data hl)]
    split at h
    · simp at h
    · split at h
      · simp only [pure_ok] at h
        subst h
        refine ⟨hl, ?_⟩
        simp only [*, if_true, Bool.false_eq_true, if_false]
        rfl
      · simp at h

/-! ### the callees -/

theorem boxCall_perm {sigma : List Nat} {n : Nat} (hp : IsPerm sigma n) (d : Val) (hg : d.len n)
    (c : Option Contrast) (l : Option (List Level)) (own : Option Rat) (r : Val × Option Rat)
    (h : (do
      let __x ← dataLevels d
      match __x with
        | (xs, decl) => do
          let __do_lift ← mkBox xs decl c l
          pure (Val.box __do_lift, own)) = Except.ok r) :
    r.1.len n ∧ r.2 = own ∧ (do
      let __x ← dataLevels (d.rows sigma)
      match __x with
        | (xs, decl) => do
          let __do_lift ← mkBox xs decl c l
          pure (Val.box __do_lift, own)) = Except.ok (r.1.rows sigma, own) := by
  simp only [bind_ok] at h ⊢
  obtain ⟨⟨xs, decl⟩, h1, h2⟩ := h
  have hlen := dataLevels_len _ n hg xs decl h1
  simp only [bind_ok, pure_ok] at h2
  obtain ⟨b, hb, rfl⟩ := h2
  obtain ⟨hbl, hb'⟩ := mkBox_perm hp xs hlen decl c l b hb
  refine ⟨by simpa [Val.len] using hbl, rfl, ⟨(pick sigma none xs, decl), dataLevels_rows _ sigma xs decl h1, ?_⟩⟩
  simp only [bind_ok, pure_ok]
  exact ⟨_, hb', rfl⟩

theorem applyCallee_perm {sigma : List Nat} {n : Nat} (hp : IsPerm sigma n) (callee : String)
    (a : CallArgs) (v : Val) (own' : Option Rat) (hg : a.len n)
    (h : applyCallee callee a none = .ok (v, own')) :
    v.len n ∧ applyCallee callee (a.rows sigma) none = .ok (v.rows sigma, own') := by
  have his := hp.lt
  unfold applyCallee at h
  split at h
  · -- I
    split at h
    · rename_i w hw
      simp only [pure_ok, Prod.mk.injEq] at h
      obtain ⟨rfl, rfl⟩ := h
      refine ⟨hg.1 _ (by simp [hw]), ?_⟩
      simp [applyCallee, CallArgs.rows, hw, pure, Except.pure]
    · simp at h
  · -- center: the mean of the permuted column is the mean of the column
    split at h
    · rename_i xs isInt hw
      simp only at h
      split at h
      · rename_i m hm
        simp only [pure_ok, Prod.mk.injEq] at h
        obtain ⟨rfl, rfl⟩ := h
        have hxl : xs.length = n := by
          have := hg.1 (Val.vec xs isInt) (by simp [hw])
          simpa [Val.len] using this
        refine ⟨by simpa [Val.len] using hxl, ?_⟩
        have hm' : mean (pick sigma none xs) = some m := by
          rw [mean_perm _ _ (pick_perm hp none xs hxl)]; exact hm
        simp only [applyCallee, CallArgs.rows, hw, List.map_cons, List.map_nil, Val.rows, hm', pure, Except.pure,
          Except.ok.injEq, Prod.mk.injEq, and_true, Val.vec.injEq]
        rw [pick_map_none _ (by rfl)]
      · simp at h
    · simp at h
  · simp only [pure_ok, Prod.mk.injEq] at h
    obtain ⟨rfl, rfl⟩ := h
    refine ⟨by simp [Val.len], ?_⟩
    simp only [applyCallee, CallArgs.get_rows, levelOfVal_rows, pure, Except.pure]
    rfl
  · simp only [pure_ok, Prod.mk.injEq] at h
    obtain ⟨rfl, rfl⟩ := h
    refine ⟨by simp [Val.len], ?_⟩
    simp only [applyCallee, CallArgs.get_rows, levelOfVal_rows, pure, Except.pure]
    rfl
  · -- C
    simp only [bind_ok] at h
    obtain ⟨contrast, hc, levels, hl', h⟩ := h
    simp only [applyCallee]
    rw [CallArgs.get_rows a sigma 1, CallArgs.get_rows a sigma 2, CallArgs.get_rows a sigma 0, contrastOfVal_rows,
      levelsOfVal_rows, hc, hl']
    simp only [ok_bind]
    have hg0 := CallArgs.get_len a n hg 0 "data"
    generalize a.get 0 "data" = d at h hg0 ⊢
    cases d with
    | box b =>
      simp only [Val.len] at hg0
      simp only [bind_ok, pure_ok] at h
      obtain ⟨b', hb', h⟩ := h
      cases h
      obtain ⟨hbl, hb''⟩ := mkBox_perm hp b.data hg0 none _ _ b' hb'
      refine ⟨by simpa [Val.len] using hbl, ?_⟩
      simp only [Val.rows, hb'', ok_bind]
      rfl
    | lvec xs dd =>
      have := boxCall_perm hp (.lvec xs dd) hg0 contrast levels none (v, own') h
      obtain ⟨h1, h2, h3⟩ := this
      simp only at h2
      subst h2
      exact ⟨h1, h3⟩
    | vec xs b =>
      have := boxCall_perm hp (.vec xs b) hg0 contrast levels none (v, own') h
      obtain ⟨h1, h2, h3⟩ := this
      simp only at h2
      subst h2
      exact ⟨h1, h3⟩
    | _ => simp [dataLevels, bind, Except.bind] at h
  · -- T
    obtain ⟨levels, hl', h⟩ := (bind_ok _ _ _).1 h
    have := boxCall_perm hp _ (CallArgs.get_len a n hg 0 "data") _ levels none (v, own') h
    obtain ⟨h1, h2, h3⟩ := this
    simp only at h2
    subst h2
    refine ⟨h1, ?_⟩
    simp only [applyCallee]
    rw [CallArgs.get_rows a sigma 1, CallArgs.get_rows a sigma 2, CallArgs.get_rows a sigma 0, levelOfVal_rows,
      levelsOfVal_rows, hl']
    exact h3
  · -- S
    obtain ⟨levels, hl', h⟩ := (bind_ok _ _ _).1 h
    have := boxCall_perm hp _ (CallArgs.get_len a n hg 0 "data") _ levels none (v, own') h
    obtain ⟨h1, h2, h3⟩ := this
    simp only at h2
    subst h2
    refine ⟨h1, ?_⟩
    simp only [applyCallee]
    rw [CallArgs.get_rows a sigma 1, CallArgs.get_rows a sigma 2, CallArgs.get_rows a sigma 0, levelOfVal_rows,
      levelsOfVal_rows, hl']
    exact h3
  · -- offset
    split at h
    · rename_i xs isInt hw
      simp only [pure_ok, Prod.mk.injEq] at h
      obtain ⟨rfl, rfl⟩ := h
      have := hg.1 (Val.vec xs isInt) (by simp [hw])
      refine ⟨by simpa [Val.len] using this, ?_⟩
      simp [applyCallee, CallArgs.rows, hw, Val.rows, pure, Except.pure]
    · rename_i q isInt hw
      simp only [pure_ok, Prod.mk.injEq] at h
      obtain ⟨rfl, rfl⟩ := h
      refine ⟨by simp [Val.len], ?_⟩
      simp [applyCallee, CallArgs.rows, hw, Val.rows, pure, Except.pure]
    · simp at h
  · simp at h


/-! ### `binary`: the default success value is the smallest value, whatever the row order -/

def successNum (vals : List Rat) : Val → M Rat
  | .pyNone => match sortBy (· < ·) vals with
    | v :: _ => pure v
    | [] => .error (.valueError "empty")
  | .num q _ => pure q
  | _ => .error (.valueError "No value in 'x' is equal")

def successLvl (vals : List Level) : Val → M Level
  | .pyNone => match sortLevels vals with
    | some (v :: _) => pure v
    | _ => .error (.valueError "empty")
  | v => match levelOfVal v with
    | some l => pure l
    | Option.none => .error (.valueError "No value in 'x' is equal")

def binaryCore (x : Val) (success : Val) : M Val :=
  match x with
  | .vec xs _ =>
    if xs.any Option.isNone then .error (.unmodelled "binary of data with NaN") else
    successNum (xs.filterMap id) success >>= fun s =>
    if (xs.filterMap id).contains s then pure (.vec (xs.map (fun v => some (if v == some s then 1 else 0))) true)
    else .error (.valueError "No value in 'x' is equal")
  | .lvec xs _ =>
    if xs.any Option.isNone then .error (.unmodelled "binary of data with NaN") else
    successLvl (xs.filterMap id) success >>= fun s =>
    if (xs.filterMap id).contains s then pure (.vec (xs.map (fun v => some (if v == some s then 1 else 0))) true)
    else .error (.valueError "No value in 'x' is equal")
  | _ => .error (.unmodelled "binary of this type")

theorem binaryFn_eq (x s : Val) : binaryFn x s = binaryCore x s := by
  cases x <;> cases s <;> simp only [binaryFn, binaryCore, successNum, successLvl]
  all_goals (split <;> try rfl)
  all_goals (split <;> try rfl)
  all_goals (first | (rename_i heq; rw [heq]) | skip)
  all_goals (
    split
    · rename_i hf _ _ _ heq
      exact (hf _ _ heq).elim
    · rfl)

theorem successNum_perm (sigma : List Nat) {vals vals' : List Rat} (h : vals'.Perm vals) (s : Val) :
    successNum vals' (s.rows sigma) = successNum vals s := by
  cases s <;> simp only [successNum, Val.rows]
  rw [show (fun (a b : Rat) => decide (a < b)) = (fun (a b : Rat) => decide (a < b)) from rfl, sortRat_perm h]

theorem successLvl_perm (sigma : List Nat) {vals vals' : List Level} (h : vals'.Perm vals) (s : Val) :
    successLvl vals' (s.rows sigma) = successLvl vals s := by
  cases s <;> simp only [successLvl, Val.rows, levelOfVal, sortLevels_perm h]

theorem binaryFn_perm {sigma : List Nat} {n : Nat} (hp : IsPerm sigma n) (x s v : Val) (hx : x.len n)
    (h : binaryFn x s = .ok v) : v.len n ∧ binaryFn (x.rows sigma) (s.rows sigma) = .ok (v.rows sigma) := by
  rw [binaryFn_eq] at h ⊢
  unfold binaryCore at h
  split at h
  · rename_i xs isInt
    simp only [Val.len] at hx
    have hperm := pick_perm hp none xs hx
    have his : ∀ i ∈ sigma, i < xs.length := fun i hi => hx ▸ hp.lt i hi
    split at h
    · simp at h
    · rename_i hna
      simp only [bind_ok] at h
      obtain ⟨sv, hs, h⟩ := h
      split at h
      · rename_i hc
        simp only [pure_ok] at h
        subst h
        refine ⟨by simp [Val.len, hx], ?_⟩
        simp only [show (Val.vec xs isInt).rows sigma = Val.vec (pick sigma none xs) isInt from rfl,
          show ∀ ys b, (Val.vec ys b).rows sigma = Val.vec (pick sigma none ys) b from fun _ _ => rfl,
          binaryCore, any_perm _ hperm, hna, Bool.false_eq_true, if_false,
          successNum_perm sigma (hperm.filterMap id) s, hs, ok_bind,
          (hperm.filterMap id).contains_eq, hc, if_true, pure_ok, Val.vec.injEq, and_true]
        exact (pick_map' _ sigma none none xs his).symm
      · simp at h
  · rename_i xs d
    simp only [Val.len] at hx
    have hperm := pick_perm hp none xs hx
    have his : ∀ i ∈ sigma, i < xs.length := fun i hi => hx ▸ hp.lt i hi
    split at h
    · simp at h
    · rename_i hna
      simp only [bind_ok] at h
      obtain ⟨sv, hs, h⟩ := h
      split at h
      · rename_i hc
        simp only [pure_ok] at h
        subst h
        refine ⟨by simp [Val.len, hx], ?_⟩
        simp only [show (Val.lvec xs d).rows sigma = Val.lvec (pick sigma none xs) d from rfl,
          show ∀ ys b, (Val.vec ys b).rows sigma = Val.vec (pick sigma none ys) b from fun _ _ => rfl,
          binaryCore, any_perm _ hperm, hna, Bool.false_eq_true, if_false,
          successLvl_perm sigma (hperm.filterMap id) s, hs, ok_bind,
          (hperm.filterMap id).contains_eq, hc, if_true, pure_ok, Val.vec.injEq, and_true]
        exact (pick_map' _ sigma none none xs his).symm
      · simp at h
  · simp at h

/-! ### `proportion` -/

theorem proportionFn_perm {sigma : List Nat} {n : Nat} (hp : IsPerm sigma n) (s t v : Val)
    (hs : s.len n) (ht : t.len n) (h : proportionFn s t = .ok v) :
    v.len n ∧ proportionFn (s.rows sigma) (t.rows sigma) = .ok (v.rows sigma) := by
  cases s with
  | vec ss b =>
    have hs' : (Val.vec ss b).good n := by simpa [Val.good, Val.len] using hs
    cases t with
    | vec ts b' =>
      have ht' : (Val.vec ts b').good n := by simpa [Val.good, Val.len] using ht
      obtain ⟨g, r⟩ := proportionFn_rows _ _ _ n sigma hs' ht' hp.lt h
      exact ⟨Val.len_of_good _ _ g, r⟩
    | num q b' =>
      obtain ⟨g, r⟩ := proportionFn_rows _ (.num q b') _ n sigma hs' (by simp [Val.good]) hp.lt h
      exact ⟨Val.len_of_good _ _ g, r⟩
    | _ => simp [proportionFn, bind, Except.bind] at h
  | _ => simp [proportionFn] at h

/-- `LazyCall.eval` after the arguments, first evaluation on both sides: same fitted state, value
rows permuted — every callee of the model, `binary` included -/
theorem finishCall_perm {sigma : List Nat} {n : Nat} (hp : IsPerm sigma n) (callee : String)
    (a : CallArgs) (v : Val) (own' : Option Rat) (hg : a.len n)
    (h : finishCall callee a none = .ok (v, own')) :
    v.len n ∧ finishCall callee (a.rows sigma) none = .ok (v.rows sigma, own') := by
  by_cases hb : callee = "binary" ∨ callee = "B"
  · have e : ∀ (a : CallArgs) (own : Option Rat), finishCall callee a own =
        (binaryFn (a.get 0 "x") (a.get 1 "success") >>= fun v => pure (v, own)) := by
      intro a own; rcases hb with rfl | rfl <;> rfl
    rw [e] at h ⊢
    simp only [bind_ok, pure_ok, Prod.mk.injEq] at h ⊢
    obtain ⟨w, hw, rfl, rfl⟩ := h
    obtain ⟨g, hr⟩ := binaryFn_perm hp _ _ _ (CallArgs.get_len a n hg 0 "x") hw
    rw [CallArgs.get_rows, CallArgs.get_rows]
    exact ⟨g, _, hr, rfl, rfl⟩
  by_cases hpr : callee = "p" ∨ callee = "prop" ∨ callee = "proportion"
  · rw [finishCall_prop callee hpr] at h ⊢
    simp only [bind_ok, pure_ok, Prod.mk.injEq] at h ⊢
    obtain ⟨w, hw, rfl, rfl⟩ := h
    obtain ⟨g, hr⟩ := proportionFn_perm hp _ _ _ (CallArgs.get_len a n hg 0 "successes")
      (CallArgs.get_len a n hg 1 "trials") hw
    rw [CallArgs.get_rows, CallArgs.get_rows]
    exact ⟨g, _, hr, rfl, rfl⟩
  · have hsp : specialCallees.contains callee = false := by
      simp only [specialCallees, List.contains_cons, List.contains_nil, Bool.or_false,
        Bool.or_eq_false_iff, beq_eq_false_iff_ne, ne_eq, not_or] at hb hpr ⊢
      exact ⟨hb.1, hb.2, hpr.1, hpr.2.1, hpr.2.2⟩
    rw [finishCall_eq _ hsp] at h ⊢
    exact applyCallee_perm hp callee a v own' hg h

end FormulaeModel.Design
