import FormulaeModel.Proofs.GroupBlockRows
import FormulaeModel.Proofs.PermStack
set_option linter.unusedSimpArgs false
set_option linter.unusedVariables false
/-
Helper lemmas for C05 (part 2): one grouping component after training (`trainComp` with
`forced = true`, `isResponse = false`): which values it read, which levels it remembered and in
which order, its contrast matrix, and its data — the rows of the contrast matrix picked by the
position of each value among the levels; for the complete (treatment, full) coding these are the
rows of the complete indicator matrix.
-/
namespace FormulaeModel.Design
open FormulaeModel

/-! ### `sorted(set(xs))` -/

/-- `sortLevels` returns the distinct members, in non-decreasing order of Python's `<` -/
theorem sortLevels_spec (ys ls : List Level) (h : sortLevels ys = some ls) :
    ls.Nodup ∧ (∀ l, l ∈ ls ↔ l ∈ ys) ∧ SortedBy levelLt ls := by
  rw [sortLevels_eq] at h
  split at h
  · rename_i hc
    simp only [Option.some.injEq] at h
    subst h
    have hp := perm_sortBy levelLt (dedupL ys)
    refine ⟨hp.nodup_iff.2 (nodup_dedupL ys), ?_, ?_⟩
    · intro l
      rw [hp.mem_iff, mem_dedupL]
    · rw [Bool.or_eq_true, List.all_eq_true, List.all_eq_true] at hc
      rcases hc with hc | hc
      · exact sorted_sortBy levelLt _ levelLt_strings _ hc
      · exact sorted_sortBy levelLt _ levelLt_ints _ hc
  · simp at h

/-! ### coding rows -/

/-- every row of `codeRows` is the contrast-matrix row of the position of the value -/
theorem codeRows_rows (cm : ContrastMatrix) (levels : List Level) (xs : List (Option Level)) (m : Matrix)
    (h : codeRows cm levels xs = .ok m) :
    m.length = xs.length ∧ ∀ r (hr : r < m.length), ∃ l g, xs[r]? = some (some l) ∧
      indexOf? l levels = some g ∧ g < levels.length ∧ m[r] = rowOfInts (cm.rows.getD g []) := by
  obtain ⟨hl, hall⟩ := mapM_ok_get _ xs m h
  refine ⟨hl, ?_⟩
  intro r hr
  have hr' : r < xs.length := by omega
  have := hall r hr' hr
  cases hxi : xs[r] with
  | none => rw [hxi] at this; simp at this
  | some l =>
    rw [hxi] at this
    simp only at this
    split at this
    · rename_i g hg
      simp only [pure_ok] at this
      exact ⟨l, g, by rw [List.getElem?_eq_getElem hr', hxi], hg, (indexOf?_some l levels g hg).1, this.symm⟩
    · simp at this

theorem treatmentFull_row (levels : List Level) (g : Nat) (hg : g < levels.length) :
    rowOfInts ((treatmentFull levels).rows.getD g []) = unitE levels.length g := by
  simp [treatmentFull, unitE, List.getD_eq_getElem?_getD, List.getElem?_map, List.getElem?_range hg]

/-- complete coding: every row is the indicator row of the position of the value -/
theorem codeRows_treatmentFull (levels : List Level) (xs : List (Option Level)) (m : Matrix)
    (h : codeRows (treatmentFull levels) levels xs = .ok m) :
    m.length = xs.length ∧ ∀ r (hr : r < m.length), ∃ l g, xs[r]? = some (some l) ∧
      indexOf? l levels = some g ∧ g < levels.length ∧ m[r] = unitE levels.length g := by
  obtain ⟨hl, hall⟩ := codeRows_rows _ _ _ _ h
  refine ⟨hl, ?_⟩
  intro r hr
  obtain ⟨l, g, h1, h2, h3, h4⟩ := hall r hr
  exact ⟨l, g, h1, h2, h3, by rw [h4, treatmentFull_row levels g h3]⟩

/-! ### `eval_categoric` / `eval_categorical_box` -/

/-- the order of the levels: the declared order of an ordered Categorical, sorted otherwise -/
def LevelOrder (declared : Option (List Level)) (xs : List (Option Level)) (levels : List Level) : Prop :=
  match declared with
  | some ls => levels = ls
  | none => sortLevels (xs.filterMap id) = some levels

def declaredOf : Option (Bool × List String) → Option (List Level)
  | some (true, cats) => some (cats.map Level.s)
  | _ => none

theorem evalCategoric_spec (name : String) (xs : List (Option Level)) (d : Option (Bool × List String))
    (full : Bool) (levels : List Level) (cm : ContrastMatrix) (m : Matrix)
    (h : evalCategoric name xs d full = .ok (levels, cm, m)) :
    codeRows cm levels xs = .ok m ∧ (Contrast.treatment none).code full levels = .ok cm ∧
      LevelOrder (declaredOf d) xs levels := by
  unfold evalCategoric at h
  split at h
  · simp at h
  · rcases d with _ | ⟨_ | _, cats⟩ <;> cases hsl : sortLevels (xs.filterMap id) <;>
      simp only [hsl] at h <;> (try (simp [bind, Except.bind] at h; done))
    all_goals (
      simp only [pure_bind, bind_ok, pure_ok, Prod.mk.injEq] at h
      obtain ⟨cm', hcm, m', hm, rfl, rfl, rfl⟩ := h
      refine ⟨hm, hcm, ?_⟩
      simp [LevelOrder, declaredOf, hsl])

theorem evalBox_spec (b : Box) (full : Bool) (levels : List Level) (cm : ContrastMatrix) (m : Matrix)
    (h : evalBox b full = .ok (levels, cm, m)) :
    codeRows cm levels b.data = .ok m ∧ (b.contrast.getD (.treatment none)).code full levels = .ok cm ∧
      LevelOrder b.levels b.data levels := by
  unfold evalBox at h
  rcases hb : b.levels with _ | ls <;> cases hsl : sortLevels (b.data.filterMap id) <;>
    simp only [hb, hsl] at h <;> (try (simp [bind, Except.bind] at h; done))
  all_goals (
    simp only [pure_bind, bind_ok, pure_ok, Prod.mk.injEq] at h
    obtain ⟨cm', hcm, m', hm, rfl, rfl, rfl⟩ := h
    refine ⟨hm, hcm, ?_⟩
    simp [LevelOrder, hsl])

/-! ### the value a grouping component reads -/

/-- the value of the component: the evaluated call, or the data-frame column -/
def factorVal (env : Env) (name : String) (e : Expr) : M Val :=
  if isCallLike e then (posOnly (evalArg env e none)).map (·.1)
  else match env.frame.col? (varColRef name e).1 with
    | some c => pure (colVal c)
    | none => .error (.keyError (varColRef name e).1)

/-- the values as levels, row by row (a numeric grouping variable must hold integers) -/
def valLevels : Val → M (List (Option Level))
  | .vec xs _ => numericLevels xs
  | .lvec xs _ => pure xs
  | .box b => pure b.data
  | _ => .error (.unmodelled "grouping value")

/-- declared order of the levels, if the value carries one -/
def valDeclared : Val → Option (List Level)
  | .lvec _ d => declaredOf d
  | .box b => b.levels
  | _ => none

/-- the contrast the value asks for (`C(g, Sum)`); plain variables: Treatment -/
def valContrast : Val → Contrast
  | .box b => b.contrast.getD (.treatment none)
  | _ => .treatment none

/-- what a grouping component is after training -/
structure FactorComp (name : String) (e : Expr) (full : Bool) (v : Val) (xs : List (Option Level))
    (o : CompOut) : Prop where
  kind : o.st.kind = .categoric
  name_eq : o.st.name = name
  expr_eq : o.st.expr = e
  order : LevelOrder (valDeclared v) xs o.st.levels
  coded : ∃ cm, o.st.contrast = some cm ∧ (valContrast v).code full o.st.levels = .ok cm ∧
    codeRows cm o.st.levels xs = .ok o.value ∧ o.labels = some (categoricLabels name cm)

theorem compOfVal_factor (n : Nat) (name : String) (e : Expr) (full : Bool) (v : Val) (ts : TS)
    (o : CompOut) (h : compOfVal n name e true false full v ts = .ok o) :
    ∃ xs, valLevels v = .ok xs ∧ FactorComp name e full v xs o := by
  unfold compOfVal at h
  simp only at h
  split at h
  · simp only [if_true, bind_ok, pure_ok] at h
    obtain ⟨ls, hls, ⟨levels, cm, m⟩, hcat, rfl⟩ := h
    obtain ⟨h1, h2, h3⟩ := evalCategoric_spec _ _ _ _ _ _ _ hcat
    exact ⟨ls, hls, ⟨rfl, rfl, rfl, h3, cm, rfl, h2, h1, rfl⟩⟩
  · simp only [bind_ok, pure_ok] at h
    obtain ⟨⟨levels, cm, m⟩, hcat, rfl⟩ := h
    obtain ⟨h1, h2, h3⟩ := evalCategoric_spec _ _ _ _ _ _ _ hcat
    exact ⟨_, rfl, ⟨rfl, rfl, rfl, h3, cm, rfl, h2, h1, rfl⟩⟩
  · simp only [bind_ok, pure_ok] at h
    obtain ⟨⟨levels, cm, m⟩, hcat, rfl⟩ := h
    obtain ⟨h1, h2, h3⟩ := evalBox_spec _ _ _ _ _ hcat
    exact ⟨_, rfl, ⟨rfl, rfl, rfl, h3, cm, rfl, h2, h1, rfl⟩⟩
  · simp at h
  · simp at h
  · simp at h
  · simp at h

theorem compOfCol_factor (name : String) (e : Expr) (full : Bool) (reference : Option String)
    (c : Column) (o : CompOut) (h : compOfCol name e true false full reference c = .ok o) :
    ∃ xs, valLevels (colVal c) = .ok xs ∧ FactorComp name e full (colVal c) xs o := by
  unfold compOfCol at h
  simp only at h
  split at h
  · rename_i xs0 i hv
    simp only [if_true, bind_ok, pure_ok] at h
    obtain ⟨ls, hls, ⟨levels, cm, m⟩, hcat, rfl⟩ := h
    obtain ⟨h1, h2, h3⟩ := evalCategoric_spec _ _ _ _ _ _ _ hcat
    rw [hv]
    exact ⟨ls, hls, ⟨rfl, rfl, rfl, h3, cm, rfl, h2, h1, rfl⟩⟩
  · rename_i xs0 d hv
    simp only [bind_ok, pure_ok] at h
    obtain ⟨⟨levels, cm, m⟩, hcat, rfl⟩ := h
    obtain ⟨h1, h2, h3⟩ := evalCategoric_spec _ _ _ _ _ _ _ hcat
    rw [hv]
    exact ⟨_, rfl, ⟨rfl, rfl, rfl, h3, cm, rfl, h2, h1, rfl⟩⟩
  · simp at h

/-- **one grouping component** (kind forced to categoric): it reads `factorVal`, remembers the
levels in the declared / sorted order and its data are the rows of its contrast matrix -/
theorem trainComp_factor (env : Env) (name : String) (e : Expr) (full : Bool) (o : CompOut)
    (h : trainComp env name e true false full = .ok o) :
    ∃ v xs, factorVal env name e = .ok v ∧ valLevels v = .ok xs ∧ FactorComp name e full v xs o := by
  cases hc : isCallLike e with
  | true =>
    rw [trainComp_call _ _ _ _ _ _ hc] at h
    simp only [bind_ok] at h
    obtain ⟨⟨v, ts⟩, hv, h⟩ := h
    obtain ⟨xs, hxs, hf⟩ := compOfVal_factor _ _ _ _ _ _ _ h
    refine ⟨v, xs, ?_, hxs, hf⟩
    simp [factorVal, hc, hv, Except.map]
  | false =>
    rw [trainComp_var _ _ _ _ _ _ hc] at h
    split at h
    · simp at h
    · rename_i c hcol
      obtain ⟨xs, hxs, hf⟩ := compOfCol_factor _ _ _ _ _ _ h
      refine ⟨colVal c, xs, ?_, hxs, hf⟩
      simp [factorVal, hc, hcol, pure, Except.pure]

/-- a plain variable (not a call) is always Treatment coded -/
theorem factorVal_var_contrast (env : Env) (name : String) (e : Expr) (v : Val)
    (hc : isCallLike e = false) (h : factorVal env name e = .ok v) :
    valContrast v = .treatment none := by
  simp only [factorVal, hc, Bool.false_eq_true, if_false] at h
  split at h
  · simp only [pure_ok] at h
    subst h
    rename_i c _
    unfold colVal
    split <;> rfl
  · simp at h

/-- Treatment (any reference), full: the remembered contrast matrix is the complete indicator coding -/
theorem FactorComp.treatment {name : String} {e : Expr} {v : Val} {xs : List (Option Level)}
    {o : CompOut} (hf : FactorComp name e true v xs o) (ht : ∃ r, valContrast v = .treatment r) :
    o.st.contrast = some (treatmentFull o.st.levels) := by
  obtain ⟨cm, h1, h2, h3, h4⟩ := hf.coded
  obtain ⟨r0, hr0⟩ := ht
  rw [hr0] at h2
  simp only [Contrast.code, pure_ok] at h2
  subst h2
  exact h1

/-- complete indicator coding: every row of the data is the indicator row of the position of its
value among the levels; the labels are `name[level]` -/
theorem FactorComp.indicator {name : String} {e : Expr} {full : Bool} {v : Val}
    {xs : List (Option Level)} {o : CompOut} (hf : FactorComp name e full v xs o)
    (ht : o.st.contrast = some (treatmentFull o.st.levels)) :
    o.labels = some (o.st.levels.map (fun l => name ++ "[" ++ l.label ++ "]")) ∧
    o.value.length = xs.length ∧
    ∀ r (hr : r < o.value.length), ∃ l g, xs[r]? = some (some l) ∧
      indexOf? l o.st.levels = some g ∧ g < o.st.levels.length ∧
      o.value[r] = unitE o.st.levels.length g := by
  obtain ⟨cm, h1, h2, h3, h4⟩ := hf.coded
  rw [ht] at h1
  simp only [Option.some.injEq] at h1
  subst h1
  obtain ⟨hl, hall⟩ := codeRows_treatmentFull _ _ _ h3
  refine ⟨?_, hl, hall⟩
  rw [h4]
  simp [categoricLabels, treatmentFull, List.map_map, Function.comp_def]

end FormulaeModel.Design
