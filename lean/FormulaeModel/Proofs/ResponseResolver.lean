import FormulaeModel.Model.Resolver
set_option linter.unusedSimpArgs false
set_option linter.unusedVariables false
/-
Helper lemmas for C15 (part 3): in the model of the resolver / term algebra a response exists
only where a `~` operator put it, and what is on the right of the `~` is resolved without
looking at the left.
-/
namespace FormulaeModel.Resolver
open FormulaeModel FormulaeModel.Terms

/-- the object carries a response -/
def hasResp : Obj → Bool
  | .response _ => true
  | .model m => m.resp.isSome
  | _ => false

/-- at a position the resolver visits there is an operator that the table maps to `~` -/
def hasTilde (ops : OpTable) : Expr → Bool
  | .grouping _ e _ => hasTilde ops e
  | .binary l op r => lookupOp ops op.kind == some .tilde || hasTilde ops l || hasTilde ops r
  | .unary _ r => hasTilde ops r
  | _ => false

theorem addTerm_resp (m m' : ModelV) (o : Obj) (h : addTerm m o = .ok m') : m'.resp = m.resp := by
  unfold addTerm at h
  split at h
  all_goals first | (simp at h; done) | (simp only [pure, Except.pure, Except.ok.injEq] at h; subst h; split <;> rfl)

theorem addTerms_resp : ∀ (ts : List Obj) (m m' : ModelV), addTerms m ts = .ok m' → m'.resp = m.resp := by
  intro ts
  induction ts with
  | nil => intro m m' h; simp only [addTerms, pure, Except.pure, Except.ok.injEq] at h; subst h; rfl
  | cons t ts ih =>
    intro m m' h
    simp only [addTerms, bind, Except.bind] at h
    split at h
    · simp at h
    · rename_i m1 h1
      rw [ih m1 m' h, addTerm_resp m m1 t h1]

theorem addModel_resp (m o m' : ModelV) (h : addModel m o = .ok m') : m'.resp = m.resp :=
  addTerms_resp _ m m' h

theorem mkModelFrom_resp : ∀ (ts : List Obj) (m m' : ModelV), mkModelFrom m ts = .ok m' → m'.resp = m.resp := by
  intro ts
  induction ts with
  | nil => intro m m' h; simp only [mkModelFrom, pure, Except.pure, Except.ok.injEq] at h; subst h; rfl
  | cons t ts ih =>
    intro m m' h
    cases t with
    | c x => simp only [mkModelFrom] at h; rw [ih _ m' h]
    | g x => simp only [mkModelFrom] at h; rw [ih _ m' h]
    | response _ => simp [mkModelFrom] at h
    | model _ => simp [mkModelFrom] at h

theorem mkModel_resp (ts : List Obj) (m' : ModelV) (h : mkModel ts = .ok m') : m'.resp = none :=
  mkModelFrom_resp ts {} m' h

theorem addInteractions_resp (a b : List CTerm) (m' : ModelV) (h : addInteractions a b = .ok m') :
    m'.resp = none := addModel_resp _ _ m' h

/-- close a goal about an operator: split every branch, use the `resp` lemmas -/
macro "resp_cases" h:ident : tactic => `(tactic| (
  simp only [bind, Except.bind, pure, Except.pure] at $h:ident
  repeat' split at $h:ident
  all_goals (try (simp at $h:ident; done))
  all_goals (try (simp only [Except.ok.injEq] at $h:ident; subst $h:ident))))

theorem mkModel_hasResp (ts : List Obj) (m' : ModelV) (h : mkModel ts = .ok m') :
    hasResp (.model m') = false := by simp [hasResp, mkModel_resp ts m' h]
theorem addInteractions_hasResp (a b : List CTerm) (m' : ModelV) (h : addInteractions a b = .ok m') :
    hasResp (.model m') = false := by simp [hasResp, addInteractions_resp a b m' h]
theorem addModel_hasResp (m o m' : ModelV) (h : addModel m o = .ok m') :
    hasResp (.model m') = hasResp (.model m) := by simp [hasResp, addModel_resp m o m' h]
theorem addTerm_hasResp (m m' : ModelV) (o : Obj) (h : addTerm m o = .ok m') :
    hasResp (.model m') = hasResp (.model m) := by simp [hasResp, addTerm_resp m m' o h]
theorem modelOfC_hasResp (ts : List CTerm) : hasResp (.model (modelOfC ts)) = false := rfl

macro "resp_close" ho:ident : tactic => `(tactic| (
  first
  | (simp [hasResp, modelOfC] at $ho:ident ⊢; done)
  | (simp [hasResp, modelOfC] at $ho:ident ⊢; exact $ho:ident)
  | grind [hasResp, modelOfC_hasResp, mkModel_hasResp, addInteractions_hasResp, addModel_hasResp, addTerm_hasResp]))

theorem add_resp (l r o : Obj) (h : add l r = .ok o) (ho : hasResp o = true) :
    hasResp l = true ∨ hasResp r = true := by
  unfold add at h
  resp_cases h
  all_goals resp_close ho

theorem sub_resp (l r o : Obj) (h : sub l r = .ok o) (ho : hasResp o = true) :
    hasResp l = true ∨ hasResp r = true := by
  unfold sub at h
  resp_cases h
  all_goals resp_close ho

theorem mul_resp (l r o : Obj) (h : mul l r = .ok o) (ho : hasResp o = true) :
    hasResp l = true ∨ hasResp r = true := by
  unfold mul at h
  resp_cases h
  all_goals resp_close ho

theorem matmul_resp (l r o : Obj) (h : matmul l r = .ok o) (ho : hasResp o = true) :
    hasResp l = true ∨ hasResp r = true := by
  unfold matmul at h
  resp_cases h
  all_goals resp_close ho

theorem div_resp (l r o : Obj) (h : div l r = .ok o) (ho : hasResp o = true) :
    hasResp l = true ∨ hasResp r = true := by
  unfold div at h
  resp_cases h
  all_goals resp_close ho

theorem pow_resp (l r o : Obj) (h : pow l r = .ok o) (ho : hasResp o = true) :
    hasResp l = true ∨ hasResp r = true := by
  unfold pow at h
  resp_cases h
  all_goals resp_close ho

theorem orC_resp (t : CTerm) (r o : Obj) (h : orC t r = .ok o) : hasResp o = false := by
  unfold orC at h
  resp_cases h
  all_goals rfl

theorem or_resp (l r o : Obj) (h : or_ l r = .ok o) (ho : hasResp o = true) :
    hasResp l = true ∨ hasResp r = true := by
  unfold or_ at h
  resp_cases h
  all_goals first
    | (simp [hasResp] at ho; done)
    | grind [orC_resp]

theorem mkResponse_ok_term (l o : Obj) (h : mkResponse l = .ok o) : ∃ a, l = .c (.term [a]) ∧ o = .response [a] := by
  unfold mkResponse at h
  split at h
  · simp only [pure, Except.pure, Except.ok.injEq] at h
    exact ⟨_, rfl, h.symm⟩
  · simp at h

theorem apply_resp (op : Op) (hop : op ≠ .tilde) (l r o : Obj) (h : apply op l r = .ok o)
    (ho : hasResp o = true) : hasResp l = true ∨ hasResp r = true := by
  cases op with
  | tilde => exact absurd rfl hop
  | add => exact add_resp l r o h ho
  | sub => exact sub_resp l r o h ho
  | pow => exact pow_resp l r o h ho
  | matmul => exact matmul_resp l r o h ho
  | mul => exact mul_resp l r o h ho
  | truediv => exact div_resp l r o h ho
  | or_ => exact or_resp l r o h ho

/-- **a response comes from a `~` only** -/
theorem resolve_resp (ops : OpTable) : ∀ (e : Expr) (o : Obj), resolve ops e = .ok o →
    hasResp o = true → hasTilde ops e = true
  | .grouping _ e _, o, h, ho => by
    simp only [resolve] at h
    simp only [hasTilde]
    exact resolve_resp ops e o h ho
  | .binary l op r, o, h, ho => by
    simp only [resolve] at h
    simp only [hasTilde]
    split at h
    · rename_i oper hop
      simp only [bind, Except.bind] at h
      split at h
      · simp at h
      · rename_i lv hl
        split at h
        · simp at h
        · rename_i rv hr
          by_cases ht : oper = .tilde
          · subst ht; simp [hop]
          · rcases apply_resp oper ht lv rv o h ho with h1 | h1
            · simp [resolve_resp ops l lv hl h1]
            · simp [resolve_resp ops r rv hr h1]
    · simp at h
  | .unary op r, o, h, ho => by
    simp only [resolve] at h
    simp only [hasTilde]
    split at h
    · exact resolve_resp ops r o h ho
    · simp only [bind, Except.bind, pure, Except.pure] at h
      repeat' split at h
      all_goals first | (simp at h; done) | (simp only [Except.ok.injEq] at h; subst h; simp [hasResp] at ho)
    · simp at h
  | .call c _ as _, o, h, ho => by
    simp only [resolve, bind, Except.bind, pure, Except.pure] at h
    split at h
    · simp at h
    · simp only [Except.ok.injEq] at h; subst h; simp [hasResp] at ho
  | .brace lb e rb, o, h, ho => by
    simp only [resolve, bind, Except.bind, pure, Except.pure] at h
    split at h
    · simp at h
    · simp only [Except.ok.injEq] at h; subst h; simp [hasResp] at ho
  | .variable n, o, h, ho => by
    simp only [resolve, pure, Except.pure, Except.ok.injEq] at h; subst h; simp [hasResp] at ho
  | .subset n _ lv _, o, h, ho => by
    simp only [resolve, pure, Except.pure] at h
    split at h
    all_goals first | (simp at h; done) | (simp only [Except.ok.injEq] at h; subst h; simp [hasResp] at ho)
  | .quoted t, o, h, ho => by
    simp only [resolve, pure, Except.pure, Except.ok.injEq] at h; subst h; simp [hasResp] at ho
  | .literal t, o, h, ho => by
    simp only [resolve, pure, Except.pure] at h
    repeat' split at h
    all_goals first | (simp at h; done) | (simp only [Except.ok.injEq] at h; subst h; simp [hasResp] at ho)
  | .assign _ _ _, o, h, ho => by simp [resolve] at h

/-- … at the level of the model description -/
theorem describe_resp (ops : OpTable) (e : Expr) (m : ModelV) (h : describe ops e = .ok m)
    (hr : m.resp.isSome = true) : hasTilde ops e = true := by
  simp only [describe, bind, Except.bind, pure, Except.pure] at h
  split at h
  · simp at h
  · rename_i o ho
    split at h
    · simp only [Except.ok.injEq] at h; subst h
      exact resolve_resp ops e _ ho (by simpa [hasResp] using hr)
    · simp only [Except.ok.injEq] at h; subst h; simp at hr
    · simp only [Except.ok.injEq] at h; subst h; simp at hr
    · simp at h

/-- common terms / group terms an object contributes when it stands to the right of `~` -/
def rhsCommon : Obj → List CTerm
  | .c t => [t]
  | .model m => m.common
  | _ => []

def rhsGroup : Obj → List GTerm
  | .g t => [t]
  | .model m => m.group
  | _ => []

/-- **`lhs ~ rhs`**: the left side must resolve to a single one-component term, which becomes the
response; the common and group terms of the result are those of the right side alone -/
theorem resolve_tilde (ops : OpTable) (l : Expr) (op : Token) (r : Expr)
    (hop : lookupOp ops op.kind = some .tilde) (o : Obj) (h : resolve ops (.binary l op r) = .ok o) :
    ∃ a rv m, resolve ops l = .ok (.c (.term [a])) ∧ resolve ops r = .ok rv ∧ o = .model m ∧
      m.resp = some [a] ∧ m.common = rhsCommon rv ∧ m.group = rhsGroup rv := by
  simp only [resolve, hop, bind, Except.bind, Resolver.apply] at h
  split at h
  · simp at h
  · rename_i lv hl
    split at h
    · simp at h
    · rename_i rv hr
      split at h
      · simp at h
      · rename_i resp hresp
        obtain ⟨a, rfl, rfl⟩ := mkResponse_ok_term lv resp hresp
        refine ⟨a, rv, ?_⟩
        cases rv with
        | c t =>
          cases t with
          | intercept =>
            simp only [add, pure, Except.pure, Except.ok.injEq] at h; subst h
            exact ⟨_, hl, hr, rfl, rfl, rfl, rfl⟩
          | negIntercept => simp [add] at h
          | term b =>
            simp only [add, pure, Except.pure, Except.ok.injEq] at h; subst h
            exact ⟨_, hl, hr, rfl, rfl, rfl, rfl⟩
        | g x =>
          simp only [add, pure, Except.pure, Except.ok.injEq] at h; subst h
          exact ⟨_, hl, hr, rfl, rfl, rfl, rfl⟩
        | response _ => simp [add] at h
        | model m =>
          simp only [add, pure, Except.pure, Except.ok.injEq] at h; subst h
          exact ⟨_, hl, hr, rfl, rfl, rfl, rfl⟩

theorem describe_tilde (ops : OpTable) (l : Expr) (op : Token) (r : Expr)
    (hop : lookupOp ops op.kind = some .tilde) (m : ModelV) (h : describe ops (.binary l op r) = .ok m) :
    ∃ a rv, resolve ops l = .ok (.c (.term [a])) ∧ resolve ops r = .ok rv ∧
      m.resp = some [a] ∧ m.common = rhsCommon rv ∧ m.group = rhsGroup rv := by
  simp only [describe, bind, Except.bind, pure, Except.pure] at h
  split at h
  · simp at h
  · rename_i o ho
    obtain ⟨a, rv, m', hl, hr, rfl, h1, h2, h3⟩ := resolve_tilde ops l op r hop o ho
    simp only [Except.ok.injEq] at h
    subst h
    exact ⟨a, rv, hl, hr, h1, h2, h3⟩

/-- the `~` the resolver finds is one of the tokens of the expression -/
theorem hasTilde_flat (ops : OpTable) : ∀ (e : Expr), hasTilde ops e = true →
    ∃ t ∈ e.flat, lookupOp ops t.kind = some .tilde
  | .grouping _ e _, h => by
    simp only [hasTilde] at h
    obtain ⟨t, ht, hk⟩ := hasTilde_flat ops e h
    exact ⟨t, by simp [Expr.flat, ht], hk⟩
  | .binary l op r, h => by
    simp only [hasTilde, Bool.or_eq_true, beq_iff_eq] at h
    rcases h with (h | h) | h
    · exact ⟨op, by simp [Expr.flat], h⟩
    · obtain ⟨t, ht, hk⟩ := hasTilde_flat ops l h
      exact ⟨t, by simp [Expr.flat, ht], hk⟩
    · obtain ⟨t, ht, hk⟩ := hasTilde_flat ops r h
      exact ⟨t, by simp [Expr.flat, ht], hk⟩
  | .unary _ r, h => by
    simp only [hasTilde] at h
    obtain ⟨t, ht, hk⟩ := hasTilde_flat ops r h
    exact ⟨t, by simp [Expr.flat, ht], hk⟩
  | .call .., h => by simp [hasTilde] at h
  | .brace .., h => by simp [hasTilde] at h
  | .variable .., h => by simp [hasTilde] at h
  | .subset .., h => by simp [hasTilde] at h
  | .quoted .., h => by simp [hasTilde] at h
  | .literal .., h => by simp [hasTilde] at h
  | .assign .., h => by simp [hasTilde] at h

end FormulaeModel.Resolver
