import FormulaeModel.Proofs.TransformsBS
/-
C14 stretch goal: the Cox–de Boor basis functions of a sorted knot vector, started from a
non-empty knot interval `[t_l, t_{l+1}]`, are non-negative on that interval and sum to one
(everywhere).  Induction on the degree.
-/
namespace FormulaeModel.Transforms

/-- `Σ_{i<n} f (a+i)` -/
def rsum (f : Nat → Rat) (a n : Nat) : Rat := sum (rowAux f a n)

theorem rsum_zero_len (f : Nat → Rat) (a : Nat) : rsum f a 0 = 0 := rfl
theorem rsum_succ (f : Nat → Rat) (a n : Nat) : rsum f a (n + 1) = f a + rsum f (a + 1) n := rfl

theorem rsum_last (f : Nat → Rat) (a n : Nat) : rsum f a (n + 1) = rsum f a n + f (a + n) := by
  induction n generalizing a with
  | zero => simp [rsum_succ, rsum_zero_len]
  | succ n ih =>
    rw [rsum_succ, ih (a + 1), rsum_succ]
    have : a + 1 + n = a + (n + 1) := by omega
    rw [this]; ring

theorem rsum_add (f g : Nat → Rat) (a n : Nat) :
    rsum (fun i => f i + g i) a n = rsum f a n + rsum g a n := by
  induction n generalizing a with
  | zero => simp [rsum_zero_len]
  | succ n ih => simp only [rsum_succ, ih]; ring

theorem rsum_congr (f g : Nat → Rat) (a n : Nat) (h : ∀ i, a ≤ i → i < a + n → f i = g i) :
    rsum f a n = rsum g a n := by
  induction n generalizing a with
  | zero => rfl
  | succ n ih =>
    rw [rsum_succ, rsum_succ, h a (le_refl _) (by omega)]
    rw [ih (a + 1) (fun i h1 h2 => h i (by omega) (by omega))]

theorem rsum_shift (f : Nat → Rat) (a n : Nat) :
    rsum (fun i => f (i + 1)) a n = rsum f (a + 1) n := by
  induction n generalizing a with
  | zero => rfl
  | succ n ih => rw [rsum_succ, rsum_succ, ih]

theorem rsum_eq_zero (f : Nat → Rat) (a n : Nat) (h : ∀ i, a ≤ i → i < a + n → f i = 0) :
    rsum f a n = 0 := by
  induction n generalizing a with
  | zero => rfl
  | succ n ih =>
    rw [rsum_succ, h a (le_refl _) (by omega), ih (a + 1) (fun i h1 h2 => h i (by omega) (by omega))]
    ring

theorem rsum_split (f : Nat → Rat) (a m k : Nat) :
    rsum f a (m + k) = rsum f a m + rsum f (a + m) k := by
  induction m generalizing a with
  | zero => simp [rsum_zero_len]
  | succ m ih =>
    have : m + 1 + k = (m + k) + 1 := by omega
    rw [this, rsum_succ, rsum_succ, ih (a + 1)]
    have : a + 1 + m = a + (m + 1) := by omega
    rw [this]; ring

theorem ratio_nonneg {a b : Rat} (ha : 0 ≤ a) (hb : 0 ≤ b) : 0 ≤ ratio a b := by
  unfold ratio; split
  · exact le_refl _
  · exact div_nonneg ha hb

theorem ratio_add_ratio {a b c : Rat} (hc : c ≠ 0) (h : a + b = c) : ratio a c + ratio b c = 1 := by
  unfold ratio; rw [if_neg hc, if_neg hc, ← add_div, h, div_self hc]

/-- local support: `B_{j,d}` vanishes unless `j ≤ l ≤ j + d` -/
theorem basis_eq_zero (t : List Rat) (l : Nat) (x : Rat) :
    ∀ d j, (l < j ∨ j + d < l) → basis t l d j x = 0 := by
  intro d
  induction d with
  | zero => intro j h; simp only [basis]; rw [if_neg]; omega
  | succ d ih =>
    intro j h
    simp only [basis]
    rw [ih j (by omega), ih (j + 1) (by omega)]
    ring

/-- sortedness of the knot vector, as a statement about `tk` -/
def Mono (t : List Rat) : Prop := ∀ i j, i ≤ j → j < t.length → tk t i ≤ tk t j

theorem basis_nonneg (t : List Rat) (hm : Mono t) (l : Nat) (x : Rat)
    (h1 : tk t l ≤ x) (h2 : x ≤ tk t (l + 1)) :
    ∀ d, l + d + 1 < t.length → ∀ j, 0 ≤ basis t l d j x := by
  intro d
  induction d with
  | zero => intro _ j; simp only [basis]; split <;> norm_num
  | succ d ih =>
    intro hl j
    have ih' := ih (by omega)
    simp only [basis]
    apply add_nonneg
    · by_cases hs : l < j ∨ j + d < l
      · rw [basis_eq_zero t l x d j hs]; simp
      · apply mul_nonneg _ (ih' j)
        apply ratio_nonneg
        · have := hm j l (by omega) (by omega); linarith
        · have := hm j (j + d + 1) (by omega) (by omega); linarith
    · by_cases hs : l < j + 1 ∨ j + 1 + d < l
      · rw [basis_eq_zero t l x d (j + 1) hs]; simp
      · apply mul_nonneg _ (ih' (j + 1))
        apply ratio_nonneg
        · have := hm (l + 1) (j + d + 2) (by omega) (by omega); linarith
        · have := hm (j + 1) (j + d + 2) (by omega) (by omega); linarith

/-- partition of unity on the support window `[l-d, l]` -/
theorem basis_window_sum (t : List Rat) (hm : Mono t) (l : Nat) (x : Rat)
    (hlt : tk t l < tk t (l + 1)) :
    ∀ d a, a + d = l → l + d + 1 < t.length → rsum (fun j => basis t l d j x) a (d + 1) = 1 := by
  intro d
  induction d with
  | zero =>
    intro a ha _
    simp only [Nat.add_zero] at ha
    subst ha
    simp [rsum_succ, rsum_zero_len, basis]
  | succ d ih =>
    intro a ha hl
    have ih' := ih (a + 1) (by omega) (by omega)
    -- the two coefficient families
    let A : Nat → Rat := fun j => ratio (x - tk t j) (tk t (j + d + 1) - tk t j)
    let C : Nat → Rat := fun j => ratio (tk t (j + d + 1) - x) (tk t (j + d + 1) - tk t j)
    have hB : ∀ j, basis t l (d + 1) j x
        = A j * basis t l d j x + C (j + 1) * basis t l d (j + 1) x := by
      intro j
      simp only [basis, A, C]
      have e1 : j + 1 + d + 1 = j + d + 2 := by omega
      rw [e1]
    rw [rsum_congr _ (fun j => A j * basis t l d j x + C (j + 1) * basis t l d (j + 1) x) _ _
      (fun j _ _ => hB j)]
    rw [rsum_add]
    -- first sum: the leading term vanishes
    rw [rsum_succ (fun j => A j * basis t l d j x) a (d + 1)]
    rw [basis_eq_zero t l x d a (by omega)]
    -- second sum: shift the index, the trailing term vanishes
    rw [rsum_shift (fun j => C j * basis t l d j x) a (d + 2)]
    rw [rsum_last (fun j => C j * basis t l d j x) (a + 1) (d + 1)]
    rw [basis_eq_zero t l x d (a + 1 + (d + 1)) (by omega)]
    rw [mul_zero, mul_zero, zero_add, add_zero, ← rsum_add]
    rw [← ih']
    apply rsum_congr
    intro j hj1 hj2
    have hne : tk t (j + d + 1) - tk t j ≠ 0 := by
      have h1 := hm j l (by omega) (by omega)
      have h2 := hm (l + 1) (j + d + 1) (by omega) (by omega)
      intro h; linarith
    have : A j + C j = 1 := ratio_add_ratio hne (by ring)
    calc A j * basis t l d j x + C j * basis t l d j x
        = (A j + C j) * basis t l d j x := by ring
      _ = basis t l d j x := by rw [this, one_mul]

/-- the whole row sums to one -/
theorem basis_row_sum (t : List Rat) (hm : Mono t) (l : Nat) (x : Rat)
    (hlt : tk t l < tk t (l + 1)) (d n : Nat) (hd : d ≤ l) (hn : l < n)
    (hlen : l + d + 1 < t.length) :
    rsum (fun j => basis t l d j x) 0 n = 1 := by
  obtain ⟨a, rfl⟩ : ∃ a, l = a + d := ⟨l - d, by omega⟩
  obtain ⟨r, rfl⟩ : ∃ r, n = a + (d + 1) + r := ⟨n - (a + d + 1), by omega⟩
  rw [rsum_split, rsum_split]
  rw [rsum_eq_zero _ 0 a (fun j _ h => basis_eq_zero t (a + d) x d j (by omega))]
  rw [rsum_eq_zero _ (0 + (a + (d + 1))) r (fun j h _ => basis_eq_zero t (a + d) x d j (by omega))]
  rw [Nat.zero_add, basis_window_sum t hm (a + d) x hlt d a rfl hlen]
  ring

end FormulaeModel.Transforms

namespace FormulaeModel.Transforms

/-! ### the interval search -/

theorem intervalFrom_spec (t : List Rat) (x : Rat) (hi : Nat) :
    ∀ fuel l0,
      l0 ≤ intervalFrom t x hi fuel l0 ∧
      intervalFrom t x hi fuel l0 ≤ max l0 hi ∧
      (intervalFrom t x hi fuel l0 = l0 ∨ tk t (intervalFrom t x hi fuel l0) ≤ x) ∧
      (hi ≤ l0 + fuel →
        (hi ≤ intervalFrom t x hi fuel l0 ∨ x < tk t (intervalFrom t x hi fuel l0 + 1))) := by
  intro fuel
  induction fuel with
  | zero => intro l0; refine ⟨le_refl _, le_max_left _ _, Or.inl rfl, fun h => Or.inl ?_⟩; simpa [intervalFrom] using h
  | succ f ih =>
    intro l0
    simp only [intervalFrom]
    split
    · rename_i hc
      obtain ⟨h1, h2, h3, h4⟩ := ih (l0 + 1)
      refine ⟨by omega, ?_, ?_, ?_⟩
      · have : max (l0 + 1) hi = hi := max_eq_right (by omega)
        rw [this] at h2
        exact le_trans h2 (le_max_right _ _)
      · right
        rcases h3 with h3 | h3
        · rw [h3]; exact hc.2
        · exact h3
      · intro h; exact h4 (by omega)
    · rename_i hc
      refine ⟨le_refl _, le_max_left _ _, Or.inl rfl, ?_⟩
      intro _
      by_cases hl : l0 < hi
      · right; exact not_le.mp (fun h => hc ⟨hl, h⟩)
      · left; omega

/-- what `splev`'s search returns for a knot vector with `2(k+1) ≤ n` knots -/
theorem interval_spec (t : List Rat) (k : Nat) (x : Rat) (hlen : 2 * (k + 1) ≤ t.length) :
    k ≤ interval t k x ∧ interval t k x ≤ t.length - k - 2 ∧
    (interval t k x = k ∨ tk t (interval t k x) ≤ x) ∧
    (interval t k x = t.length - k - 2 ∨ x < tk t (interval t k x + 1)) := by
  obtain ⟨h1, h2, h3, h4⟩ := intervalFrom_spec t x (t.length - k - 2) t.length k
  have hmax : max k (t.length - k - 2) = t.length - k - 2 := max_eq_right (by omega)
  rw [hmax] at h2
  refine ⟨h1, h2, h3, ?_⟩
  rcases h4 (by omega) with h | h
  · left; exact le_antisymm h2 h
  · right; exact h

theorem mem_rowAux (f : Nat → Rat) (a n : Nat) (v : Rat) (h : v ∈ rowAux f a n) :
    ∃ j, a ≤ j ∧ j < a + n ∧ v = f j := by
  induction n generalizing a with
  | zero => simp [rowAux] at h
  | succ n ih =>
    simp only [rowAux, List.mem_cons] at h
    rcases h with h | h
    · exact ⟨a, le_refl _, by omega, h⟩
    · obtain ⟨j, h1, h2, h3⟩ := ih (a + 1) h
      exact ⟨j, by omega, by omega, h3⟩

/-! ### sorting gives a monotone knot vector -/

theorem pairwise_insertSorted (a : Rat) (l : List Rat) (h : l.Pairwise (· ≤ ·)) :
    (insertSorted a l).Pairwise (· ≤ ·) := by
  induction l with
  | nil => simp [insertSorted]
  | cons b l ih =>
    rw [List.pairwise_cons] at h
    simp only [insertSorted]
    split
    · rename_i hab
      rw [List.pairwise_cons, List.pairwise_cons]
      refine ⟨?_, h.1, h.2⟩
      intro c hc
      rcases List.mem_cons.mp hc with rfl | hc
      · exact hab
      · exact le_trans hab (h.1 c hc)
    · rename_i hab
      rw [List.pairwise_cons]
      refine ⟨?_, ih h.2⟩
      intro c hc
      rcases (mem_insertSorted a c l).mp hc with rfl | hc
      · exact le_of_lt (not_le.mp hab)
      · exact h.1 c hc

theorem pairwise_sort (l : List Rat) : (sort l).Pairwise (· ≤ ·) := by
  induction l with
  | nil => simp [sort]
  | cons a l ih => exact pairwise_insertSorted a _ ih

theorem mono_of_pairwise (t : List Rat) (h : t.Pairwise (· ≤ ·)) : Mono t := by
  intro i j hij hj
  have hi : i < t.length := by omega
  simp only [tk, List.getD_eq_getElem?_getD, List.getElem?_eq_getElem hi, List.getElem?_eq_getElem hj,
    Option.getD_some]
  rcases Nat.lt_or_eq_of_le hij with hlt | rfl
  · exact (List.pairwise_iff_getElem.mp h) i j hi hj hlt
  · exact le_refl _

/-! ### the theorem on one row -/

/-- On `[t_k, t_{n-k-1}]` (the boundary knots as `splev` sees them), if the interval the search
selects is not empty, all basis functions are non-negative and they sum to one. -/
theorem bsFullRow_partition (p : BsParams) (hm : Mono p.knots)
    (hlen : 2 * (p.degree + 1) ≤ p.knots.length) (x : Rat)
    (hlo : tk p.knots p.degree ≤ x) (hhi : x ≤ tk p.knots (p.knots.length - p.degree - 1))
    (hnd : bsDegenerate p.knots p.degree x = false) :
    (∀ v ∈ bsFullRow p x, 0 ≤ v) ∧ sum (bsFullRow p x) = 1 := by
  obtain ⟨h1, h2, h3, h4⟩ := interval_spec p.knots p.degree x hlen
  set l := interval p.knots p.degree x with hl
  have hTl : tk p.knots l ≤ x := by
    rcases h3 with h | h
    · rw [h]; exact hlo
    · exact h
  have hTl1 : x ≤ tk p.knots (l + 1) := by
    rcases h4 with h | h
    · have : l + 1 = p.knots.length - p.degree - 1 := by omega
      rw [this]; exact hhi
    · exact le_of_lt h
  have hlt : tk p.knots l < tk p.knots (l + 1) := by
    have hle := hm l (l + 1) (by omega) (by omega)
    have hne : tk p.knots l ≠ tk p.knots (l + 1) := by
      simpa [bsDegenerate, ← hl] using hnd
    exact lt_of_le_of_ne hle hne
  constructor
  · intro v hv
    obtain ⟨j, _, _, rfl⟩ := mem_rowAux _ _ _ _ hv
    exact basis_nonneg p.knots hm l x hTl hTl1 p.degree (by omega) j
  · have := basis_row_sum p.knots hm l x hlt p.degree (nBases p) h1 (by unfold nBases; omega)
      (by omega)
    exact this

/-- strictly inside `[t_k, t_{n-k-1})` the selected interval is never empty -/
theorem not_degenerate_inside (t : List Rat) (k : Nat) (x : Rat) (hlen : 2 * (k + 1) ≤ t.length)
    (hlo : tk t k ≤ x) (hhi : x < tk t (t.length - k - 1)) : bsDegenerate t k x = false := by
  obtain ⟨h1, h2, h3, h4⟩ := interval_spec t k x hlen
  have hTl : tk t (interval t k x) ≤ x := by
    rcases h3 with h | h
    · rw [h]; exact hlo
    · exact h
  have hTl1 : x < tk t (interval t k x + 1) := by
    rcases h4 with h | h
    · have : interval t k x + 1 = t.length - k - 1 := by omega
      rw [this]; exact hhi
    · exact h
  have : tk t (interval t k x) ≠ tk t (interval t k x + 1) := by
    intro h; rw [h] at hTl; linarith
  simpa [bsDegenerate] using this

end FormulaeModel.Transforms
