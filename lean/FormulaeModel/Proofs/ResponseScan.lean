import FormulaeModel.Proofs.ScannerLemmas
set_option linter.unusedSimpArgs false
set_option linter.unusedVariables false
/-
Helper lemmas for C15 (part 5): the scanner produces a `~` token only from a `~` character.
-/
namespace FormulaeModel.Scanner
open FormulaeModel

theorem span_snd_mem {α} (p : α → Bool) (l a b : List α) (h : l.span p = (a, b)) : ∀ c ∈ b, c ∈ l := by
  rw [span_spec] at h
  simp only [Prod.mk.injEq] at h
  intro c hc
  rw [← h.2] at hc
  exact (List.dropWhile_sublist p).subset hc

/-- one call of `scan_token`: what is left is part of the input, and a `~` token comes from a `~`
character -/
theorem scanToken_tilde {cs : List Char} {t : Option Token} {rest : List Char}
    (h : scanToken cs = .ok (t, rest)) :
    (∀ c ∈ rest, c ∈ cs) ∧ (∀ tok, t = some tok → isTilde tok = true → '~' ∈ cs) := by
  cases cs with
  | nil => simp [scanToken] at h
  | cons c cs =>
  have hsp := @span_snd_mem Char
  unfold scanToken at h
  iterate 25
    rcases ite_cases h with ⟨hc, h⟩ | ⟨-, h⟩
    · (repeat' split at h) <;> grind [mk, isTilde]
  cases h

theorem scanLoop_tilde : ∀ (n : Nat) (cs : List Char) (ts : List Token), scanLoop n cs = .ok ts →
    ∀ t ∈ ts, isTilde t = true → '~' ∈ cs := by
  intro n
  induction n with
  | zero =>
    intro cs ts h t ht _
    cases cs with
    | nil => simp only [scanLoop, Except.ok.injEq] at h; subst h; simp at ht
    | cons c cs => simp [scanLoop] at h
  | succ n ih =>
    intro cs ts h t ht htl
    cases cs with
    | nil => simp only [scanLoop, Except.ok.injEq] at h; subst h; simp at ht
    | cons c cs =>
      simp only [scanLoop, bind, Except.bind, pure, Except.pure] at h
      split at h
      · simp at h
      · rename_i p hp
        obtain ⟨tok, rest⟩ := p
        obtain ⟨hrest, htok⟩ := scanToken_tilde hp
        split at h
        · simp at h
        · rename_i ts' hts'
          have hrec : ∀ t ∈ ts', isTilde t = true → '~' ∈ c :: cs :=
            fun t ht htl => hrest _ (ih rest ts' hts' t ht htl)
          cases tok with
          | none =>
            simp only [Except.ok.injEq] at h; subst h
            exact hrec t ht htl
          | some tk =>
            simp only [Except.ok.injEq] at h; subst h
            simp only [List.mem_cons] at ht
            rcases ht with rfl | ht
            · exact htok _ rfl htl
            · exact hrec t ht htl

theorem addIntercept_tilde_mem (ts : List Token) (t : Token) (ht : t ∈ addIntercept ts)
    (htl : isTilde t = true) : t ∈ ts := by
  cases hany : ts.any isTilde with
  | false =>
    rw [addIntercept_no_tilde ts hany] at ht
    simp only [List.mem_cons] at ht
    rcases ht with h | h | h
    · subst h; simp [one_not_tilde] at htl
    · subst h; simp [plus_not_tilde] at htl
    · exact h
  | true =>
    obtain ⟨pre, tl, post, hsplit, hpre, htl'⟩ := split_first_tilde ts hany
    subst hsplit
    rw [addIntercept_tilde pre tl post hpre htl'] at ht
    simp only [List.mem_append, List.mem_cons] at ht ⊢
    rcases ht with h | h | h | h | h
    · exact Or.inl h
    · exact Or.inr (Or.inl h)
    · subst h; simp [one_not_tilde] at htl
    · subst h; simp [plus_not_tilde] at htl
    · exact Or.inr (Or.inr h)

/-- **a formula without the character `~` scans to a token list without a `~` token** -/
theorem scan_no_tilde (code : List Char) (addInt : Bool) (ts : List Token)
    (h : scan code addInt = .ok ts) (hno : '~' ∉ code) : ts.any isTilde = false := by
  unfold scan at h
  split at h
  · simp at h
  split at h
  · simp at h
  simp only [bind, Except.bind, pure, Except.pure] at h
  split at h
  · simp at h
  rename_i ts0 h0
  split at h
  · simp at h
  simp only [Except.ok.injEq] at h
  subst h
  cases hany : List.any (if addInt = true then addIntercept ts0 else ts0) isTilde with
  | false => rfl
  | true =>
    obtain ⟨t, ht, htl⟩ := List.any_eq_true.1 hany
    have ht0 : t ∈ ts0 := by
      cases addInt with
      | false => simpa using ht
      | true => exact addIntercept_tilde_mem ts0 t (by simpa using ht) htl
    exact absurd (scanLoop_tilde _ code ts0 h0 t ht0 htl) hno

end FormulaeModel.Scanner
