import FormulaeModel.Spec.C13
set_option linter.unusedSimpArgs false
/-
Helper lemmas for C13: finite sums, the closed form of the matrices the model builds, the
products with the explicit inverses.
-/
namespace FormulaeModel.Proofs.Coding
open FormulaeModel.Coding FormulaeModel.Spec.C13

/-! ### `allLt`, `sumTo` -/

theorem allLt_iff {n : Nat} {p : Nat → Bool} : allLt n p = true ↔ ∀ i, i < n → p i = true := by
  simp [allLt, List.all_eq_true]

theorem sumTo_congr {n : Nat} {f g : Nat → Int} (h : ∀ i, i < n → f i = g i) :
    sumTo n f = sumTo n g := by
  induction n with
  | zero => rfl
  | succ n ih =>
    simp only [sumTo]
    rw [ih (fun i hi => h i (by omega)), h n (by omega)]

theorem sumTo_zero (n : Nat) : sumTo n (fun _ => 0) = 0 := by
  induction n with
  | zero => rfl
  | succ n ih => simp [sumTo, ih]

theorem sumTo_const (n : Nat) (c : Int) : sumTo n (fun _ => c) = n * c := by
  induction n with
  | zero => simp [sumTo]
  | succ n ih => simp only [sumTo, ih]; grind

theorem sumTo_add (n : Nat) (f g : Nat → Int) :
    sumTo n (fun i => f i + g i) = sumTo n f + sumTo n g := by
  induction n with
  | zero => rfl
  | succ n ih => simp only [sumTo, ih]; omega

theorem sumTo_sub (n : Nat) (f g : Nat → Int) :
    sumTo n (fun i => f i - g i) = sumTo n f - sumTo n g := by
  induction n with
  | zero => rfl
  | succ n ih => simp only [sumTo, ih]; omega

theorem sumTo_mul_left (n : Nat) (c : Int) (f : Nat → Int) :
    sumTo n (fun i => c * f i) = c * sumTo n f := by
  induction n with
  | zero => simp [sumTo]
  | succ n ih => simp only [sumTo, ih]; grind

/-- a sum with a single non-zero term -/
theorem sumTo_ite_eq (n a : Nat) (g : Nat → Int) :
    sumTo n (fun m => if m = a then g m else 0) = if a < n then g a else 0 := by
  induction n with
  | zero => simp [sumTo]
  | succ n ih =>
    simp only [sumTo, ih]
    by_cases h1 : a < n
    · have : ¬ n = a := by omega
      simp [h1, this]; omega
    · by_cases h2 : n = a
      · subst h2; simp
      · have : ¬ a < n + 1 := by omega
        simp [h1, h2, this]

theorem sumTo_succ_left (n : Nat) (f : Nat → Int) :
    sumTo (n + 1) f = f 0 + sumTo n (fun m => f (m + 1)) := by
  induction n with
  | zero => simp [sumTo]
  | succ n ih => rw [sumTo, ih]; simp only [sumTo]; omega

/-! ### entries -/

/-- entries of a matrix given by a formula -/
theorem ent_table (n c : Nat) (f : Nat → Nat → Int) (i j : Nat) (hi : i < n) (hj : j < c) :
    ent ((List.range n).map fun i => (List.range c).map fun j => f i j) i j = f i j := by
  simp [ent, List.getD_eq_getElem?_getD, hi, hj]

theorem isShape_table (n c : Nat) (f : Nat → Nat → Int) :
    isShape ((List.range n).map fun i => (List.range c).map fun j => f i j) n c = true := by
  simp [isShape, List.all_eq_true]

theorem ent_withConst_zero (M : IMatrix) (i : Nat) (hi : i < M.length) :
    ent (withConst M) i 0 = 1 := by
  simp [ent, withConst, List.getD_eq_getElem?_getD, hi]

theorem ent_withConst_succ (M : IMatrix) (i j : Nat) :
    ent (withConst M) i (j + 1) = ent M i j := by
  simp only [ent, withConst, List.getD_eq_getElem?_getD, List.getElem?_map]
  cases M[i]? <;> simp

theorem isShape_withConst (M : IMatrix) (r c : Nat) (h : isShape M r c = true) :
    isShape (withConst M) r (c + 1) = true := by
  simp [isShape, withConst, List.all_eq_true] at *
  exact h

theorem ent_eq_entry (M : IMatrix) (r c i j : Nat) (h : isShape M r c = true) (hi : i < r)
    (hj : j < c) : entry? M i j = some (ent M i j) := by
  simp [isShape, List.all_eq_true] at h
  obtain ⟨h1, h2⟩ := h
  have hi' : i < M.length := by omega
  have := h2 M[i] (List.getElem_mem hi')
  simp [entry?, ent, List.getD_eq_getElem?_getD, hi', this, hj]

/-! ### closed form of the matrices built by the model -/

def reducedClosed (n r : Nat) (fill : Int) : IMatrix :=
  (List.range n).map fun i => (List.range (n - 1)).map fun j =>
    if i = r then fill else if i = skip r j then 1 else 0

theorem reduced_eq (n r : Nat) (fill : Int) (hr : r < n) :
    (eye (n - 1)).take r ++ [List.replicate (n - 1) fill] ++ (eye (n - 1)).drop r
      = reducedClosed n r fill := by
  apply List.ext_getElem
  · simp [eye, reducedClosed]; omega
  · intro i h1 h2
    simp only [reducedClosed, List.getElem_map, List.getElem_range]
    simp only [eye, List.append_assoc, List.getElem_append, List.length_take, List.length_map, List.length_range]
    split
    · rename_i h
      simp only [List.getElem_take, List.getElem_map, List.getElem_range]
      apply List.ext_getElem
      · simp
      · intro j hj1 hj2
        simp [skip]
        grind
    · rename_i h
      by_cases hi : i = r
      · subst hi
        have h0 : i - min i (n - 1) = 0 := by omega
        simp [h0]
        apply List.ext_getElem
        · simp
        · intro j hj1 hj2
          simp
      · have : ¬ (i - min r (n - 1) < 1) := by omega
        simp only [List.getElem_cons, this, List.length_cons, List.length_nil]
        simp only [↓reduceDIte, List.getElem_drop, List.getElem_map, List.getElem_range]
        apply List.ext_getElem
        · simp
        · intro j hj1 hj2
          simp [skip]
          grind

/-! ### products with the explicit inverses -/

/-- `M` is `n × (n-1)`, row `r` is constantly `fill`, the other rows are the unit vectors in order -/
def EntriesReduced (n r : Nat) (fill : Int) (M : IMatrix) : Prop :=
  isShape M n (n - 1) = true ∧
  ∀ i j, i < n → j < n - 1 → ent M i j = if i = r then fill else if i = skip r j then 1 else 0

/-- entries of `[1 | M]` -/
def constEnt (r : Nat) (fill : Int) (k c : Nat) : Int :=
  if c = 0 then 1 else if k = r then fill else if k = skip r (c - 1) then 1 else 0

theorem ent_withConst_reduced {n r : Nat} {fill : Int} {M : IMatrix} (h : EntriesReduced n r fill M)
    (k c : Nat) (hk : k < n) (hc : c < n) : ent (withConst M) k c = constEnt r fill k c := by
  obtain ⟨hs, he⟩ := h
  cases c with
  | zero =>
    have : k < M.length := by simp [isShape] at hs; omega
    simp [ent_withConst_zero M k this, constEnt]
  | succ c => rw [ent_withConst_succ, he k c hk (by omega)]; simp [constEnt]

theorem ent_treatInv (n r a k : Nat) (ha : a < n) (hk : k < n) :
    ent (treatInv n r) a k = if a = 0 then (if k = r then 1 else 0)
      else (if k = skip r (a - 1) then 1 else 0) - (if k = r then 1 else 0) :=
  ent_table n n _ a k ha hk

theorem ent_sumInvNum (n o a k : Nat) (ha : a < n) (hk : k < n) :
    ent (sumInvNum n o) a k = if a = 0 then 1 else (if k = skip o (a - 1) then (n : Int) else 0) - 1 :=
  ent_table n n _ a k ha hk

theorem treat_left {n r : Nat} {M : IMatrix} (h : EntriesReduced n r 0 M) (hr : r < n)
    (a c : Nat) (ha : a < n) (hc : c < n) :
    mulEnt (treatInv n r) (withConst M) n a c = if a = c then 1 else 0 := by
  unfold mulEnt
  rw [sumTo_congr (g := fun k => (if k = skip r (a - 1) then (if a = 0 then 0 else constEnt r 0 k c) else 0)
        - (if k = r then (if a = 0 then - constEnt r 0 k c else constEnt r 0 k c) else 0))]
  · rw [sumTo_sub, sumTo_ite_eq, sumTo_ite_eq]
    have : skip r (a - 1) < n ∨ a = 0 := by simp only [skip]; split <;> omega
    simp only [constEnt, skip]
    grind
  · intro k hk
    rw [ent_treatInv n r a k ha hk, ent_withConst_reduced h k c hk hc]
    grind
/-- inverse of `skip r` on the indices other than `r` -/
def unskip (r i : Nat) : Nat := if i < r then i else i - 1

theorem skip_eq_iff (r i j : Nat) (h : i ≠ r) : i = skip r j ↔ j = unskip r i := by
  simp only [skip, unskip]; split <;> split <;> omega

theorem treat_right {n r : Nat} {M : IMatrix} (h : EntriesReduced n r 0 M) (hr : r < n)
    (i k : Nat) (hi : i < n) (hk : k < n) :
    mulEnt (withConst M) (treatInv n r) n i k = if i = k then 1 else 0 := by
  obtain ⟨n', rfl⟩ : ∃ n', n = n' + 1 := ⟨n - 1, by omega⟩
  unfold mulEnt
  rw [sumTo_succ_left]
  rw [sumTo_congr (g := fun j => if j = unskip r i then
        (if i = r then 0 else (if k = skip r j then 1 else 0) - (if k = r then 1 else 0)) else 0)]
  · rw [sumTo_ite_eq, ent_treatInv _ r 0 k (by omega) hk, ent_withConst_reduced h i 0 hi (by omega)]
    simp only [constEnt, skip, unskip]
    grind
  · intro j hj
    rw [ent_treatInv _ r (j + 1) k (by omega) hk, ent_withConst_reduced h i (j + 1) hi (by omega)]
    have := skip_eq_iff r i j
    simp only [constEnt]
    grind

theorem skip_ne (r j : Nat) : skip r j ≠ r := by simp only [skip]; split <;> omega

theorem skip_lt (n r j : Nat) (hj : j < n - 1) : skip r j < n := by
  simp only [skip]; split <;> omega

theorem skip_inj (r a b : Nat) : skip r a = skip r b ↔ a = b := by
  simp only [skip]; split <;> split <;> omega

/-- every column of a sum coding adds up to zero over the levels -/
theorem colSum_zero {n o : Nat} {M : IMatrix} (h : EntriesReduced n o (-1) M) (ho : o < n)
    (j : Nat) (hj : j < n - 1) : colSum M n j = 0 := by
  unfold colSum
  rw [sumTo_congr (g := fun i => (if i = skip o j then 1 else 0) + (if i = o then -1 else 0))]
  · rw [sumTo_add, sumTo_ite_eq, sumTo_ite_eq]
    have := skip_lt n o j hj
    simp [this, ho]
  · intro i hi
    rw [h.2 i j hi hj]
    have := skip_ne o j
    grind

theorem sum_constEnt {n o : Nat} (ho : o < n) (c : Nat) (hc : c < n) :
    sumTo n (fun k => constEnt o (-1) k c) = if c = 0 then (n : Int) else 0 := by
  cases c with
  | zero => simp [constEnt, sumTo_const]
  | succ c =>
    rw [sumTo_congr (g := fun i => (if i = skip o c then 1 else 0) + (if i = o then -1 else 0))]
    · rw [sumTo_add, sumTo_ite_eq, sumTo_ite_eq]
      have := skip_lt n o c (by omega)
      simp [this, ho]
    · intro i hi
      have := skip_ne o c
      simp only [constEnt]
      grind

theorem sum_left {n o : Nat} {M : IMatrix} (h : EntriesReduced n o (-1) M) (ho : o < n)
    (a c : Nat) (ha : a < n) (hc : c < n) :
    mulEnt (sumInvNum n o) (withConst M) n a c = if a = c then (n : Int) else 0 := by
  unfold mulEnt
  rw [sumTo_congr (g := fun k =>
        (if k = skip o (a - 1) then (if a = 0 then 0 else (n : Int) * constEnt o (-1) k c) else 0)
        + (if a = 0 then 1 else -1) * constEnt o (-1) k c)]
  · rw [sumTo_add, sumTo_ite_eq, sumTo_mul_left, sum_constEnt ho c hc]
    have h1 : skip o (a - 1) < n ∨ a = 0 := by simp only [skip]; split <;> omega
    have h2 := skip_ne o (a - 1)
    have h3 := skip_inj o (a - 1) (c - 1)
    simp only [constEnt]
    grind
  · intro k hk
    rw [ent_sumInvNum n o a k ha hk, ent_withConst_reduced h k c hk hc]
    grind

theorem sum_right {n o : Nat} {M : IMatrix} (h : EntriesReduced n o (-1) M) (ho : o < n)
    (i k : Nat) (hi : i < n) (hk : k < n) :
    mulEnt (withConst M) (sumInvNum n o) n i k = if i = k then (n : Int) else 0 := by
  obtain ⟨n', rfl⟩ : ∃ n', n = n' + 1 := ⟨n - 1, by omega⟩
  unfold mulEnt
  rw [sumTo_succ_left, ent_sumInvNum _ o 0 k (by omega) hk,
    ent_withConst_reduced h i 0 hi (by omega)]
  by_cases hio : i = o
  · subst hio
    rw [sumTo_congr (g := fun j => 1 - (if j = unskip i k then (if k = i then 0 else ((n' + 1 : Nat) : Int)) else 0))]
    · rw [sumTo_sub, sumTo_const, sumTo_ite_eq]
      simp only [constEnt, unskip]
      grind
    · intro j hj
      rw [ent_sumInvNum _ i (j + 1) k (by omega) hk, ent_withConst_reduced h i (j + 1) hi (by omega)]
      have := skip_eq_iff i k j
      have := skip_ne i j
      simp only [constEnt]
      grind
  · rw [sumTo_congr (g := fun j => if j = unskip o i then
          (if k = skip o j then ((n' + 1 : Nat) : Int) else 0) - 1 else 0)]
    · rw [sumTo_ite_eq]
      simp only [constEnt, skip, unskip]
      grind
    · intro j hj
      rw [ent_sumInvNum _ o (j + 1) k (by omega) hk, ent_withConst_reduced h i (j + 1) hi (by omega)]
      have := skip_eq_iff o i j hio
      simp only [constEnt]
      grind

/-! ### from the row description of the specification to entries, and the basis predicates -/

theorem unskip_lt (n r i : Nat) (hi : i < n) (hr : r < n) (h : i ≠ r) : unskip r i < n - 1 := by
  simp only [unskip]; split <;> omega

/-- the rows demanded by `treatmentReduced` / `sumReduced` determine every entry -/
theorem entries_of_rows {n r : Nat} {fill : Int} {M : IMatrix}
    (hs : isShape M n (n - 1) = true) (hc : rowIsConst M r (n - 1) fill = true)
    (hu : allLt n (fun i => i == r || rowIsUnit M i (n - 1) (if i < r then i else i - 1)) = true) :
    EntriesReduced n r fill M := by
  refine ⟨hs, fun i j hi hj => ?_⟩
  rw [rowIsConst, allLt_iff] at hc
  rw [allLt_iff] at hu
  by_cases hir : i = r
  · subst hir; simpa using hc j hj
  · have := hu i hi
    have hb : (i == r) = false := by simp [hir]
    simp only [hb, rowIsUnit, Bool.false_or] at this
    rw [allLt_iff] at this
    have := this j hj
    have hh := skip_eq_iff r i j hir
    simp only [unskip] at hh
    grind

theorem rows_of_entries {n r : Nat} {fill : Int} {M : IMatrix} (h : EntriesReduced n r fill M)
    (hr : r < n) :
    rowIsConst M r (n - 1) fill = true ∧
    allLt n (fun i => i == r || rowIsUnit M i (n - 1) (if i < r then i else i - 1)) = true := by
  constructor
  · rw [rowIsConst, allLt_iff]; intro j hj; simp [h.2 r j hr hj]
  · rw [allLt_iff]; intro i hi
    by_cases hir : i = r
    · simp [hir]
    · have hb : (i == r) = false := by simp [hir]
      simp only [hb, rowIsUnit, Bool.false_or]
      rw [allLt_iff]; intro j hj
      rw [h.2 i j hi hj]
      have hh := skip_eq_iff r i j hir
      simp only [unskip] at hh
      grind

theorem isShape_treatInv (n r : Nat) : isShape (treatInv n r) n n = true := isShape_table n n _
theorem isShape_sumInvNum (n o : Nat) : isShape (sumInvNum n o) n n = true := isShape_table n n _

theorem treatmentBasis_of_entries {n r : Nat} {M : IMatrix} (h : EntriesReduced n r 0 M)
    (hr : r < n) : treatmentBasis n r M = true := by
  have hs : isShape (withConst M) n n = true := by
    have := isShape_withConst M n (n - 1) h.1
    rwa [show n - 1 + 1 = n by omega] at this
  simp only [treatmentBasis, hs, isShape_treatInv, Bool.true_and, Bool.and_eq_true, mulIsScalar]
  constructor
  · rw [allLt_iff]; intro a ha; rw [allLt_iff]; intro c hc
    simpa using treat_left h hr a c ha hc
  · rw [allLt_iff]; intro a ha; rw [allLt_iff]; intro c hc
    simpa using treat_right h hr a c ha hc

theorem sumBasis_of_entries {n o : Nat} {M : IMatrix} (h : EntriesReduced n o (-1) M)
    (ho : o < n) : sumBasis n o M = true := by
  have hs : isShape (withConst M) n n = true := by
    have := isShape_withConst M n (n - 1) h.1
    rwa [show n - 1 + 1 = n by omega] at this
  have hn : 0 < n := by omega
  simp only [sumBasis, hs, hn, isShape_sumInvNum, decide_true, Bool.true_and, Bool.and_eq_true, mulIsScalar]
  constructor
  · rw [allLt_iff]; intro a ha; rw [allLt_iff]; intro c hc
    simpa using sum_left h ho a c ha hc
  · rw [allLt_iff]; intro a ha; rw [allLt_iff]; intro c hc
    simpa using sum_right h ho a c ha hc

/-! ### what the model of `Treatment` / `Sum` returns -/

theorem entries_reducedClosed (n r : Nat) (fill : Int) : EntriesReduced n r fill (reducedClosed n r fill) :=
  ⟨isShape_table n (n - 1) _, fun i j hi hj => ent_table n (n - 1) _ i j hi hj⟩

theorem dropLevel_eq (levels : List String) (r : Nat) : dropLevel levels r = levels.eraseIdx r := by
  simp [dropLevel, List.eraseIdx_eq_take_drop_succ]

theorem referenceIndex_lt {ref : Option String} {levels : List String} {r : Nat}
    (h : referenceIndex? ref levels = some r) : r < levels.length := by
  cases ref with
  | none =>
    simp only [referenceIndex?] at h
    split at h
    · simp at h
    · cases levels with
      | nil => simp at *
      | cons a l => simp at h; subst h; simp
  | some x =>
    simp only [referenceIndex?] at h
    split at h
    · rename_i hx
      simp at h; subst h
      exact List.idxOf_lt_length_iff.mpr (by simpa using hx)
    · simp at h

theorem omitIndex_lt {om : Option String} {levels : List String} {o : Nat}
    (h : omitIndex? om levels = some o) : o < levels.length := by
  cases om with
  | none =>
    simp only [omitIndex?] at h
    split at h
    · simp at h
    · cases levels with
      | nil => simp at *
      | cons a l => simp at h; subst h; simp
  | some x =>
    simp only [omitIndex?] at h
    split at h
    · rename_i hx
      simp at h; subst h
      exact List.idxOf_lt_length_iff.mpr (by simpa using hx)
    · simp at h

/-- The model of `Treatment.code_without_intercept` when the reference resolves. -/
theorem treatment_without_ok {ref : Option String} {levels : List String} {r : Nat}
    (h : referenceIndex? ref levels = some r) :
    Treatment.codeWithoutIntercept ref levels
      = .ok ⟨reducedClosed levels.length r 0, levels.eraseIdx r⟩ := by
  have hr := referenceIndex_lt h
  have hn : ¬ levels.length = 0 := by omega
  have hri : Treatment.referenceIndex ref levels = .ok r := by
    cases ref with
    | none =>
      simp only [referenceIndex?] at h
      split at h <;> simp_all [Treatment.referenceIndex]
    | some x =>
      simp only [referenceIndex?] at h
      split at h
      · rename_i hx; simp at hx h; simp [Treatment.referenceIndex, hx, h]
      · simp at h
  simp only [Treatment.codeWithoutIntercept, hri, bind, Except.bind, hn, if_false, pure, Except.pure]
  rw [reduced_eq _ _ _ hr, dropLevel_eq]

/-- … and when it does not: the call raises. -/
theorem treatment_without_err {ref : Option String} {levels : List String}
    (h : referenceIndex? ref levels = none) :
    ∃ e, Treatment.codeWithoutIntercept ref levels = .error e := by
  cases ref with
  | none =>
    simp only [referenceIndex?] at h
    split at h
    · rename_i he
      have : levels.length = 0 := by simpa using he
      exact ⟨.negativeDimensions, by simp [Treatment.codeWithoutIntercept, Treatment.referenceIndex, bind, Except.bind, this, throw, throwThe, MonadExceptOf.throw]⟩
    · simp at h
  | some x =>
    simp only [referenceIndex?] at h
    split at h
    · simp at h
    · rename_i hx
      simp at hx
      exact ⟨.referenceNotInLevels, by simp [Treatment.codeWithoutIntercept, Treatment.referenceIndex, bind, Except.bind, hx]⟩

theorem omitIndex_model {om : Option String} {levels : List String} {o : Nat}
    (h : omitIndex? om levels = some o) : Sum.omitIndex om levels = .ok (o : Int) := by
  cases om with
  | none =>
    simp only [omitIndex?] at h
    split at h
    · simp at h
    · rename_i he
      have : levels.length ≠ 0 := by simpa using he
      simp at h; subst h
      simp only [Sum.omitIndex]; congr 1; omega
  | some x =>
    simp only [omitIndex?] at h
    split at h
    · rename_i hx; simp at hx h; simp [Sum.omitIndex, hx, h]
    · simp at h

/-- The model of `Sum.code_without_intercept` when the omitted level resolves. -/
theorem sum_without_ok {om : Option String} {levels : List String} {o : Nat}
    (h : omitIndex? om levels = some o) :
    Sum.codeWithoutIntercept om levels
      = .ok ⟨reducedClosed levels.length o (-1), levels.eraseIdx o⟩ := by
  have ho := omitIndex_lt h
  have hn : ¬ levels.length = 0 := by omega
  simp only [Sum.codeWithoutIntercept, Sum.sumContrast, omitIndex_model h, bind, Except.bind, hn,
    if_false, pure, Except.pure, Int.toNat_natCast]
  rw [reduced_eq _ _ _ ho, dropLevel_eq]

theorem sum_without_err {om : Option String} {levels : List String}
    (h : omitIndex? om levels = none) :
    ∃ e, Sum.codeWithoutIntercept om levels = .error e := by
  cases om with
  | none =>
    simp only [omitIndex?] at h
    split at h
    · rename_i he
      have : levels.length = 0 := by simpa using he
      exact ⟨.negativeDimensions, by simp [Sum.codeWithoutIntercept, Sum.sumContrast, Sum.omitIndex, bind, Except.bind, this, throw, throwThe, MonadExceptOf.throw]⟩
    · simp at h
  | some x =>
    simp only [omitIndex?] at h
    split at h
    · simp at h
    · rename_i hx
      simp at hx
      exact ⟨.omitNotInLevels, by simp [Sum.codeWithoutIntercept, Sum.sumContrast, Sum.omitIndex, bind, Except.bind, hx]⟩

theorem sum_with_ok {om : Option String} {levels : List String} {o : Nat}
    (h : omitIndex? om levels = some o) :
    Sum.codeWithIntercept om levels
      = .ok ⟨withConst (reducedClosed levels.length o (-1)), "mean" :: levels.eraseIdx o⟩ := by
  simp [Sum.codeWithIntercept, sum_without_ok h, bind, Except.bind, pure, Except.pure,
    columnStackOnes, withConst]

theorem sum_with_err {om : Option String} {levels : List String}
    (h : omitIndex? om levels = none) :
    ∃ e, Sum.codeWithIntercept om levels = .error e := by
  obtain ⟨e, he⟩ := sum_without_err h
  exact ⟨e, by simp [Sum.codeWithIntercept, he, bind, Except.bind]⟩

/-! ### the specification's predicates on the closed forms -/

theorem treatmentReduced_of_entries {levels : List String} {r : Nat} {M : IMatrix}
    (h : EntriesReduced levels.length r 0 M) (hr : r < levels.length) :
    treatmentReduced levels r M (levels.eraseIdx r) = true := by
  obtain ⟨h1, h2⟩ := rows_of_entries h hr
  simp [treatmentReduced, h.1, h1, h2, List.length_eraseIdx, hr]

theorem sumReduced_of_entries {levels : List String} {o : Nat} {M : IMatrix}
    (h : EntriesReduced levels.length o (-1) M) (ho : o < levels.length) :
    sumReduced levels o M (levels.eraseIdx o) = true := by
  obtain ⟨h1, h2⟩ := rows_of_entries h ho
  have h3 : allLt (levels.length - 1) (fun j => colSum M levels.length j == 0) = true := by
    rw [allLt_iff]; intro j hj; simp [colSum_zero h ho j hj]
  simp [sumReduced, h.1, h1, h2, h3, List.length_eraseIdx, ho]

theorem ent_eye (n i j : Nat) (hi : i < n) (hj : j < n) : ent (eye n) i j = if i = j then 1 else 0 :=
  ent_table n n _ i j hi hj

theorem isIdentity_eye (n : Nat) : isIdentity (eye n) n = true := by
  simp only [isIdentity, eye, isShape_table, Bool.true_and]
  rw [allLt_iff]; intro i hi; rw [rowIsUnit, allLt_iff]; intro j hj
  rw [ent_table n n _ i j hi hj]; grind

theorem dropFirstColumn_withConst (M : IMatrix) : dropFirstColumn (withConst M) = M := by
  simp only [dropFirstColumn, withConst, List.map_map]
  conv => rhs; rw [← List.map_id M]
  apply List.map_congr_left; intro row _; simp

theorem sumFull_of_entries {levels : List String} {o : Nat} {M : IMatrix}
    (h : EntriesReduced levels.length o (-1) M) (ho : o < levels.length) :
    sumFull levels o (withConst M) ("mean" :: levels.eraseIdx o) = true := by
  have hs : isShape (withConst M) levels.length levels.length = true := by
    have := isShape_withConst M _ _ h.1
    rwa [show levels.length - 1 + 1 = levels.length by omega] at this
  have hl : M.length = levels.length := by have := h.1; simp [isShape] at this; exact this.1
  have h0 : allLt levels.length (fun i => ent (withConst M) i 0 == 1) = true := by
    rw [allLt_iff]; intro i hi; simp [ent_withConst_zero M i (by omega)]
  simp [sumFull, hs, h0, dropFirstColumn_withConst, sumReduced_of_entries h ho]

theorem spansIndicators_of_entries {n o : Nat} {M : IMatrix}
    (h : EntriesReduced n o (-1) M) (ho : o < n) : spansIndicators n o (withConst M) = true := by
  have hs : isShape (withConst M) n n = true := by
    have := isShape_withConst M _ _ h.1
    rwa [show n - 1 + 1 = n by omega] at this
  have hn : 0 < n := by omega
  simp only [spansIndicators, hs, hn, decide_true, Bool.true_and, mulIsScalar]
  rw [allLt_iff]; intro a ha; rw [allLt_iff]; intro c hc
  simpa using sum_right h ho a c ha hc

/-! ### labels -/

theorem getElem?_inj_of_nodup {l : List String} (hn : l.Nodup) {i j : Nat} (hi : i < l.length)
    (hj : j < l.length) : l[i]? = l[j]? ↔ i = j := by
  constructor
  · intro h
    rw [List.getElem?_eq_getElem hi, List.getElem?_eq_getElem hj] at h
    exact (List.getElem_inj hn).mp (Option.some.inj h)
  · intro h; subst h; rfl

theorem eraseIdx_getElem? (l : List String) (r j : Nat) : (l.eraseIdx r)[j]? = l[skip r j]? := by
  rw [List.getElem?_eraseIdx]; simp only [skip]; split <;> rfl

theorem indicatorOfLabel_reduced {levels : List String} {r : Nat} {M : IMatrix}
    (hn : levels.Nodup) (h : EntriesReduced levels.length r 0 M) (hr : r < levels.length) :
    indicatorOfLabel levels (levels.eraseIdx r) M = true := by
  rw [indicatorOfLabel, allLt_iff]; intro j hj; rw [allLt_iff]; intro i hi
  rw [List.length_eraseIdx] at hj; simp only [hr, if_true] at hj
  rw [h.2 i j hi hj, eraseIdx_getElem?]
  have := getElem?_inj_of_nodup hn hi (skip_lt _ r j hj)
  have := skip_ne r j
  grind

theorem indicatorOfLabel_full (levels : List String) (hn : levels.Nodup) :
    indicatorOfLabel levels levels (eye levels.length) = true := by
  rw [indicatorOfLabel, allLt_iff]; intro j hj; rw [allLt_iff]; intro i hi
  rw [ent_eye _ i j hi hj]
  have := getElem?_inj_of_nodup hn hi hj
  grind

theorem plusOneAtLabel_reduced {levels : List String} {o : Nat} {M : IMatrix}
    (hn : levels.Nodup) (h : EntriesReduced levels.length o (-1) M) (ho : o < levels.length) :
    plusOneAtLabel levels (levels.eraseIdx o) M 0 = true := by
  rw [plusOneAtLabel, allLt_iff]; intro j hj
  rw [List.length_eraseIdx] at hj; simp only [ho, if_true] at hj
  simp only [Nat.not_lt_zero, decide_false, Bool.false_or]
  rw [allLt_iff]; intro i hi
  rw [h.2 i j hi hj, eraseIdx_getElem?]
  have := getElem?_inj_of_nodup hn hi (skip_lt _ o j hj)
  have := skip_ne o j
  grind

theorem plusOneAtLabel_full {levels : List String} {o : Nat} {M : IMatrix}
    (hn : levels.Nodup) (h : EntriesReduced levels.length o (-1) M) (ho : o < levels.length) :
    plusOneAtLabel levels ("mean" :: levels.eraseIdx o) (withConst M) 1 = true := by
  rw [plusOneAtLabel, allLt_iff]; intro j hj
  cases j with
  | zero => simp
  | succ j =>
    simp only [List.length_cons, List.length_eraseIdx, ho, if_true] at hj
    have hj' : j < levels.length - 1 := by omega
    have : decide (j + 1 < 1) = false := by simp
    simp only [this, Bool.false_or]
    rw [allLt_iff]; intro i hi
    rw [ent_withConst_succ, h.2 i j hi hj', List.getElem?_cons_succ, eraseIdx_getElem?]
    have := getElem?_inj_of_nodup hn hi (skip_lt _ o j hj')
    have := skip_ne o j
    grind

/-! ### `sorted(list(set(data)))` -/

theorem mem_insertSorted (s x : String) (l : List String) :
    x ∈ insertSorted s l ↔ x = s ∨ x ∈ l := by
  induction l with
  | nil => simp [insertSorted]
  | cons t ts ih =>
    simp only [insertSorted]
    split
    · simp
    · split
      · rename_i h; subst h; simp
      · simp [ih]; grind

theorem mem_sortedSet (x : String) (data : List String) : x ∈ sortedSet data ↔ x ∈ data := by
  induction data with
  | nil => simp [sortedSet]
  | cons a l ih =>
    have : sortedSet (a :: l) = insertSorted a (sortedSet l) := rfl
    rw [this, mem_insertSorted, ih]; simp

/-- the head of a strictly sorted list is below everything that follows -/
def headBelow (a : String) : List String → Prop
  | [] => True
  | b :: _ => a < b

theorem strictlySorted_cons (a : String) (l : List String) :
    strictlySorted (a :: l) = true ↔ headBelow a l ∧ strictlySorted l = true := by
  cases l with
  | nil => simp [strictlySorted, headBelow]
  | cons b r => simp [strictlySorted, headBelow]

theorem strictlySorted_insertSorted (s : String) (l : List String) (h : strictlySorted l = true) :
    strictlySorted (insertSorted s l) = true ∧ ∀ a, headBelow a l → a < s → headBelow a (insertSorted s l) := by
  induction l with
  | nil => simp [insertSorted, strictlySorted, headBelow]
  | cons t ts ih =>
    rw [strictlySorted_cons] at h
    simp only [insertSorted]
    split
    · rename_i hst
      refine ⟨?_, fun a _ has => has⟩
      rw [strictlySorted_cons, strictlySorted_cons]; exact ⟨hst, h⟩
    · split
      · rename_i h1 h2
        refine ⟨?_, fun a ha _ => ha⟩
        rw [strictlySorted_cons]; exact h
      · rename_i h1 h2
        have hts : t < s := by
          rcases String.le_total s t with h3 | h3
          · exfalso
            have : ¬ t < s := String.not_lt.mpr h3
            have h4 : t ≤ s := String.not_lt.mp h1
            exact h2 (String.le_antisymm h3 h4)
          · have h4 : t ≤ s := h3
            by_cases h5 : t < s
            · exact h5
            · exact absurd (String.le_antisymm (String.not_lt.mp h5) h4) h2
        obtain ⟨ih1, ih2⟩ := ih h.2
        refine ⟨?_, fun a ha _ => ha⟩
        rw [strictlySorted_cons]; exact ⟨ih2 t h.1 hts, ih1⟩

theorem strictlySorted_sortedSet (data : List String) : strictlySorted (sortedSet data) = true := by
  induction data with
  | nil => simp [sortedSet, strictlySorted]
  | cons a l ih => exact (strictlySorted_insertSorted a (sortedSet l) ih).1

theorem lt_of_strictlySorted (a : String) (l : List String) (h : strictlySorted (a :: l) = true) :
    ∀ x ∈ l, a < x := by
  induction l generalizing a with
  | nil => simp
  | cons b r ih =>
    rw [strictlySorted_cons] at h
    intro x hx
    rcases List.mem_cons.mp hx with rfl | hx
    · exact h.1
    · exact String.lt_trans h.1 (ih b h.2 x hx)

theorem nodup_of_strictlySorted (l : List String) (h : strictlySorted l = true) : l.Nodup := by
  induction l with
  | nil => simp
  | cons a r ih =>
    rw [List.nodup_cons]
    refine ⟨fun hmem => String.lt_irrefl a (lt_of_strictlySorted a r h a hmem), ih ?_⟩
    exact ((strictlySorted_cons a r).mp h).2

theorem sameSet_iff (a b : List String) : sameSet a b = true ↔ ∀ x, x ∈ a ↔ x ∈ b := by
  simp only [sameSet, Bool.and_eq_true, List.all_eq_true, List.contains_iff_mem]
  constructor
  · intro ⟨h1, h2⟩ x; exact ⟨h1 x, h2 x⟩
  · intro h; exact ⟨fun x hx => (h x).mp hx, fun x hx => (h x).mpr hx⟩

/-! ### `matrix[codes]` -/

theorem rowAt_idx (M : IMatrix) (cats : List String) (v : String) (hlen : M.length = cats.length)
    (hv : v ∈ cats) : ∃ row, rowAt M (cats.idxOf v : Int) = .ok row ∧ M[cats.idxOf v]? = some row := by
  have hlt : cats.idxOf v < M.length := by rw [hlen]; exact List.idxOf_lt_length_iff.mpr hv
  refine ⟨M[cats.idxOf v], ?_, List.getElem?_eq_getElem hlt⟩
  have h1 : ¬ ((cats.idxOf v : Int) < 0) := by omega
  simp [rowAt, h1, List.getElem?_eq_getElem hlt]

theorem takeRows_codes (M : IMatrix) (cats data : List String) (hlen : M.length = cats.length)
    (hsub : ∀ v, v ∈ data → v ∈ cats) :
    ∃ value, takeRows M (codes cats data) = .ok value ∧
      value.length = data.length ∧
      ∀ t (ht : t < data.length), value[t]? = M[cats.idxOf data[t]]? := by
  induction data with
  | nil => exact ⟨[], by simp [takeRows, codes, pure, Except.pure], rfl, by simp⟩
  | cons v rest ih =>
    obtain ⟨value, h1, h2, h3⟩ := ih (fun x hx => hsub x (List.mem_cons_of_mem _ hx))
    have hv : v ∈ cats := hsub v (by simp)
    obtain ⟨row, hr1, hr2⟩ := rowAt_idx M cats v hlen hv
    refine ⟨row :: value, ?_, by simp [h2], ?_⟩
    · simp only [takeRows, codes, List.map_cons, hv, if_true, List.mapM_cons, hr1, bind, Except.bind] at h1 ⊢
      rw [h1]; rfl
    · intro t ht
      cases t with
      | zero => simp [hr2]
      | succ t => simpa using h3 t (by simpa using ht)

theorem rowsFollowLevels_of (cats data : List String) (M value : IMatrix)
    (hsub : ∀ v, v ∈ data → v ∈ cats) (hl : value.length = data.length)
    (h : ∀ t (ht : t < data.length), value[t]? = M[cats.idxOf data[t]]?) :
    rowsFollowLevels cats data M value = true := by
  simp only [rowsFollowLevels, hl, beq_self_eq_true, Bool.true_and]
  rw [allLt_iff]; intro t ht
  rw [List.getElem?_eq_getElem ht]
  simp [hsub _ (List.getElem_mem ht), h t ht]

/-! ### a contrast applied to a list of categories -/

/-- the index the option of a contrast resolves to (irrelevant for the full treatment coding) -/
def resolve (c : Contrast) (spans : Bool) (cats : List String) : Option Nat :=
  match c with
  | .treatment ref => if spans then some 0 else referenceIndex? ref cats
  | .sum om => omitIndex? om cats

def closedCode (c : Contrast) (spans : Bool) (cats : List String) (k : Nat) : ContrastMatrix :=
  match c, spans with
  | .treatment _, true => ⟨eye cats.length, cats⟩
  | .treatment _, false => ⟨reducedClosed cats.length k 0, cats.eraseIdx k⟩
  | .sum _, false => ⟨reducedClosed cats.length k (-1), cats.eraseIdx k⟩
  | .sum _, true => ⟨withConst (reducedClosed cats.length k (-1)), "mean" :: cats.eraseIdx k⟩

theorem code_ok {c : Contrast} {spans : Bool} {cats : List String} {k : Nat}
    (h : resolve c spans cats = some k) : c.code spans cats = .ok (closedCode c spans cats k) := by
  cases c with
  | treatment ref =>
    cases spans with
    | true => simp [Contrast.code, Contrast.codeWithIntercept, Treatment.codeWithIntercept, closedCode]
    | false =>
      simp only [resolve, Bool.false_eq_true, if_false] at h
      simp [Contrast.code, Contrast.codeWithoutIntercept, treatment_without_ok h, closedCode]
  | sum om =>
    simp only [resolve] at h
    cases spans with
    | true => simp [Contrast.code, Contrast.codeWithIntercept, sum_with_ok h, closedCode]
    | false => simp [Contrast.code, Contrast.codeWithoutIntercept, sum_without_ok h, closedCode]

theorem code_err {c : Contrast} {spans : Bool} {cats : List String}
    (h : resolve c spans cats = none) : ∃ e, c.code spans cats = .error e := by
  cases c with
  | treatment ref =>
    cases spans with
    | true => simp [resolve] at h
    | false =>
      simp only [resolve, Bool.false_eq_true, if_false] at h
      obtain ⟨e, he⟩ := treatment_without_err h
      exact ⟨e, by simp [Contrast.code, Contrast.codeWithoutIntercept, he]⟩
  | sum om =>
    simp only [resolve] at h
    cases spans with
    | true =>
      obtain ⟨e, he⟩ := sum_with_err h
      exact ⟨e, by simp [Contrast.code, Contrast.codeWithIntercept, he]⟩
    | false =>
      obtain ⟨e, he⟩ := sum_without_err h
      exact ⟨e, by simp [Contrast.code, Contrast.codeWithoutIntercept, he]⟩

theorem closedCode_rows {c : Contrast} {spans : Bool} {cats : List String} {k : Nat} :
    (closedCode c spans cats k).matrix.length = cats.length := by
  cases c <;> cases spans <;> simp [closedCode, eye, reducedClosed, withConst]

/-- the closed forms satisfy the specification of the coding (shape, rows, basis, labels) -/
theorem codingHolds_closed {c : Contrast} {spans : Bool} {cats : List String} {k : Nat}
    (hn : cats.Nodup) (h : resolve c spans cats = some k) :
    codingHolds c spans cats (closedCode c spans cats k).matrix (closedCode c spans cats k).labels
      = some true := by
  cases c with
  | treatment ref =>
    cases spans with
    | true =>
      simp [codingHolds, closedCode, treatmentFull, isIdentity_eye, indicatorOfLabel_full cats hn]
    | false =>
      simp only [resolve, Bool.false_eq_true, if_false] at h
      have hk := referenceIndex_lt h
      have he := entries_reducedClosed cats.length k 0
      simp [codingHolds, closedCode, h, treatmentReduced_of_entries he hk,
        treatmentBasis_of_entries he hk, indicatorOfLabel_reduced hn he hk]
  | sum om =>
    simp only [resolve] at h
    have hk := omitIndex_lt h
    have he := entries_reducedClosed cats.length k (-1)
    cases spans with
    | true =>
      simp [codingHolds, closedCode, h, sumFull_of_entries he hk, spansIndicators_of_entries he hk,
        plusOneAtLabel_full hn he hk]
    | false =>
      simp [codingHolds, closedCode, h, sumReduced_of_entries he hk, sumBasis_of_entries he hk,
        plusOneAtLabel_reduced hn he hk]

/-! ### evaluation -/

/-- What an evaluation returns, in terms of the categories and the contrast it uses. -/
def EvalResult (r : Except Err Evaluated) (c : Contrast) (spans : Bool) (cats data : List String) :
    Prop :=
  match resolve c spans cats with
  | some k => ∃ value, r = .ok ⟨cats, closedCode c spans cats k, value, spans⟩ ∧
      rowsFollowLevels cats data (closedCode c spans cats k).matrix value = true
  | none => ∃ e, r = .error e

def boxContrast (b : Box) : Contrast := match b.contrast with | none => .treatment none | some c => c
def boxCategories (b : Box) : List String :=
  match b.levels with | none => sortedSet b.data | some lv => lv

theorem evalBox_result (b : Box) (spans : Bool) (hn : (boxCategories b).Nodup)
    (hsub : ∀ v, v ∈ b.data → v ∈ boxCategories b) :
    EvalResult (evalCategoricalBox b spans) (boxContrast b) spans (boxCategories b) b.data := by
  unfold EvalResult
  have hcm : evalCategoricalBox b spans = (do
      let cm ← (boxContrast b).code spans (boxCategories b)
      let value ← takeRows cm.matrix (codes (boxCategories b) b.data)
      pure ⟨boxCategories b, cm, value, spans⟩) := by
    obtain ⟨data, contrast, levels⟩ := b
    cases levels <;> cases contrast <;>
      simp only [evalCategoricalBox, boxContrast, boxCategories, bind, Except.bind, pure,
        Except.pure] at hn ⊢ <;>
      rw [if_neg (by simpa using hn)]
  split
  · rename_i k hk
    obtain ⟨value, h1, h2, h3⟩ := takeRows_codes (closedCode (boxContrast b) spans (boxCategories b) k).matrix
      (boxCategories b) b.data closedCode_rows hsub
    refine ⟨value, ?_, rowsFollowLevels_of _ _ _ _ hsub h2 h3⟩
    rw [hcm, code_ok hk]
    simp [bind, Except.bind, h1, pure, Except.pure]
  · rename_i hk
    obtain ⟨e, he⟩ := code_err hk
    exact ⟨e, by rw [hcm, he]; rfl⟩

theorem evalCategoric_result (d : Data) (spans : Bool)
    (cats : List String) (hc : cats = match d.orderedCategories with | none => sortedSet d.values | some c => c)
    (hsub : ∀ v, v ∈ d.values → v ∈ cats) :
    EvalResult (evalCategoric d spans) (.treatment none) spans cats d.values := by
  unfold EvalResult
  have hcm : evalCategoric d spans = (do
      let cm ← (Contrast.treatment none).code spans cats
      let value ← takeRows cm.matrix (codes cats d.values)
      pure ⟨cats, cm, value, spans⟩) := by
    subst hc; rfl
  split
  · rename_i k hk
    obtain ⟨value, h1, h2, h3⟩ := takeRows_codes (closedCode (.treatment none) spans cats k).matrix
      cats d.values closedCode_rows hsub
    refine ⟨value, ?_, rowsFollowLevels_of _ _ _ _ hsub h2 h3⟩
    rw [hcm, code_ok hk]
    simp [bind, Except.bind, h1, pure, Except.pure]
  · rename_i hk
    obtain ⟨e, he⟩ := code_err hk
    exact ⟨e, by rw [hcm, he]; rfl⟩

theorem not_resolvable_of_subset {c : Contrast} {spans : Bool} {cats vals : List String}
    (hsub : ∀ v, v ∈ vals → v ∈ cats) (h : resolve c spans cats = none) :
    contrastResolvable c spans vals = false := by
  unfold contrastResolvable
  have hempty : cats.isEmpty = true → vals.isEmpty = true := by
    intro he
    cases vals with
    | nil => rfl
    | cons a l => have := hsub a (by simp); simp at he; subst he; simp at this
  cases c with
  | treatment ref =>
    cases spans with
    | true => simp [resolve] at h
    | false =>
      simp only [resolve, Bool.false_eq_true, if_false] at h
      cases ref with
      | none =>
        simp only [referenceIndex?] at h ⊢
        split at h
        · rename_i he; simp [hempty he]
        · simp at h
      | some x =>
        simp only [referenceIndex?] at h ⊢
        split at h
        · simp at h
        · rename_i hx
          have : ¬ x ∈ vals := fun hv => hx (by simpa using hsub x hv)
          simp [this]
  | sum om =>
    simp only [resolve] at h
    cases om with
    | none =>
      simp only [omitIndex?] at h ⊢
      split at h
      · rename_i he; simp [hempty he]
      · simp at h
    | some x =>
      simp only [omitIndex?] at h ⊢
      split at h
      · simp at h
      · rename_i hx
        have : ¬ x ∈ vals := fun hv => hx (by simpa using hsub x hv)
        simp [this]

theorem outcome_of_result {d : Data} {sp : Spelling} {spans : Bool} {cats : List String}
    {r : Except Err Evaluated} (hn : cats.Nodup) (hsub : ∀ v, v ∈ d.values → v ∈ cats)
    (hlv : levelsOK d (meaning sp).2 cats = true)
    (hr : EvalResult r (meaning sp).1 spans cats d.values) :
    outcomeHolds d sp spans r.toOption = true := by
  unfold EvalResult at hr
  split at hr
  · rename_i k hk
    obtain ⟨value, rfl, hrows⟩ := hr
    have hcode := codingHolds_closed hn hk
    simp only [Except.toOption, outcomeHolds, designHolds, beq_self_eq_true, Bool.true_and]
    rw [hcode]
    simp [hlv, hrows]
  · rename_i hk
    obtain ⟨e, rfl⟩ := hr
    simp only [Except.toOption, outcomeHolds, optionResolvable]
    rw [not_resolvable_of_subset hsub hk]; rfl

/-! ### `CategoricalBox`, `C`, `T`, `S` -/

def effLevels (d : Data) (lv : Option (List String)) : Option (List String) :=
  match d.orderedCategories, lv with
  | some cats, none => some cats
  | _, l => l

def instArg : ContrastArg → Option Contrast
  | .none => none
  | .cls c => some c.instantiate
  | .inst c => some c

theorem mkBox_ok (d : Data) (ca : ContrastArg) (lv : Option (List String))
    (h : ∀ l, effLevels d lv = some l → sameSet l d.values = true) :
    mkBox d ca lv = .ok ⟨d.values, instArg ca, effLevels d lv⟩ := by
  obtain ⟨vals, ord⟩ := d
  cases ord <;> cases lv <;> cases ca <;>
    simp_all [mkBox, effLevels, instArg, bind, Except.bind, pure, Except.pure]

theorem boxContrast_instArg (data : List String) (ca : ContrastArg) (lv : Option (List String)) :
    boxContrast ⟨data, instArg ca, lv⟩ = meaning.argContrast ca (.treatment none) := by
  cases ca with
  | none => rfl
  | cls c => cases c <;> rfl
  | inst c => rfl

theorem cats_facts (d : Data) (lvs : Option (List String))
    (h : ∀ l, lvs = some l → arrangement d l = true) :
    (boxCategories ⟨d.values, none, lvs⟩).Nodup ∧
      ∀ v, v ∈ d.values → v ∈ boxCategories ⟨d.values, none, lvs⟩ := by
  cases lvs with
  | none =>
    simp only [boxCategories]
    exact ⟨nodup_of_strictlySorted _ (strictlySorted_sortedSet _), fun v hv => (mem_sortedSet v _).mpr hv⟩
  | some l =>
    have := h l rfl
    simp only [arrangement, Bool.and_eq_true, decide_eq_true_eq] at this
    simp only [boxCategories]
    exact ⟨this.1, fun v hv => ((sameSet_iff _ _).mp this.2 v).mpr hv⟩

theorem boxCategories_congr (data : List String) (c c' : Option Contrast) (lvs : Option (List String)) :
    boxCategories ⟨data, c, lvs⟩ = boxCategories ⟨data, c', lvs⟩ := rfl

theorem outcome_of_box {d : Data} {sp : Spelling} {spans : Bool} (b : Box) (hd : b.data = d.values)
    (hc : boxContrast b = (meaning sp).1) (hn : (boxCategories b).Nodup)
    (hsub : ∀ v, v ∈ d.values → v ∈ boxCategories b)
    (hlv : levelsOK d (meaning sp).2 (boxCategories b) = true) :
    outcomeHolds d sp spans (evalCategoricalBox b spans).toOption = true := by
  refine outcome_of_result hn hsub hlv ?_
  rw [← hc, ← hd]
  exact evalBox_result b spans hn (by rw [hd]; exact hsub)

theorem levelsOK_sorted (d : Data) (h : d.orderedCategories = none) :
    levelsOK d none (sortedSet d.values) = true := by
  simp only [levelsOK, h, Bool.and_eq_true, strictlySorted_sortedSet, true_and]
  exact (sameSet_iff _ _).mpr (fun x => mem_sortedSet x _)

/-- outcome of `C(data, ca, lv)`, `T`, `S` on a column, for any spelling with that meaning -/
theorem outcome_mkBox {d : Data} {sp : Spelling} {spans : Bool} (ca : ContrastArg)
    (lv : Option (List String))
    (hm : meaning sp = (meaning.argContrast ca (.treatment none), lv))
    (h1 : ∀ l, lv = some l → arrangement d l = true)
    (h2 : ∀ cats, lv = none → d.orderedCategories = some cats → arrangement d cats = true) :
    outcomeHolds d sp spans
      ((do evalCategoricalBox (← mkBox d ca lv) spans : Except Err Evaluated)).toOption = true := by
  have harr : ∀ l, effLevels d lv = some l → arrangement d l = true := by
    intro l hl
    obtain ⟨vals, ord⟩ := d
    cases ord <;> cases lv <;> simp_all [effLevels]
  have hbox := mkBox_ok d ca lv (fun l hl => by
    have := harr l hl; simp only [arrangement, Bool.and_eq_true] at this; exact this.2)
  simp only [hbox, bind, Except.bind]
  obtain ⟨hn, hsub⟩ := cats_facts d (effLevels d lv) harr
  refine outcome_of_box _ rfl ?_ hn hsub ?_
  · rw [boxContrast_instArg, hm]
  · rw [hm]
    show levelsOK d lv (boxCategories ⟨d.values, _, effLevels d lv⟩) = true
    obtain ⟨vals, ord⟩ := d
    cases ord <;> cases lv <;> simp [effLevels, boxCategories, levelsOK]
    exact levelsOK_sorted ⟨vals, none⟩ rfl |> fun h => by simpa [levelsOK] using h

/-! ### every spelling, evaluated, is what it asks for -/

theorem design_plain (d : Data) (spans : Bool) (hs : inScope d .plain = true) :
    outcomeHolds d .plain spans (evalSpelling d .plain spans).toOption = true := by
  obtain ⟨vals, ord⟩ := d
  cases ord with
  | none =>
    refine outcome_of_result (cats := sortedSet vals)
      (nodup_of_strictlySorted _ (strictlySorted_sortedSet _))
      (fun v hv => (mem_sortedSet v _).mpr hv) (levelsOK_sorted ⟨vals, none⟩ rfl) ?_
    exact evalCategoric_result ⟨vals, none⟩ spans _ rfl (fun v hv => (mem_sortedSet v _).mpr hv)
  | some cats =>
    simp [inScope, explicitLevels] at hs
    refine outcome_of_result (cats := cats) hs.1 hs.2 (by simp [meaning, levelsOK]) ?_
    exact evalCategoric_result ⟨vals, some cats⟩ spans _ rfl hs.2

theorem design_c (d : Data) (ca : ContrastArg) (lv : Option (List String)) (spans : Bool)
    (hs : inScope d (.c ca lv) = true) :
    outcomeHolds d (.c ca lv) spans (evalSpelling d (.c ca lv) spans).toOption = true := by
  refine outcome_mkBox (sp := .c ca lv) ca lv rfl ?_ ?_
  · intro l hl; subst hl; simp [inScope, explicitLevels] at hs; exact hs.1
  · intro cats hl hc; subst hl; simp [inScope, explicitLevels, innerLevels, hc] at hs; exact hs

theorem design_t (d : Data) (ref : Option String) (lv : Option (List String)) (spans : Bool)
    (hs : inScope d (.t ref lv) = true) :
    outcomeHolds d (.t ref lv) spans (evalSpelling d (.t ref lv) spans).toOption = true := by
  refine outcome_mkBox (sp := .t ref lv) (.inst (.treatment ref)) lv rfl ?_ ?_
  · intro l hl; subst hl; simp [inScope, explicitLevels] at hs; exact hs.1
  · intro cats hl hc; subst hl; simp [inScope, explicitLevels, innerLevels, hc] at hs; exact hs

theorem design_s (d : Data) (om : Option String) (lv : Option (List String)) (spans : Bool)
    (hs : inScope d (.s om lv) = true) :
    outcomeHolds d (.s om lv) spans (evalSpelling d (.s om lv) spans).toOption = true := by
  refine outcome_mkBox (sp := .s om lv) (.inst (.sum om)) lv rfl ?_ ?_
  · intro l hl; subst hl; simp [inScope, explicitLevels] at hs; exact hs.1
  · intro cats hl hc; subst hl; simp [inScope, explicitLevels, innerLevels, hc] at hs; exact hs

/-- the `contrast` / `levels` an outer `C(box, c2, l2)` passes on to `CategoricalBox` -/
def outerArg (inner : Option Contrast) (c2 : ContrastArg) : ContrastArg :=
  match c2 with
  | .none => (match inner with | some c => ContrastArg.inst c | none => ContrastArg.none)
  | c => c

def outerLevels (inner l2 : Option (List String)) : Option (List String) :=
  match l2 with | none => inner | lv => lv

theorem C_box (b : Box) (c2 : ContrastArg) (l2 : Option (List String)) :
    C (.box b) c2 l2 = mkBox ⟨b.data, none⟩ (outerArg b.contrast c2)
      (outerLevels b.levels l2) := by
  cases c2 <;> cases l2 <;> rfl

theorem argContrast_outer (c1 c2 : ContrastArg) :
    meaning.argContrast (outerArg (instArg c1) c2) (.treatment none)
      = meaning.argContrast c2 (meaning.argContrast c1 (.treatment none)) := by
  cases c2 with
  | none =>
    cases c1 with
    | none => rfl
    | cls c => cases c <;> rfl
    | inst c => rfl
  | cls c => cases c <;> rfl
  | inst c => rfl

theorem design_cc (d : Data) (c1 : ContrastArg) (l1 : Option (List String)) (c2 : ContrastArg)
    (l2 : Option (List String)) (spans : Bool) (hs : inScope d (.cc c1 l1 c2 l2) = true) :
    outcomeHolds d (.cc c1 l1 c2 l2) spans (evalSpelling d (.cc c1 l1 c2 l2) spans).toOption
      = true := by
  -- the inner box
  have h1 : ∀ l, l1 = some l → arrangement d l = true := by
    intro l hl; subst hl; simp [inScope, explicitLevels] at hs; exact hs.1.1
  have h2 : ∀ l, l2 = some l → arrangement d l = true := by
    intro l hl; subst hl
    cases l1 <;> simp [inScope, explicitLevels] at hs
    · exact hs.1
    · exact hs.1.2
  have h3 : ∀ cats, l1 = none → d.orderedCategories = some cats →
      arrangement d cats = true := by
    intro cats hl1 hc; subst hl1
    simp [inScope, explicitLevels, innerLevels, hc] at hs; exact hs.2
  have harr1 : ∀ l, effLevels d l1 = some l → arrangement d l = true := by
    intro l hl
    obtain ⟨vals, ord⟩ := d
    cases ord <;> cases l1 <;> cases l2 <;> simp_all [effLevels]
  have hinner := mkBox_ok d c1 l1 (fun l hl => by
    have := harr1 l hl; simp only [arrangement, Bool.and_eq_true] at this; exact this.2)
  -- the outer box
  generalize hlv' : outerLevels (effLevels d l1) l2 = lv'
  have harr2 : ∀ l, lv' = some l → arrangement d l = true := by
    intro l hl
    subst hlv'
    cases l2 with
    | none => exact harr1 l hl
    | some l2' => simp [outerLevels] at hl; subst hl; exact h2 _ rfl
  have houter : mkBox ⟨d.values, none⟩ (outerArg (instArg c1) c2) lv'
      = .ok ⟨d.values, instArg (outerArg (instArg c1) c2), lv'⟩ := by
    have := mkBox_ok ⟨d.values, none⟩ (outerArg (instArg c1) c2) lv' (fun l hl => by
      have hl' : lv' = some l := by simpa [effLevels] using hl
      have := harr2 l hl'; simp only [arrangement, Bool.and_eq_true] at this; exact this.2)
    simpa [effLevels] using this
  have hev : evalSpelling d (.cc c1 l1 c2 l2) spans
      = evalCategoricalBox ⟨d.values, instArg (outerArg (instArg c1) c2), lv'⟩ spans := by
    have hC : C (.data d) c1 l1 = mkBox d c1 l1 := rfl
    simp only [evalSpelling, bind, Except.bind, hC, hinner]
    rw [C_box]
    simp only [hlv', houter]
  rw [hev]
  obtain ⟨hn, hsub⟩ := cats_facts d lv' harr2
  refine outcome_of_box _ rfl ?_ hn hsub ?_
  · rw [boxContrast_instArg, argContrast_outer]; rfl
  · show levelsOK d (l2.orElse fun _ => l1) (boxCategories ⟨d.values, _, lv'⟩) = true
    obtain ⟨vals, ord⟩ := d
    subst hlv'
    cases ord <;> cases l1 <;> cases l2 <;> simp [outerLevels, effLevels, boxCategories, levelsOK]
    exact levelsOK_sorted ⟨vals, none⟩ rfl |> fun h => by simpa [levelsOK] using h

/-- `T(C(…), ref)` / `S(C(…), omit)` always raise (the inner call's error, or `AttributeError`) -/
theorem alias_on_box_refused (d : Data) (sp : Spelling) (spans : Bool) (h : aliasOnBox sp = true) :
    ∃ e, evalSpelling d sp spans = .error e := by
  cases sp <;> simp [aliasOnBox] at h
  · rename_i c1 l1 ref
    simp only [evalSpelling, bind, Except.bind]
    cases C (.data d) c1 l1 with
    | error e => exact ⟨e, rfl⟩
    | ok b => exact ⟨.boxHasNoDtype, rfl⟩
  · rename_i c1 l1 om
    simp only [evalSpelling, bind, Except.bind]
    cases C (.data d) c1 l1 with
    | error e => exact ⟨e, rfl⟩
    | ok b => exact ⟨.boxHasNoDtype, rfl⟩

/-- The specification holds of the model on every spelling in scope outside the class of the
known finding. -/
theorem design_holds (d : Data) (sp : Spelling) (spans : Bool) (hs : inScope d sp = true)
    (hg : aliasOnBox sp = false) :
    outcomeHolds d sp spans (evalSpelling d sp spans).toOption = true := by
  cases sp with
  | plain => exact design_plain d spans hs
  | c ca lv => exact design_c d ca lv spans hs
  | t ref lv => exact design_t d ref lv spans hs
  | s om lv => exact design_s d om lv spans hs
  | cc c1 l1 c2 l2 => exact design_cc d c1 l1 c2 l2 spans hs
  | tc _ _ _ => simp [aliasOnBox] at hg
  | sc _ _ _ => simp [aliasOnBox] at hg

/-- a plain (not ordered) column evaluates like `C(column)` -/
theorem variable_eq_C (d : Data) (spans : Bool) (h : d.orderedCategories = none) :
    evalSpelling d .plain spans = evalSpelling d (.c .none none) spans := by
  obtain ⟨vals, ord⟩ := d
  subst h
  have hn : (sortedSet vals).Nodup := nodup_of_strictlySorted _ (strictlySorted_sortedSet _)
  simp only [evalSpelling, C, mkBox, evalCategoric, evalCategoricalBox, bind, Except.bind, pure,
    Except.pure]
  rw [if_neg (by simpa using hn)]

/-- `C(x)` (no contrast) evaluates like `T(x)` -/
theorem C_default_eq_T (d : Data) (lv : Option (List String)) (spans : Bool) :
    evalSpelling d (.c .none lv) spans = evalSpelling d (.t none lv) spans := by
  obtain ⟨vals, ord⟩ := d
  simp only [evalSpelling, C, T, mkBox, bind, Except.bind, pure, Except.pure]
  cases ord <;> cases lv <;> simp only [] <;>
    (try (rename_i l; by_cases hss : sameSet l vals = true)) <;>
    simp_all [throw, throwThe, MonadExceptOf.throw, evalCategoricalBox]

/-! ### rational sums: a two-sided inverse makes the columns a basis -/

theorem sumToQ_congr {n : Nat} {f g : Nat → Rat} (h : ∀ i, i < n → f i = g i) :
    sumToQ n f = sumToQ n g := by
  induction n with
  | zero => rfl
  | succ n ih => simp only [sumToQ]; rw [ih (fun i hi => h i (by omega)), h n (by omega)]

theorem sumToQ_zero (n : Nat) : sumToQ n (fun _ => 0) = 0 := by
  induction n with
  | zero => rfl
  | succ n ih => simp only [sumToQ, ih]; grind

theorem sumToQ_add (n : Nat) (f g : Nat → Rat) :
    sumToQ n (fun i => f i + g i) = sumToQ n f + sumToQ n g := by
  induction n with
  | zero => simp only [sumToQ]; grind
  | succ n ih => simp only [sumToQ, ih]; grind

theorem sumToQ_mul_left (n : Nat) (c : Rat) (f : Nat → Rat) :
    sumToQ n (fun i => c * f i) = c * sumToQ n f := by
  induction n with
  | zero => simp [sumToQ]
  | succ n ih => simp only [sumToQ, ih]; grind

theorem sumToQ_mul_right (n : Nat) (c : Rat) (f : Nat → Rat) :
    sumToQ n (fun i => f i * c) = sumToQ n f * c := by
  induction n with
  | zero => simp [sumToQ]
  | succ n ih => simp only [sumToQ, ih]; grind

theorem sumToQ_comm (n m : Nat) (F : Nat → Nat → Rat) :
    sumToQ n (fun i => sumToQ m (fun j => F i j)) = sumToQ m (fun j => sumToQ n (fun i => F i j)) := by
  induction n with
  | zero => simp [sumToQ, sumToQ_zero]
  | succ n ih => simp only [sumToQ, ih, sumToQ_add]

theorem sumToQ_ite_eq (n a : Nat) (g : Nat → Rat) :
    sumToQ n (fun m => if m = a then g m else 0) = if a < n then g a else 0 := by
  induction n with
  | zero => simp [sumToQ]
  | succ n ih =>
    simp only [sumToQ, ih]
    by_cases h1 : a < n
    · have : ¬ n = a := by omega
      have h3 : a < n + 1 := by omega
      simp only [h1, this, h3, if_true, if_false]; grind
    · by_cases h2 : n = a
      · subst h2; simp only [h1, if_true, if_false, Nat.lt_add_one]; grind
      · have : ¬ a < n + 1 := by omega
        simp only [h1, h2, this, if_false]; grind

theorem sumToQ_cast (n : Nat) (f : Nat → Int) :
    ((sumTo n f : Int) : Rat) = sumToQ n (fun i => (f i : Rat)) := by
  induction n with
  | zero => simp [sumTo, sumToQ]
  | succ n ih => simp only [sumTo, sumToQ, ← ih]; simp [Rat.intCast_add]

/-- `(P · Q) v = P (Q v)` -/
theorem mulVec_assoc (n : Nat) (P Q : Nat → Nat → Rat) (v : Nat → Rat) (i : Nat) :
    sumToQ n (fun k => sumToQ n (fun c => P i c * Q c k) * v k)
      = sumToQ n (fun c => P i c * sumToQ n (fun k => Q c k * v k)) := by
  have h1 : ∀ k, sumToQ n (fun c => P i c * Q c k) * v k = sumToQ n (fun c => P i c * Q c k * v k) :=
    fun k => (sumToQ_mul_right n (v k) _).symm
  have h2 : ∀ c, P i c * sumToQ n (fun k => Q c k * v k) = sumToQ n (fun k => P i c * (Q c k * v k)) :=
    fun c => (sumToQ_mul_left n (P i c) _).symm
  simp only [h1, h2]
  rw [sumToQ_comm]
  apply sumToQ_congr; intro c _; apply sumToQ_congr; intro k _; grind

/-- If `A · B = s · I` with `s ≠ 0`, the columns of `B` are linearly independent over ℚ. -/
theorem independent_of_left_inverse {n : Nat} {s : Int} (hs : s ≠ 0) {A B : IMatrix}
    (hAB : ∀ i k, i < n → k < n → mulEnt A B n i k = if i = k then s else 0)
    (v : Nat → Rat) (hv : ∀ i, i < n → sumToQ n (fun c => (ent B i c : Rat) * v c) = 0) :
    ∀ c, c < n → v c = 0 := by
  intro c hc
  have h1 : sumToQ n (fun k => sumToQ n (fun m => (ent A c m : Rat) * (ent B m k : Rat)) * v k)
      = (s : Rat) * v c := by
    rw [sumToQ_congr (g := fun k => if k = c then (s : Rat) * v k else 0)]
    · rw [sumToQ_ite_eq]; simp [hc]
    · intro k hk
      have := hAB c k hc hk
      unfold mulEnt at this
      have h2 := congrArg (fun z : Int => (z : Rat)) this
      simp only [sumToQ_cast, Rat.intCast_mul] at h2
      rw [h2]
      by_cases hck : c = k
      · subst hck; simp
      · have : ¬ k = c := fun h => hck h.symm
        simp [hck, this]
  rw [mulVec_assoc n (fun i c => (ent A i c : Rat)) (fun c k => (ent B c k : Rat)) v c] at h1
  rw [sumToQ_congr (g := fun _ => 0) (fun m hm => by rw [hv m hm]; simp), sumToQ_zero] at h1
  have hs' : (s : Rat) ≠ 0 := by exact_mod_cast hs
  have := h1.symm
  rcases Rat.mul_eq_zero.mp this with h | h
  · exact absurd h hs'
  · exact h

/-- If `B · A = s · I` with `s ≠ 0`, every function of the level is a combination of the columns
of `B`: with `β = (1/s) A f`, `B β = f`. -/
theorem spanning_of_right_inverse {n : Nat} {s : Int} (hs : s ≠ 0) {A B : IMatrix}
    (hBA : ∀ i k, i < n → k < n → mulEnt B A n i k = if i = k then s else 0)
    (f : Nat → Rat) :
    ∀ i, i < n → sumToQ n (fun c => (ent B i c : Rat) *
        (sumToQ n (fun k => (ent A c k : Rat) * f k) / s)) = f i := by
  intro i hi
  have hs' : (s : Rat) ≠ 0 := by exact_mod_cast hs
  have h1 : sumToQ n (fun k => sumToQ n (fun c => (ent B i c : Rat) * (ent A c k : Rat)) * f k)
      = (s : Rat) * f i := by
    rw [sumToQ_congr (g := fun k => if k = i then (s : Rat) * f k else 0)]
    · rw [sumToQ_ite_eq]; simp [hi]
    · intro k hk
      have := hBA i k hi hk
      unfold mulEnt at this
      have h2 := congrArg (fun z : Int => (z : Rat)) this
      simp only [sumToQ_cast, Rat.intCast_mul] at h2
      rw [h2]
      by_cases hck : i = k
      · subst hck; simp
      · have : ¬ k = i := fun h => hck h.symm
        simp [hck, this]
  rw [mulVec_assoc n (fun i c => (ent B i c : Rat)) (fun c k => (ent A c k : Rat)) f i] at h1
  rw [sumToQ_congr (g := fun c => (ent B i c : Rat) * sumToQ n (fun k => (ent A c k : Rat) * f k) * (1 / (s : Rat)))]
  · rw [sumToQ_mul_right, h1]
    grind
  · intro c _; grind

end FormulaeModel.Proofs.Coding
