import FormulaeModel.Proofs.ShapeDesign
import FormulaeModel.Driver.C04
set_option linter.unusedSimpArgs false
set_option linter.unusedVariables false
/-
Shape lemmas (C04 / C17), part 5: the stacked containers (`CommonEffectsMatrix`,
`GroupEffectsMatrix`) built from what `designMatrices` returns.
-/
namespace FormulaeModel.Design
open FormulaeModel

theorem hasWidth_ncols (m : Matrix) (w : Nat) (h : HasWidth m w) : HasWidth m m.ncols := by
  cases m with
  | nil => intro r hr; simp at hr
  | cons r0 m =>
    intro r hr
    rw [h r hr]
    simp [Matrix.ncols, h r0 (by simp)]

theorem hstack_mem (m : Matrix) (ms : List Matrix) (n : Nat) (r : List Entry)
    (h : r ∈ hstack (m :: ms) n) : ∃ a ∈ m, ∃ b ∈ hstack ms n, r = a ++ b := by
  simp only [hstack] at h
  rw [List.mem_iff_getElem] at h
  obtain ⟨i, hi, rfl⟩ := h
  simp only [List.length_zipWith] at hi
  exact ⟨m[i]'(by omega), List.getElem_mem _, (hstack ms n)[i]'(by omega), List.getElem_mem _, by simp⟩

/-- a stacked matrix whose blocks all carry labels: every row has exactly one entry per label -/
theorem stack_labels_width (n : Nat) (parts : List (String × Matrix × Option (List String)))
    (h : ∀ p ∈ parts, ∀ ls, p.2.2 = some ls → HasWidth p.2.1 ls.length) (ls : List String)
    (hl : (stack n parts).labels = some ls) : ∀ r ∈ (stack n parts).matrix, r.length = ls.length := by
  simp only [stack, Option.map_eq_some_iff] at hl ⊢
  obtain ⟨lss, hlss, rfl⟩ := hl
  induction parts generalizing lss with
  | nil =>
    simp only [List.mapM_nil, Option.pure_def, Option.some.injEq] at hlss
    subst hlss
    intro r hr
    simp only [List.map_nil, hstack, List.mem_replicate] at hr
    simp [hr.2]
  | cons p parts ih =>
    rw [option_mapM_cons] at hlss
    obtain ⟨l, lss', hp, hps, rfl⟩ := hlss
    intro r hr
    simp only [List.map_cons] at hr
    obtain ⟨a, ha, b, hb, rfl⟩ := hstack_mem _ _ _ _ hr
    have h1 := h p (by simp) l hp a ha
    have h2 := ih (fun p' hp' => h p' (by simp [hp'])) lss' hps b hb
    simp [h1, h2]

end FormulaeModel.Design

namespace FormulaeModel.Pipeline
open FormulaeModel FormulaeModel.Design

/-- what the observer of a design looks at (`Driver.C04.Trained`) -/
def Built.trained (b : Built) : Driver.C04.Trained := ⟨b.response, b.common, b.group⟩

/-- the blocks `CommonEffectsMatrix` stacks: the Intercept is a column of ones -/
def Built.commonParts (b : Built) : List (String × Matrix × Option (List String)) :=
  b.common.map (fun p =>
    match p.2 with
    | none => Driver.C04.interceptPart b.frame.nrows
    | some o => (p.1, o.data, o.labels))

/-- the blocks `GroupEffectsMatrix` stacks -/
def Built.groupParts (b : Built) : List (String × Matrix × Option (List String)) :=
  b.group.map (fun g => (g.st.name, g.data, g.labels))

theorem Built.commonStack_eq (b : Built) :
    Driver.C04.commonStack b.frame.nrows b.trained = stack b.frame.nrows b.commonParts := rfl

theorem Built.groupStack_eq (b : Built) :
    Driver.C04.groupStack b.frame.nrows b.trained = stack b.frame.nrows b.groupParts := rfl

/-- every block of the common part: rows, a uniform width, one entry per label -/
theorem Built.commonParts_shape (b : Built) (hs : b.Shaped) :
    b.commonParts.map (·.1) = b.common.map (·.1) ∧
    ∀ p ∈ b.commonParts, p.2.1.length = b.frame.nrows ∧ (∃ w, HasWidth p.2.1 w) ∧
      ∀ ls, p.2.2 = some ls → HasWidth p.2.1 ls.length := by
  constructor
  · simp only [Built.commonParts, List.map_map]
    apply List.map_congr_left
    intro p hp
    simp only [Function.comp]
    cases hp2 : p.2 with
    | none => simp [Driver.C04.interceptPart, (hs.common p hp).1 hp2]
    | some o => rfl
  · intro q hq
    simp only [Built.commonParts, List.mem_map] at hq
    obtain ⟨p, hp, rfl⟩ := hq
    cases hp2 : p.2 with
    | none =>
      simp only [Driver.C04.interceptPart]
      refine ⟨by simp [onesCol], ⟨1, hasWidth_onesCol _⟩, ?_⟩
      intro ls hls
      cases hls
      exact hasWidth_onesCol _
    | some o =>
      obtain ⟨k, hk, ho⟩ := (hs.common p hp).2 o hp2
      exact ⟨ho.rows hk, ho.uniform, fun ls hls => (ho.cols ls hls).1⟩

theorem Built.groupParts_shape (b : Built) (hs : b.Shaped) (hne : b.termsNonempty = true) :
    b.groupParts.map (·.1) = b.group.map (·.st.name) ∧
    ∀ p ∈ b.groupParts, p.2.1.length = b.frame.nrows ∧ (∃ w, HasWidth p.2.1 w) ∧
      ∀ ls, p.2.2 = some ls → HasWidth p.2.1 ls.length := by
  constructor
  · simp [Built.groupParts, List.map_map, Function.comp_def]
  · intro q hq
    simp only [Built.groupParts, List.mem_map] at hq
    obtain ⟨g, hg, rfl⟩ := hq
    obtain ⟨ne, hgs⟩ := hs.group g hg
    simp only [Built.termsNonempty, Bool.and_eq_true, List.all_eq_true] at hne
    have hne' := hne.2 g hg
    rw [hgs.nonempty] at hne'
    exact ⟨hgs.rows hne', hgs.uniform, fun ls hls => (hgs.cols ls hls).1⟩

end FormulaeModel.Pipeline
