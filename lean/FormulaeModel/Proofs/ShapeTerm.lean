import FormulaeModel.Proofs.ShapeComp
set_option linter.unusedSimpArgs false
set_option linter.unusedVariables false
/-
Shape lemmas (C04 / C17), part 3: terms and group-specific terms, at training time and on new
data.
-/
namespace FormulaeModel.Design
open FormulaeModel

/-! ### products of widths -/

/-- the number of columns of an interaction: the product of its components' numbers of columns
(mirrors `reduceLabels` / `reduceMatrices`: nothing for no component) -/
def reduceWidths : List Nat → Nat
  | [] => 0
  | w :: ws => ws.foldl (· * ·) w

theorem interactionMatrix_width (x y : Matrix) (a b : Nat) (hx : HasWidth x a) (hy : HasWidth y b) :
    HasWidth (interactionMatrix x y) (a * b) := by
  intro r hr
  rw [List.mem_iff_getElem] at hr
  obtain ⟨i, hi, rfl⟩ := hr
  have hi' : i < min x.length y.length := by simpa [interactionMatrix] using hi
  rw [interactionMatrix_row x y i (by omega) (by omega), length_rowProd,
    hx _ (List.getElem_mem _), hy _ (List.getElem_mem _)]

theorem interactionLabels_length (x y : List String) :
    (interactionLabels x y).length = x.length * y.length := by
  rw [interactionLabels_eq, length_labelProd]

theorem foldl_labels_length (ls : List (List String)) (acc : List String) :
    (ls.foldl interactionLabels acc).length = (ls.map List.length).foldl (· * ·) acc.length := by
  induction ls generalizing acc with
  | nil => rfl
  | cons l ls ih =>
    simp only [List.foldl_cons, List.map_cons]
    rw [ih, interactionLabels_length]

theorem reduceLabels_length (ls : List (List String)) :
    (reduceLabels ls).length = reduceWidths (ls.map List.length) := by
  cases ls with
  | nil => rfl
  | cons l ls => exact foldl_labels_length ls l

/-- folding the interaction product over blocks of known widths -/
theorem foldl_interaction_shape {γ : Type} (val : γ → Matrix) (wd : γ → Nat) (n : Nat) (os : List γ)
    (h : ∀ o ∈ os, (val o).length = n ∧ HasWidth (val o) (wd o)) (acc : Matrix) (accw : Nat)
    (hl : acc.length = n) (hacc : HasWidth acc accw) :
    ((os.map val).foldl interactionMatrix acc).length = n ∧
      HasWidth ((os.map val).foldl interactionMatrix acc) ((os.map wd).foldl (· * ·) accw) := by
  induction os generalizing acc accw with
  | nil => exact ⟨hl, hacc⟩
  | cons o os ih =>
    simp only [List.map_cons, List.foldl_cons]
    obtain ⟨h1, h2⟩ := h o (by simp)
    apply ih (fun o' ho' => h o' (by simp [ho']))
    · rw [interactionMatrix_length, hl, h1]; simp
    · exact interactionMatrix_width _ _ _ _ hacc h2

theorem reduceMatrices_shape {γ : Type} (val : γ → Matrix) (wd : γ → Nat) (n : Nat) (os : List γ)
    (h : ∀ o ∈ os, (val o).length = n ∧ HasWidth (val o) (wd o)) :
    (os ≠ [] → (reduceMatrices (os.map val)).length = n) ∧
      HasWidth (reduceMatrices (os.map val)) (reduceWidths (os.map wd)) := by
  cases os with
  | nil => exact ⟨fun h => absurd rfl h, fun r hr => by simp [reduceMatrices] at hr⟩
  | cons o os =>
    obtain ⟨h1, h2⟩ := h o (by simp)
    have := foldl_interaction_shape val wd n os (fun o' ho' => h o' (by simp [ho'])) (val o) (wd o) h1 h2
    exact ⟨fun _ => this.1, this.2⟩

theorem foldl_interaction_uniform (ms : List Matrix) (h : ∀ m ∈ ms, ∃ w, HasWidth m w) (acc : Matrix)
    (hacc : ∃ w, HasWidth acc w) : ∃ w, HasWidth (ms.foldl interactionMatrix acc) w := by
  induction ms generalizing acc with
  | nil => exact hacc
  | cons m ms ih =>
    obtain ⟨a, ha⟩ := hacc
    obtain ⟨b, hb⟩ := h m (by simp)
    exact ih (fun m' hm' => h m' (by simp [hm'])) _ ⟨a * b, interactionMatrix_width _ _ _ _ ha hb⟩

theorem reduceMatrices_someWidth (ms : List Matrix) (h : ∀ m ∈ ms, ∃ w, HasWidth m w) :
    ∃ w, HasWidth (reduceMatrices ms) w := by
  cases ms with
  | nil => exact ⟨0, fun r hr => by simp [reduceMatrices] at hr⟩
  | cons m ms =>
    exact foldl_interaction_uniform ms (fun m' hm' => h m' (by simp [hm'])) m (h m (by simp))

/-! ### `Option` traversals -/

theorem option_mapM_cons {α β : Type} (f : α → Option β) (x : α) (xs : List α) (ys : List β) :
    (x :: xs).mapM f = some ys ↔ ∃ y ys', f x = some y ∧ xs.mapM f = some ys' ∧ ys = y :: ys' := by
  rw [List.mapM_cons]
  cases hfx : f x with
  | none => simp
  | some y =>
    cases hxs : xs.mapM f with
    | none => simp
    | some ys' =>
      simp only [Option.pure_def, Option.bind_eq_bind, Option.bind_some, Option.some.injEq]
      constructor
      · intro h; exact ⟨y, ys', rfl, rfl, h.symm⟩
      · rintro ⟨y', ys'', h1, h2, h3⟩; cases h1; cases h2; exact h3.symm

/-- if every element has a value, and the value's `g` is the element's `k`, the traversal maps
`g` to `k` -/
theorem option_mapM_map {α β δ : Type} (f : α → Option β) (g : β → δ) (k : α → δ) (xs : List α)
    (ys : List β) (h : xs.mapM f = some ys) (hstep : ∀ x ∈ xs, ∀ y, f x = some y → g y = k x) :
    ys.map g = xs.map k ∧ ∀ x ∈ xs, ∃ y, f x = some y := by
  induction xs generalizing ys with
  | nil =>
    simp only [List.mapM_nil, Option.pure_def, Option.some.injEq] at h
    subst h
    simp
  | cons x xs ih =>
    rw [option_mapM_cons] at h
    obtain ⟨y, ys', h1, h2, rfl⟩ := h
    obtain ⟨a, b⟩ := ih ys' h2 (fun x' hx' => hstep x' (by simp [hx']))
    refine ⟨by simp [a, hstep x (by simp) y h1], ?_⟩
    intro x' hx'
    simp only [List.mem_cons] at hx'
    rcases hx' with rfl | hx'
    · exact ⟨y, h1⟩
    · exact b x' hx'

/-! ### terms -/

/-- the number of columns of a trained term -/
def TermState.width (t : TermState) : Nat := reduceWidths (t.comps.map CompState.width)

/-- the shape facts about what `trainTerm` returns -/
structure TermOut.Shaped (n : Nat) (ncomps : Nat) (out : TermOut) : Prop where
  rows : ncomps ≠ 0 → out.data.length = n
  ncomps : out.st.comps.length = ncomps
  state : ∀ c ∈ out.st.comps, c.shapeOk
  cols : ∀ ls, out.labels = some ls → HasWidth out.data ls.length ∧ ls.length = out.st.width
  uniform : ∃ w, HasWidth out.data w

/-- `Term.set_type` + `Term.set_data`: one row per row of the frame (a term has at least one
component), one entry per label in every row -/
theorem trainTerm_shape (env : Env) (hwf : env.frame.wellFormed = true)
    (hn : env.namesSized env.frame.nrows = true) (table : List (String × Expr)) (spec : TermSpec)
    (forced isResponse : Bool) (out : TermOut)
    (h : trainTerm env table spec forced isResponse = .ok out) :
    out.Shaped env.frame.nrows spec.comps.length := by
  unfold trainTerm at h
  simp only [bind_ok, pure_ok] at h
  obtain ⟨outs, houts, rfl⟩ := h
  have hlen := (mapM_ok_get _ _ _ houts).1
  have hall : ∀ o ∈ outs, CompOut.Shaped env.frame.nrows o :=
    mapM_forall _ (fun o => CompOut.Shaped env.frame.nrows o) _ _ houts (by
      intro c _ o ho
      simp only [bind_ok] at ho
      obtain ⟨e, _, ho⟩ := ho
      exact trainComp_shape env hwf hn _ _ _ _ _ _ ho)
  have huni : ∃ w, HasWidth (reduceMatrices (outs.map (·.value))) w := by
    apply reduceMatrices_someWidth
    intro a ha
    simp only [List.mem_map] at ha
    obtain ⟨o, ho, rfl⟩ := ha
    exact (hall o ho).uniform
  refine ⟨?_, by simp [hlen], ?_, ?_, huni⟩
  · intro hne
    simp only []
    apply reduceMatrices_length
    · intro hnil
      rw [List.map_eq_nil_iff] at hnil
      rw [hnil] at hlen
      exact hne hlen.symm
    · intro a ha
      simp only [List.mem_map] at ha
      obtain ⟨o, ho, rfl⟩ := ha
      exact (hall o ho).rows
  · intro c hc
    simp only [List.mem_map] at hc
    obtain ⟨o, ho, rfl⟩ := hc
    exact (hall o ho).state
  · intro ls hls
    simp only [Option.map_eq_some_iff] at hls
    obtain ⟨lss, hlss, rfl⟩ := hls
    obtain ⟨hmap, hsome⟩ := option_mapM_map (fun (o : CompOut) => o.labels) List.length
      (fun o => o.st.width) outs lss hlss (by
        intro o ho l hl
        exact ((hall o ho).cols l hl).2)
    have hw : ∀ o ∈ outs, o.value.length = env.frame.nrows ∧ HasWidth o.value o.st.width := by
      intro o ho
      obtain ⟨l, hl⟩ := hsome o ho
      obtain ⟨a, b⟩ := (hall o ho).cols l hl
      exact ⟨(hall o ho).rows, by rw [← b]; exact a⟩
    have hred := (reduceMatrices_shape (fun (o : CompOut) => o.value) (fun o => o.st.width)
      env.frame.nrows outs hw).2
    refine ⟨?_, ?_⟩
    · simp only []
      rw [reduceLabels_length, hmap]
      exact hred
    · simp only [TermState.width, List.map_map]
      rw [reduceLabels_length, hmap]
      rfl

/-- folding the new-data matrices of the components of a term -/
theorem newTerm_fold (env : Env) (hwf : env.frame.wellFormed = true)
    (hn : env.namesSized env.frame.nrows = true) (mode : UnseenMode) (comps : List CompState) :
    ∀ (outs : List (Matrix × Bool)), comps.mapM (fun c => newComp c env mode) = .ok outs →
      (∀ c ∈ comps, c.shapeOk) → ∀ (acc : Matrix) (accw : Nat), acc.length = env.frame.nrows →
        HasWidth acc accw →
        ((outs.map (·.1)).foldl interactionMatrix acc).length = env.frame.nrows ∧
          HasWidth ((outs.map (·.1)).foldl interactionMatrix acc)
            ((comps.map CompState.width).foldl (· * ·) accw) := by
  induction comps with
  | nil =>
    intro outs h _ acc accw hl hacc
    simp only [List.mapM_nil, pure_ok] at h
    subst h
    exact ⟨hl, hacc⟩
  | cons c comps ih =>
    intro outs h hst acc accw hl hacc
    rw [List.mapM_cons] at h
    simp only [bind_ok, pure_ok] at h
    obtain ⟨⟨m, w⟩, hc, outs', houts', rfl⟩ := h
    obtain ⟨h1, h2⟩ := newComp_shape c (hst c (by simp)) env hwf hn mode m w hc
    simp only [List.map_cons, List.foldl_cons]
    apply ih outs' houts' (fun c' hc' => hst c' (by simp [hc']))
    · rw [interactionMatrix_length, hl, h1]; simp
    · exact interactionMatrix_width _ _ _ _ hacc h2

/-- `Term.eval_new_data` on any rectangular frame: one row per row of that frame, and the number
of columns of the trained term -/
theorem newTerm_shape (t : TermState) (hst : ∀ c ∈ t.comps, c.shapeOk) (env : Env)
    (hwf : env.frame.wellFormed = true) (hn : env.namesSized env.frame.nrows = true)
    (mode : UnseenMode) (m : Matrix) (w : Bool) (h : newTerm t env mode = .ok (m, w)) :
    (t.comps ≠ [] → m.length = env.frame.nrows) ∧ HasWidth m t.width := by
  unfold newTerm at h
  simp only [bind_ok, pure_ok, Prod.mk.injEq] at h
  obtain ⟨outs, houts, rfl, rfl⟩ := h
  unfold TermState.width
  cases hcs : t.comps with
  | nil =>
    rw [hcs] at houts
    simp only [List.mapM_nil, pure_ok] at houts
    subst houts
    exact ⟨fun h => absurd rfl h, fun r hr => by simp [reduceMatrices] at hr⟩
  | cons c comps =>
    rw [hcs] at houts hst
    rw [List.mapM_cons] at houts
    simp only [bind_ok, pure_ok] at houts
    obtain ⟨⟨m0, w0⟩, hc, outs', houts', rfl⟩ := houts
    obtain ⟨h1, h2⟩ := newComp_shape c (hst c (by simp)) env hwf hn mode m0 w0 hc
    have := newTerm_fold env hwf hn mode comps outs' houts' (fun c' hc' => hst c' (by simp [hc']))
      m0 c.width h1 h2
    exact ⟨fun _ => this.1, this.2⟩

/-! ### group-specific terms -/

/-- the number of columns of the effect part of a trained group-specific term -/
def GroupState.effectWidth (g : GroupState) : Nat :=
  match g.expr with
  | none => 1
  | some t => t.width

/-- a group-specific term names at least one grouping component and, unless it is `(1 | g)`, at
least one effect component (always the case for a `GroupSpecificTerm` of the library) -/
def GroupSpec.nonempty (spec : GroupSpec) : Bool :=
  !spec.factor.comps.isEmpty &&
    (match spec.expr with
     | none => true
     | some ts => !ts.comps.isEmpty)

def GroupState.nonempty (g : GroupState) : Bool :=
  !g.factor.comps.isEmpty &&
    (match g.expr with
     | none => true
     | some t => !t.comps.isEmpty)

def GroupState.shapeOk (g : GroupState) : Prop :=
  (∀ c ∈ g.factor.comps, c.shapeOk) ∧ ∀ t, g.expr = some t → ∀ c ∈ t.comps, c.shapeOk

structure GroupOut.Shaped (n : Nat) (ne : Bool) (out : GroupOut) : Prop where
  rows : ne = true → out.data.length = n
  nonempty : out.st.nonempty = ne
  state : out.st.shapeOk
  cols : ∀ ls, out.labels = some ls →
    HasWidth out.data ls.length ∧ ls.length = out.st.factor.width * out.st.effectWidth
  uniform : ∃ w, HasWidth out.data w

theorem hasWidth_onesCol (n : Nat) : HasWidth (onesCol n) 1 := hasWidth_replicate n [some 1]

theorem length_ne_zero_of_isEmpty {α : Type} (l : List α) (h : (!l.isEmpty) = true) : l.length ≠ 0 := by
  cases l <;> simp_all

theorem group_cols (f : TermOut) (n nf : Nat) (hfs : f.Shaped n nf) (xi : Matrix)
    (el : Option (List String)) (we : Nat)
    (hel : ∀ l, el = some l → HasWidth xi l.length ∧ l.length = we) (ls : List String)
    (hls : (do
      let fl ← f.labels
      let el ← el
      pure (fl.flatMap (fun g => el.map (fun l => l ++ "|" ++ g)))) = some ls) :
    HasWidth (khatriRao f.data xi) ls.length ∧ ls.length = f.st.width * we := by
  simp only [Option.bind_eq_bind, Option.bind_eq_some_iff, Option.pure_def, Option.some.injEq] at hls
  obtain ⟨fl, hfl, l, hl, rfl⟩ := hls
  obtain ⟨a, b⟩ := hfs.cols fl hfl
  obtain ⟨c, d⟩ := hel l hl
  have hlen : (fl.flatMap (fun g => l.map (fun x => x ++ "|" ++ g))).length = fl.length * l.length :=
    length_labelProd bar fl l
  rw [hlen]
  exact ⟨interactionMatrix_width _ _ _ _ a c, by rw [b, d]⟩

theorem trainGroup_shape (env : Env) (hwf : env.frame.wellFormed = true)
    (hn : env.namesSized env.frame.nrows = true) (table : List (String × Expr)) (spec : GroupSpec)
    (out : GroupOut) (h : trainGroup env table spec = .ok out) :
    out.Shaped env.frame.nrows spec.nonempty := by
  unfold trainGroup at h
  rw [bind_ok] at h
  obtain ⟨f, hf, h⟩ := h
  have hfs := trainTerm_shape env hwf hn table _ true false f hf
  simp only [List.length_map] at hfs
  have hfne : (!f.st.comps.isEmpty) = !spec.factor.comps.isEmpty := by
    have := hfs.ncomps
    cases h1 : f.st.comps <;> cases h2 : spec.factor.comps <;> simp_all
  split at h
  · rename_i hse
    simp only [pure_bind, pure_ok] at h
    subst h
    refine ⟨?_, ?_, ⟨hfs.state, by simp⟩, ?_, ?_⟩
    rotate_right
    · obtain ⟨a, ha⟩ := hfs.uniform
      exact ⟨a * 1, interactionMatrix_width _ _ _ _ ha (hasWidth_onesCol _)⟩
    · intro hne
      simp only [GroupSpec.nonempty, hse, Bool.and_true] at hne
      simp only [khatriRao, interactionMatrix_length, onesCol, List.length_replicate]
      rw [hfs.rows (length_ne_zero_of_isEmpty _ hne)]
      simp
    · simp only [GroupState.nonempty, GroupSpec.nonempty, hse, Bool.and_true]
      exact hfne
    · intro ls hls
      exact group_cols f _ _ hfs _ (some ["1"]) 1
        (by intro l hl; cases hl; exact ⟨hasWidth_onesCol _, rfl⟩) ls hls
  · rename_i ts hse
    simp only [pure_bind, bind_ok, pure_ok] at h
    obtain ⟨t, ht, rfl⟩ := h
    have hts := trainTerm_shape env hwf hn table _ false false t ht
    have htne : (!t.st.comps.isEmpty) = !ts.comps.isEmpty := by
      have := hts.ncomps
      cases h1 : t.st.comps <;> cases h2 : ts.comps <;> simp_all
    refine ⟨?_, ?_, ⟨hfs.state, ?_⟩, ?_, ?_⟩
    rotate_right
    · obtain ⟨a, ha⟩ := hfs.uniform
      obtain ⟨b, hb⟩ := hts.uniform
      exact ⟨a * b, interactionMatrix_width _ _ _ _ ha hb⟩
    · intro hne
      simp only [GroupSpec.nonempty, hse, Bool.and_eq_true] at hne
      simp only [khatriRao, interactionMatrix_length]
      rw [hfs.rows (length_ne_zero_of_isEmpty _ hne.1), hts.rows (length_ne_zero_of_isEmpty _ hne.2)]
      simp
    · simp only [GroupState.nonempty, GroupSpec.nonempty, hse]
      rw [hfne, htne]
    · intro t' ht' c hc
      simp only [Option.some.injEq] at ht'
      subst ht'
      exact hts.state c hc
    · intro ls hls
      exact group_cols f _ _ hfs _ t.labels t.st.width (fun l hl => hts.cols l hl) ls hls

/-- the indicator matrix of the grouping factor, with one more column when a row matches no
remembered group -/
def widenJ (ji : Matrix) : Matrix :=
  if ji.any isZeroRow then ji.map (fun r => r ++ [some (if isZeroRow r then 1 else 0)]) else ji

theorem widen_shape (ji xi : Matrix) (n wj we : Nat) (hj : ji.length = n) (hx : xi.length = n)
    (hwj : HasWidth ji wj) (hwx : HasWidth xi we) :
    (khatriRao (widenJ ji) xi).length = n ∧
      (ji.any isZeroRow = false → HasWidth (khatriRao (widenJ ji) xi) (wj * we)) ∧
      (ji.any isZeroRow = true → HasWidth (khatriRao (widenJ ji) xi) ((wj + 1) * we)) := by
  refine ⟨?_, ?_, ?_⟩
  · simp only [khatriRao, interactionMatrix_length, widenJ]
    split <;> simp [hj, hx]
  · intro hz
    simp only [widenJ, hz, Bool.false_eq_true, if_false]
    exact interactionMatrix_width _ _ _ _ hwj hwx
  · intro hz
    simp only [widenJ, hz, if_true]
    apply interactionMatrix_width _ _ _ _ _ hwx
    intro r hr
    simp only [List.mem_map] at hr
    obtain ⟨r0, hr0, rfl⟩ := hr
    simp [hwj r0 hr0]

theorem newGroup_shape (g : GroupState) (hst : g.shapeOk) (hne : g.nonempty = true) (env : Env)
    (hwf : env.frame.wellFormed = true) (hn : env.namesSized env.frame.nrows = true)
    (mode : UnseenMode) (m : Matrix) (w : Bool) (h : newGroup g env mode = .ok (m, w)) :
    m.length = env.frame.nrows ∧
    ∃ ji w2, newTerm g.factor env mode = .ok (ji, w2) ∧
      (ji.any isZeroRow = false → HasWidth m (g.factor.width * g.effectWidth)) ∧
      (ji.any isZeroRow = true → HasWidth m ((g.factor.width + 1) * g.effectWidth)) := by
  unfold newGroup at h
  simp only [] at h
  simp only [GroupState.nonempty, Bool.and_eq_true] at hne
  have hfne : g.factor.comps ≠ [] := by
    intro hnil; rw [hnil] at hne; simp at hne
  split at h
  · rename_i hge
    simp only [pure_bind, bind_ok, pure_ok, Prod.mk.injEq] at h
    obtain ⟨⟨ji, w2⟩, hji, rfl, rfl⟩ := h
    obtain ⟨h1, h2⟩ := newTerm_shape g.factor hst.1 env hwf hn mode ji w2 hji
    have := widen_shape ji (onesCol env.frame.nrows) env.frame.nrows _ 1 (h1 hfne) (by simp [onesCol]) h2
      (hasWidth_onesCol _)
    simp only [GroupState.effectWidth, hge]
    exact ⟨this.1, ji, w2, hji, this.2⟩
  · rename_i t hge
    simp only [bind_ok, pure_ok, Prod.mk.injEq] at h
    obtain ⟨⟨xi, w1⟩, hxi, ⟨ji, w2⟩, hji, rfl, rfl⟩ := h
    obtain ⟨h1, h2⟩ := newTerm_shape g.factor hst.1 env hwf hn mode ji w2 hji
    obtain ⟨h3, h4⟩ := newTerm_shape t (hst.2 t hge) env hwf hn mode xi w1 hxi
    have htne : t.comps ≠ [] := by
      intro hnil; simp only [hge] at hne; rw [hnil] at hne; simp at hne
    have := widen_shape ji xi env.frame.nrows _ _ (h1 hfne) (h3 htne) h2 h4
    simp only [GroupState.effectWidth, hge]
    exact ⟨this.1, ji, w2, hji, this.2⟩

end FormulaeModel.Design
