import FormulaeModel.Proofs.RowsEval
import FormulaeModel.Proofs.Indicator
set_option linter.unusedSimpArgs false
/-
Helper lemmas for C06 (part 4): one component.  The levels and the contrast matrix are taken from
the state; every selected value was seen in training, so `newCategoric` takes the `unseen = false`
branch and codes the selected values with the remembered matrix.
-/
namespace FormulaeModel.Design
open FormulaeModel FormulaeModel.Spec.C06

theorem selectRows_eq_pick (m : Matrix) (is : List Nat) : selectRows m is = pick is [] m := rfl

theorem codeRows_length (cm : ContrastMatrix) (levels : List Level) (xs : List (Option Level)) (m : Matrix)
    (h : codeRows cm levels xs = .ok m) : m.length = xs.length :=
  (mapM_ok_get _ xs m h).1

/-- coding the selected values = selecting the coded rows -/
theorem codeRows_pick (cm : ContrastMatrix) (levels : List Level) (xs : List (Option Level)) (m : Matrix)
    (is : List Nat) (h : codeRows cm levels xs = .ok m) (his : ∀ i ∈ is, i < xs.length) :
    codeRows cm levels (pick is none xs) = .ok (selectRows m is) :=
  mapM_pick _ xs m is none [] h his

/-- every coded value is present and is one of the levels -/
theorem codeRows_seen (cm : ContrastMatrix) (levels : List Level) (xs : List (Option Level)) (m : Matrix)
    (h : codeRows cm levels xs = .ok m) : ∀ x ∈ xs, ∃ l, x = some l ∧ levels.contains l = true := by
  intro x hx
  obtain ⟨i, hi, rfl⟩ := List.mem_iff_getElem.1 hx
  obtain ⟨hl, hall⟩ := mapM_ok_get _ xs m h
  have := hall i hi (by omega)
  cases hxi : xs[i] with
  | none => rw [hxi] at this; simp at this
  | some l =>
    rw [hxi] at this
    refine ⟨l, rfl, ?_⟩
    simp only at this
    split at this
    · rename_i k hk
      obtain ⟨hk', hk''⟩ := indexOf?_some l levels k hk
      simp only [List.contains_iff_mem]
      rw [← hk'']
      exact List.getElem_mem _
    · simp at this

theorem newCategoric_pick (st : CompState) (cm : ContrastMatrix) (mode : UnseenMode)
    (xs : List (Option Level)) (m : Matrix) (is : List Nat) (hcm : st.contrast = some cm)
    (h : codeRows cm st.levels xs = .ok m) (his : ∀ i ∈ is, i < xs.length) :
    newCategoric st mode (pick is none xs) = .ok (selectRows m is, false) := by
  unfold newCategoric
  simp only [hcm]
  rw [if_pos]
  · simp only [bind_ok, pure_ok]
    exact ⟨_, codeRows_pick cm st.levels xs m is h his, rfl⟩
  · simp only [Bool.not_eq_true', List.any_eq_false]
    intro x hx
    obtain ⟨l, rfl, hl⟩ := codeRows_seen cm st.levels xs m h x (mem_pick is none xs his x hx)
    simp only [isUnseen, hl]
    decide

theorem numericLevels_pick (xs : List Entry) (ls : List (Option Level)) (is : List Nat)
    (h : numericLevels xs = .ok ls) (his : ∀ i ∈ is, i < xs.length) :
    numericLevels (pick is none xs) = .ok (pick is none ls) :=
  mapM_pick _ xs ls is none none h his

theorem numericLevels_length (xs : List Entry) (ls : List (Option Level))
    (h : numericLevels xs = .ok ls) : ls.length = xs.length :=
  (mapM_ok_get _ xs ls h).1

theorem evalCategoric_ok (name : String) (xs : List (Option Level)) (d : Option (Bool × List String))
    (full : Bool) (levels : List Level) (cm : ContrastMatrix) (m : Matrix)
    (h : evalCategoric name xs d full = .ok (levels, cm, m)) : codeRows cm levels xs = .ok m := by
  unfold evalCategoric at h
  repeat' split at h
  all_goals first
    | (simp [bind, Except.bind] at h; done)
    | (simp only [bind_ok, pure_ok, Prod.mk.injEq] at h
       obtain ⟨ls, _, cm', _, m', hm, rfl, rfl, rfl⟩ := h
       exact hm)

theorem evalBox_ok (b : Box) (full : Bool) (levels : List Level) (cm : ContrastMatrix) (m : Matrix)
    (h : evalBox b full = .ok (levels, cm, m)) : codeRows cm levels b.data = .ok m := by
  unfold evalBox at h
  repeat' split at h
  all_goals first
    | (simp [bind, Except.bind] at h; done)
    | (simp only [bind_ok, pure_ok, Prod.mk.injEq] at h
       obtain ⟨ls, _, cm', _, m', hm, rfl, rfl, rfl⟩ := h
       exact hm)

/-- the test `GroupSpecificTerm.eval_new_data` applies to the rows of the indicator matrix -/
def isZeroRow (r : List Entry) : Bool := r.all (fun x => x == some 0)

/-- no row of the matrix is all zero -/
def NoZeroRow (m : Matrix) : Prop := ∀ r ∈ m, isZeroRow r = false

theorem isZeroRow_false_of_mem (r : List Entry) (x : Entry) (hx : x ∈ r) (h0 : x ≠ some 0) :
    isZeroRow r = false := by
  simp only [isZeroRow, List.all_eq_false]
  exact ⟨x, hx, by simpa using h0⟩

theorem one_ne_zero_entry : (some (((1 : Int) : Rat)) : Entry) ≠ some 0 := by decide

theorem unitRow_nonzero (n i : Nat) (hi : i < n) : isZeroRow (rowOfInts (unitRow n i)) = false := by
  apply isZeroRow_false_of_mem _ (some (((1 : Int) : Rat))) _ one_ne_zero_entry
  simp only [rowOfInts, unitRow, List.mem_map, List.mem_range]
  exact ⟨1, ⟨i, hi, by simp⟩, rfl⟩

/-- full codings (`code_with_intercept`) give every level a row that is not all zero -/
theorem code_full_nonzero (c : Contrast) (levels : List Level) (cm : ContrastMatrix)
    (h : c.code true levels = .ok cm) (i : Nat) (hi : i < levels.length) :
    isZeroRow (rowOfInts (cm.rows.getD i [])) = false := by
  cases c with
  | treatment r =>
    simp only [Contrast.code, pure_ok] at h
    subst h
    simp only [treatmentFull, List.getD_eq_getElem?_getD, List.getElem?_map, List.getElem?_range hi,
      Option.map_some, Option.getD_some]
    exact unitRow_nonzero _ _ hi
  | sum o =>
    simp only [Contrast.code, sumFull, bind_ok, pure_ok] at h
    obtain ⟨c', hc', rfl⟩ := h
    simp only [sumReduced, bind_ok, pure_ok] at hc'
    obtain ⟨o', _, rfl⟩ := hc'
    simp only [List.getD_eq_getElem?_getD, List.getElem?_map, List.getElem?_range hi,
      Option.map_some, Option.getD_some]
    apply isZeroRow_false_of_mem _ (some (((1 : Int) : Rat))) _ one_ne_zero_entry
    simp [rowOfInts]

theorem codeRows_nonzero (cm : ContrastMatrix) (levels : List Level) (xs : List (Option Level)) (m : Matrix)
    (hfull : ∀ i, i < levels.length → isZeroRow (rowOfInts (cm.rows.getD i [])) = false)
    (h : codeRows cm levels xs = .ok m) : NoZeroRow m := by
  intro r hr
  obtain ⟨k, hk, rfl⟩ := List.mem_iff_getElem.1 hr
  obtain ⟨hl, hall⟩ := mapM_ok_get _ xs m h
  have := hall k (by omega) hk
  cases hxi : xs[k]'(by omega) with
  | none => rw [hxi] at this; simp at this
  | some l =>
    rw [hxi] at this
    simp only at this
    split at this
    · rename_i i hi
      obtain ⟨hi', _⟩ := indexOf?_some l levels i hi
      simp only [pure_ok] at this
      rw [← this]
      exact hfull i hi'
    · simp at this

theorem evalCategoric_nonzero (name : String) (xs : List (Option Level)) (d : Option (Bool × List String))
    (levels : List Level) (cm : ContrastMatrix) (m : Matrix)
    (h : evalCategoric name xs d true = .ok (levels, cm, m)) : NoZeroRow m := by
  unfold evalCategoric at h
  repeat' split at h
  all_goals first
    | (simp [bind, Except.bind] at h; done)
    | (simp only [bind_ok, pure_ok, Prod.mk.injEq] at h
       obtain ⟨ls, hls, cm', hcm, m', hm, rfl, rfl, rfl⟩ := h
       exact codeRows_nonzero _ _ _ _ (code_full_nonzero _ _ _ hcm) hm)

theorem evalBox_nonzero (b : Box) (levels : List Level) (cm : ContrastMatrix) (m : Matrix)
    (h : evalBox b true = .ok (levels, cm, m)) : NoZeroRow m := by
  unfold evalBox at h
  repeat' split at h
  all_goals first
    | (simp [bind, Except.bind] at h; done)
    | (simp only [bind_ok, pure_ok, Prod.mk.injEq] at h
       obtain ⟨ls, hls, cm', hcm, m', hm, rfl, rfl, rfl⟩ := h
       exact codeRows_nonzero _ _ _ _ (code_full_nonzero _ _ _ hcm) hm)


/-! ### one component -/

theorem selectRows_colOfEntries (xs : List Entry) (is : List Nat) (h : ∀ i ∈ is, i < xs.length) :
    selectRows (colOfEntries xs) is = colOfEntries (pick is none xs) := by
  simp only [selectRows_eq_pick, colOfEntries]
  rw [pick_default is [] [none] _ (by simpa using h)]
  exact pick_map (fun x => [x]) is none xs

theorem trainComp_rows (env : Env) (hwf : env.frame.wellFormed = true) (hn : env.namesScalar = true)
    (is : List Nat) (his : ∀ i ∈ is, i < env.frame.nrows) (name : String) (e : Expr)
    (forced full : Bool) (mode : UnseenMode) (out : CompOut)
    (hok : RowwiseOk e = true) (hd : D13Free env e = true)
    (h : trainComp env name e forced false full = .ok out) :
    newComp out.st (env.rows is) mode = .ok (selectRows out.value is, false) ∧
      out.value.length = env.frame.nrows := by
  have hnr := frame_nrows_rows env.frame is his
  unfold trainComp at h
  simp only [] at h
  split at h
  rotate_left 2
  · rename_i hnc hnb
    have main : ∀ (col : String) (reference : Option String),
        (match env.frame.col? col with
        | none => Except.error (Err.keyError col)
        | some c =>
          match colVal c with
          | Val.vec xs isInt =>
            if forced = true then do
              let __do_lift ← numericLevels xs
              let __x ← evalCategoric name __do_lift none full
              pure
                  { st := { name := name, expr := e, kind := CompKind.categoric, forced := forced,
                            levels := __x.fst, contrast := some __x.2.fst, reference := reference },
                    value := __x.2.snd, labels := some (categoricLabels name __x.2.fst) }
            else
              pure
                { st := { name := name, expr := e, kind := CompKind.numeric, forced := forced,
                          reference := reference },
                  value := colOfEntries xs, labels := some [name] }
          | Val.lvec xs d => do
            let __x ← evalCategoric name xs d full
            pure
                { st := { name := name, expr := e, kind := CompKind.categoric, forced := forced,
                          levels := __x.fst, contrast := some __x.2.fst, reference := reference },
                  value := __x.2.snd, labels := some (categoricLabels name __x.2.fst) }
          | x => Except.error (Err.valueError "Variable is of an unrecognized type")) = Except.ok out →
        out.st.expr = e ∧ out.st.name = name ∧ out.value.length = env.frame.nrows ∧
        (match (env.rows is).frame.col? col with
        | none => .error (.keyError col)
        | some c =>
          match colVal c, out.st.kind with
          | .vec xs _, .numeric => pure (colOfEntries xs, false)
          | .vec xs _, _ => do newCategoric out.st mode (← numericLevels xs)
          | .lvec xs _, .numeric => .error (.unmodelled "non-numeric new data for a numeric variable")
          | .lvec xs _, _ => newCategoric out.st mode xs
          | _, _ => .error .typeError) = Except.ok (selectRows out.value is, false) := by
      intro col reference h
      split at h
      · simp at h
      · rename_i c hc
        have hc' : (env.rows is).frame.col? col = some (colRows c is) := by
          simp [Env.rows, frame_col?_rows, hc]
        have hlen := frame_col?_length env.frame hwf _ c hc
        have hcv := colVal_rows c is
        have hisx : ∀ i ∈ is, i < c.cells.length := fun i hi => hlen ▸ his i hi
        have gcv := colVal_good c
        simp only [hc']
        split at h
        · rename_i xs isInt hv
          rw [hv] at hcv gcv
          simp only [Val.good] at gcv
          simp only [Val.rows] at hcv
          split at h
          · simp only [bind_ok, pure_ok] at h
            obtain ⟨ls, hls, ⟨levels, cm, m⟩, hcat, rfl⟩ := h
            have hcode := evalCategoric_ok _ _ _ _ _ _ _ hcat
            have hl := numericLevels_length _ _ hls
            refine ⟨rfl, rfl, by simp only; rw [codeRows_length _ _ _ _ hcode, hl, gcv, hlen], ?_⟩
            simp only [hcv, numericLevels_pick _ _ is hls (fun i hi => gcv ▸ hisx i hi), ok_bind]
            exact newCategoric_pick _ cm mode ls m is rfl hcode (fun i hi => hl ▸ gcv ▸ hisx i hi)
          · simp only [pure_ok] at h
            subst h
            refine ⟨rfl, rfl, by simp [colOfEntries, gcv, hlen], ?_⟩
            simp only [hcv, pure, Except.pure, selectRows_colOfEntries _ is (fun i hi => gcv ▸ hisx i hi)]
        · rename_i xs d hv
          rw [hv] at hcv gcv
          simp only [Val.good] at gcv
          simp only [Val.rows] at hcv
          simp only [bind_ok, pure_ok] at h
          obtain ⟨⟨levels, cm, m⟩, hcat, rfl⟩ := h
          have hcode := evalCategoric_ok _ _ _ _ _ _ _ hcat
          refine ⟨rfl, rfl, by simp only; rw [codeRows_length _ _ _ _ hcode, gcv, hlen], ?_⟩
          simp only [hcv]
          exact newCategoric_pick _ cm mode _ m is rfl hcode (fun i hi => gcv ▸ hisx i hi)
        · simp at h
    cases e with
    | call c lp as rp => exact (hnc c lp as rp rfl).elim
    | brace lb e rb => exact (hnb lb e rb rfl).elim
    | _ =>
      simp only at h
      obtain ⟨hexpr, hname, hlen, hnew⟩ := main _ _ h
      refine ⟨?_, hlen⟩
      unfold newComp
      simp only [hexpr, hname]
      exact hnew
  all_goals (
    simp only [bind_ok] at h
    obtain ⟨⟨v, ts⟩, h1, h⟩ := h
    rw [posOnly_ok] at h1
    obtain ⟨gv, hE⟩ := evalArg_rows env hwf hn is his _ hok hd _ _ _ h1
    rw [← posOnly_ok] at hE
    simp only at h
    split at h
    · -- vec
      simp only [Val.good] at gv
      simp only [Val.rows] at hE
      have hisx : ∀ i ∈ is, i < _ := fun i hi => gv ▸ his i hi
      split at h
      · simp only [bind_ok, pure_ok] at h
        obtain ⟨ls, hls, ⟨levels, cm, m⟩, hcat, rfl⟩ := h
        have hcode := evalCategoric_ok _ _ _ _ _ _ _ hcat
        have hlen := numericLevels_length _ _ hls
        refine ⟨?_, by simp only; rw [codeRows_length _ _ _ _ hcode, hlen, gv]⟩
        simp only [newComp, hE, ok_bind, show (CompKind.categoric == CompKind.numeric) = false from rfl,
          Bool.false_eq_true, if_false, numericLevels_pick _ _ is hls hisx]
        exact newCategoric_pick _ cm mode ls m is rfl hcode (fun i hi => hlen ▸ hisx i hi)
      · simp only [pure_ok] at h
        subst h
        refine ⟨?_, by simp [colOfEntries, gv]⟩
        simp only [newComp, hE, ok_bind, show (CompKind.numeric == CompKind.numeric) = true from rfl,
          if_true, pure, Except.pure, selectRows_colOfEntries _ is hisx]
    · -- lvec
      simp only [Val.good] at gv
      simp only [Val.rows] at hE
      have hisx : ∀ i ∈ is, i < _ := fun i hi => gv ▸ his i hi
      simp only [bind_ok, pure_ok] at h
      obtain ⟨⟨levels, cm, m⟩, hcat, rfl⟩ := h
      have hcode := evalCategoric_ok _ _ _ _ _ _ _ hcat
      refine ⟨?_, by simp only; rw [codeRows_length _ _ _ _ hcode, gv]⟩
      simp only [newComp, hE, ok_bind, show (CompKind.categoric == CompKind.numeric) = false from rfl,
        Bool.false_eq_true, if_false]
      exact newCategoric_pick _ cm mode _ m is rfl hcode hisx
    · -- box
      simp only [Val.good] at gv
      simp only [Val.rows] at hE
      have hisx : ∀ i ∈ is, i < _ := fun i hi => gv.1 ▸ his i hi
      simp only [bind_ok, pure_ok] at h
      obtain ⟨⟨levels, cm, m⟩, hcat, rfl⟩ := h
      have hcode := evalBox_ok _ _ _ _ _ hcat
      refine ⟨?_, by simp only; rw [codeRows_length _ _ _ _ hcode, gv.1]⟩
      simp only [newComp, hE, ok_bind, show (CompKind.categoric == CompKind.numeric) = false from rfl,
        Bool.false_eq_true, if_false]
      exact newCategoric_pick _ cm mode _ m is rfl hcode hisx
    · -- offsetVar
      simp only [Val.good] at gv
      simp only [Val.rows] at hE
      have hisx : ∀ i ∈ is, i < _ := fun i hi => gv ▸ his i hi
      simp only [Bool.false_eq_true, if_false] at h
      split at h
      · simp at h
      · simp only [pure_ok] at h
        subst h
        refine ⟨?_, by simp [colOfEntries, gv]⟩
        simp only [newComp, hE, ok_bind, pure, Except.pure, selectRows_colOfEntries _ is hisx]
    · -- offsetConst
      simp only [Bool.false_eq_true, if_false] at h
      split at h
      · simp at h
      · simp only [pure_ok] at h
        subst h
        refine ⟨?_, by simp⟩
        simp only [newComp, pure, Except.pure, Env.rows, hnr, selectRows_eq_pick,
          pick_replicate is _ _ _ his]
    · -- prop
      simp at h
    · simp at h)

/-- a grouping factor component (kind forced to categoric, coded full) has no all-zero row -/
theorem trainComp_nonzero (env : Env) (name : String) (e : Expr) (out : CompOut)
    (h : trainComp env name e true false true = .ok out) : NoZeroRow out.value := by
  unfold trainComp at h
  simp only [] at h
  split at h
  rotate_left 2
  · split at h
    · simp at h
    · split at h
      · simp only [if_true, bind_ok, pure_ok] at h
        obtain ⟨ls, hls, ⟨levels, cm, m⟩, hcat, rfl⟩ := h
        exact evalCategoric_nonzero _ _ _ _ _ _ hcat
      · simp only [bind_ok, pure_ok] at h
        obtain ⟨⟨levels, cm, m⟩, hcat, rfl⟩ := h
        exact evalCategoric_nonzero _ _ _ _ _ _ hcat
      · simp at h
  all_goals (
    simp only [bind_ok] at h
    obtain ⟨⟨v, ts⟩, h1, h⟩ := h
    simp only at h
    split at h
    · simp only [if_true, bind_ok, pure_ok] at h
      obtain ⟨ls, hls, ⟨levels, cm, m⟩, hcat, rfl⟩ := h
      exact evalCategoric_nonzero _ _ _ _ _ _ hcat
    · simp only [bind_ok, pure_ok] at h
      obtain ⟨⟨levels, cm, m⟩, hcat, rfl⟩ := h
      exact evalCategoric_nonzero _ _ _ _ _ _ hcat
    · simp only [bind_ok, pure_ok] at h
      obtain ⟨⟨levels, cm, m⟩, hcat, rfl⟩ := h
      exact evalBox_nonzero _ _ _ _ hcat
    all_goals simp at h)


end FormulaeModel.Design
