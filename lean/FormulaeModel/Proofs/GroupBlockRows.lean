import FormulaeModel.Proofs.Blocks
import FormulaeModel.Proofs.RowsTerm
set_option linter.unusedSimpArgs false
set_option linter.unusedVariables false
/-
Helper lemmas for C05 / C10 (part 1): rows.  Unit rows (the rows of the complete indicator matrix),
their row-wise Kronecker products (cells of `g1:g2:…` in lexicographic order), zero rows, and the
extra column `GroupSpecificTerm.eval_new_data` appends.
-/
namespace FormulaeModel.Design
open FormulaeModel

/-- the indicator row of position `g` among `G` positions, as design entries -/
def unitE (G g : Nat) : List Entry := rowOfInts (unitRow G g)

/-- a row of `w` zeros -/
def zeroE (w : Nat) : List Entry := List.replicate w (some (0 : Rat))

theorem unitE_length (G g : Nat) : (unitE G g).length = G := by simp [unitE, rowOfInts, unitRow]

theorem zeroE_length (w : Nat) : (zeroE w).length = w := by simp [zeroE]

theorem unitE_getElem (G g k : Nat) (hk : k < (unitE G g).length) :
    (unitE G g)[k] = some (if k = g then 1 else 0) := by
  have hk' : k < G := by simpa [unitE_length] using hk
  simp only [unitE, rowOfInts, List.getElem_map]
  rw [unitRow_get _ _ _ hk']
  split <;> simp

theorem unitE_getElem? (G g k : Nat) (hk : k < G) :
    (unitE G g)[k]? = some (some (if k = g then 1 else 0)) := by
  rw [List.getElem?_eq_getElem (by rw [unitE_length]; exact hk), unitE_getElem]

theorem entry_one_ne_zero : (some (1 : Rat) : Entry) ≠ some 0 := by decide

theorem isZeroRow_unitE (G g : Nat) (hg : g < G) : isZeroRow (unitE G g) = false :=
  unitRow_nonzero G g hg

theorem isZeroRow_zeroE (w : Nat) : isZeroRow (zeroE w) = true := by
  simp [isZeroRow, zeroE]

/-- position `n` of a product with `H > 0` columns per slot: slot `n / H`, offset `n % H` -/
theorem rowProd_getElem_divmod (a b : List Entry) (n : Nat) (hn : n < a.length * b.length) :
    ∃ (h1 : n / b.length < a.length) (h2 : n % b.length < b.length),
      (rowProd a b)[n]? = some (Entry.mul a[n / b.length] b[n % b.length]) := by
  have hpos : 0 < b.length := by
    rcases Nat.eq_zero_or_pos b.length with h | h
    · rw [h] at hn; simp at hn
    · exact h
  have h1 : n / b.length < a.length := by
    rw [Nat.div_lt_iff_lt_mul hpos]; exact hn
  have h2 : n % b.length < b.length := Nat.mod_lt _ hpos
  refine ⟨h1, h2, ?_⟩
  have := rowProd_getElem? a b (n / b.length) (n % b.length) h1 h2
  rwa [Nat.div_add_mod' n b.length] at this

theorem mul_ite (p q r : Prop) [Decidable p] [Decidable q] [Decidable r] (h : (p ∧ q) ↔ r) :
    Entry.mul (some (if p then (1 : Rat) else 0)) (some (if q then 1 else 0)) =
      some (if r then 1 else 0) := by
  by_cases hp : p <;> by_cases hq : q
  · have : r := h.1 ⟨hp, hq⟩
    simp [hp, hq, this, Entry.mul]
  · have : ¬ r := fun hr => hq (h.2 hr).2
    simp [hp, hq, this, Entry.mul]
  · have : ¬ r := fun hr => hp (h.2 hr).1
    simp [hp, hq, this, Entry.mul]
  · have : ¬ r := fun hr => hp (h.2 hr).1
    simp [hp, hq, this, Entry.mul]

/-- **cell order**: the product of two indicator rows is the indicator row of the cell, cell
`(a, b)` at position `a * H + b` (first factor slowest) -/
theorem rowProd_unitE_unitE (G H a b : Nat) (ha : a < G) (hb : b < H) :
    rowProd (unitE G a) (unitE H b) = unitE (G * H) (a * H + b) := by
  apply List.ext_getElem?
  intro n
  by_cases hn : n < G * H
  · obtain ⟨h1, h2, h⟩ := rowProd_getElem_divmod (unitE G a) (unitE H b) n
      (by rw [unitE_length, unitE_length]; exact hn)
    rw [h, unitE_getElem? _ _ _ hn, unitE_getElem, unitE_getElem]
    simp only [unitE_length] at h1 h2 ⊢
    have hdm := Nat.div_add_mod' n H
    have hiff : (n / H = a ∧ n % H = b) ↔ n = a * H + b := by
      constructor
      · rintro ⟨h3, h4⟩; rw [← hdm, h3, h4]
      · intro h3
        subst h3
        have hpos : 0 < H := by omega
        constructor
        · rw [Nat.mul_comm, Nat.mul_add_div hpos, Nat.div_eq_of_lt hb]; rfl
        · rw [Nat.mul_comm, Nat.mul_add_mod, Nat.mod_eq_of_lt hb]
    exact congrArg some (mul_ite _ _ _ hiff)
  · have hl : (rowProd (unitE G a) (unitE H b)).length = G * H := by
      rw [length_rowProd, unitE_length, unitE_length]
    rw [List.getElem?_eq_none (by rw [hl]; omega), List.getElem?_eq_none (by rw [unitE_length]; omega)]

theorem cell_lt (G H a b : Nat) (ha : a < G) (hb : b < H) : a * H + b < G * H := by
  have : (a + 1) * H ≤ G * H := Nat.mul_le_mul_right H ha
  rw [Nat.add_mul] at this
  omega

/-- every entry is a number (no NaN) -/
def AllSome (r : List Entry) : Prop := ∀ x ∈ r, ∃ q, x = some q

theorem allSome_unitE (G g : Nat) : AllSome (unitE G g) := by
  intro x hx
  simp only [unitE, rowOfInts, List.mem_map] at hx
  obtain ⟨k, _, rfl⟩ := hx
  exact ⟨_, rfl⟩

theorem allSome_zeroE (w : Nat) : AllSome (zeroE w) := by
  intro x hx
  rw [List.eq_of_mem_replicate hx]
  exact ⟨_, rfl⟩

/-- zero times a row without NaN is zero -/
theorem rowProd_zeroE_left (w : Nat) (y : List Entry) (hy : AllSome y) :
    rowProd (zeroE w) y = zeroE (w * y.length) := by
  induction w with
  | zero => simp [rowProd, zeroE]
  | succ w ih =>
    simp only [rowProd, zeroE, List.replicate_succ, List.flatMap_cons] at *
    rw [ih, Nat.succ_mul, Nat.add_comm, ← List.replicate_append_replicate]
    congr 1
    rw [List.eq_replicate_iff]
    refine ⟨by simp, ?_⟩
    intro b hb
    simp only [List.mem_map] at hb
    obtain ⟨x, hx, rfl⟩ := hb
    obtain ⟨q, rfl⟩ := hy x hx
    simp [Entry.mul]

theorem rowProd_zeroE_right (x : List Entry) (hx : AllSome x) (w : Nat) :
    rowProd x (zeroE w) = zeroE (x.length * w) := by
  induction x with
  | nil => simp [rowProd, zeroE]
  | cons a x ih =>
    have hx' : AllSome x := fun y hy => hx y (by simp [hy])
    obtain ⟨q, rfl⟩ := hx a (by simp)
    simp only [rowProd, zeroE, List.flatMap_cons, List.length_cons] at *
    rw [ih hx', Nat.succ_mul, Nat.add_comm, ← List.replicate_append_replicate]
    congr 1
    simp [Entry.mul, List.map_const']

/-! ### the appended column -/

theorem unitE_append_zero (G g : Nat) (hg : g < G) : unitE G g ++ [some (0 : Rat)] = unitE (G + 1) g := by
  apply List.ext_getElem?
  intro n
  by_cases hn : n < G
  · rw [List.getElem?_append_left (by rw [unitE_length]; exact hn), unitE_getElem? _ _ _ hn,
      unitE_getElem? _ _ _ (by omega)]
  · by_cases hn' : n = G
    · subst hn'
      rw [List.getElem?_append_right (by rw [unitE_length]; omega), unitE_length,
        unitE_getElem? _ _ _ (by omega)]
      have : ¬ n = g := by omega
      simp [this]
    · rw [List.getElem?_eq_none (by simp [unitE_length]; omega),
        List.getElem?_eq_none (by rw [unitE_length]; omega)]

theorem zeroE_append_one (G : Nat) : zeroE G ++ [some (1 : Rat)] = unitE (G + 1) G := by
  apply List.ext_getElem?
  intro n
  by_cases hn : n < G
  · rw [List.getElem?_append_left (by rw [zeroE_length]; exact hn), unitE_getElem? _ _ _ (by omega)]
    have : ¬ n = G := by omega
    simp [zeroE, hn, this]
  · by_cases hn' : n = G
    · subst hn'
      rw [List.getElem?_append_right (by rw [zeroE_length]; omega), zeroE_length,
        unitE_getElem? _ _ _ (by omega)]
      simp
    · rw [List.getElem?_eq_none (by simp [zeroE_length]; omega),
        List.getElem?_eq_none (by rw [unitE_length]; omega)]

/-! ### n-ary products -/

/-- number of cells of `g1:…:gn` given the numbers of levels, starting from `G` cells -/
def cellCount (G : Nat) (Gs : List Nat) : Nat := Gs.foldl (· * ·) G

/-- mixed-radix index of a cell: `ps` lists (number of levels, level index) of the further
components; the first component varies slowest -/
def cellIndex (g : Nat) (ps : List (Nat × Nat)) : Nat := ps.foldl (fun acc p => acc * p.1 + p.2) g

theorem foldl_rowProd_unitE (ps : List (Nat × Nat)) (G g : Nat) (hg : g < G)
    (hps : ∀ p ∈ ps, p.2 < p.1) :
    (ps.map (fun p => unitE p.1 p.2)).foldl rowProd (unitE G g) =
        unitE (cellCount G (ps.map (·.1))) (cellIndex g ps) ∧
      cellIndex g ps < cellCount G (ps.map (·.1)) := by
  induction ps generalizing G g with
  | nil => exact ⟨rfl, hg⟩
  | cons p ps ih =>
    have hp := hps p (by simp)
    simp only [List.map_cons, List.foldl_cons, cellCount, cellIndex]
    rw [rowProd_unitE_unitE G p.1 g p.2 hg hp]
    exact ih (G * p.1) (g * p.1 + p.2) (cell_lt G p.1 g p.2 hg hp) (fun q hq => hps q (by simp [hq]))

/-- a product that contains a zero row (and otherwise rows without NaN) is a zero row -/
theorem foldl_rowProd_zeroE (rs : List (List Entry)) (w : Nat) (hrs : ∀ r ∈ rs, AllSome r) :
    rs.foldl rowProd (zeroE w) = zeroE (cellCount w (rs.map List.length)) := by
  induction rs generalizing w with
  | nil => rfl
  | cons r rs ih =>
    simp only [List.map_cons, List.foldl_cons, cellCount]
    rw [rowProd_zeroE_left w r (hrs r (by simp))]
    exact ih _ (fun q hq => hrs q (by simp [hq]))

theorem allSome_rowProd (a b : List Entry) (ha : AllSome a) (hb : AllSome b) : AllSome (rowProd a b) := by
  intro x hx
  simp only [rowProd, List.mem_flatMap, List.mem_map] at hx
  obtain ⟨p, hp, q, hq, rfl⟩ := hx
  obtain ⟨p', rfl⟩ := ha p hp
  obtain ⟨q', rfl⟩ := hb q hq
  exact ⟨_, rfl⟩

/-- row `r` of an n-ary interaction matrix is the n-ary product of the rows `r` -/
theorem foldl_interactionMatrix_row (ms : List Matrix) (m : Matrix) (r : Nat) (hm : r < m.length)
    (hms : ∀ a ∈ ms, r < a.length) :
    (ms.foldl interactionMatrix m)[r]? =
      some ((ms.map (fun a => a.getD r [])).foldl rowProd (m.getD r [])) := by
  induction ms generalizing m with
  | nil => simp [List.getD_eq_getElem?_getD, List.getElem?_eq_getElem hm]
  | cons a ms ih =>
    have ha := hms a (by simp)
    simp only [List.foldl_cons, List.map_cons]
    have hlen : r < (interactionMatrix m a).length := by
      rw [interactionMatrix_length]; omega
    rw [ih (interactionMatrix m a) hlen (fun b hb => hms b (by simp [hb]))]
    congr 2
    simp only [List.getD_eq_getElem?_getD, List.getElem?_eq_getElem hlen, List.getElem?_eq_getElem hm,
      List.getElem?_eq_getElem ha, Option.getD_some]
    exact interactionMatrix_row m a r hm ha

end FormulaeModel.Design
