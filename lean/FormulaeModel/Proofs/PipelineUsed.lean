import FormulaeModel.Model.Pipeline
/-
The two instances of the whole-pipeline model — `designMatrices` (every variable WRITTEN at a term
position counts as used; the C04 / C15 / C17 theorems are about it) and `designMatricesModel` (the
variables of the RESOLVED model, what the code does and what the driver runs) — are the same
function wherever the two readings select the same columns of the frame.
-/
namespace FormulaeModel.Pipeline
open FormulaeModel FormulaeModel.Design

/-- the NA step looks at `used` through membership only -/
theorem selectCols_congr (u₁ u₂ : List String) (f : Frame)
    (h : ∀ c, u₁.contains c = u₂.contains c) : NA.selectCols u₁ f = NA.selectCols u₂ f := by
  unfold NA.selectCols
  congr 1
  funext c
  exact h c.name

theorem naStep_congr (actions : List String) (action : String) (u₁ u₂ : List String) (f : Frame)
    (h : ∀ c, u₁.contains c = u₂.contains c) :
    NA.naStep actions action u₁ f = NA.naStep actions action u₂ f := by
  unfold NA.naStep
  rw [selectCols_congr u₁ u₂ f h]

/-- the columns a reading selects -/
def selected (vars : List String) (f : Frame) : List String :=
  vars.filter ((f.map (·.name)).contains ·)

/-- the two readings of "used" select the same columns of this frame, for the tree the formula
parses to and the model it resolves to -/
def SameSelection (table : Parser.Table) (ops : Resolver.OpTable) (formula : String) (f : Frame) :
    Prop :=
  ∀ ts e m, Scanner.scan formula.toList = .ok ts → Parser.parse table ts = .ok e →
    Resolver.describe ops e = .ok m →
    ∀ c, (selected (NA.formulaVars e) f).contains c = (selected (modelVars (atomTable e) m) f).contains c

/-- **the proved pipeline is the executed pipeline** whenever no variable of the frame is written
in the formula but absent from the resolved model (i.e. unless every term of some variable is
removed again with `-`) -/
theorem designMatrices_eq_model (table : Parser.Table) (ops : Resolver.OpTable)
    (actions : List String) (formula : String) (env : Env) (naAction : String)
    (h : SameSelection table ops formula env.frame) :
    designMatrices table ops actions formula env naAction =
      designMatricesModel table ops actions formula env naAction := by
  unfold designMatrices designMatricesModel designMatricesWith
  simp only [bind, Except.bind]
  cases hs : Scanner.scan formula.toList with
  | error e => rfl
  | ok ts =>
    simp only [pure, Except.pure]
    cases hp : Parser.parse table ts with
    | error e => rfl
    | ok e =>
      simp only []
      cases hd : Resolver.describe ops e with
      | error er => rfl
      | ok m =>
        simp only []
        have := naStep_congr actions naAction _ _ env.frame (h ts e m hs hp hd)
        simp only [selected] at this
        rw [this]

/-- decidable form of `SameSelection` for a concrete text and frame -/
def sameSel (table : Parser.Table) (ops : Resolver.OpTable) (formula : String) (f : Frame) : Bool :=
  match Scanner.scan formula.toList with
  | .ok ts =>
    (match Parser.parse table ts with
     | .ok e =>
       (match Resolver.describe ops e with
        | .ok m => (f.map (·.name)).all (fun c =>
            (selected (NA.formulaVars e) f).contains c ==
              (selected (modelVars (atomTable e) m) f).contains c)
        | .error _ => true)
     | .error _ => true)
  | .error _ => true

theorem selected_not_col (vars : List String) (f : Frame) (c : String)
    (hc : c ∉ f.map (·.name)) : (selected vars f).contains c = false := by
  cases h : (selected vars f).contains c
  · rfl
  · exfalso
    have hm : c ∈ selected vars f := by simpa using h
    simp only [selected, List.mem_filter] at hm
    exact hc (by simpa using hm.2)

theorem sameSel_sound (table : Parser.Table) (ops : Resolver.OpTable) (formula : String) (f : Frame)
    (h : sameSel table ops formula f = true) : SameSelection table ops formula f := by
  intro ts e m hs hp hd c
  unfold sameSel at h
  rw [hs] at h
  simp only [hp, hd, List.all_eq_true, beq_iff_eq] at h
  by_cases hc : c ∈ f.map (·.name)
  · exact h c hc
  · rw [selected_not_col _ f c hc, selected_not_col _ f c hc]

end FormulaeModel.Pipeline
