import FormulaeModel.Model.Matrices
set_option linter.unusedSimpArgs false
set_option linter.unusedVariables false
/-
Helper lemmas for C16: evaluation of a helper call whose arguments are column names / literals,
at training time (`ts = none`) and at prediction time (`ts = some state`), and what
`newComp` (`eval_new_data`) does for offset / proportion / plain numeric call components.
-/
namespace FormulaeModel.Design
open FormulaeModel

/-- `f(a)`: the argument is evaluated on the frame (then the environment) the call is evaluated on -/
theorem evalArg_call1 (env : Env) (k : Kind) (f : String) (lp rp : Token) (a : Expr) (ts : Option TS)
    (va : Val) (sa : TS) (ha : evalArg env a (TS.child ts 0) = .ok (none, va, sa)) :
    evalArg env (.call (.variable ⟨k, f⟩) lp (.last a) rp) ts =
      (do let (r, own) ← finishCall f ⟨[va], []⟩ (TS.own ts)
          pure (none, r, .node own [sa])) := by
  simp only [evalArg, evalArgs, bind, Except.bind, pure, Except.pure, ha, List.nil_append]

theorem evalArg_variable (env : Env) (v : Token) (ts : Option TS) (val : Val)
    (h : lookupName env v.lexeme = .ok val) : evalArg env (.variable v) ts = .ok (none, val, .leaf) := by
  simp only [evalArg, h, bind, Except.bind, pure, Except.pure]

/-- `f(a, b)` with two positional arguments -/
theorem evalArg_call2 (env : Env) (k : Kind) (f : String) (lp rp cm : Token) (a b : Expr) (ts : Option TS)
    (va vb : Val) (sa sb : TS) (ha : evalArg env a (TS.child ts 0) = .ok (none, va, sa))
    (hb : evalArg env b (TS.child ts 1) = .ok (none, vb, sb)) :
    evalArg env (.call (.variable ⟨k, f⟩) lp (.more a cm (.last b)) rp) ts =
      (do let (r, own) ← finishCall f ⟨[va, vb], []⟩ (TS.own ts)
          pure (none, r, .node own [sa, sb])) := by
  simp only [evalArg, evalArgs, bind, Except.bind, pure, Except.pure, ha, hb, List.nil_append,
    List.cons_append]

/-- an integer literal evaluates to itself on every frame -/
theorem evalArg_intLiteral (env : Env) (t : Token) (n : Int) (ts : Option TS)
    (hk : t.kind = .NUMBER) (hn : intLexeme t.lexeme = some n) :
    evalArg env (.literal t) ts = .ok (none, .num n true, .leaf) := by
  simp only [evalArg, hk, hn, pure, Except.pure]

/-- a string literal evaluates to its text on every frame -/
theorem evalArg_strLiteral (env : Env) (t : Token) (ts : Option TS) (hk : t.kind = .STRING) :
    evalArg env (.literal t) ts =
      .ok (none, .str (String.ofList ((t.lexeme.toList.drop 1).dropLast)), .leaf) := by
  simp only [evalArg, hk, pure, Except.pure]

theorem lookupName_col (env : Env) (n : String) (c : Column) (h : env.frame.col? n = some c) :
    lookupName env n = .ok (colVal c) := by
  simp only [lookupName, h, pure, Except.pure]

-- ---------------------------------------------------------------------------------------------
-- newComp, by kind of the trained component
-- ---------------------------------------------------------------------------------------------
def isCallLike' : Expr → Bool
  | .call .. | .brace .. => true
  | _ => false

/-- `eval_new_data` of an offset component: a constant is broadcast to the rows of the **new**
frame; a variable offset is the call re-evaluated on the **new** frame -/
theorem newComp_offset (st : CompState) (env' : Env) (mode : UnseenMode)
    (he : isCallLike' st.expr = true) (hk : st.kind = .offset) :
    newComp st env' mode =
      match st.offsetConst with
      | some q => .ok (List.replicate env'.frame.nrows [some q], false)
      | none =>
        match posOnly (evalArg env' st.expr (some st.tstate)) with
        | .ok (.offsetVar xs, _) => .ok (colOfEntries xs, false)
        | .ok _ => .error .typeError
        | .error e => .error e := by
  unfold newComp
  cases hexp : st.expr <;> simp [isCallLike', hexp] at he
  all_goals
    simp only [hk, bind, Except.bind, pure, Except.pure]
    cases st.offsetConst with
    | some q => rfl
    | none =>
      simp only []
      cases posOnly (evalArg env' _ (some st.tstate)) with
      | error _ => rfl
      | ok p =>
        obtain ⟨v, t⟩ := p
        cases v <;> rfl

/-- `eval_new_data` of a proportion component: the trials of the **new** frame (a constant number
of trials is broadcast to its rows) -/
theorem newComp_proportion (st : CompState) (env' : Env) (mode : UnseenMode)
    (he : isCallLike' st.expr = true) (hk : st.kind = .proportion) :
    newComp st env' mode =
      match st.propConst with
      | some q => .ok (List.replicate env'.frame.nrows [some q], false)
      | none =>
        match st.propTrialsName.bind env'.frame.col? with
        | some c => match colVal c with
          | .vec xs _ => .ok (colOfEntries xs, false)
          | _ => .error .typeError
        | none => .error (.keyError "trials") := by
  unfold newComp
  cases hexp : st.expr <;> simp [isCallLike', hexp] at he
  all_goals
    simp only [hk, bind, Except.bind, pure, Except.pure]
    cases st.propConst with
    | some q => rfl
    | none => rfl

/-- `eval_new_data` of a numeric call component (`binary`, `I`, `center`, arithmetic …): the call
re-evaluated on the **new** frame with the remembered transform state -/
theorem newComp_numericCall (st : CompState) (env' : Env) (mode : UnseenMode)
    (he : isCallLike' st.expr = true) (hk : st.kind = .numeric) :
    newComp st env' mode =
      match posOnly (evalArg env' st.expr (some st.tstate)) with
      | .ok (.vec xs _, _) => .ok (colOfEntries xs, false)
      | .ok _ => .error (.unmodelled "numeric call returned a non-vector")
      | .error e => .error e := by
  unfold newComp
  cases hexp : st.expr <;> simp [isCallLike', hexp] at he
  all_goals
    simp only [hk, bind, Except.bind, pure, Except.pure]
    cases posOnly (evalArg env' _ (some st.tstate)) with
    | error _ => rfl
    | ok p =>
      obtain ⟨v, t⟩ := p
      cases v <;> rfl

-- ---------------------------------------------------------------------------------------------
-- small facts about the helper functions used by Properties/C16
-- ---------------------------------------------------------------------------------------------
theorem levelOfVal_ne_pyNone (v : Val) (s : Level) (h : levelOfVal v = some s) : v ≠ .pyNone := by
  intro he; subst he; simp [levelOfVal] at h

/-- the call `f(a)` -/
def call1 (k : Kind) (f : String) (lp rp : Token) (a : Expr) : Expr :=
  .call (.variable ⟨k, f⟩) lp (.last a) rp
/-- the call `f(a, b)` -/
def call2 (k : Kind) (f : String) (lp cm rp : Token) (a b : Expr) : Expr :=
  .call (.variable ⟨k, f⟩) lp (.more a cm (.last b)) rp

theorem finishCall_offset (a : CallArgs) (own : Option Rat) :
    finishCall "offset" a own = applyCallee "offset" a own := rfl
theorem finishCall_binary (a : CallArgs) (own : Option Rat) :
    finishCall "binary" a own = (do pure (← binaryFn (a.get 0 "x") (a.get 1 "success"), own)) := rfl
theorem finishCall_B (a : CallArgs) (own : Option Rat) :
    finishCall "B" a own = finishCall "binary" a own := rfl
theorem finishCall_p (a : CallArgs) (own : Option Rat) :
    finishCall "p" a own =
      (do pure (← proportionFn (a.get 0 "successes") (a.get 1 "trials"), own)) := rfl
theorem finishCall_prop_p (a : CallArgs) (own : Option Rat) :
    finishCall "prop" a own = finishCall "p" a own := rfl
theorem finishCall_proportion_p (a : CallArgs) (own : Option Rat) :
    finishCall "proportion" a own = finishCall "p" a own := rfl

theorem proportionFn_vec_ok (ss ts : List Entry) (i j : Bool) (v : Val)
    (h : proportionFn (.vec ss i) (.vec ts j) = .ok v) : v = .prop ss ts none := by
  simp only [proportionFn, bind, Except.bind, pure, Except.pure] at h
  repeat' split at h
  all_goals (first | (simp at h; done) | (simp only [Except.ok.injEq] at h; exact h.symm))

theorem proportionFn_const_ok (ss : List Entry) (i : Bool) (q : Rat) (v : Val)
    (h : proportionFn (.vec ss i) (.num q true) = .ok v) :
    v = .prop ss (List.replicate ss.length (some q)) (some q) := by
  simp only [proportionFn, bind, Except.bind, pure, Except.pure] at h
  repeat' split at h
  all_goals (first | (simp at h; done) | (simp only [Except.ok.injEq] at h; exact h.symm))

/-- `binaryFn` only ever returns a 0/1 vector -/
theorem binaryFn_vec (x s r : Val) (h : binaryFn x s = .ok r) : ∃ ys b, r = .vec ys b := by
  unfold binaryFn at h
  simp only [bind, Except.bind, pure, Except.pure] at h
  repeat' split at h
  all_goals first | (simp at h; done) | (simp only [Except.ok.injEq] at h; exact ⟨_, _, h.symm⟩)

end FormulaeModel.Design
