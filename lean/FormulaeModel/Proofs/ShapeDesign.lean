import FormulaeModel.Proofs.ShapeTerm
import FormulaeModel.Model.Pipeline
set_option linter.unusedSimpArgs false
set_option linter.unusedVariables false
/-
Shape lemmas (C04 / C17), part 4: the whole of `design_matrices` (Model/Pipeline.lean).  The frame
left by the missing-value step is rectangular; every term of the coded family that is evaluated has
at least one component; hence every block of the response, common and group parts has one row per
row of that frame and a uniform number of columns.
-/
namespace FormulaeModel.Design
open FormulaeModel

/-! ### rectangular frames -/

theorem wellFormed_of_const (g : Frame) (k : Nat) (h : ∀ c ∈ g, c.cells.length = k) :
    g.wellFormed = true := by
  cases g with
  | nil => rfl
  | cons c g =>
    simp only [Frame.wellFormed, Frame.nrows, List.all_eq_true, beq_iff_eq]
    intro c' hc'
    rw [h c' hc', h c (by simp)]

theorem wellFormed_cells (f : Frame) (hwf : f.wellFormed = true) : ∀ c ∈ f, c.cells.length = f.nrows := by
  simp only [Frame.wellFormed, List.all_eq_true, beq_iff_eq] at hwf
  exact hwf

theorem kept_length_congr {α β : Type} (a : List α) (b : List β) (keep : List Bool)
    (h : a.length = b.length) : (NA.kept a keep).length = (NA.kept b keep).length := by
  induction a generalizing b keep with
  | nil =>
    cases b with
    | nil => simp [NA.kept]
    | cons => simp at h
  | cons x a ih =>
    cases b with
    | nil => simp at h
    | cons y b =>
      cases keep with
      | nil => simp [NA.kept]
      | cons k keep =>
        have := ih b keep (by simpa using h)
        simp only [NA.kept] at this ⊢
        cases k <;> simp [this]

/-- the frame the design is built from is rectangular when the data frame is -/
theorem naStep_wellFormed (actions : List String) (action : String) (used : List String)
    (f f' : Frame) (hwf : f.wellFormed = true) (h : NA.naStep actions action used f = .ok f') :
    f'.wellFormed = true := by
  have hsel : ∀ c ∈ NA.selectCols used f, c.cells.length = f.nrows := by
    intro c hc
    simp only [NA.selectCols, List.mem_filter] at hc
    exact wellFormed_cells f hwf c hc.1
  have hselwf := wellFormed_of_const _ _ hsel
  unfold NA.naStep at h
  simp only [] at h
  repeat' split at h
  all_goals first
    | (simp at h; done)
    | (simp only [Except.ok.injEq] at h; subst h; exact hselwf)
    | (simp only [Except.ok.injEq] at h
       subst h
       apply wellFormed_of_const _ (NA.kept (List.replicate f.nrows ()) _).length
       intro c hc
       simp only [NA.keepRows, List.mem_map] at hc
       obtain ⟨c0, hc0, rfl⟩ := hc
       exact kept_length_congr _ _ _ (by simp [hsel c0 hc0]))

end FormulaeModel.Design

namespace FormulaeModel.Encoding
open FormulaeModel.Contrasts

/-! ### the coded family: only the Intercept has no component -/

theorem shape_mapExcept_mem {α β ε : Type} (f : α → Except ε β) (xs : List α) (ys : List β)
    (h : mapExcept f xs = .ok ys) : ∀ y ∈ ys, ∃ x ∈ xs, f x = .ok y := by
  induction xs generalizing ys with
  | nil => simp only [mapExcept, Except.ok.injEq] at h; subst h; simp
  | cons x xs ih =>
    simp only [mapExcept] at h
    split at h
    · simp at h
    · rename_i y hy
      split at h
      · simp at h
      · rename_i ys' hys'
        simp only [Except.ok.injEq] at h
        subst h
        intro y' hy'
        simp only [List.mem_cons] at hy'
        rcases hy' with rfl | hy'
        · exact ⟨x, by simp, hy⟩
        · obtain ⟨x', hx', hfx'⟩ := ih ys' hys' y' hy'
          exact ⟨x', by simp [hx'], hfx'⟩

theorem shape_dict_set_mem {β : Type} (d : Dict β) (k : String) (v : β) (p : String × β)
    (h : p ∈ Dict.set d k v) : p ∈ d ∨ p = (k, v) := by
  induction d with
  | nil => simp only [Dict.set, List.mem_singleton] at h; exact Or.inr h
  | cons e d ih =>
    obtain ⟨k', v'⟩ := e
    simp only [Dict.set] at h
    split at h
    · simp only [List.mem_cons] at h
      rcases h with h | h
      · exact Or.inr h
      · exact Or.inl (by simp [h])
    · simp only [List.mem_cons] at h
      rcases h with h | h
      · exact Or.inl (by simp [h])
      · rcases ih h with h' | h'
        · exact Or.inl (by simp [h'])
        · exact Or.inr h'

theorem shape_designTerms_mem (coded : List CodedTerm) : ∀ ct ∈ designTerms coded, ct ∈ coded := by
  unfold designTerms
  have key : ∀ (xs : List CodedTerm) (d : Dict (List (Comp × Bool))),
      ∀ ct ∈ xs.foldl (fun d t => Dict.set d t.1 t.2) d, ct ∈ d ∨ ct ∈ xs := by
    intro xs
    induction xs with
    | nil => intro d ct h; exact Or.inl h
    | cons x xs ih =>
      intro d ct h
      simp only [List.foldl_cons] at h
      rcases ih _ ct h with h' | h'
      · rcases shape_dict_set_mem d x.1 x.2 ct h' with h'' | h''
        · exact Or.inl h''
        · exact Or.inr (by simp [h''])
      · exact Or.inr (by simp [h'])
  intro ct h
  rcases key coded [] ct h with h' | h'
  · simp at h'
  · exact h'

theorem shape_codeTerm_comps (enc : Dict (List Coding)) (t : TermDesc) (ct : CodedTerm)
    (h : codeTerm enc t = .ok ct) : ct.2 = [] → ct.1 = "Intercept" := by
  unfold codeTerm at h
  have hc : t.comps = [] → t.name = "Intercept" := by
    cases t <;> simp [TermDesc.comps, TermDesc.name]
  split at h
  · simp at h
  · simp only [Except.ok.injEq] at h
    subst h
    intro hnil
    exact hc (by simpa using hnil)
  · simp only [Except.ok.injEq] at h
    subst h
    intro hnil
    exact hc (by simpa using hnil)

/-- every term of the coded family without components is the Intercept -/
theorem shape_run_comps (b : Bool) (ts : List TermDesc) (c : List CodedTerm) (h : run b ts = .ok c) :
    ∀ ct ∈ designTerms c, ct.2 = [] → ct.1 = "Intercept" := by
  intro ct hct
  have hmem := shape_designTerms_mem c ct hct
  unfold run at h
  repeat' split at h
  all_goals first
    | (simp at h; done)
    | (obtain ⟨t, _, ht⟩ := shape_mapExcept_mem _ _ _ h ct hmem
       exact shape_codeTerm_comps _ t ct ht)

end FormulaeModel.Encoding

namespace FormulaeModel.Pipeline
open FormulaeModel FormulaeModel.Design

theorem mapM_forall_gen {ε α β : Type} (f : α → Except ε β) (P : α → β → Prop) (xs : List α)
    (ys : List β) (hxs : xs.mapM f = .ok ys) (hstep : ∀ x ∈ xs, ∀ y, f x = .ok y → P x y) :
    ∀ y ∈ ys, ∃ x ∈ xs, P x y := by
  induction xs generalizing ys with
  | nil => simp [pure, Except.pure] at hxs; subst hxs; simp
  | cons x xs ih =>
    rw [List.mapM_cons] at hxs
    simp only [bind_ok, pure_ok] at hxs
    obtain ⟨y, hy, ys', hys', rfl⟩ := hxs
    intro y' hy'
    simp only [List.mem_cons] at hy'
    rcases hy' with rfl | hy'
    · exact ⟨x, by simp, hstep x (by simp) _ hy⟩
    · obtain ⟨x', hx', hp⟩ := ih ys' hys' (fun x' hx' => hstep x' (by simp [hx'])) y' hy'
      exact ⟨x', by simp [hx'], hp⟩

theorem liftE_ok {α : Type} (x : Design.M α) (a : α) : liftE x = .ok a ↔ x = .ok a := by
  cases x <;> simp [liftE]

/-- no evaluated term is without components (a `Term` of the library has at least one) -/
def Built.termsNonempty (b : Built) : Bool :=
  (match b.response with
   | none => true
   | some out => !out.st.comps.isEmpty) && b.group.all (fun g => g.st.nonempty)

/-- the shape facts about what `designMatrices` returns: a rectangular frame, and for every block
(response, every common term but the Intercept, every group-specific term) the facts of
`TermOut.Shaped` / `GroupOut.Shaped` with respect to the rows of that frame -/
structure Built.Shaped (b : Built) : Prop where
  frame : b.frame.wellFormed = true
  response : ∀ out, b.response = some out → ∃ k, out.Shaped b.frame.nrows k
  common : ∀ p ∈ b.common, (p.2 = none → p.1 = "Intercept") ∧
    ∀ out, p.2 = some out → ∃ k, k ≠ 0 ∧ out.Shaped b.frame.nrows k
  group : ∀ g ∈ b.group, ∃ ne, g.Shaped b.frame.nrows ne

theorem built_shaped (env' : Env) (hwf' : env'.frame.wellFormed = true)
    (hn' : env'.namesSized env'.frame.nrows = true) (atoms : List (String × Expr))
    (response : Option TermOut) (common : List (String × Option TermOut)) (group : List GroupOut)
    (hresp : ∀ out, response = some out → ∃ spec, trainTerm env' atoms spec false true = .ok out)
    (hcommon : ∀ p ∈ common, (p.2 = none → p.1 = "Intercept") ∧
      ∀ out, p.2 = some out → ∃ spec : TermSpec, spec.comps ≠ [] ∧
        trainTerm env' atoms spec false false = .ok out)
    (hgroup : ∀ g ∈ group, ∃ spec, trainGroup env' atoms spec = .ok g) :
    Built.Shaped ⟨env'.frame, response, common, group⟩ := by
  refine ⟨hwf', ?_, ?_, ?_⟩
  · intro out hout
    obtain ⟨spec, hspec⟩ := hresp out hout
    exact ⟨_, trainTerm_shape env' hwf' hn' atoms spec false true out hspec⟩
  · intro p hp
    refine ⟨(hcommon p hp).1, ?_⟩
    intro out hout
    obtain ⟨spec, hne, hspec⟩ := (hcommon p hp).2 out hout
    refine ⟨spec.comps.length, ?_, trainTerm_shape env' hwf' hn' atoms spec false false out hspec⟩
    intro h0
    exact hne (List.length_eq_zero_iff.1 h0)
  · intro g hg
    obtain ⟨spec, hspec⟩ := hgroup g hg
    exact ⟨_, trainGroup_shape env' hwf' hn' atoms spec g hspec⟩

set_option hygiene false in
macro "shape_peel" : tactic => `(tactic| (repeat' (first | simp only [pure_bind] at h | split at h)))
set_option hygiene false in
macro "shape_kill" : tactic =>
  `(tactic| all_goals try (first | (simp at h; done) | (simp only [bind_ok] at h; simp at h; done)))

/-- the whole of `design_matrices`: for every formula, data frame, and caller's namespace -/
theorem designMatrices_shape (table : Parser.Table) (ops : Resolver.OpTable) (actions : List String)
    (formula : String) (env : Env) (naAction : String) (built : Built)
    (hwf : env.frame.wellFormed = true) (hn : env.namesScalar = true)
    (h : designMatrices table ops actions formula env naAction = .ok built) : built.Shaped := by
  unfold designMatrices designMatricesWith at h
  simp only [] at h
  shape_peel
  shape_kill
  all_goals (rw [bind_ok] at h; obtain ⟨descs, hdescs, h⟩ := h)
  all_goals shape_peel
  shape_kill
  all_goals (rw [bind_ok] at h; obtain ⟨common, hcommon, h⟩ := h)
  all_goals (rw [bind_ok] at h; obtain ⟨group, hgroup, h⟩ := h)
  · rename_i _ e _ _ _ _ _ f hna _ hresp _ c hrun
    simp only [pure_ok] at h
    subst h
    have hwf' := naStep_wellFormed _ _ _ _ _ hwf hna
    have hn' : Env.namesSized { frame := f, names := env.names } f.nrows = true :=
      Env.namesSized_of_scalar _ _ hn
    have hc := mapM_forall_gen _ (fun (ct : Encoding.CodedTerm) (p : String × Option TermOut) =>
        (p.2 = none → p.1 = "Intercept") ∧
        ∀ out, p.2 = some out → ∃ spec : TermSpec, spec.comps ≠ [] ∧
          trainTerm { frame := f, names := env.names } (atomTable e) spec false false = .ok out)
      _ _ hcommon (by
        intro ct hct p hp
        have hinv := Encoding.shape_run_comps _ _ _ hrun ct hct
        split at hp
        · rename_i hcond
          simp only [pure_ok] at hp
          subst hp
          simp only [Bool.and_eq_true, beq_iff_eq] at hcond
          exact ⟨fun _ => hcond.2, by simp⟩
        · rename_i hcond
          simp only [bind_ok, pure_ok] at hp
          obtain ⟨out, hout, rfl⟩ := hp
          rw [liftE_ok] at hout
          refine ⟨by simp, ?_⟩
          intro out' hout'
          simp only [Option.some.injEq] at hout'
          subst hout'
          refine ⟨_, ?_, hout⟩
          simp only [ne_eq, List.map_eq_nil_iff]
          intro hnil
          apply hcond
          simp [hnil, hinv hnil])
    have hg := mapM_forall_gen _ (fun (_ : Terms.GTerm) (g : GroupOut) =>
        ∃ spec, trainGroup { frame := f, names := env.names } (atomTable e) spec = .ok g)
      _ _ hgroup (by
        intro g _ y hy
        repeat' split at hy
        all_goals first
          | (simp at hy; done)
          | (simp only [bind_ok] at hy; simp at hy; done)
          | (simp only [pure_bind] at hy; rw [liftE_ok] at hy; exact ⟨_, hy⟩)
          | (rw [liftE_ok] at hy; exact ⟨_, hy⟩))
    exact built_shaped { frame := f, names := env.names } hwf' hn' (atomTable e) none common group
      (by intro out ho; cases ho)
      (fun p hp => let ⟨_, _, hq⟩ := hc p hp; hq)
      (fun g hg' => let ⟨_, _, hq⟩ := hg g hg'; hq)
  · rename_i _ e _ _ _ _ _ f hna _ cs hresp _ c hrun
    simp only [bind_ok, pure_ok] at h
    obtain ⟨out, hout, rfl⟩ := h
    rw [liftE_ok] at hout
    have hwf' := naStep_wellFormed _ _ _ _ _ hwf hna
    have hn' : Env.namesSized { frame := f, names := env.names } f.nrows = true :=
      Env.namesSized_of_scalar _ _ hn
    have hc := mapM_forall_gen _ (fun (ct : Encoding.CodedTerm) (p : String × Option TermOut) =>
        (p.2 = none → p.1 = "Intercept") ∧
        ∀ out, p.2 = some out → ∃ spec : TermSpec, spec.comps ≠ [] ∧
          trainTerm { frame := f, names := env.names } (atomTable e) spec false false = .ok out)
      _ _ hcommon (by
        intro ct hct p hp
        have hinv := Encoding.shape_run_comps _ _ _ hrun ct hct
        split at hp
        · rename_i hcond
          simp only [pure_ok] at hp
          subst hp
          simp only [Bool.and_eq_true, beq_iff_eq] at hcond
          exact ⟨fun _ => hcond.2, by simp⟩
        · rename_i hcond
          simp only [bind_ok, pure_ok] at hp
          obtain ⟨out, hout, rfl⟩ := hp
          rw [liftE_ok] at hout
          refine ⟨by simp, ?_⟩
          intro out' hout'
          simp only [Option.some.injEq] at hout'
          subst hout'
          refine ⟨_, ?_, hout⟩
          simp only [ne_eq, List.map_eq_nil_iff]
          intro hnil
          apply hcond
          simp [hnil, hinv hnil])
    have hg := mapM_forall_gen _ (fun (_ : Terms.GTerm) (g : GroupOut) =>
        ∃ spec, trainGroup { frame := f, names := env.names } (atomTable e) spec = .ok g)
      _ _ hgroup (by
        intro g _ y hy
        repeat' split at hy
        all_goals first
          | (simp at hy; done)
          | (simp only [bind_ok] at hy; simp at hy; done)
          | (simp only [pure_bind] at hy; rw [liftE_ok] at hy; exact ⟨_, hy⟩)
          | (rw [liftE_ok] at hy; exact ⟨_, hy⟩))
    exact built_shaped { frame := f, names := env.names } hwf' hn' (atomTable e) (some out) common group
      (by intro out' ho; cases ho; exact ⟨_, hout⟩)
      (fun p hp => let ⟨_, _, hq⟩ := hc p hp; hq)
      (fun g hg' => let ⟨_, _, hq⟩ := hg g hg'; hq)
end FormulaeModel.Pipeline
