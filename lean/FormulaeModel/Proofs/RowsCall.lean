import FormulaeModel.Proofs.RowsBasic
set_option linter.unusedSimpArgs false
/-
Helper lemmas for C06 (part 2): the element-wise operators and the modelled callees
(`I`, `center`, `Treatment`, `Sum`, `C`, `T`, `S`, `offset`) commute with row selection once the
transform state is the one remembered from training.
-/
namespace FormulaeModel.Design
open FormulaeModel

theorem getD_zipWith_entryOp (f : Rat → Rat → Option Rat) (xs ys : List Entry) (i : Nat) :
    (List.zipWith (entryOp f) xs ys).getD i none = entryOp f (xs.getD i none) (ys.getD i none) := by
  simp only [List.getD_eq_getElem?_getD, List.getElem?_zipWith]
  cases xs[i]? <;> cases ys[i]? <;> simp [entryOp]

theorem pick_zipWith_entryOp (f : Rat → Rat → Option Rat) (xs ys : List Entry) (is : List Nat) :
    pick is none (List.zipWith (entryOp f) xs ys) =
      List.zipWith (entryOp f) (pick is none xs) (pick is none ys) := by
  induction is with
  | nil => rfl
  | cons i is ih =>
    simp only [pick, List.map_cons, List.zipWith_cons_cons] at ih ⊢
    rw [ih, getD_zipWith_entryOp]

theorem pick_map_none {α β : Type} (g : Option α → Option β) (hg : g none = none) (is : List Nat)
    (xs : List (Option α)) : pick is none (xs.map g) = (pick is none xs).map g := by
  have := pick_map g is none xs
  rw [hg] at this
  exact this

/-- the arithmetic of the lazy operators is element-wise -/
theorem vecOp_rows (f : Rat → Rat → Option Rat) (a b c : Val) (is : List Nat)
    (h : vecOp f a b = .ok c) : vecOp f (a.rows is) (b.rows is) = .ok (c.rows is) := by
  unfold vecOp at h
  split at h
  · simp only [pure, Except.pure, Except.ok.injEq] at h; subst h
    simp [vecOp, Val.rows, pure, Except.pure, pick_zipWith_entryOp]
  · simp only [pure, Except.pure, Except.ok.injEq] at h; subst h
    simp only [vecOp, Val.rows, pure, Except.pure, Except.ok.injEq, Val.vec.injEq, and_true]
    rw [pick_map_none _ (by rfl)]
  · simp only [pure, Except.pure, Except.ok.injEq] at h; subst h
    simp only [vecOp, Val.rows, pure, Except.pure, Except.ok.injEq, Val.vec.injEq, and_true]
    rw [pick_map_none _ (by rfl)]
  · split at h
    · simp only [pure, Except.pure, Except.ok.injEq] at h; subst h
      simp [vecOp, Val.rows, pure, Except.pure, *]
    · simp at h
  · simp at h

theorem vecOp_good (f : Rat → Rat → Option Rat) (a b c : Val) (n : Nat) (ha : a.good n) (hb : b.good n)
    (h : vecOp f a b = .ok c) : c.good n := by
  unfold vecOp at h
  split at h
  · simp only [pure, Except.pure, Except.ok.injEq] at h; subst h
    simp only [Val.good] at *; simp [ha, hb]
  · simp only [pure, Except.pure, Except.ok.injEq] at h; subst h
    simp only [Val.good] at *; simp [ha]
  · simp only [pure, Except.pure, Except.ok.injEq] at h; subst h
    simp only [Val.good] at *; simp [hb]
  · split at h
    · simp only [pure, Except.pure, Except.ok.injEq] at h; subst h; simp [Val.good]
    · simp at h
  · simp at h

/-! ### call arguments -/

def CallArgs.rows (a : CallArgs) (is : List Nat) : CallArgs :=
  ⟨a.pos.map (Val.rows is), a.kw.map (fun p => (p.1, p.2.rows is))⟩

def CallArgs.good (n : Nat) (a : CallArgs) : Prop :=
  (∀ v ∈ a.pos, v.good n) ∧ (∀ p ∈ a.kw, p.2.good n)

theorem CallArgs.get_rows (a : CallArgs) (is : List Nat) (i : Nat) (name : String) :
    (a.rows is).get i name = (a.get i name).rows is := by
  simp only [CallArgs.get, CallArgs.rows, List.getElem?_map]
  cases a.pos[i]? with
  | some v => rfl
  | none =>
    simp only [Option.map_none, List.find?_map]
    have : ((fun (x : String × Val) => x.1 == name) ∘ fun (p : String × Val) => (p.1, Val.rows is p.2))
        = fun x => x.1 == name := rfl
    rw [this]
    cases List.find? (fun x => x.1 == name) a.kw <;> rfl

theorem CallArgs.get_good (a : CallArgs) (n : Nat) (h : a.good n) (i : Nat) (name : String) :
    (a.get i name).good n := by
  simp only [CallArgs.get]
  cases hp : a.pos[i]? with
  | some v => exact h.1 v (List.mem_of_getElem? hp)
  | none =>
    cases hk : List.find? (fun x => x.1 == name) a.kw with
    | none => simp [Val.good]
    | some p => exact h.2 p (List.mem_of_find?_eq_some hk)

theorem levelOfVal_rows (v : Val) (is : List Nat) : levelOfVal (v.rows is) = levelOfVal v := by
  cases v <;> rfl

theorem contrastOfVal_rows (v : Val) (is : List Nat) : contrastOfVal (v.rows is) = contrastOfVal v := by
  cases v <;> rfl

theorem levelsOfVal_rows (v : Val) (is : List Nat) : levelsOfVal (v.rows is) = levelsOfVal v := by
  cases v <;> rfl

end FormulaeModel.Design

namespace FormulaeModel.Design
open FormulaeModel

/-! ### the callees -/

/-- `CategoricalBox` without explicit levels over data that is not an ordered categorical: no
check against the data is made -/
theorem mkBox_plain (data : List (Option Level)) (decl : Option (Bool × List String))
    (contrast : Option Contrast) (hdecl : ∀ cats, decl ≠ some (true, cats)) :
    mkBox data decl contrast none = .ok ⟨data, contrast, none⟩ := by
  cases decl with
  | none => rfl
  | some p =>
    obtain ⟨b, cats⟩ := p
    cases b with
    | false => rfl
    | true => exact absurd rfl (hdecl cats)

/-- the part of the D13 class that is visible at a call node at training time: a `C/T/S` call that
receives explicit `levels` or whose data is an ordered categorical -/
def Val.isPyNone : Val → Bool
  | .pyNone => true
  | _ => false

/-- not the values of an ordered categorical column -/
def Val.notOrdered : Val → Bool
  | .lvec _ (some (true, _)) => false
  | _ => true

def d13ArgsOk (callee : String) (a : CallArgs) : Bool :=
  if callee == "C" || callee == "T" || callee == "S" then
    (a.get 2 "levels").isPyNone && (a.get 0 "data").notOrdered
  else true

theorem dataLevels_rows (d : Val) (is : List Nat) (xs : List (Option Level)) (decl : Option (Bool × List String))
    (h : dataLevels d = .ok (xs, decl)) : dataLevels (d.rows is) = .ok (pick is none xs, decl) := by
  unfold dataLevels at h
  split at h
  · simp only [pure, Except.pure, Except.ok.injEq, Prod.mk.injEq] at h
    obtain ⟨rfl, rfl⟩ := h
    simp [Val.rows, dataLevels, pure, Except.pure]
  · simp only [pure, Except.pure, Except.ok.injEq, Prod.mk.injEq] at h
    obtain ⟨rfl, rfl⟩ := h
    simp only [Val.rows, dataLevels, pure, Except.pure, Except.ok.injEq, Prod.mk.injEq, and_true]
    rw [pick_map_none _ (by rfl)]
  · simp at h

theorem dataLevels_good (d : Val) (n : Nat) (hg : d.good n) (xs : List (Option Level))
    (decl : Option (Bool × List String)) (h : dataLevels d = .ok (xs, decl)) : xs.length = n := by
  unfold dataLevels at h
  split at h
  · simp only [pure, Except.pure, Except.ok.injEq, Prod.mk.injEq] at h
    obtain ⟨rfl, rfl⟩ := h
    simpa [Val.good] using hg
  · simp only [pure, Except.pure, Except.ok.injEq, Prod.mk.injEq] at h
    obtain ⟨rfl, rfl⟩ := h
    simpa [Val.good] using hg
  · simp at h

theorem dataLevels_decl (d : Val) (xs : List (Option Level)) (decl : Option (Bool × List String))
    (hd : d.notOrdered = true)
    (h : dataLevels d = .ok (xs, decl)) : ∀ cats, decl ≠ some (true, cats) := by
  unfold dataLevels at h
  split at h
  · simp only [pure, Except.pure, Except.ok.injEq, Prod.mk.injEq] at h
    obtain ⟨rfl, rfl⟩ := h
    intro cats hc
    subst hc
    simp [Val.notOrdered] at hd
  · simp only [pure, Except.pure, Except.ok.injEq, Prod.mk.injEq] at h
    obtain ⟨rfl, rfl⟩ := h
    simp
  · simp at h

end FormulaeModel.Design

namespace FormulaeModel.Design
open FormulaeModel

theorem boxCall_rows (d : Val) (n : Nat) (is : List Nat) (hg : d.good n)
    (hdta : d.notOrdered = true)
    (c : Option Contrast) (own : Option Rat) (r : Val × Option Rat)
    (h : (do
      let __x ← dataLevels d
      match __x with
        | (xs, decl) => do
          let __do_lift ← mkBox xs decl c none
          pure (Val.box __do_lift, own)) = Except.ok r) :
    r.1.good n ∧ r.2 = own ∧ (do
      let __x ← dataLevels (d.rows is)
      match __x with
        | (xs, decl) => do
          let __do_lift ← mkBox xs decl c none
          pure (Val.box __do_lift, own)) = Except.ok (r.1.rows is, own) := by
  simp only [bind_ok] at h ⊢
  obtain ⟨⟨xs, decl⟩, h1, h2⟩ := h
  have hdecl := dataLevels_decl _ xs decl hdta h1
  have hlen := dataLevels_good _ n hg xs decl h1
  simp only [mkBox_plain xs decl c hdecl, ok_bind, pure_ok] at h2
  obtain ⟨b, hb, rfl⟩ := h2
  cases hb
  refine ⟨by simp [Val.good, hlen], rfl, ⟨(pick is none xs, decl), dataLevels_rows _ is xs decl h1, ?_⟩⟩
  refine ⟨_, mkBox_plain _ decl c hdecl, ?_⟩
  rfl

theorem levelsOfVal_none (v : Val) (h : v.isPyNone = true) : levelsOfVal v = .ok none := by
  revert h; cases v <;> simp [levelsOfVal, Val.isPyNone, pure, Except.pure]

theorem applyCallee_rows (callee : String) (a : CallArgs) (n : Nat) (is : List Nat) (v : Val)
    (own' : Option Rat) (hg : a.good n) (hd : d13ArgsOk callee a = true)
    (h : applyCallee callee a none = .ok (v, own')) :
    v.good n ∧ applyCallee callee (a.rows is) own' = .ok (v.rows is, own') := by
  unfold applyCallee at h
  split at h
  · -- I
    split at h
    · rename_i w hw
      simp only [pure_ok, Prod.mk.injEq] at h
      obtain ⟨rfl, rfl⟩ := h
      refine ⟨hg.1 _ (by simp [hw]), ?_⟩
      simp [applyCallee, CallArgs.rows, hw, pure, Except.pure]
    · simp at h
  · -- center
    split at h
    · rename_i xs isInt hw
      simp only at h
      split at h
      · rename_i m hm
        simp only [pure_ok, Prod.mk.injEq] at h
        obtain ⟨rfl, rfl⟩ := h
        have := hg.1 (Val.vec xs isInt) (by simp [hw])
        refine ⟨by simpa [Val.good] using this, ?_⟩
        simp only [applyCallee, CallArgs.rows, hw, List.map_cons, List.map_nil, Val.rows, pure, Except.pure,
          Except.ok.injEq, Prod.mk.injEq, and_true, Val.vec.injEq]
        rw [pick_map_none _ (by rfl)]
      · simp at h
    · simp at h
  · simp only [pure_ok, Prod.mk.injEq] at h
    obtain ⟨rfl, rfl⟩ := h
    refine ⟨by simp [Val.good], ?_⟩
    simp only [applyCallee, CallArgs.get_rows, levelOfVal_rows, pure, Except.pure]
    rfl
  · simp only [pure_ok, Prod.mk.injEq] at h
    obtain ⟨rfl, rfl⟩ := h
    refine ⟨by simp [Val.good], ?_⟩
    simp only [applyCallee, CallArgs.get_rows, levelOfVal_rows, pure, Except.pure]
    rfl
  · -- C
    simp only [d13ArgsOk, beq_self_eq_true, Bool.true_or, if_true, Bool.and_eq_true] at hd
    have hlv := levelsOfVal_none _ hd.1
    simp only [bind_ok] at h
    obtain ⟨contrast, hc, levels, hl', h⟩ := h
    rw [hlv] at hl'
    cases hl'
    simp only [applyCallee]
    rw [CallArgs.get_rows a is 1, CallArgs.get_rows a is 2, CallArgs.get_rows a is 0, contrastOfVal_rows,
      levelsOfVal_rows, hc, hlv]
    simp only [ok_bind]
    have hg0 := CallArgs.get_good a n hg 0 "data"
    have hd2 := hd.2
    generalize a.get 0 "data" = d at h hg0 hd2 ⊢
    cases d with
    | box b =>
      simp only [Val.good] at hg0
      simp only [hg0.2, bind_ok] at h
      obtain ⟨b', hb', h⟩ := h
      have : mkBox b.data none (contrast <|> b.contrast) ((none : Option (List Level)) <|> none)
          = .ok ⟨b.data, contrast <|> b.contrast, none⟩ := mkBox_plain _ _ _ (by simp)
      rw [this] at hb'
      cases hb'
      simp only [pure_ok, Prod.mk.injEq] at h
      obtain ⟨rfl, rfl⟩ := h
      refine ⟨by simp [Val.good, hg0.1], ?_⟩
      simp only [Val.rows, hg0.2]
      have : mkBox (pick is none b.data) none (contrast <|> b.contrast) ((none : Option (List Level)) <|> none)
          = .ok ⟨pick is none b.data, contrast <|> b.contrast, none⟩ := mkBox_plain _ _ _ (by simp)
      rw [this]
      rfl
    | lvec xs dd =>
      have := boxCall_rows (.lvec xs dd) n is hg0 hd2 contrast none (v, own') h
      obtain ⟨h1, h2, h3⟩ := this
      simp only at h2
      subst h2
      exact ⟨h1, h3⟩
    | vec xs b =>
      have := boxCall_rows (.vec xs b) n is hg0 hd2 contrast none (v, own') h
      obtain ⟨h1, h2, h3⟩ := this
      simp only at h2
      subst h2
      exact ⟨h1, h3⟩
    | _ => simp [dataLevels, bind, Except.bind] at h
  · simp only [d13ArgsOk, beq_self_eq_true, Bool.true_or, Bool.or_true, if_true, Bool.and_eq_true] at hd
    have hlv := levelsOfVal_none _ hd.1
    rw [hlv] at h
    simp only [ok_bind] at h
    have := boxCall_rows _ n is (CallArgs.get_good a n hg 0 "data") hd.2 _ none (v, own') h
    obtain ⟨h1, h2, h3⟩ := this
    simp only at h2
    subst h2
    refine ⟨h1, ?_⟩
    simp only [applyCallee]
    rw [CallArgs.get_rows a is 1, CallArgs.get_rows a is 2, CallArgs.get_rows a is 0, levelOfVal_rows,
      levelsOfVal_rows, hlv]
    exact h3
  · simp only [d13ArgsOk, beq_self_eq_true, Bool.true_or, Bool.or_true, if_true, Bool.and_eq_true] at hd
    have hlv := levelsOfVal_none _ hd.1
    rw [hlv] at h
    simp only [ok_bind] at h
    have := boxCall_rows _ n is (CallArgs.get_good a n hg 0 "data") hd.2 _ none (v, own') h
    obtain ⟨h1, h2, h3⟩ := this
    simp only at h2
    subst h2
    refine ⟨h1, ?_⟩
    simp only [applyCallee]
    rw [CallArgs.get_rows a is 1, CallArgs.get_rows a is 2, CallArgs.get_rows a is 0, levelOfVal_rows,
      levelsOfVal_rows, hlv]
    exact h3
  · -- offset
    split at h
    · rename_i xs isInt hw
      simp only [pure_ok, Prod.mk.injEq] at h
      obtain ⟨rfl, rfl⟩ := h
      have := hg.1 (Val.vec xs isInt) (by simp [hw])
      refine ⟨by simpa [Val.good] using this, ?_⟩
      simp [applyCallee, CallArgs.rows, hw, Val.rows, pure, Except.pure]
    · rename_i q isInt hw
      simp only [pure_ok, Prod.mk.injEq] at h
      obtain ⟨rfl, rfl⟩ := h
      refine ⟨by simp [Val.good], ?_⟩
      simp [applyCallee, CallArgs.rows, hw, Val.rows, pure, Except.pure]
    · simp at h
  · simp at h

end FormulaeModel.Design

namespace FormulaeModel.Design
open FormulaeModel

theorem applyCallee_own (callee : String) (a : CallArgs) (own : Option Rat) (v : Val) (o : Option Rat)
    (hc : callee ≠ "center") (h : applyCallee callee a own = .ok (v, o)) : o = own := by
  unfold applyCallee at h
  split at h
  · split at h
    · simp only [pure_ok, Prod.mk.injEq] at h; exact h.2.symm
    · simp at h
  · exact absurd rfl hc
  · simp only [pure_ok, Prod.mk.injEq] at h; exact h.2.symm
  · simp only [pure_ok, Prod.mk.injEq] at h; exact h.2.symm
  · simp only [bind_ok] at h
    obtain ⟨c, _, l, _, h⟩ := h
    split at h
    · simp only [bind_ok, pure_ok, Prod.mk.injEq] at h
      obtain ⟨_, _, _, rfl⟩ := h; rfl
    · simp only [bind_ok, pure_ok, Prod.mk.injEq] at h
      obtain ⟨_, _, _, _, _, rfl⟩ := h; rfl
  · simp only [bind_ok, pure_ok, Prod.mk.injEq] at h
    obtain ⟨_, _, _, _, _, _, _, rfl⟩ := h; rfl
  · simp only [bind_ok, pure_ok, Prod.mk.injEq] at h
    obtain ⟨_, _, _, _, _, _, _, rfl⟩ := h; rfl
  · split at h
    · simp only [pure_ok, Prod.mk.injEq] at h; exact h.2.symm
    · simp only [pure_ok, Prod.mk.injEq] at h; exact h.2.symm
    · simp at h
  · simp at h

theorem applyCallee_center_some (a : CallArgs) (m : Rat) (v : Val) (o : Option Rat)
    (h : applyCallee "center" a (some m) = .ok (v, o)) : o = some m := by
  simp only [applyCallee] at h
  split at h
  · simp only [pure_ok, Prod.mk.injEq] at h; exact h.2.symm
  · simp at h

theorem applyCallee_center_none (a : CallArgs) (v : Val) (o : Option Rat)
    (h : applyCallee "center" a none = .ok (v, o)) : ∃ m, o = some m := by
  simp only [applyCallee] at h
  split at h
  · split at h
    · simp only [pure_ok, Prod.mk.injEq] at h; exact ⟨_, h.2.symm⟩
    · simp at h
  · simp at h

/-- the state a callee leaves after its first call is the state every later call leaves -/
theorem applyCallee_frozen (callee : String) (a a' : CallArgs) (v v' : Val) (o o' : Option Rat)
    (h : applyCallee callee a none = .ok (v, o)) (h' : applyCallee callee a' o = .ok (v', o')) :
    o' = o := by
  by_cases hc : callee = "center"
  · subst hc
    obtain ⟨m, rfl⟩ := applyCallee_center_none a v o h
    exact applyCallee_center_some a' m v' o' h'
  · exact applyCallee_own callee a' o v' o' hc h'

theorem finishCall_frozen (callee : String) (a a' : CallArgs) (v v' : Val) (o o' : Option Rat)
    (h : finishCall callee a none = .ok (v, o)) (h' : finishCall callee a' o = .ok (v', o')) :
    o' = o := by
  unfold finishCall at h h'
  split at h
  · simp only [bind_ok, pure_ok, Prod.mk.injEq] at h h'
    obtain ⟨_, _, _, rfl⟩ := h
    obtain ⟨_, _, _, rfl⟩ := h'
    rfl
  · simp only [bind_ok, pure_ok, Prod.mk.injEq] at h h'
    obtain ⟨_, _, _, rfl⟩ := h
    obtain ⟨_, _, _, rfl⟩ := h'
    rfl
  · simp only [bind_ok, pure_ok, Prod.mk.injEq] at h h'
    obtain ⟨_, _, _, rfl⟩ := h
    obtain ⟨_, _, _, rfl⟩ := h'
    rfl
  · simp only [bind_ok, pure_ok, Prod.mk.injEq] at h h'
    obtain ⟨_, _, _, rfl⟩ := h
    obtain ⟨_, _, _, rfl⟩ := h'
    rfl
  · simp only [bind_ok, pure_ok, Prod.mk.injEq] at h h'
    obtain ⟨_, _, _, rfl⟩ := h
    obtain ⟨_, _, _, rfl⟩ := h'
    rfl
  · split at h' <;> first | exact applyCallee_frozen callee a a' v v' o o' h h' | (exfalso; simp_all)

/-! ### `proportion` -/

theorem isIntegral_pick (xs : List Entry) (is : List Nat) (h : isIntegral xs = true)
    (his : ∀ i ∈ is, i < xs.length) : isIntegral (pick is none xs) = true := by
  simp only [isIntegral, List.all_eq_true] at h ⊢
  intro x hx
  exact h x (mem_pick is none xs his x hx)

theorem zipWith_all_pick {α β : Type} (g : α → β → Bool) (xs : List α) (ys : List β) (d : α) (d' : β)
    (is : List Nat) (h : (List.zipWith g xs ys).all id = true) (hx : ∀ i ∈ is, i < xs.length)
    (hy : ∀ i ∈ is, i < ys.length) : (List.zipWith g (pick is d xs) (pick is d' ys)).all id = true := by
  induction is with
  | nil => rfl
  | cons i is ih =>
    have hi := hx i (by simp)
    have hi' := hy i (by simp)
    simp only [pick, List.map_cons, List.zipWith_cons_cons, List.all_cons, id, Bool.and_eq_true] at ih ⊢
    refine ⟨?_, ih (fun j hj => hx j (by simp [hj])) (fun j hj => hy j (by simp [hj]))⟩
    simp only [List.all_eq_true] at h
    have := h (g xs[i] ys[i]) (by
      rw [List.mem_iff_getElem]
      exact ⟨i, by simp only [List.length_zipWith]; omega, by simp⟩)
    simpa [List.getD_eq_getElem?_getD, List.getElem?_eq_getElem hi, List.getElem?_eq_getElem hi'] using this

theorem proportionFn_rows (s t v : Val) (n : Nat) (is : List Nat) (hs : s.good n) (ht : t.good n)
    (his : ∀ i ∈ is, i < n) (h : proportionFn s t = .ok v) :
    v.good n ∧ proportionFn (s.rows is) (t.rows is) = .ok (v.rows is) := by
  unfold proportionFn at h
  split at h
  · rename_i ss b
    simp only [Val.good] at hs
    have hss : ∀ i ∈ is, i < ss.length := fun i hi => hs ▸ his i hi
    simp only [] at h
    split at h
    · rename_i ts b'
      simp only [Val.good] at ht
      have hts : ∀ i ∈ is, i < ts.length := fun i hi => ht ▸ his i hi
      simp only [pure_bind] at h
      split at h
      · simp at h
      · split at h
        · simp at h
        · split at h
          · simp at h
          · rename_i hi1 hi2 hle
            simp only [pure_ok] at h
            subst h
            simp only [Bool.not_eq_true, Bool.not_eq_false'] at hi1 hi2 hle
            refine ⟨by simp [Val.good, hs, ht], ?_⟩
            simp only [proportionFn, Val.rows, pure_bind, isIntegral_pick _ is hi1 hss,
              isIntegral_pick _ is hi2 hts, zipWith_all_pick _ _ _ none none is hle hss hts,
              Bool.not_true, Bool.false_eq_true, if_false]
            rfl
    · rename_i q
      simp only [pure_bind] at h
      split at h
      · simp at h
      · split at h
        · simp at h
        · split at h
          · simp at h
          · rename_i hi1 hi2 hle
            simp only [pure_ok] at h
            subst h
            simp only [Bool.not_eq_true, Bool.not_eq_false'] at hi1 hi2 hle
            have hrep : pick is none (List.replicate ss.length (some q)) =
                List.replicate (pick is none ss).length (some q) := by
              rw [pick_replicate is none (some q) ss.length hss]; simp
            refine ⟨by simp [Val.good, hs], ?_⟩
            have hts : ∀ i ∈ is, i < (List.replicate ss.length (some q)).length := by simpa using hss
            have e2 := isIntegral_pick _ is hi2 hts
            have e3 := zipWith_all_pick _ _ _ none none is hle hss hts
            rw [hrep] at e2 e3
            simp only [proportionFn, Val.rows, pure_bind, isIntegral_pick _ is hi1 hss, e2, e3,
              Bool.not_true, Bool.false_eq_true, if_false, hrep]
            rfl
    · simp [bind, Except.bind] at h
  · simp at h


end FormulaeModel.Design
