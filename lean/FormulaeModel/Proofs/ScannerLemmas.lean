import FormulaeModel.Model.Scanner
import FormulaeModel.Spec.C01
set_option linter.unusedSimpArgs false
set_option linter.unusedVariables false
/-
Helper lemmas for the scanner part of C01 (`C01_second_tilde`, `C01_unterminated`, `C01_ws`).
-/
namespace FormulaeModel.Scanner
open FormulaeModel FormulaeModel.Spec.C01.Layout

/-! ### `List.span` -/

theorem span_loop_spec {α} (p : α → Bool) (l acc : List α) :
    List.span.loop p l acc = (acc.reverse ++ l.takeWhile p, l.dropWhile p) := by
  induction l generalizing acc with
  | nil => simp [List.span.loop]
  | cons a l ih =>
    simp only [List.span.loop]
    cases h : p a <;> simp [h, ih, List.takeWhile_cons, List.dropWhile_cons]

theorem span_spec {α} (p : α → Bool) (l : List α) : l.span p = (l.takeWhile p, l.dropWhile p) := by
  simp [List.span, span_loop_spec]

/-- `span` stops exactly at the first element that fails the test. -/
theorem span_append_stop {α} (p : α → Bool) (pre : List α) (x : α) (post : List α)
    (h1 : ∀ a ∈ pre, p a = true) (h2 : p x = false) :
    (pre ++ x :: post).span p = (pre, x :: post) := by
  rw [span_spec, List.takeWhile_append_of_pos h1, List.dropWhile_append_of_pos h1]
  simp [List.takeWhile_cons, List.dropWhile_cons, h2]

theorem span_all {α} (p : α → Bool) (l : List α) (h : ∀ a ∈ l, p a = true) : l.span p = (l, []) := by
  have := List.takeWhile_append_of_pos (l₂ := []) h
  have h2 := List.dropWhile_append_of_pos (l₂ := []) h
  simp only [List.append_nil, List.takeWhile_nil, List.dropWhile_nil] at this h2
  rw [span_spec, this, h2]

theorem span_length_le {α} (p : α → Bool) (l : List α) : (l.span p).2.length ≤ l.length := by
  rw [span_spec]
  exact (List.dropWhile_sublist p).length_le

/-! ### the tilde check and the implicit intercept -/

theorem one_not_tilde : isTilde one = false := by decide
theorem plus_not_tilde : isTilde plus = false := by decide

theorem addIntercept_no_tilde (ts : List Token) (h : ts.any isTilde = false) :
    addIntercept ts = one :: plus :: ts := by
  simp [addIntercept, h]

theorem addIntercept_tilde (pre : List Token) (tl : Token) (post : List Token)
    (hpre : ∀ a ∈ pre, isTilde a = false) (htl : isTilde tl = true) :
    addIntercept (pre ++ tl :: post) = pre ++ tl :: one :: plus :: post := by
  have hany : (pre ++ tl :: post).any isTilde = true := by simp [htl]
  unfold addIntercept
  simp only [hany, if_true]
  rw [span_append_stop (fun t => !isTilde t) pre tl post (by intro a ha; simp [hpre a ha]) (by simp [htl])]

/-- Decomposition of a token list at its first tilde. -/
theorem split_first_tilde (ts : List Token) (h : ts.any isTilde = true) :
    ∃ pre tl post, ts = pre ++ tl :: post ∧ (∀ a ∈ pre, isTilde a = false) ∧ isTilde tl = true := by
  induction ts with
  | nil => simp at h
  | cons t ts ih =>
    cases ht : isTilde t with
    | true => exact ⟨[], t, ts, rfl, by simp, ht⟩
    | false =>
      have : ts.any isTilde = true := by simpa [ht] using h
      obtain ⟨pre, tl, post, h1, h2, h3⟩ := ih this
      refine ⟨t :: pre, tl, post, by simp [h1], ?_, h3⟩
      intro a ha
      rcases List.mem_cons.1 ha with rfl | ha
      · exact ht
      · exact h2 a ha

theorem filter_tilde_count (pre : List Token) (tl : Token) (post : List Token)
    (hpre : ∀ a ∈ pre, isTilde a = false) (htl : isTilde tl = true)
    (hc : ((pre ++ tl :: post).filter isTilde).length ≤ 1) : ∀ a ∈ post, isTilde a = false := by
  intro a ha
  cases hta : isTilde a with
  | false => rfl
  | true =>
    have h1 : (pre.filter isTilde) = [] := by
      rw [List.filter_eq_nil_iff]; intro b hb; simp [hpre b hb]
    have h2 : 0 < (post.filter isTilde).length :=
      List.length_pos_of_mem (List.mem_filter.2 ⟨ha, hta⟩)
    rw [List.filter_append, List.length_append, h1, List.filter_cons_of_pos htl] at hc
    simp only [List.length_nil, List.length_cons] at hc
    omega

/-- What `scan` returns, in terms of the token list of the main loop. -/
theorem scan_ok {code : List Char} {addInt : Bool} {ts : List Token} (h : scan code addInt = .ok ts) :
    ∃ ts0, scanLoop (code.length + 1) code = .ok ts0 ∧ (ts0.filter isTilde).length ≤ 1 ∧
      ts = (if addInt then addIntercept ts0 else ts0) := by
  unfold scan at h
  split at h
  · cases h
  · split at h
    · cases h
    · simp only [bind, Except.bind] at h
      split at h
      · cases h
      · rename_i ts0 h0
        split at h
        · cases h
        · rename_i hc
          simp only [pure, Except.pure, Except.ok.injEq] at h
          exact ⟨ts0, h0, by omega, h.symm⟩

/-! ### unterminated quotes -/

theorem scanToken_unterminated_string (q : Char) (cs : List Char) (hq : isQuote q = true)
    (hno : ∀ c ∈ cs, isQuote c = false) : scanToken (q :: cs) = .error .unterminatedString := by
  unfold scanToken
  simp only [hq, if_true]
  rw [span_all (fun d => !isQuote d) cs (by intro a ha; simp [hno a ha])]

theorem scanToken_unterminated_backquote (cs : List Char) (hno : ∀ c ∈ cs, c ≠ '`') :
    scanToken ('`' :: cs) = .error .unterminatedBackquote := by
  unfold scanToken
  have : isQuote '`' = false := by decide
  simp only [this]
  rw [span_all (fun d => d != '`') cs (by intro a ha; simp [hno a ha])]
  simp

theorem scanLoop_reaches {cs r : List Char} (hb : Boundary cs r) :
    ∀ n ts, scanLoop n cs = .ok ts → ∃ n' ts', scanLoop n' r = .ok ts' := by
  induction hb with
  | here cs => intro n ts h; exact ⟨n, ts, h⟩
  | @step cs cs' r t hst _ ih =>
    intro n ts h
    cases cs with
    | nil => simp [scanToken] at hst
    | cons c cs1 =>
      cases n with
      | zero => simp [scanLoop] at h
      | succ n =>
        simp only [scanLoop, hst, bind, Except.bind] at h
        split at h
        · cases h
        · rename_i ts1 h1
          exact ih n ts1 h1

theorem scanLoop_error_of_head {cs : List Char} {e : ScanErr} (h : scanToken cs = .error e)
    (hne : cs ≠ []) (n : Nat) (ts : List Token) : scanLoop n cs ≠ .ok ts := by
  cases cs with
  | nil => exact absurd rfl hne
  | cons c cs1 =>
    cases n with
    | zero => simp [scanLoop]
    | succ n => simp [scanLoop, h, bind, Except.bind]

/-! ### whitespace, fuel of the main loop -/

theorem isWs_cases {w : Char} (h : isWs w = true) : w = ' ' ∨ w = '\n' ∨ w = '\t' ∨ w = '\r' := by
  simp only [isWs, Bool.or_eq_true, beq_iff_eq] at h
  rcases h with ((h | h) | h) | h <;> simp [h]

theorem scanToken_ws (w : Char) (cs : List Char) (h : isWs w = true) :
    scanToken (w :: cs) = .ok (none, cs) := by
  rcases isWs_cases h with rfl | rfl | rfl | rfl <;> simp [scanToken, isQuote, isWs]

theorem ite_cases {α : Type} {c : Prop} [Decidable c] {a b x : α} (h : (if c then a else b) = x) :
    (c ∧ a = x) ∨ (¬c ∧ b = x) := by
  split at h
  · exact Or.inl ⟨‹_›, h⟩
  · exact Or.inr ⟨‹_›, h⟩

theorem scanToken_length {cs : List Char} {t : Option Token} {rest : List Char}
    (h : scanToken cs = .ok (t, rest)) : rest.length < cs.length := by
  cases cs with
  | nil => simp [scanToken] at h
  | cons c cs =>
  have hsp := @span_length_le Char
  unfold scanToken at h
  iterate 25
    rcases ite_cases h with ⟨hc, h⟩ | ⟨-, h⟩
    · (repeat' split at h) <;> grind
  cases h


/-- With fuel at least the length of the input the main loop's answer does not depend on the fuel. -/
theorem scanLoop_fuel : ∀ (n m : Nat) (cs : List Char), cs.length ≤ n → cs.length ≤ m →
    scanLoop n cs = scanLoop m cs := by
  intro n
  induction n with
  | zero =>
    intro m cs h _
    have : cs = [] := List.eq_nil_of_length_eq_zero (by omega)
    subst this
    cases m <;> rfl
  | succ n ih =>
    intro m cs hn hm
    cases cs with
    | nil => cases m <;> rfl
    | cons c cs1 =>
      cases m with
      | zero => simp at hm
      | succ m =>
        simp only [scanLoop, bind, Except.bind]
        cases hst : scanToken (c :: cs1) with
        | error e => rfl
        | ok v =>
          obtain ⟨t, rest⟩ := v
          have hl := scanToken_length hst
          simp only [List.length_cons] at hl hn hm
          have e := ih m rest (by omega) (by omega)
          simp only [e]

theorem scanLoop_ne_fuel : ∀ (n : Nat) (cs : List Char), cs.length ≤ n → scanLoop n cs ≠ .error .fuel := by
  intro n
  induction n with
  | zero =>
    intro cs h
    have : cs = [] := List.eq_nil_of_length_eq_zero (by omega)
    subst this; simp [scanLoop]
  | succ n ih =>
    intro cs hn
    cases cs with
    | nil => simp [scanLoop]
    | cons c cs1 =>
      simp only [scanLoop, bind, Except.bind]
      cases hst : scanToken (c :: cs1) with
      | error e =>
        simp only []
        intro hc
        cases hc
        -- `scanToken` never answers `.fuel`
        exfalso
        revert hst
        unfold scanToken
        intro h
        iterate 25
          rcases ite_cases h with ⟨hc, h⟩ | ⟨-, h⟩
          · (repeat' split at h) <;> first | cases h | grind
        cases h
      | ok v =>
        obtain ⟨t, rest⟩ := v
        have hl := scanToken_length hst
        simp only [List.length_cons] at hl hn
        have := ih rest (by omega)
        simp only []
        cases h2 : scanLoop n rest with
        | error e => simp only []; intro hc; cases hc; exact this h2
        | ok ts => cases t <;> simp [pure, Except.pure]

/-- `scan_token` over the whole input. -/
def scanAll (cs : List Char) : Except ScanErr (List Token) := scanLoop cs.length cs

theorem scanLoop_eq_scanAll (n : Nat) (cs : List Char) (h : cs.length ≤ n) :
    scanLoop n cs = scanAll cs := scanLoop_fuel n cs.length cs h (Nat.le_refl _)

theorem scanAll_nil : scanAll [] = .ok [] := rfl

theorem scanAll_ws (w : Char) (cs : List Char) (h : isWs w = true) : scanAll (w :: cs) = scanAll cs := by
  simp only [scanAll, List.length_cons, scanLoop, scanToken_ws w cs h, bind, Except.bind]
  cases scanLoop cs.length cs <;> rfl

theorem scanAll_token {cs rest : List Char} {t : Token} (h : scanToken cs = .ok (some t, rest)) :
    scanAll cs = (scanAll rest).map (t :: ·) := by
  have hl := scanToken_length h
  cases cs with
  | nil => simp at hl
  | cons c cs1 =>
    simp only [List.length_cons] at hl
    simp only [scanAll, List.length_cons, scanLoop, h, bind, Except.bind]
    rw [scanLoop_fuel cs1.length rest.length rest (by omega) (Nat.le_refl _)]
    cases scanLoop rest.length rest <;> rfl

theorem ws_ascii {w : Char} (h : isWs w = true) : ¬ (w.toNat ≥ 128) := by
  rcases isWs_cases h with rfl | rfl | rfl | rfl <;> decide

/-- Leading whitespace is skipped. -/
theorem scan_ws_leading (w : Char) (cs : List Char) (addInt : Bool) (h : isWs w = true) (hne : cs ≠ []) :
    scan (w :: cs) addInt = scan cs addInt := by
  have h1 : cs.isEmpty = false := by cases cs <;> simp_all
  have h2 : (w :: cs).any (fun c => decide (c.toNat ≥ 128)) = cs.any (fun c => decide (c.toNat ≥ 128)) := by
    simp [ws_ascii h]
  unfold scan
  rw [h2, h1, scanLoop_eq_scanAll _ _ (Nat.le_succ _), scanLoop_eq_scanAll _ _ (Nat.le_succ _),
    scanAll_ws w cs h]
  simp

/-! ### lexemes and rendering -/

macro "char_arith" : tactic => `(tactic| (
  simp only [Char.isDigit, Char.isAlpha, Char.isAlphanum, Char.isUpper, Char.isLower, ge_iff_le,
    UInt32.le_iff_toNat_le, Bool.or_eq_true, Bool.and_eq_true, decide_eq_true_eq, Bool.and_eq_false_iff,
    Bool.or_eq_false_iff, decide_eq_false_iff_not] at *
  have : '0'.val.toNat = 48 := by decide
  have : '9'.val.toNat = 57 := by decide
  have : 'A'.val.toNat = 65 := by decide
  have : 'Z'.val.toNat = 90 := by decide
  have : 'a'.val.toNat = 97 := by decide
  have : 'z'.val.toNat = 122 := by decide
  omega))

theorem alpha_not_digit {c : Char} (h : c.isAlpha = true) : c.isDigit = false := by char_arith

theorem ne_of_alpha {c : Char} (h : c.isAlpha = true) (d : Char) (hd : d.isAlpha = false) :
    (c == d) = false := by
  cases hcd : c == d with
  | false => rfl
  | true => have := eq_of_beq hcd; subst this; rw [h] at hd; cases hd

theorem ne_of_digit {c : Char} (h : c.isDigit = true) (d : Char) (hd : d.isDigit = false) :
    (c == d) = false := by
  cases hcd : c == d with
  | false => rfl
  | true => have := eq_of_beq hcd; subst this; rw [h] at hd; cases hd

/-- `scan_token` on a letter: the `identifier()` branch. -/
theorem scanToken_alpha {c : Char} (h : c.isAlpha = true) (cs : List Char) :
    scanToken (c :: cs) =
      (let lex := String.ofList (c :: (cs.span isIdChar).1)
       if pyLiterals.contains lex then .ok (some ⟨.PYTHON_LITERAL, lex⟩, (cs.span isIdChar).2)
       else .ok (some ⟨.IDENTIFIER, lex⟩, (cs.span isIdChar).2)) := by
  have k := ne_of_alpha h
  have hd := alpha_not_digit h
  unfold scanToken
  simp only [isQuote, isWs, k '\'' (by decide), k '"' (by decide), k '(' (by decide), k ')' (by decide),
    k '[' (by decide), k ']' (by decide), k '{' (by decide), k '}' (by decide), k '`' (by decide),
    k ',' (by decide), k '.' (by decide), k '+' (by decide), k '-' (by decide), k '/' (by decide),
    k '*' (by decide), k '!' (by decide), k '=' (by decide), k '<' (by decide), k '>' (by decide),
    k '%' (by decide), k '~' (by decide), k ':' (by decide), k '|' (by decide), k ' ' (by decide),
    k '\n' (by decide), k '\t' (by decide), k '\r' (by decide), hd, h, Bool.or_self, Bool.false_eq_true,
    if_false, if_true]


theorem digit_not_alpha {c : Char} (h : c.isDigit = true) : c.isAlpha = false := by char_arith

/-- `scan_token` on a digit: the `number()` branch. -/
theorem scanToken_digit {c : Char} (h : c.isDigit = true) (cs : List Char) :
    scanToken (c :: cs) =
      (match (cs.span Char.isDigit).2 with
       | '.' :: d :: rest2 =>
         if d.isDigit then
           .ok (some (mk .NUMBER (c :: (cs.span Char.isDigit).1 ++ '.' :: ((d :: rest2).span Char.isDigit).1)),
             ((d :: rest2).span Char.isDigit).2)
         else .ok (some (mk .NUMBER (c :: (cs.span Char.isDigit).1)), (cs.span Char.isDigit).2)
       | _ => .ok (some (mk .NUMBER (c :: (cs.span Char.isDigit).1)), (cs.span Char.isDigit).2)) := by
  have k := ne_of_digit h
  unfold scanToken
  simp only [isQuote, isWs, k '\'' (by decide), k '"' (by decide), k '(' (by decide), k ')' (by decide),
    k '[' (by decide), k ']' (by decide), k '{' (by decide), k '}' (by decide), k '`' (by decide),
    k ',' (by decide), k '.' (by decide), k '+' (by decide), k '-' (by decide), k '/' (by decide),
    k '*' (by decide), k '!' (by decide), k '=' (by decide), k '<' (by decide), k '>' (by decide),
    k '%' (by decide), k '~' (by decide), k ':' (by decide), k '|' (by decide), k ' ' (by decide),
    k '\n' (by decide), k '\t' (by decide), k '\r' (by decide), h, Bool.or_self, Bool.false_eq_true,
    if_false, if_true]
  rfl

theorem span_append_sep {α} (p : α → Bool) (pre rest : List α) (h1 : ∀ a ∈ pre, p a = true)
    (h2 : ∀ x tl, rest = x :: tl → p x = false) : (pre ++ rest).span p = (pre, rest) := by
  cases rest with
  | nil => rw [List.append_nil]; exact span_all p pre h1
  | cons x tl => exact span_append_stop p pre x tl h1 (h2 x tl rfl)

/-- Whitespace may follow every token. -/
theorem sepOk_ws (k : Kind) (w : Char) (cs : List Char) (h : isWs w = true) : sepOk k (w :: cs) = true := by
  rcases isWs_cases h with rfl | rfl | rfl | rfl <;> cases k <;> rfl

theorem scanToken_fixed : ∀ p ∈ fixedLexemes, ∀ rest, sepOk p.1 rest = true →
    scanToken (p.2 ++ rest) = .ok (some (mk p.1 p.2), rest) := by
  simp only [fixedLexemes, List.mem_cons, List.not_mem_nil, or_false, forall_eq_or_imp, forall_eq]
  refine ⟨?_, ?_, ?_, ?_, ?_, ?_, ?_, ?_, ?_, ?_, ?_, ?_, ?_, ?_, ?_, ?_, ?_, ?_, ?_, ?_, ?_, ?_, ?_, ?_, ?_, ?_⟩
  all_goals
    intro rest hs
    cases rest with
    | nil => simp [scanToken, isQuote, isWs]
    | cons x tl =>
      simp only [sepOk, bne_iff_ne, ne_eq, Bool.not_eq_true'] at hs
      simp [scanToken, isQuote, isWs, hs]


theorem not_digit_dot : Char.isDigit '.' = false := by decide

theorem scanToken_lexeme {k : Kind} {cs : List Char} (hl : Lexeme k cs) (rest : List Char)
    (hs : sepOk k rest = true) : scanToken (cs ++ rest) = .ok (some (mk k cs), rest) := by
  cases hl with
  | fixed _ _ h => exact scanToken_fixed (k, cs) h rest hs
  | numInt c ds hc hds =>
    have hsep : ∀ x tl, rest = x :: tl → x.isDigit = false := by
      intro x tl hx; subst hx; simp only [sepOk, Bool.and_eq_true, Bool.not_eq_true'] at hs; exact hs.1
    rw [List.cons_append, scanToken_digit hc, span_append_sep _ ds rest hds hsep]
    simp only []
    split
    · simp [sepOk] at hs
    · rfl
  | numFloat c ds f fs hc hds hf hfs =>
    have hsep : ∀ x tl, rest = x :: tl → x.isDigit = false := by
      intro x tl hx; subst hx; simp only [sepOk, Bool.and_eq_true, Bool.not_eq_true'] at hs; exact hs.1
    have e1 : (c :: ds ++ '.' :: f :: fs) ++ rest = c :: (ds ++ '.' :: (f :: fs ++ rest)) := by simp
    have e2 : (f :: (fs ++ rest)).span Char.isDigit = (f :: fs, rest) := by
      have := span_append_sep Char.isDigit (f :: fs) rest
        (by intro a ha; rcases List.mem_cons.1 ha with rfl | ha; exact hf; exact hfs a ha) hsep
      simpa using this
    rw [e1, scanToken_digit hc, span_append_stop _ ds '.' _ hds not_digit_dot]
    simp only [List.cons_append, hf, if_true, e2]
  | numDot f fs hf hfs =>
    have hsep : ∀ x tl, rest = x :: tl → x.isDigit = false := by
      intro x tl hx; subst hx; simp only [sepOk, Bool.and_eq_true, Bool.not_eq_true'] at hs; exact hs.1
    have e2 : (f :: (fs ++ rest)).span Char.isDigit = (f :: fs, rest) := by
      have := span_append_sep Char.isDigit (f :: fs) rest
        (by intro a ha; rcases List.mem_cons.1 ha with rfl | ha; exact hf; exact hfs a ha) hsep
      simpa using this
    simp [scanToken, isQuote, hf, e2]
  | ident c body hc hb hpy =>
    have hsep : ∀ x tl, rest = x :: tl → isIdChar x = false := by
      intro x tl hx; subst hx; simpa [sepOk] using hs
    rw [List.cons_append, scanToken_alpha hc, span_append_sep _ body rest hb hsep]
    simp only [hpy, Bool.false_eq_true, if_false, mk]
  | pyLit c body hc hb hpy =>
    have hsep : ∀ x tl, rest = x :: tl → isIdChar x = false := by
      intro x tl hx; subst hx; simpa [sepOk] using hs
    rw [List.cons_append, scanToken_alpha hc, span_append_sep _ body rest hb hsep]
    simp only [hpy, if_true, mk]
  | str q body q' hq hq' hb =>
    have e1 : (q :: body ++ [q']) ++ rest = q :: (body ++ q' :: rest) := by simp
    rw [e1]
    unfold scanToken
    simp only [hq, if_true]
    rw [span_append_stop (fun d => !isQuote d) body q' rest (by intro a ha; simp [hb a ha]) (by simp [hq'])]
  | bq body hb =>
    have e1 : ('`' :: body ++ ['`']) ++ rest = '`' :: (body ++ '`' :: rest) := by simp
    rw [e1]
    unfold scanToken
    have : isQuote '`' = false := by decide
    simp only [this]
    rw [span_append_stop (fun d => d != '`') body '`' rest (by intro a ha; simp [hb a ha]) (by simp)]
    simp


theorem scanAll_gap (g : List Char) (cs : List Char) (h : ∀ c ∈ g, isWs c = true) :
    scanAll (g ++ cs) = scanAll cs := by
  induction g with
  | nil => rfl
  | cons w g ih =>
    rw [List.cons_append, scanAll_ws w _ (h w (by simp)), ih (fun c hc => h c (by simp [hc]))]

/-- The scanner inverts `render` on admissible layouts. -/
theorem scanAll_render (ps : List Piece) (trail : List Char) (h : Admissible ps trail) :
    scanAll (render ps trail) = .ok (ps.map Piece.tok) := by
  induction ps with
  | nil =>
    have := scanAll_gap trail [] h
    rw [List.append_nil] at this
    rw [render, this]; rfl
  | cons p ps ih =>
    obtain ⟨hg, hl, hs, hrest⟩ := h
    rw [render, scanAll_gap _ _ hg, scanAll_token (scanToken_lexeme hl _ hs), ih hrest]
    simp [Except.map, Piece.tok]

theorem lexeme_ne_nil {k : Kind} {cs : List Char} (h : Lexeme k cs) : cs ≠ [] := by
  cases h with
  | fixed _ _ h =>
    intro hc; subst hc
    revert h; simp [fixedLexemes]
  | _ => simp

theorem render_ne_nil {ps : List Piece} {trail : List Char} (h : Admissible ps trail) (hne : ps ≠ []) :
    render ps trail ≠ [] := by
  cases ps with
  | nil => exact absurd rfl hne
  | cons p ps =>
    have := lexeme_ne_nil h.2.1
    simp [render, this]

theorem render_any_nonAscii (ps : List Piece) (trail : List Char) (h : Admissible ps trail) :
    (render ps trail).any nonAscii = ps.any (fun p => p.chars.any nonAscii) := by
  induction ps with
  | nil =>
    simp only [render, List.any_nil]
    rw [List.any_eq_false]
    intro c hc; simpa [nonAscii] using ws_ascii (h c hc)
  | cons p ps ih =>
    obtain ⟨hg, _, _, hrest⟩ := h
    have : p.gap.any nonAscii = false := by
      rw [List.any_eq_false]
      intro c hc; simpa [nonAscii] using ws_ascii (hg c hc)
    simp [render, List.any_append, this, ih hrest]

/-- What `scan` answers on an admissible layout with at least one token. -/
theorem scan_render (ps : List Piece) (trail : List Char) (addInt : Bool) (h : Admissible ps trail)
    (hne : ps ≠ []) :
    scan (render ps trail) addInt =
      if ps.any (fun p => p.chars.any nonAscii) then .error .nonAscii
      else if ((ps.map Piece.tok).filter isTilde).length > 1 then .error .tildes
      else .ok (if addInt then addIntercept (ps.map Piece.tok) else ps.map Piece.tok) := by
  have h1 : (render ps trail).isEmpty = false := by
    have := render_ne_nil h hne
    cases hr : render ps trail <;> simp_all
  have h2 := render_any_nonAscii ps trail h
  unfold nonAscii at h2
  unfold scan
  rw [h1, h2, scanLoop_eq_scanAll _ _ (Nat.le_succ _), scanAll_render ps trail h]
  simp only [Bool.false_eq_true, if_false, bind, Except.bind, pure, Except.pure]
  rfl

/-! ### statements at the level of `scan` -/

theorem scan_ok' {code : List Char} {addInt : Bool} {ts : List Token} (h : scan code addInt = .ok ts) :
    ∃ ts0, scan code false = .ok ts0 ∧ (ts0.filter isTilde).length ≤ 1 ∧
      ts = (if addInt then addIntercept ts0 else ts0) := by
  unfold scan at h
  split at h
  · cases h
  · rename_i he
    split at h
    · cases h
    · rename_i ha
      simp only [bind, Except.bind] at h
      split at h
      · cases h
      · rename_i ts0 h0
        split at h
        · cases h
        · rename_i hc
          simp only [pure, Except.pure, Except.ok.injEq] at h
          refine ⟨ts0, ?_, by omega, h.symm⟩
          unfold scan
          simp only [he, ha, if_false, bind, Except.bind, h0, hc, pure, Except.pure, Bool.false_eq_true]

/-- At most one tilde, and the implicit `1 +` sits right after it, or at the front. -/
theorem scan_tilde_structure {code : List Char} {addInt : Bool} {ts : List Token}
    (h : scan code addInt = .ok ts) :
    (ts.filter isTilde).length ≤ 1 ∧
    (addInt = false → scan code false = .ok ts) ∧
    (addInt = true →
      (∃ ts0, scan code false = .ok ts0 ∧ ts0.any isTilde = false ∧ ts = one :: plus :: ts0) ∨
      (∃ pre tl post, scan code false = .ok (pre ++ tl :: post) ∧ isTilde tl = true ∧
        (∀ a ∈ pre, isTilde a = false) ∧ (∀ a ∈ post, isTilde a = false) ∧
        ts = pre ++ tl :: one :: plus :: post)) := by
  obtain ⟨ts0, h0, hc, hts⟩ := scan_ok' h
  cases addInt with
  | false =>
    simp only [Bool.false_eq_true, if_false] at hts
    subst hts
    exact ⟨hc, fun _ => h0, (fun hf => by cases hf)⟩
  | true =>
    simp only [if_true] at hts
    cases hany : ts0.any isTilde with
    | false =>
      rw [addIntercept_no_tilde ts0 hany] at hts
      subst hts
      refine ⟨?_, (fun hf => by cases hf), fun _ => Or.inl ⟨ts0, h0, hany, rfl⟩⟩
      simpa [List.filter_cons, one_not_tilde, plus_not_tilde] using hc
    | true =>
      obtain ⟨pre, tl, post, hsplit, hpre, htl⟩ := split_first_tilde ts0 hany
      subst hsplit
      have hpost := filter_tilde_count pre tl post hpre htl hc
      rw [addIntercept_tilde pre tl post hpre htl] at hts
      subst hts
      refine ⟨?_, (fun hf => by cases hf), fun _ => Or.inr ⟨pre, tl, post, h0, htl, hpre, hpost, rfl⟩⟩
      simpa [List.filter_append, List.filter_cons, one_not_tilde, plus_not_tilde, htl] using hc

/-- A quote opened at a token boundary and never closed: the scan is rejected. -/
theorem scan_unterminated {code : List Char} {q : Char} {cs : List Char}
    (hb : Boundary code (q :: cs))
    (hq : (isQuote q = true ∧ ∀ c ∈ cs, isQuote c = false) ∨ (q = '`' ∧ ∀ c ∈ cs, c ≠ '`'))
    (addInt : Bool) (ts : List Token) : scan code addInt ≠ .ok ts := by
  intro h
  obtain ⟨ts0, h0, _, _⟩ := scan_ok h
  obtain ⟨n', ts', h'⟩ := scanLoop_reaches hb _ _ h0
  rcases hq with ⟨hq, hno⟩ | ⟨rfl, hno⟩
  · exact scanLoop_error_of_head (scanToken_unterminated_string q cs hq hno) (by simp) n' ts' h'
  · exact scanLoop_error_of_head (scanToken_unterminated_backquote cs hno) (by simp) n' ts' h'

theorem scan_ne_fuel (code : List Char) (addInt : Bool) : scan code addInt ≠ .error .fuel := by
  unfold scan
  split
  · simp
  · split
    · simp
    · simp only [bind, Except.bind]
      have := scanLoop_ne_fuel (code.length + 1) code (Nat.le_succ _)
      split
      · rename_i e he; intro hc; cases hc; exact this he
      · split <;> simp [pure, Except.pure]

/-- Two admissible layouts of the same token spellings scan to the same answer. -/
theorem scan_layout_irrelevant (ps₁ ps₂ : List Piece) (trail₁ trail₂ : List Char)
    (h₁ : Admissible ps₁ trail₁) (h₂ : Admissible ps₂ trail₂)
    (hsame : ps₁.map (fun p => (p.kind, p.chars)) = ps₂.map (fun p => (p.kind, p.chars)))
    (hne : ps₁ ≠ []) (addInt : Bool) :
    scan (render ps₁ trail₁) addInt = scan (render ps₂ trail₂) addInt := by
  have hne2 : ps₂ ≠ [] := by
    intro hc; subst hc
    cases ps₁ with
    | nil => exact hne rfl
    | cons p ps => simp at hsame
  have htok : ps₁.map Piece.tok = ps₂.map Piece.tok := by
    have := congrArg (List.map (fun (kc : Kind × List Char) => Scanner.mk kc.1 kc.2)) hsame
    simp only [List.map_map, Function.comp_def] at this
    exact this
  have hany : ps₁.any (fun p => p.chars.any nonAscii) = ps₂.any (fun p => p.chars.any nonAscii) := by
    have := congrArg (List.any · (fun (kc : Kind × List Char) => kc.2.any nonAscii)) hsame
    simpa [List.any_map, Function.comp_def] using this
  rw [scan_render ps₁ trail₁ addInt h₁ hne, scan_render ps₂ trail₂ addInt h₂ hne2, htok, hany]

end FormulaeModel.Scanner
