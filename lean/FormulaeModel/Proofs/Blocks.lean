import FormulaeModel.Proofs.ProductOrder
/-
Helper lemmas for C05: position of every entry of a row-wise Kronecker product.
-/
namespace FormulaeModel.Design
open FormulaeModel

/-- entry `(i, k)` of the row product sits at position `i * |b| + k` -/
theorem rowProd_getElem? (a b : List Entry) (i k : Nat) (hi : i < a.length) (hk : k < b.length) :
    (rowProd a b)[i * b.length + k]? = some (Entry.mul a[i] b[k]) := by
  induction a generalizing i with
  | nil => simp at hi
  | cons x a ih =>
    simp only [rowProd, List.flatMap_cons]
    cases i with
    | zero =>
      simp only [Nat.zero_mul, Nat.zero_add, List.getElem_cons_zero]
      rw [List.getElem?_append_left (by simp [hk])]
      simp [hk]
    | succ i =>
      have hi' : i < a.length := by simpa using hi
      rw [List.getElem?_append_right (by simp; rw [Nat.add_mul]; omega)]
      simp only [List.length_map, List.getElem_cons_succ]
      have : (i + 1) * b.length + k - b.length = i * b.length + k := by
        rw [Nat.add_mul]; omega
      rw [this]
      exact ih i hi'

end FormulaeModel.Design
