import FormulaeModel.Proofs.PermComp
import FormulaeModel.Proofs.RowsDesign
import FormulaeModel.Model.NA
import FormulaeModel.Model.Pipeline
set_option linter.unusedSimpArgs false
set_option linter.unusedVariables false
/-
Helper lemmas for C08 (part 7): evaluation reads only the columns it names.  Two frames that agree
(`Frame.col?`) on the names an expression / component mentions — columns added, removed or
reordered elsewhere — give equal evaluation results (errors included) and equal trained
components, terms, group-specific terms and term lists.
-/
namespace FormulaeModel.Design
open FormulaeModel

theorem lookupName_agree (f1 f2 : Frame) (names : List (String × Val)) (n : String)
    (h : f1.col? n = f2.col? n) : lookupName ⟨f1, names⟩ n = lookupName ⟨f2, names⟩ n := by
  unfold lookupName
  simp only [h]

/-- the variables of an argument are found in its positional or in its keyword part -/
theorem argVars_split (e : Expr) (n : String) (h : n ∈ NA.argVars e) :
    n ∈ (match e with | .assign .. => [] | _ => NA.argVars e) ∨
    n ∈ (match e with | .assign _ _ v => NA.argVars v | _ => []) := by
  cases e <;> simp_all [NA.argVars]

theorem mem_argsVars_last (e : Expr) (n : String) (h : n ∈ NA.argVars e) :
    n ∈ NA.argsVarsPos (.last e) ++ NA.argsVarsKw (.last e) := by
  cases e <;> simp_all [NA.argsVarsPos, NA.argsVarsKw, NA.argVars]

theorem mem_argsVars_head (e : Expr) (c : Token) (rest : Args) (n : String) (h : n ∈ NA.argVars e) :
    n ∈ NA.argsVarsPos (.more e c rest) ++ NA.argsVarsKw (.more e c rest) := by
  cases e <;> simp_all [NA.argsVarsPos, NA.argsVarsKw, NA.argVars] <;> grind

theorem mem_argsVars_tail (e : Expr) (c : Token) (rest : Args) (n : String)
    (h : n ∈ NA.argsVarsPos rest ++ NA.argsVarsKw rest) :
    n ∈ NA.argsVarsPos (.more e c rest) ++ NA.argsVarsKw (.more e c rest) := by
  simp only [List.mem_append] at h
  cases e <;> simp [NA.argsVarsPos, NA.argsVarsKw] <;> grind

section
variable (f1 f2 : Frame) (names : List (String × Val))

mutual
theorem evalArg_agree : ∀ (e : Expr) (ts : Option TS),
    (∀ n ∈ NA.argVars e, f1.col? n = f2.col? n) →
    evalArg ⟨f1, names⟩ e ts = evalArg ⟨f2, names⟩ e ts
  | .grouping _ e _, ts, h => by
    simp only [evalArg]
    rw [evalArg_agree e ts (by simpa [NA.argVars] using h)]
  | .variable n, ts, h => by
    simp only [evalArg]
    rw [lookupName_agree f1 f2 names _ (h _ (by simp [NA.argVars]))]
  | .subset n _ _ _, ts, h => by
    simp only [evalArg]
    rw [lookupName_agree f1 f2 names _ (h _ (by simp [NA.argVars]))]
  | .quoted t, ts, h => by
    simp only [evalArg]
    rw [lookupName_agree f1 f2 names _ (h _ (by simp [NA.argVars, NA.unquote]))]
  | .literal t, ts, h => by
    simp only [evalArg]
  | .unary op r, ts, h => by
    simp only [evalArg]
    rw [evalArg_agree r _ (by simpa [NA.argVars] using h)]
  | .binary l op r, ts, h => by
    simp only [evalArg]
    rw [evalArg_agree l _ (fun n hn => h n (by simp [NA.argVars, hn])),
      evalArg_agree r _ (fun n hn => h n (by simp [NA.argVars, hn]))]
  | .call c _ as _, ts, h => by
    cases c
    case «variable» n =>
      simp only [evalArg]
      rw [evalArgs_agree as ts 0 ⟨[], []⟩ (by simpa [NA.argVars] using h)]
    all_goals simp [evalArg]
  | .brace _ e _, ts, h => by
    simp only [evalArg]
    rw [evalArg_agree e _ (by simpa [NA.argVars] using h)]
  | .assign n _ v, ts, h => by
    simp only [evalArg]
    rw [evalArg_agree v ts (by simpa [NA.argVars] using h)]
theorem evalArgs_agree : ∀ (as : Args) (ts : Option TS) (i : Nat) (acc : CallArgs),
    (∀ n ∈ NA.argsVarsPos as ++ NA.argsVarsKw as, f1.col? n = f2.col? n) →
    evalArgs ⟨f1, names⟩ as ts i acc = evalArgs ⟨f2, names⟩ as ts i acc
  | .nil, ts, i, acc, h => by simp only [evalArgs]
  | .last e, ts, i, acc, h => by
    simp only [evalArgs]
    rw [evalArg_agree e _ (fun n hn => h n (mem_argsVars_last e n hn))]
  | .more e _ rest, ts, i, acc, h => by
    have he : evalArg ⟨f1, names⟩ e (TS.child ts i) = evalArg ⟨f2, names⟩ e (TS.child ts i) :=
      evalArg_agree e _ (fun n hn => h n (mem_argsVars_head e _ rest n hn))
    have hr : ∀ acc', evalArgs ⟨f1, names⟩ rest ts (i + 1) acc' = evalArgs ⟨f2, names⟩ rest ts (i + 1) acc' :=
      fun acc' => evalArgs_agree rest ts (i + 1) acc' (fun n hn => h n (mem_argsVars_tail e _ rest n hn))
    simp only [evalArgs, he, hr]
end

/-- the column names `trainComp` reads for the component `name` with expression `e` -/
def compNames (name : String) (e : Expr) : List String :=
  if isCallLike e then NA.argVars e else [(varColRef name e).1]

/-- the expression is one the resolver makes a component of: a call, a quoted / plain / subset
variable (for these the names read are exactly `var_names` of the component) -/
def isAtomShape : Expr → Bool
  | .call .. | .brace .. | .variable .. | .subset .. | .quoted .. => true
  | _ => false

theorem compNames_atom (name : String) (e : Expr) (h : isAtomShape e = true) :
    compNames name e = NA.atomVars e := by
  cases e <;> simp_all [isAtomShape, compNames, isCallLike, NA.atomVars, NA.argVars, varColRef, NA.unquote]

/-- **one component**: frames that agree on the columns the component names train alike -/
theorem trainComp_agree (name : String) (e : Expr) (forced isResponse full : Bool)
    (hrows : f1.nrows = f2.nrows) (h : ∀ n ∈ compNames name e, f1.col? n = f2.col? n) :
    trainComp ⟨f1, names⟩ name e forced isResponse full =
      trainComp ⟨f2, names⟩ name e forced isResponse full := by
  cases hc : isCallLike e with
  | true =>
    simp only [compNames, hc, if_true] at h
    rw [trainComp_call _ _ _ _ _ _ hc, trainComp_call _ _ _ _ _ _ hc, evalArg_agree f1 f2 names e none h]
    simp only [hrows]
  | false =>
    simp only [compNames, hc, Bool.false_eq_true, if_false, List.mem_singleton, forall_eq] at h
    rw [trainComp_var _ _ _ _ _ _ hc, trainComp_var _ _ _ _ _ _ hc]
    simp only [h]

theorem mapM_congr_mem {α β : Type} (f g : α → M β) (xs : List α) (h : ∀ x ∈ xs, f x = g x) :
    xs.mapM f = xs.mapM g := by
  induction xs with
  | nil => rfl
  | cons x xs ih =>
    rw [List.mapM_cons, List.mapM_cons, h x (by simp), ih (fun y hy => h y (by simp [hy]))]

/-- the column names read by the components of a formula's component table -/
def tableNames (table : List (String × Expr)) : List String := table.flatMap (fun p => compNames p.1 p.2)

theorem compExpr_mem (table : List (String × Expr)) (name : String) (e : Expr)
    (h : compExpr table name = .ok e) : (name, e) ∈ table := by
  unfold compExpr at h
  split at h
  · rename_i p hp
    simp only [pure_ok] at h
    subst h
    have h1 := List.mem_of_find?_eq_some hp
    have h2 := List.find?_some hp
    have : p.1 = name := by simpa using h2
    rw [← this]
    exact h1
  · simp at h

/-- **one term** -/
theorem trainTerm_agree (table : List (String × Expr)) (spec : TermSpec) (forced isResponse : Bool)
    (hrows : f1.nrows = f2.nrows) (h : ∀ n ∈ tableNames table, f1.col? n = f2.col? n) :
    trainTerm ⟨f1, names⟩ table spec forced isResponse =
      trainTerm ⟨f2, names⟩ table spec forced isResponse := by
  unfold trainTerm
  rw [mapM_congr_mem _ (fun (c : String × Bool) => do
    trainComp ⟨f2, names⟩ c.1 (← compExpr table c.1) forced isResponse c.2)]
  intro c _
  cases he : compExpr table c.1 with
  | error er => rfl
  | ok e =>
    simp only [ok_bind]
    apply trainComp_agree f1 f2 names c.1 e forced isResponse c.2 hrows
    intro n hn
    apply h
    simp only [tableNames, List.mem_flatMap]
    exact ⟨(c.1, e), compExpr_mem table c.1 e he, hn⟩

/-- **one group-specific term** -/
theorem trainGroup_agree (table : List (String × Expr)) (spec : GroupSpec)
    (hrows : f1.nrows = f2.nrows) (h : ∀ n ∈ tableNames table, f1.col? n = f2.col? n) :
    trainGroup ⟨f1, names⟩ table spec = trainGroup ⟨f2, names⟩ table spec := by
  unfold trainGroup
  simp only [trainTerm_agree f1 f2 names table _ _ _ hrows h, hrows]

/-- **the term lists of a design** -/
theorem trainCommon_agree (table : List (String × Expr)) (specs : List (Option TermSpec))
    (hrows : f1.nrows = f2.nrows) (h : ∀ n ∈ tableNames table, f1.col? n = f2.col? n) :
    trainCommon ⟨f1, names⟩ table specs = trainCommon ⟨f2, names⟩ table specs := by
  unfold trainCommon
  simp only [trainTerm_agree f1 f2 names table _ _ _ hrows h]

theorem trainGroups_agree (table : List (String × Expr)) (specs : List GroupSpec)
    (hrows : f1.nrows = f2.nrows) (h : ∀ n ∈ tableNames table, f1.col? n = f2.col? n) :
    trainGroups ⟨f1, names⟩ table specs = trainGroups ⟨f2, names⟩ table specs := by
  unfold trainGroups
  rw [mapM_congr_mem _ (trainGroup ⟨f2, names⟩ table)]
  intro s _
  exact trainGroup_agree f1 f2 names table s hrows h

end

/-! ### the component table of a formula reads the columns `var_names` lists -/

/-- the atoms of the formula's component table are components proper (no bare literal) -/
def tableAtoms (table : List (String × Expr)) : Bool := table.all (fun p => isAtomShape p.2)

theorem atomTable_names : ∀ (f : Expr) (p : String × Expr), p ∈ Pipeline.atomTable f →
    isAtomShape p.2 = true → ∀ n ∈ compNames p.1 p.2, n ∈ NA.formulaVars f
  | .grouping _ e _, p, hp, hs, n, hn => by
    simp only [Pipeline.atomTable] at hp
    simp only [NA.formulaVars]
    exact atomTable_names e p hp hs n hn
  | .binary l _ r, p, hp, hs, n, hn => by
    simp only [Pipeline.atomTable, List.mem_append] at hp
    simp only [NA.formulaVars, List.mem_append]
    rcases hp with hp | hp
    · exact Or.inl (atomTable_names l p hp hs n hn)
    · exact Or.inr (atomTable_names r p hp hs n hn)
  | .unary _ r, p, hp, hs, n, hn => by
    simp only [Pipeline.atomTable] at hp
    simp only [NA.formulaVars]
    exact atomTable_names r p hp hs n hn
  | .call c lp as rp, p, hp, hs, n, hn => by
    simp only [Pipeline.atomTable] at hp
    split at hp
    · simp only [List.mem_singleton] at hp
      subst hp
      rw [compNames_atom _ _ hs] at hn
      exact hn
    · simp at hp
  | .brace lb e rb, p, hp, hs, n, hn => by
    simp only [Pipeline.atomTable] at hp
    split at hp
    · simp only [List.mem_singleton] at hp
      subst hp
      rw [compNames_atom _ _ hs] at hn
      exact hn
    · simp at hp
  | .variable v, p, hp, hs, n, hn => by
    simp only [Pipeline.atomTable] at hp
    split at hp
    · simp only [List.mem_singleton] at hp
      subst hp
      rw [compNames_atom _ _ hs] at hn
      exact hn
    · simp at hp
  | .subset v a b c, p, hp, hs, n, hn => by
    simp only [Pipeline.atomTable] at hp
    split at hp
    · simp only [List.mem_singleton] at hp
      subst hp
      rw [compNames_atom _ _ hs] at hn
      exact hn
    · simp at hp
  | .quoted t, p, hp, hs, n, hn => by
    simp only [Pipeline.atomTable] at hp
    split at hp
    · simp only [List.mem_singleton] at hp
      subst hp
      rw [compNames_atom _ _ hs] at hn
      exact hn
    · simp at hp
  | .literal t, p, hp, hs, n, hn => by
    simp only [Pipeline.atomTable] at hp
    split at hp
    · simp only [List.mem_singleton] at hp
      subst hp
      simp [isAtomShape] at hs
    · simp at hp
  | .assign a b c, p, hp, hs, n, hn => by
    simp only [Pipeline.atomTable] at hp
    split at hp
    · simp only [List.mem_singleton] at hp
      subst hp
      simp [isAtomShape] at hs
    · simp at hp

/-- the names read through the atom-shaped part of a formula's component table are variables of
the formula (`Model.var_names`) -/
theorem tableNames_formulaVars (f : Expr) (n : String)
    (h : n ∈ tableNames ((Pipeline.atomTable f).filter (fun p => isAtomShape p.2))) :
    n ∈ NA.formulaVars f := by
  simp only [tableNames, List.mem_flatMap, List.mem_filter] at h
  obtain ⟨p, ⟨hp, hs⟩, hn⟩ := h
  exact atomTable_names f p hp hs n hn

end FormulaeModel.Design
