import FormulaeModel.Spec.C02
set_option linter.unusedSectionVars false
set_option linter.unusedSimpArgs false
/-
Helper lemmas for C02: first-occurrence de-duplication (`dedup`), the list operations the model
performs on term lists (`addL` = repeated `add_term`, `remL` = repeated `list.remove`) and the
set operations of the specification (`union`, `diff`, `nub`), all on lists.

Everything is normalised to the shape `dedup (some list expression)`.
-/
namespace FormulaeModel.Terms
open FormulaeModel.Spec.C02

section generic
variable {α : Type} [BEq α] [LawfulBEq α]

@[simp] theorem dedup_nil : dedup ([] : List α) = [] := rfl
@[simp] theorem dedup_singleton (a : α) : dedup [a] = [a] := by simp [dedup]

@[simp] theorem mem_dedup {x : α} {l : List α} : x ∈ dedup l ↔ x ∈ l := by
  induction l with
  | nil => simp
  | cons a l ih =>
    simp only [dedup, List.mem_cons, List.mem_filter, ih]
    by_cases h : x = a <;> simp [h]

theorem dedup_filter (p : α → Bool) (l : List α) : dedup (l.filter p) = (dedup l).filter p := by
  induction l with
  | nil => simp
  | cons a l ih =>
    by_cases h : p a
    · simp only [List.filter_cons, h, if_true, dedup, ih, List.filter_filter]
      congr 1
      apply List.filter_congr
      intro x _
      exact Bool.and_comm _ _
    · have h' : p a = false := by simpa using h
      simp only [List.filter_cons, h', dedup, ih, List.filter_filter]
      simp only [Bool.false_eq_true, if_false]
      rw [ih]
      apply List.filter_congr
      intro x _
      by_cases hx : x = a
      · subst hx; simp [h']
      · simp [hx]

theorem dedup_append (a b : List α) :
    dedup (a ++ b) = dedup a ++ (dedup b).filter (fun x => !a.contains x) := by
  induction a with
  | nil => simp only [List.nil_append, dedup_nil]; symm; apply List.filter_eq_self.2; simp
  | cons x a ih =>
    simp only [List.cons_append, dedup, ih, List.filter_append, List.filter_filter]
    congr 2
    apply List.filter_congr
    intro y _
    by_cases hy : y = x
    · subst hy; simp
    · simp [hy, List.contains_cons]

theorem dedup_sublist (l : List α) : (dedup l).Sublist l := by
  induction l with
  | nil => simp
  | cons a l ih =>
    simp only [dedup]
    exact ((List.filter_sublist).trans ih).cons_cons a

theorem nodup_dedup (l : List α) : (dedup l).Nodup := by
  induction l with
  | nil => simp
  | cons a l ih =>
    simp only [dedup, List.nodup_cons, List.mem_filter]
    refine ⟨by simp, ih.sublist List.filter_sublist⟩

theorem dedup_of_nodup {l : List α} (h : l.Nodup) : dedup l = l := by
  induction l with
  | nil => simp
  | cons a l ih =>
    rw [List.nodup_cons] at h
    simp only [dedup, ih h.2]
    congr 1
    apply List.filter_eq_self.2
    intro x hx
    have : x ≠ a := fun e => h.1 (e ▸ hx)
    simp [this]

@[simp] theorem dedup_dedup (l : List α) : dedup (dedup l) = dedup l :=
  dedup_of_nodup (nodup_dedup l)

theorem nodup_of_dedup_length {l : List α} (h : (dedup l).length = l.length) : l.Nodup := by
  have := (dedup_sublist l).eq_of_length h
  rw [← this]; exact nodup_dedup l

theorem contains_dedup (l : List α) (x : α) : (dedup l).contains x = l.contains x := by
  rw [Bool.eq_iff_iff]; simp

/-- `dedup (dedup X ++ Y) = dedup (X ++ Y)` -/
theorem dedup_dedup_append (a b : List α) : dedup (dedup a ++ b) = dedup (a ++ b) := by
  rw [dedup_append, dedup_append, dedup_dedup]
  congr 1
  apply List.filter_congr
  intro x _
  rw [contains_dedup]

theorem dedup_append_dedup (a b : List α) : dedup (a ++ dedup b) = dedup (a ++ b) := by
  rw [dedup_append, dedup_append, dedup_dedup]

theorem dedup_append_self {a : List α} (h : a.Nodup) : dedup (a ++ a) = a := by
  rw [dedup_append, dedup_of_nodup h]
  have : a.filter (fun x => !a.contains x) = [] := by
    apply List.filter_eq_nil_iff.2
    intro x hx; simp [hx]
  rw [this]; simp

-- the specification's set operations, on de-duplicated lists
theorem union_dedup (a b : List α) : union (dedup a) (dedup b) = dedup (a ++ b) := by
  rw [dedup_append]
  unfold union
  congr 1
  apply List.filter_congr
  intro x _
  rw [contains_dedup]

theorem diff_dedup (a b : List α) :
    diff (dedup a) (dedup b) = dedup (a.filter (fun x => !b.contains x)) := by
  rw [dedup_filter]
  unfold diff
  apply List.filter_congr
  intro x _
  rw [contains_dedup]

theorem nub_eq (l : List α) : nub l = dedup l := rfl

/-- a filter that removes a whole block can be applied before or after `flatMap` -/
theorem flatMap_filter_block {β : Type} [BEq β] [LawfulBEq β] (g : α → List β) (a : α) (K : List α) :
    ((K.filter (fun x => !(x == a))).flatMap g).filter (fun y => !(g a).contains y) =
    (K.flatMap g).filter (fun y => !(g a).contains y) := by
  induction K with
  | nil => simp
  | cons k K ih =>
    by_cases hk : k = a
    · subst hk
      simp only [List.filter_cons, beq_self_eq_true, Bool.not_true, Bool.false_eq_true, if_false,
        List.flatMap_cons, List.filter_append, ih]
      have : (g k).filter (fun y => !(g k).contains y) = [] := by
        apply List.filter_eq_nil_iff.2
        intro x hx; simp [hx]
      rw [this]; simp
    · have : (k == a) = false := by simpa using hk
      simp only [List.filter_cons, this, Bool.not_false, if_true, List.flatMap_cons,
        List.filter_append, ih]

theorem dedup_flatMap_dedup {β : Type} [BEq β] [LawfulBEq β] (g : α → List β) (l : List α) :
    dedup ((dedup l).flatMap g) = dedup (l.flatMap g) := by
  induction l with
  | nil => simp
  | cons a l ih =>
    have key : ∀ K : List α,
        (dedup ((K.filter (fun x => !(x == a))).flatMap g)).filter (fun y => !(g a).contains y) =
        (dedup (K.flatMap g)).filter (fun y => !(g a).contains y) := by
      intro K
      rw [← dedup_filter, ← dedup_filter, flatMap_filter_block]
    simp only [dedup, List.flatMap_cons]
    rw [dedup_append, dedup_append, ← ih, key]

theorem dedup_flatMap_congr {β : Type} [BEq β] [LawfulBEq β] (f g : α → List β) (l : List α)
    (h : ∀ x ∈ l, dedup (f x) = dedup (g x)) : dedup (l.flatMap f) = dedup (l.flatMap g) := by
  induction l with
  | nil => simp
  | cons a l ih =>
    simp only [List.flatMap_cons]
    rw [dedup_append, dedup_append, h a (by simp), ih (fun x hx => h x (by simp [hx]))]
    congr 1
    apply List.filter_congr
    intro x _
    rw [← contains_dedup (f a), ← contains_dedup (g a), h a (by simp)]

theorem dedup_map_dedup {β : Type} [BEq β] [LawfulBEq β] (f : α → β) (l : List α) :
    dedup ((dedup l).map f) = dedup (l.map f) := by
  have h1 : ∀ k : List α, k.map f = k.flatMap (fun x => [f x]) := by
    intro k; induction k <;> simp_all
  rw [h1, h1, dedup_flatMap_dedup]

theorem dedup_map_of_injective {β : Type} [BEq β] [LawfulBEq β] (f : α → β)
    (hf : ∀ x y, f x = f y → x = y) (l : List α) : dedup (l.map f) = (dedup l).map f := by
  induction l with
  | nil => simp
  | cons a l ih =>
    simp only [List.map_cons, dedup, ih, List.filter_map]
    congr 2
    apply List.filter_congr
    intro x _
    by_cases hx : x = a
    · subst hx; simp
    · have : f x ≠ f a := fun e => hx (hf _ _ e)
      have h1 : (f x == f a) = false := by simpa using this
      have h2 : (x == a) = false := by simpa using hx
      simp [h1, h2]

theorem dedup_flatten_dedup (l : List (List α)) : dedup (dedup l).flatten = dedup l.flatten := by
  have h1 : ∀ k : List (List α), k.flatten = k.flatMap id := by
    intro k; simp [List.flatMap_id]
  rw [h1, h1, dedup_flatMap_dedup]

theorem dedup_eq_singleton {l : List α} {t : α} (hne : l ≠ []) (h : ∀ x ∈ l, x = t) :
    dedup l = [t] := by
  cases l with
  | nil => exact absurd rfl hne
  | cons a l =>
    have ha : a = t := h a (by simp)
    subst ha
    simp only [dedup]
    congr 1
    apply List.filter_eq_nil_iff.2
    intro x hx
    have : x = a := h x (by simp [mem_dedup.1 hx])
    simp [this]

/-- what `for t in B: add_term(t)` does to a term list -/
def addL : List α → List α → List α
  | A, [] => A
  | A, b :: B => addL (if A.contains b then A else A ++ [b]) B

theorem dedup_addL (A B : List α) : dedup (addL A B) = dedup (A ++ B) := by
  induction B generalizing A with
  | nil => simp [addL]
  | cons b B ih =>
    simp only [addL]
    rw [ih]
    by_cases hb : A.contains b
    · simp only [hb, if_true]
      rw [dedup_append, dedup_append]
      congr 1
      simp only [dedup, List.filter_cons, hb, Bool.not_true, Bool.false_eq_true, if_false,
        List.filter_filter]
      apply List.filter_congr
      intro x _
      by_cases hx : x = b
      · subst hx; simpa using hb
      · simp [hx]
    · have hb' : b ∉ A := by simpa using hb
      simp [hb']

theorem mem_addL {x : α} (A B : List α) : x ∈ addL A B ↔ x ∈ A ∨ x ∈ B := by
  rw [← mem_dedup, dedup_addL, mem_dedup, List.mem_append]

theorem nodup_addL {A : List α} (h : A.Nodup) (B : List α) : (addL A B).Nodup := by
  induction B generalizing A with
  | nil => simpa [addL]
  | cons b B ih =>
    simp only [addL]
    apply ih
    by_cases hb : A.contains b
    · simp only [hb, if_true]; exact h
    · simp only [hb, Bool.false_eq_true, if_false]
      rw [List.nodup_append]
      refine ⟨h, by simp, ?_⟩
      intro x hx y hy
      simp at hy; subst hy
      intro e; subst e
      simp [hx] at hb

theorem removeFirst_sublist (x : α) (l : List α) : (removeFirst x l).Sublist l := by
  induction l with
  | nil => simp [removeFirst]
  | cons a l ih =>
    simp only [removeFirst]
    split
    · simp
    · exact ih.cons_cons a

theorem removeFirst_of_nodup {l : List α} (h : l.Nodup) (x : α) :
    removeFirst x l = l.filter (fun y => !(y == x)) := by
  induction l with
  | nil => simp [removeFirst]
  | cons a l ih =>
    rw [List.nodup_cons] at h
    simp only [removeFirst, List.filter_cons]
    by_cases ha : a = x
    · subst ha
      simp only [beq_self_eq_true, if_true, Bool.not_true, Bool.false_eq_true, if_false]
      symm; apply List.filter_eq_self.2
      intro y hy
      have : y ≠ a := fun e => h.1 (e ▸ hy)
      simp [this]
    · have : (a == x) = false := by simpa using ha
      simp [this, ih h.2]

/-- what `for t in B: A.remove(t)` does to a term list -/
def remL (A B : List α) : List α := B.foldl (fun acc t => removeFirst t acc) A

theorem remL_sublist (A B : List α) : (remL A B).Sublist A := by
  unfold remL
  induction B generalizing A with
  | nil => simp
  | cons b B ih => exact (ih _).trans (removeFirst_sublist b A)

theorem remL_of_nodup {A : List α} (h : A.Nodup) (B : List α) :
    remL A B = A.filter (fun x => !B.contains x) := by
  unfold remL
  induction B generalizing A with
  | nil => simp only [List.foldl_nil]; symm; apply List.filter_eq_self.2; simp
  | cons b B ih =>
    simp only [List.foldl_cons]
    rw [ih (h.sublist (removeFirst_sublist b A)), removeFirst_of_nodup h, List.filter_filter]
    apply List.filter_congr
    intro x _
    simp [List.contains_cons, Bool.and_comm]

end generic
end FormulaeModel.Terms
