import FormulaeModel.Proofs.GroupBlockGroup
set_option linter.unusedSimpArgs false
set_option linter.unusedVariables false
/-
Helper lemmas for C10 (new-group rule): `newGroup` on the state remembered by `trainGroup`.
The new indicator matrix has, per row, the indicator row of the row's cell when every grouping
value was seen in training and a zero row otherwise; when some row is zero one column is appended
that marks exactly those rows; `error` mode raises instead.
-/
namespace FormulaeModel.Design
open FormulaeModel

/-! ### one grouping component on new data -/

/-- the value a grouping component reads from the new frame (with the remembered transform state) -/
def newFactorVal (st : CompState) (env : Env) : M Val :=
  if isCallLike st.expr then (posOnly (evalArg env st.expr (some st.tstate))).map (·.1)
  else match env.frame.col? (varColRef st.name st.expr).1 with
    | some c => pure (colVal c)
    | none => .error (.keyError (varColRef st.name st.expr).1)

theorem colVal_ne_box (c : Column) (b : Box) : colVal c ≠ .box b := by
  unfold colVal
  split <;> simp

theorem newComp_factor (st : CompState) (env : Env) (mode : UnseenMode) (v : Val)
    (xs : List (Option Level)) (hk : st.kind = .categoric) (hv : newFactorVal st env = .ok v)
    (hxs : valLevels v = .ok xs) : newComp st env mode = newCategoric st mode xs := by
  cases hc : isCallLike st.expr with
  | true =>
    simp only [newFactorVal, hc, if_true] at hv
    cases hp : posOnly (evalArg env st.expr (some st.tstate)) with
    | error e => rw [hp] at hv; simp [Except.map] at hv
    | ok p =>
      rw [hp] at hv
      simp only [Except.map, Except.ok.injEq] at hv
      obtain ⟨v', ts⟩ := p
      simp only at hv
      subst hv
      cases hE : st.expr <;> simp only [isCallLike, hE] at hc <;> try (exact absurd hc (by decide))
      all_goals (
        rw [hE] at hp
        cases v' <;> simp only [valLevels, pure_ok] at hxs <;> try (simp at hxs; done)
        all_goals (
          simp only [newComp, hE, hk, hp, ok_bind, show (CompKind.categoric == CompKind.numeric) = false from rfl,
            Bool.false_eq_true, if_false, hxs]
          try subst hxs
          try rfl))
  | false =>
    simp only [newFactorVal, hc, Bool.false_eq_true, if_false] at hv
    cases hcol : env.frame.col? (varColRef st.name st.expr).1 with
    | none => rw [hcol] at hv; simp at hv
    | some c =>
      rw [hcol] at hv
      simp only [pure_ok] at hv
      subst hv
      cases hE : st.expr <;> simp only [isCallLike, hE] at hc <;> try (exact absurd hc (by decide))
      all_goals (
        simp only [varColRef, hE] at hcol
        cases hcv : colVal c <;> rw [hcv] at hxs <;> simp only [valLevels, pure_ok] at hxs <;>
          (try (simp at hxs; done)) <;> (try (exact absurd hcv (colVal_ne_box c _)))
        all_goals (
          simp only [newComp, hE, hk, hcol, hcv, hxs, ok_bind]
          try subst hxs
          try rfl))

/-! ### `eval_new_data_categoric` with the complete indicator coding -/

/-- the new row of a value: the indicator row of its position among the training levels, a zero
row when the value is unseen -/
def indRow (levels : List Level) (x : Option Level) : List Entry :=
  match levelIndex levels x with
  | some i => unitE levels.length i
  | none => zeroE levels.length

theorem indexOf?_of_mem {α} [DecidableEq α] (x : α) (xs : List α) (h : x ∈ xs) :
    ∃ i, indexOf? x xs = some i := by
  unfold indexOf?
  have : List.findIdx (fun y => y == x) xs < xs.length := by
    apply List.findIdx_lt_length_of_exists
    exact ⟨x, h, by simp⟩
  exact ⟨List.findIdx (fun y => y == x) xs, by simp [this]⟩

theorem levelIndex_none_iff (levels : List Level) (x : Option Level) :
    levelIndex levels x = none ↔ isUnseen levels x = true := by
  cases x with
  | none => simp [levelIndex, isUnseen]
  | some l =>
    simp only [levelIndex, Option.bind_some, isUnseen, Bool.not_eq_true', List.contains_eq_mem,
      decide_eq_false_iff_not]
    constructor
    · intro h hm
      obtain ⟨i, hi⟩ := indexOf?_of_mem l levels hm
      rw [hi] at h; simp at h
    · intro h
      cases hi : indexOf? l levels with
      | none => rfl
      | some i =>
        obtain ⟨hlt, hget⟩ := indexOf?_some l levels i hi
        exact absurd (hget ▸ List.getElem_mem hlt) h

theorem levelIndex_lt (levels : List Level) (x : Option Level) (i : Nat)
    (h : levelIndex levels x = some i) : i < levels.length := by
  cases x with
  | none => simp [levelIndex] at h
  | some l => exact (indexOf?_some l levels i (by simpa [levelIndex] using h)).1

theorem codeRows_of_seen (levels : List Level) (xs : List (Option Level))
    (h : xs.any (isUnseen levels) = false) :
    codeRows (treatmentFull levels) levels xs = .ok (xs.map (indRow levels)) := by
  induction xs with
  | nil => rfl
  | cons x xs ih =>
    simp only [List.any_cons, Bool.or_eq_false_iff] at h
    have ih' := ih h.2
    unfold codeRows at ih' ⊢
    rw [List.mapM_cons, ih']
    cases hx : levelIndex levels x with
    | none => rw [(levelIndex_none_iff levels x).1 hx] at h; simp at h
    | some i =>
      have hi := levelIndex_lt levels x i hx
      cases x with
      | none => simp [levelIndex] at hx
      | some l =>
        simp only [levelIndex, Option.bind_some] at hx
        simp only [hx, List.map_cons, indRow, levelIndex, Option.bind_some, treatmentFull_row levels i hi]
        rfl

/-- `eval_new_data_categoric` on a component with the complete indicator coding: `error` mode
raises iff some value is unseen; otherwise one row per value, `indRow`; a warning iff unseen
values exist and the mode is `warning` -/
theorem newCategoric_treatment (st : CompState) (hc : st.contrast = some (treatmentFull st.levels))
    (mode : UnseenMode) (xs : List (Option Level)) :
    newCategoric st mode xs =
      if xs.any (isUnseen st.levels) && mode == .error then
        .error (.valueError "levels not present in the original data set")
      else .ok (xs.map (indRow st.levels), xs.any (isUnseen st.levels) && mode == .warning) := by
  cases hu : xs.any (isUnseen st.levels) with
  | false =>
    simp only [newCategoric, hc, hu, Bool.not_false, if_true, Bool.false_and, Bool.false_eq_true, if_false,
      codeRows_of_seen st.levels xs hu]
    rfl
  | true =>
    cases mode <;>
      simp only [newCategoric, hc, hu, Bool.not_true, Bool.false_eq_true, if_false, Bool.true_and,
        beq_self_eq_true, if_true, show (UnseenMode.warning == UnseenMode.error) = false from rfl,
        show (UnseenMode.silent == UnseenMode.error) = false from rfl] <;> try rfl
    all_goals (
      simp only [pure, Except.pure, Except.ok.injEq, Prod.mk.injEq, and_true]
      apply List.map_congr_left
      intro x _
      simp only [indRow, levelIndex, treatmentFull]
      cases hx : x.bind (fun l => indexOf? l st.levels) with
      | none => simp [zeroE]
      | some i =>
        have hi := levelIndex_lt st.levels x i hx
        simp only
        exact treatmentFull_row st.levels i hi)

/-! ### the grouping factor on new data -/

/-- the row-by-row levels every component of the grouping factor reads from the new frame -/
def newFactorColumns (comps : List CompState) (env : Env) : M (List (List (Option Level))) :=
  comps.mapM (fun c => do valLevels (← newFactorVal c env))

/-- some grouping value of the new data was not seen in training -/
def anyUnseen (comps : List CompState) (cols : List (List (Option Level))) : Bool :=
  (comps.zip cols).any (fun p => p.2.any (isUnseen p.1.levels))

/-- a grouping factor trained by `trainGroup` with the complete indicator coding -/
structure FactorState (comps : List CompState) : Prop where
  kind : ∀ c ∈ comps, c.kind = .categoric
  coding : ∀ c ∈ comps, c.contrast = some (treatmentFull c.levels)

theorem mapM_newComp_factor (comps : List CompState) (hS : FactorState comps) (env : Env)
    (mode : UnseenMode) (cols : List (List (Option Level)))
    (hcols : newFactorColumns comps env = .ok cols) :
    comps.mapM (fun c => newComp c env mode) =
      if anyUnseen comps cols && mode == .error then
        .error (.valueError "levels not present in the original data set")
      else .ok (List.zipWith (fun c xs =>
        (xs.map (indRow c.levels), xs.any (isUnseen c.levels) && mode == .warning)) comps cols) := by
  induction comps generalizing cols with
  | nil =>
    simp only [newFactorColumns, List.mapM_nil, pure_ok] at hcols
    subst hcols
    simp [anyUnseen, pure, Except.pure]
  | cons c comps ih =>
    simp only [newFactorColumns, List.mapM_cons, bind_ok, pure_ok] at hcols
    obtain ⟨xs, ⟨v, hv, hxs⟩, cols', hcols', rfl⟩ := hcols
    have hS' : FactorState comps :=
      ⟨fun c' hc' => hS.kind c' (by simp [hc']), fun c' hc' => hS.coding c' (by simp [hc'])⟩
    have ih' := ih hS' cols' hcols'
    rw [List.mapM_cons, newComp_factor c env mode v xs (hS.kind c (by simp)) hv hxs,
      newCategoric_treatment c (hS.coding c (by simp)) mode xs, ih']
    simp only [anyUnseen, List.zip_cons_cons, List.any_cons, List.zipWith_cons_cons]
    rcases Bool.eq_false_or_eq_true (xs.any (isUnseen c.levels)) with hu | hu <;>
      rcases Bool.eq_false_or_eq_true (mode == UnseenMode.error) with hm | hm <;>
      rcases Bool.eq_false_or_eq_true
        ((comps.zip cols').any (fun p => p.2.any (isUnseen p.1.levels))) with hu' | hu' <;>
      simp [hu, hm, hu', anyUnseen, bind, Except.bind, pure, Except.pure]

/-! ### rows of the new indicator matrix -/

theorem allSome_indRow (levels : List Level) (x : Option Level) : AllSome (indRow levels x) := by
  unfold indRow
  split
  · exact allSome_unitE _ _
  · exact allSome_zeroE _

theorem indRow_length (levels : List Level) (x : Option Level) : (indRow levels x).length = levels.length := by
  unfold indRow
  split
  · exact unitE_length _ _
  · exact zeroE_length _

theorem indRow_none (levels : List Level) (x : Option Level) (h : levelIndex levels x = none) :
    indRow levels x = zeroE levels.length := by simp [indRow, h]

theorem indRow_some (levels : List Level) (x : Option Level) (i : Nat) (h : levelIndex levels x = some i) :
    indRow levels x = unitE levels.length i := by simp [indRow, h]

theorem foldl_rowProd_zeroE_indRow (qs : List (List Level × Option Level)) (w : Nat) :
    (qs.map (fun q => indRow q.1 q.2)).foldl rowProd (zeroE w) =
      zeroE (cellCount w (qs.map (·.1.length))) := by
  have := foldl_rowProd_zeroE (qs.map (fun q => indRow q.1 q.2)) w (by
    intro r hr
    obtain ⟨q, _, rfl⟩ := List.mem_map.1 hr
    exact allSome_indRow _ _)
  rw [this, List.map_map]
  congr 2
  apply List.map_congr_left
  intro q _
  exact indRow_length _ _

/-- the cell of a list of (levels, value) pairs: `none` as soon as one value is unseen -/
def cellOf (qs : List (List Level × Option Level)) : Option (List (Nat × Nat)) :=
  qs.mapM (fun q => (levelIndex q.1 q.2).map (fun g => (q.1.length, g)))

theorem foldl_rowProd_indRow (qs : List (List Level × Option Level)) (G g : Nat) (hg : g < G) :
    (qs.map (fun q => indRow q.1 q.2)).foldl rowProd (unitE G g) =
      match cellOf qs with
      | some ps => unitE (cellCount G (qs.map (·.1.length))) (cellIndex g ps)
      | none => zeroE (cellCount G (qs.map (·.1.length))) := by
  induction qs generalizing G g with
  | nil => rfl
  | cons q qs ih =>
    simp only [List.map_cons, List.foldl_cons, cellOf, List.mapM_cons]
    cases hq : levelIndex q.1 q.2 with
    | none =>
      rw [indRow_none _ _ hq]
      simp only [hq, Option.map_none, Option.bind_eq_bind, Option.bind_none]
      rw [rowProd_zeroE_right _ (allSome_unitE G g), unitE_length, foldl_rowProd_zeroE_indRow]
      rfl
    | some i =>
      have hi := levelIndex_lt q.1 q.2 i hq
      rw [indRow_some _ _ i hq]
      simp only [hq, Option.map_some, Option.bind_eq_bind, Option.bind_some]
      rw [rowProd_unitE_unitE G q.1.length g i hg hi, ih (G * q.1.length) (g * q.1.length + i)
        (cell_lt _ _ _ _ hg hi)]
      simp only [cellOf]
      cases hps : List.mapM (fun (q : List Level × Option Level) =>
          (levelIndex q.1 q.2).map (fun g => (q.1.length, g))) qs with
      | none => simp [cellCount]
      | some ps => simp [cellCount, cellIndex]

theorem cellOf_some_lt (qs : List (List Level × Option Level)) (ps : List (Nat × Nat))
    (h : cellOf qs = some ps) : (∀ p ∈ ps, p.2 < p.1) ∧ ps.map (·.1) = qs.map (·.1.length) := by
  induction qs generalizing ps with
  | nil =>
    simp only [cellOf, List.mapM_nil, Option.pure_def, Option.some.injEq] at h
    subst h; simp
  | cons q qs ih =>
    simp only [cellOf, List.mapM_cons, Option.bind_eq_bind, Option.pure_def] at h
    cases hq : levelIndex q.1 q.2 with
    | none => rw [hq] at h; simp at h
    | some i =>
      rw [hq] at h
      simp only [Option.map_some, Option.bind_some] at h
      cases hps : List.mapM (fun (q : List Level × Option Level) =>
          (levelIndex q.1 q.2).map (fun g => (q.1.length, g))) qs with
      | none => rw [hps] at h; simp at h
      | some ps' =>
        rw [hps] at h
        simp only [Option.bind_some, Option.some.injEq] at h
        subst h
        obtain ⟨h1, h2⟩ := ih ps' hps
        refine ⟨?_, by simp [h2]⟩
        intro p hp
        simp only [List.mem_cons] at hp
        rcases hp with rfl | hp
        · exact levelIndex_lt q.1 q.2 i hq
        · exact h1 p hp

/-- the row of the new indicator matrix for a cell: its indicator row, or zeros when some
grouping value is unseen -/
def newCellRow (qs : List (List Level × Option Level)) : List Entry :=
  match cellOf qs with
  | some ps => unitE (cellCount 1 (qs.map (·.1.length))) (cellIndex 0 ps)
  | none => zeroE (cellCount 1 (qs.map (·.1.length)))

/-- n-ary product of the new rows of the components (at least one component) -/
theorem reduceRows_indRow (q : List Level × Option Level) (qs : List (List Level × Option Level)) :
    (qs.map (fun q => indRow q.1 q.2)).foldl rowProd (indRow q.1 q.2) = newCellRow (q :: qs) := by
  simp only [newCellRow, cellOf, List.mapM_cons, List.map_cons, cellCount_one_cons]
  cases hq : levelIndex q.1 q.2 with
  | none =>
    rw [indRow_none _ _ hq]
    simp only [hq, Option.map_none, Option.bind_eq_bind, Option.bind_none]
    exact foldl_rowProd_zeroE_indRow qs _
  | some i =>
    have hi := levelIndex_lt q.1 q.2 i hq
    rw [indRow_some _ _ i hq]
    simp only [hq, Option.map_some, Option.bind_eq_bind, Option.bind_some]
    rw [foldl_rowProd_indRow qs _ i hi]
    simp only [cellOf]
    cases hps : List.mapM (fun (q : List Level × Option Level) =>
        (levelIndex q.1 q.2).map (fun g => (q.1.length, g))) qs with
    | none => simp
    | some ps => simp [cellIndex]

theorem isZeroRow_newCellRow (qs : List (List Level × Option Level)) :
    isZeroRow (newCellRow qs) = (cellOf qs).isNone := by
  unfold newCellRow
  cases h : cellOf qs with
  | none => simp [isZeroRow_zeroE]
  | some ps =>
    simp only [Option.isNone_some]
    apply isZeroRow_unitE
    obtain ⟨h1, h2⟩ := cellOf_some_lt qs ps h
    cases ps with
    | nil =>
      cases qs with
      | nil => simp [cellIndex, cellCount]
      | cons q qs => simp at h2
    | cons p ps =>
      cases qs with
      | nil => simp at h2
      | cons q qs =>
        simp only [List.map_cons, List.cons.injEq] at h2
        rw [cellIndex_zero_cons, List.map_cons, cellCount_one_cons, ← h2.1, ← h2.2]
        exact (foldl_rowProd_unitE ps p.1 p.2 (h1 p (by simp)) (fun q hq => h1 q (by simp [hq]))).2

end FormulaeModel.Design
