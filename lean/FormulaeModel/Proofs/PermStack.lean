import FormulaeModel.Proofs.PermTerm
import FormulaeModel.Spec.C08
set_option linter.unusedSimpArgs false
set_option linter.unusedVariables false
/-
Helper lemmas for C08 (part 6): the slices.  Every matrix the model produces has rows of one
width, so the number of columns of a block — read off its first row by `Matrix.ncols` — does not
depend on which training row comes first; hence `stack` of the row-permuted blocks has the same
slices and labels, and the row-permuted matrix.
-/
namespace FormulaeModel.Design
open FormulaeModel FormulaeModel.Spec.C06

/-- every row has `w` entries -/
def Uniform (m : Matrix) (w : Nat) : Prop := ∀ r ∈ m, r.length = w

theorem ncols_selectRows (m : Matrix) (w n : Nat) (sigma : List Nat) (hp : IsPerm sigma n)
    (hl : m.length = n) (hu : Uniform m w) : (selectRows m sigma).ncols = m.ncols := by
  cases sigma with
  | nil =>
    have : n = 0 := by simpa using hp.length.symm
    subst this
    have : m = [] := List.length_eq_zero_iff.1 hl
    subst this
    rfl
  | cons i is =>
    have hi : i < m.length := hl ▸ hp.lt i (by simp)
    cases m with
    | nil => simp at hi
    | cons r rs =>
      simp only [selectRows, List.map_cons, Matrix.ncols]
      rw [hu r (by simp)]
      apply hu
      simp only [List.getD_eq_getElem?_getD, List.getElem?_eq_getElem hi, Option.getD_some]
      exact List.getElem_mem _

/-! ### contrast matrices have rows of one width, one row per level -/

theorem code_uniform (c : Contrast) (full : Bool) (levels : List Level) (cm : ContrastMatrix)
    (h : c.code full levels = .ok cm) :
    cm.rows.length = levels.length ∧ ∃ w, ∀ r ∈ cm.rows, r.length = w := by
  have red : ∀ (n o : Nat), ∀ (z : Int), ∀ r ∈ (List.range n).map (fun i =>
      if i < o then unitRow (n - 1) i else if i == o then List.replicate (n - 1) z
      else unitRow (n - 1) (i - 1)), r.length = n - 1 := by
    intro n o z r hr
    simp only [List.mem_map, List.mem_range] at hr
    obtain ⟨i, _, rfl⟩ := hr
    split
    · exact unitRow_length _ _
    · split
      · simp
      · exact unitRow_length _ _
  cases c with
  | treatment rf =>
    cases full with
    | true =>
      simp only [Contrast.code, pure_ok] at h
      subst h
      refine ⟨by simp [treatmentFull], levels.length, ?_⟩
      intro r hr
      simp only [treatmentFull, List.mem_map, List.mem_range] at hr
      obtain ⟨i, _, rfl⟩ := hr
      exact unitRow_length _ _
    | false =>
      simp only [Contrast.code] at h
      obtain ⟨r, _, hrows, _⟩ := treatmentReduced_ok rf levels cm h
      rw [hrows]
      exact ⟨by simp [reducedRows], levels.length - 1, red _ _ 0⟩
  | sum o =>
    cases full with
    | true =>
      simp only [Contrast.code, sumFull, bind_ok, pure_ok] at h
      obtain ⟨c', hc', rfl⟩ := h
      simp only [sumReduced, bind_ok, pure_ok] at hc'
      obtain ⟨o', _, rfl⟩ := hc'
      refine ⟨by simp, (levels.length - 1) + 1, ?_⟩
      intro r hr
      simp only [List.mem_map] at hr
      obtain ⟨r', hr', rfl⟩ := hr
      have := red levels.length o' (-1) r' (by simpa using hr')
      simp [this]
    | false =>
      simp only [Contrast.code, sumReduced, bind_ok, pure_ok] at h
      obtain ⟨o', _, rfl⟩ := h
      exact ⟨by simp, levels.length - 1, red _ _ (-1)⟩

theorem codeRows_uniform (cm : ContrastMatrix) (levels : List Level) (xs : List (Option Level)) (m : Matrix)
    (w : Nat) (hlen : cm.rows.length = levels.length) (hw : ∀ r ∈ cm.rows, r.length = w)
    (h : codeRows cm levels xs = .ok m) : Uniform m w := by
  intro r hr
  obtain ⟨k, hk, rfl⟩ := List.mem_iff_getElem.1 hr
  obtain ⟨hl, hall⟩ := mapM_ok_get _ xs m h
  have := hall k (by omega) hk
  cases hxi : xs[k]'(by omega) with
  | none => rw [hxi] at this; simp at this
  | some l =>
    rw [hxi] at this
    simp only at this
    split at this
    · rename_i i hi
      obtain ⟨hi', _⟩ := indexOf?_some l levels i hi
      simp only [pure_ok] at this
      rw [← this]
      have hi'' : i < cm.rows.length := hlen ▸ hi'
      simp only [rowOfInts, List.length_map, List.getD_eq_getElem?_getD, List.getElem?_eq_getElem hi'',
        Option.getD_some]
      exact hw _ (List.getElem_mem _)
    · simp at this

theorem evalCategoric_uniform (name : String) (xs : List (Option Level)) (d : Option (Bool × List String))
    (full : Bool) (levels : List Level) (cm : ContrastMatrix) (m : Matrix)
    (h : evalCategoric name xs d full = .ok (levels, cm, m)) : ∃ w, Uniform m w := by
  unfold evalCategoric at h
  repeat' split at h
  all_goals first
    | (simp [bind, Except.bind] at h; done)
    | (simp only [bind_ok, pure_ok, Prod.mk.injEq] at h
       obtain ⟨ls, hls, cm', hcm, m', hm, rfl, rfl, rfl⟩ := h
       obtain ⟨h1, w, h2⟩ := code_uniform _ _ _ _ hcm
       exact ⟨w, codeRows_uniform _ _ _ _ w h1 h2 hm⟩)

theorem evalBox_uniform (b : Box) (full : Bool) (levels : List Level) (cm : ContrastMatrix) (m : Matrix)
    (h : evalBox b full = .ok (levels, cm, m)) : ∃ w, Uniform m w := by
  unfold evalBox at h
  repeat' split at h
  all_goals first
    | (simp [bind, Except.bind] at h; done)
    | (simp only [bind_ok, pure_ok, Prod.mk.injEq] at h
       obtain ⟨ls, hls, cm', hcm, m', hm, rfl, rfl, rfl⟩ := h
       obtain ⟨h1, w, h2⟩ := code_uniform _ _ _ _ hcm
       exact ⟨w, codeRows_uniform _ _ _ _ w h1 h2 hm⟩)

theorem colOfEntries_uniform (xs : List Entry) : Uniform (colOfEntries xs) 1 := by
  intro r hr
  simp only [colOfEntries, List.mem_map] at hr
  obtain ⟨x, _, rfl⟩ := hr
  rfl

/-! ### components, terms, group-specific terms -/

theorem compOfVal_uniform (n : Nat) (name : String) (e : Expr) (forced isResponse full : Bool)
    (v : Val) (ts : TS) (out : CompOut)
    (h : compOfVal n name e forced isResponse full v ts = .ok out) : ∃ w, Uniform out.value w := by
  unfold compOfVal at h
  simp only at h
  split at h
  · split at h
    · simp only [bind_ok, pure_ok] at h
      obtain ⟨ls, hls, ⟨levels, cm, m⟩, hcat, rfl⟩ := h
      exact evalCategoric_uniform _ _ _ _ _ _ _ hcat
    · simp only [pure_ok] at h
      subst h
      exact ⟨1, colOfEntries_uniform _⟩
  · simp only [bind_ok, pure_ok] at h
    obtain ⟨⟨levels, cm, m⟩, hcat, rfl⟩ := h
    exact evalCategoric_uniform _ _ _ _ _ _ _ hcat
  · simp only [bind_ok, pure_ok] at h
    obtain ⟨⟨levels, cm, m⟩, hcat, rfl⟩ := h
    exact evalBox_uniform _ _ _ _ _ hcat
  · split at h
    · simp at h
    · split at h
      · simp at h
      · simp only [pure_ok] at h
        subst h
        exact ⟨1, colOfEntries_uniform _⟩
  · split at h
    · simp at h
    · split at h
      · simp at h
      · simp only [pure_ok] at h
        subst h
        refine ⟨1, ?_⟩
        intro r hr
        rw [List.eq_of_mem_replicate hr]
        rfl
  · split at h
    · simp at h
    · simp only [pure_ok] at h
      subst h
      refine ⟨2, ?_⟩
      intro r hr
      simp only [List.mem_iff_getElem, List.getElem_zipWith] at hr
      obtain ⟨_, _, rfl⟩ := hr
      rfl
  · simp at h

theorem compOfCol_uniform (name : String) (e : Expr) (forced isResponse full : Bool)
    (reference : Option String) (c : Column) (out : CompOut)
    (h : compOfCol name e forced isResponse full reference c = .ok out) : ∃ w, Uniform out.value w := by
  unfold compOfCol at h
  simp only at h
  split at h
  · split at h
    · simp only [bind_ok, pure_ok] at h
      obtain ⟨ls, hls, ⟨levels, cm, m⟩, hcat, rfl⟩ := h
      exact evalCategoric_uniform _ _ _ _ _ _ _ hcat
    · simp only [pure_ok] at h
      subst h
      exact ⟨1, colOfEntries_uniform _⟩
  · rename_i xs d hv
    split at h
    · split at h
      · simp at h
      · rcases d with _ | ⟨_ | _, cats⟩ <;> cases hsl : sortLevels (xs.filterMap id) <;>
          simp only [hsl] at h <;> (try (simp [bind, Except.bind] at h; done))
        all_goals (
          simp only [pure_bind, pure_ok] at h
          subst h
          refine ⟨1, ?_⟩
          intro r hr
          simp only [List.mem_map] at hr
          obtain ⟨x, _, rfl⟩ := hr
          rfl)
    · simp only [bind_ok, pure_ok] at h
      obtain ⟨⟨levels, cm, m⟩, hcat, rfl⟩ := h
      exact evalCategoric_uniform _ _ _ _ _ _ _ hcat
  · simp at h

theorem trainComp_uniform (env : Env) (name : String) (e : Expr) (forced isResponse full : Bool)
    (out : CompOut) (h : trainComp env name e forced isResponse full = .ok out) :
    ∃ w, Uniform out.value w := by
  cases hc : isCallLike e with
  | true =>
    rw [trainComp_call _ _ _ _ _ _ hc] at h
    simp only [bind_ok] at h
    obtain ⟨⟨v, ts⟩, _, h⟩ := h
    exact compOfVal_uniform _ _ _ _ _ _ _ _ _ h
  | false =>
    rw [trainComp_var _ _ _ _ _ _ hc] at h
    split at h
    · simp at h
    · exact compOfCol_uniform _ _ _ _ _ _ _ _ h

theorem interactionMatrix_uniform (x y : Matrix) (a b : Nat) (hx : Uniform x a) (hy : Uniform y b) :
    Uniform (interactionMatrix x y) (a * b) := by
  intro r hr
  obtain ⟨k, hk, rfl⟩ := List.mem_iff_getElem.1 hr
  simp only [interactionMatrix, List.length_zipWith] at hk
  rw [interactionMatrix_row x y k (by omega) (by omega), length_rowProd,
    hx _ (List.getElem_mem _), hy _ (List.getElem_mem _)]

theorem reduceMatrices_uniform (ms : List Matrix) (h : ∀ m ∈ ms, ∃ w, Uniform m w) :
    ∃ w, Uniform (reduceMatrices ms) w := by
  cases ms with
  | nil => exact ⟨0, by intro r hr; simp [reduceMatrices] at hr⟩
  | cons m ms =>
    simp only [reduceMatrices]
    obtain ⟨w, hm⟩ := h m (by simp)
    have hms : ∀ a ∈ ms, ∃ w, Uniform a w := fun a ha => h a (by simp [ha])
    clear h
    induction ms generalizing m w with
    | nil => exact ⟨w, hm⟩
    | cons a ms ih =>
      obtain ⟨wa, ha⟩ := hms a (by simp)
      simp only [List.foldl_cons]
      exact ih _ _ (interactionMatrix_uniform m a w wa hm ha) (fun b hb => hms b (by simp [hb]))

theorem trainTerm_uniform (env : Env) (table : List (String × Expr)) (spec : TermSpec)
    (forced isResponse : Bool) (out : TermOut)
    (h : trainTerm env table spec forced isResponse = .ok out) : ∃ w, Uniform out.data w := by
  unfold trainTerm at h
  simp only [bind_ok, pure_ok] at h
  obtain ⟨outs, houts, rfl⟩ := h
  have := mapM_forall _ (fun o => ∃ w, Uniform o.value w) _ _ houts (by
    intro c hc o ho
    simp only [bind_ok] at ho
    obtain ⟨e, he, ho⟩ := ho
    exact trainComp_uniform env c.1 e _ _ _ o ho)
  exact reduceMatrices_uniform _ (by simpa using this)

theorem onesCol_uniform (n : Nat) : Uniform (onesCol n) 1 := by
  intro r hr
  rw [List.eq_of_mem_replicate hr]
  rfl

theorem trainGroup_uniform (env : Env) (table : List (String × Expr)) (spec : GroupSpec) (out : GroupOut)
    (h : trainGroup env table spec = .ok out) : ∃ w, Uniform out.data w := by
  unfold trainGroup at h
  simp only [bind_ok] at h
  obtain ⟨f, hf, h⟩ := h
  obtain ⟨wf, hwf⟩ := trainTerm_uniform _ _ _ _ _ _ hf
  cases hse : spec.expr with
  | none =>
    simp only [hse, pure_bind, pure_ok] at h
    subst h
    exact ⟨_, interactionMatrix_uniform _ _ _ _ hwf (onesCol_uniform _)⟩
  | some ts =>
    simp only [hse, bind_ok, pure_ok] at h
    obtain ⟨t, ht, _, rfl, rfl⟩ := h
    obtain ⟨wt, hwt⟩ := trainTerm_uniform _ _ _ _ _ _ ht
    exact ⟨_, interactionMatrix_uniform _ _ _ _ hwf hwt⟩

/-! ### `stack`: matrix, slices, labels -/

/-- a named block with its rows permuted -/
def permBlock (sigma : List Nat) (p : String × Matrix × Option (List String)) :
    String × Matrix × Option (List String) := (p.1, selectRows p.2.1 sigma, p.2.2)

/-- **the stacked matrix of row-permuted blocks**: rows permuted, the same slices, the same labels -/
theorem stack_perm (n : Nat) (sigma : List Nat) (hp : IsPerm sigma n)
    (ps : List (String × Matrix × Option (List String)))
    (hl : ∀ p ∈ ps, p.2.1.length = n) (hu : ∀ p ∈ ps, ∃ w, Uniform p.2.1 w) :
    (stack n (ps.map (permBlock sigma))).matrix = selectRows (stack n ps).matrix sigma ∧
    (stack n (ps.map (permBlock sigma))).slices = (stack n ps).slices ∧
    (stack n (ps.map (permBlock sigma))).labels = (stack n ps).labels := by
  refine ⟨?_, ?_, ?_⟩
  · simp only [stack, List.map_map]
    have hl' : ∀ m ∈ ps.map (·.2.1), m.length = n := by
      intro m hm
      simp only [List.mem_map] at hm
      obtain ⟨p, hp', rfl⟩ := hm
      exact hl p hp'
    rw [selectRows_hstack _ _ sigma hl' hp.lt, List.map_map, hp.length]
    rfl
  · simp only [stack, List.map_map]
    congr 1
    apply List.map_congr_left
    intro p hp'
    obtain ⟨w, hw⟩ := hu p hp'
    simp only [Function.comp, permBlock, ncols_selectRows _ w n sigma hp (hl p hp') hw]
  · simp only [stack]
    rw [List.mapM_map]
    rfl

/-! ### the Boolean predicate of the specification is `IsPerm` -/

theorem perm_of_nodup_subset_length {α : Type} [DecidableEq α] : ∀ (l sigma : List α), l.Nodup →
    l ⊆ sigma → sigma.length = l.length → sigma.Perm l
  | [], sigma, _, _, hl => by
    have : sigma = [] := List.length_eq_zero_iff.1 (by simpa using hl)
    subst this
    exact List.Perm.nil
  | a :: t, sigma, hn, hs, hl => by
    have ha : a ∈ sigma := hs (by simp)
    have hn' := List.nodup_cons.1 hn
    have hsub : t ⊆ sigma.erase a := fun x hx =>
      (List.mem_erase_of_ne (by rintro rfl; exact hn'.1 hx)).2 (hs (List.mem_cons_of_mem _ hx))
    have hlen : (sigma.erase a).length = t.length := by
      rw [List.length_erase_of_mem ha, hl]; simp
    exact (List.perm_cons_erase ha).trans ((perm_of_nodup_subset_length t _ hn'.2 hsub hlen).cons a)

/-- `Spec.C08.isPermutation` (what the driver checks on the σ sent by the harness) is `IsPerm` -/
theorem isPerm_iff (sigma : List Nat) (n : Nat) :
    Spec.C08.isPermutation sigma n = true ↔ IsPerm sigma n := by
  constructor
  · intro h
    simp only [Spec.C08.isPermutation, Bool.and_eq_true, beq_iff_eq, List.all_eq_true,
      List.contains_iff_mem] at h
    exact perm_of_nodup_subset_length _ _ List.nodup_range (fun x hx => h.2 x hx) (by simp [h.1])
  · intro h
    simp only [Spec.C08.isPermutation, Bool.and_eq_true, beq_iff_eq, List.all_eq_true,
      List.contains_iff_mem]
    exact ⟨h.length, fun x hx => h.mem_iff.2 hx⟩

end FormulaeModel.Design
