import FormulaeModel.Model.Frame
set_option linter.unusedSimpArgs false
/-
Helper lemmas for C08 (part 1): `sorted(set(xs))` does not depend on the order of `xs`.

* `dedupL` keeps exactly the members, without duplicates: two permuted inputs give permuted outputs;
* `sortBy lt` (insertion sort) returns a permutation of its input that is sorted for
  `le a b := lt b a = false`; when `lt` is a strict total order on the elements, the sorted
  permutation is unique (`List.Perm.eq_of_pairwise`), so permuted inputs give *equal* outputs;
* `Level.lt?` is a strict total order on all-string and on all-integer lists, hence
  `sortLevels_perm`.
-/
namespace FormulaeModel

/-! ### `dedupL` -/

theorem mem_dedupL {α : Type} [DecidableEq α] (xs : List α) (a : α) : a ∈ dedupL xs ↔ a ∈ xs := by
  induction xs with
  | nil => simp [dedupL]
  | cons x xs ih =>
    simp only [dedupL]
    split
    · rename_i h
      have hx : x ∈ xs := by simpa using h
      rw [ih]
      constructor
      · intro h; exact List.mem_cons_of_mem _ h
      · intro h
        rcases List.mem_cons.1 h with rfl | h
        · exact hx
        · exact h
    · simp [ih]

theorem nodup_dedupL {α : Type} [DecidableEq α] (xs : List α) : (dedupL xs).Nodup := by
  induction xs with
  | nil => simp [dedupL]
  | cons x xs ih =>
    simp only [dedupL]
    split
    · exact ih
    · rename_i h
      have hx : x ∉ xs := by simpa using h
      exact List.nodup_cons.2 ⟨by rwa [mem_dedupL], ih⟩

/-- `set(xs)` of permuted lists: the same members, each once -/
theorem dedupL_perm {α : Type} [DecidableEq α] {xs ys : List α} (h : xs.Perm ys) :
    (dedupL xs).Perm (dedupL ys) := by
  rw [List.perm_ext_iff_of_nodup (nodup_dedupL xs) (nodup_dedupL ys)]
  intro a
  rw [mem_dedupL, mem_dedupL]
  exact h.mem_iff

theorem all_perm {α : Type} (p : α → Bool) {xs ys : List α} (h : xs.Perm ys) : xs.all p = ys.all p := by
  rw [Bool.eq_iff_iff, List.all_eq_true, List.all_eq_true]
  constructor
  · intro hx a ha; exact hx a (h.mem_iff.2 ha)
  · intro hy a ha; exact hy a (h.mem_iff.1 ha)

theorem any_perm {α : Type} (p : α → Bool) {xs ys : List α} (h : xs.Perm ys) : xs.any p = ys.any p := by
  rw [Bool.eq_iff_iff, List.any_eq_true, List.any_eq_true]
  constructor
  · rintro ⟨a, ha, hp⟩; exact ⟨a, h.mem_iff.1 ha, hp⟩
  · rintro ⟨a, ha, hp⟩; exact ⟨a, h.mem_iff.2 ha, hp⟩

/-! ### insertion sort -/

theorem perm_insertBy {α : Type} (lt : α → α → Bool) (x : α) (l : List α) :
    (insertBy lt x l).Perm (x :: l) := by
  induction l with
  | nil => simp [insertBy]
  | cons y ys ih =>
    simp only [insertBy]
    split
    · exact List.Perm.refl _
    · exact (List.Perm.cons y ih).trans (List.Perm.swap x y ys)

theorem perm_sortBy {α : Type} (lt : α → α → Bool) (xs : List α) : (sortBy lt xs).Perm xs := by
  induction xs with
  | nil => simp [sortBy]
  | cons x xs ih =>
    simp only [sortBy, List.foldr_cons] at ih ⊢
    exact (perm_insertBy lt x _).trans (List.Perm.cons x ih)

/-- `lt` is a strict total order on the elements that satisfy `P` -/
structure StrictTotalOn {α : Type} (lt : α → α → Bool) (P : α → Prop) : Prop where
  asymm : ∀ a b, P a → P b → lt a b = true → lt b a = false
  trans : ∀ a b c, P a → P b → P c → lt a b = true → lt b c = true → lt a c = true
  tri : ∀ a b, P a → P b → lt a b = false → lt b a = false → a = b

/-- sorted: no later element is strictly below an earlier one -/
def SortedBy {α : Type} (lt : α → α → Bool) (l : List α) : Prop :=
  l.Pairwise (fun a b => lt b a = false)

theorem sorted_insertBy {α : Type} (lt : α → α → Bool) (P : α → Prop) (ho : StrictTotalOn lt P)
    (x : α) (l : List α) (hx : P x) (hl : ∀ a ∈ l, P a) (hs : SortedBy lt l) :
    SortedBy lt (insertBy lt x l) := by
  induction l with
  | nil => simp [insertBy, SortedBy]
  | cons y ys ih =>
    have hy := hl y (by simp)
    have hys : ∀ a ∈ ys, P a := fun a ha => hl a (by simp [ha])
    simp only [SortedBy, List.pairwise_cons] at hs
    simp only [insertBy]
    split
    · rename_i hxy
      simp only [SortedBy, List.pairwise_cons]
      refine ⟨?_, hs⟩
      intro z hz
      rcases List.mem_cons.1 hz with rfl | hz
      · exact ho.asymm x z hx hy hxy
      · cases hzx : lt z x with
        | false => rfl
        | true =>
          have := ho.trans z x y (hys z hz) hx hy hzx hxy
          rw [hs.1 z hz] at this
          exact absurd this (by simp)
    · rename_i hxy
      have hxy' : lt x y = false := by simpa using hxy
      simp only [SortedBy, List.pairwise_cons]
      refine ⟨?_, ih hys hs.2⟩
      intro z hz
      rcases List.mem_cons.1 ((perm_insertBy lt x ys).mem_iff.1 hz) with rfl | hz
      · exact hxy'
      · exact hs.1 z hz

theorem sorted_sortBy {α : Type} (lt : α → α → Bool) (P : α → Prop) (ho : StrictTotalOn lt P)
    (xs : List α) (hl : ∀ a ∈ xs, P a) : SortedBy lt (sortBy lt xs) := by
  induction xs with
  | nil => simp [sortBy, SortedBy]
  | cons x xs ih =>
    have hxs : ∀ a ∈ xs, P a := fun a ha => hl a (by simp [ha])
    simp only [sortBy, List.foldr_cons] at ih ⊢
    apply sorted_insertBy lt P ho x _ (hl x (by simp)) _ (ih hxs)
    intro a ha
    exact hxs a ((perm_sortBy lt xs).mem_iff.1 ha)

/-- **sorting is order-independent**: for a strict total order, the sorted list is a function of
the multiset of the elements -/
theorem sortBy_perm {α : Type} (lt : α → α → Bool) (P : α → Prop) (ho : StrictTotalOn lt P)
    {xs ys : List α} (hp : xs.Perm ys) (hl : ∀ a ∈ xs, P a) : sortBy lt xs = sortBy lt ys := by
  have hl' : ∀ a ∈ ys, P a := fun a ha => hl a (hp.mem_iff.2 ha)
  apply List.Perm.eq_of_pairwise (le := fun a b => lt b a = false)
  · intro a b ha hb h1 h2
    exact ho.tri a b (hl a ((perm_sortBy lt xs).mem_iff.1 ha)) (hl' b ((perm_sortBy lt ys).mem_iff.1 hb)) h2 h1
  · exact sorted_sortBy lt P ho xs hl
  · exact sorted_sortBy lt P ho ys hl'
  · exact (perm_sortBy lt xs).trans (hp.trans (perm_sortBy lt ys).symm)

/-! ### levels -/

def Level.isS : Level → Bool
  | .s _ => true
  | _ => false

def Level.isN : Level → Bool
  | .n _ => true
  | _ => false

def levelLt (a b : Level) : Bool := (a.lt? b).getD false

theorem levelLt_strings : StrictTotalOn levelLt (fun l => l.isS = true) where
  asymm := by
    intro a b ha hb h
    cases a <;> cases b <;> simp_all [Level.isS, levelLt, Level.lt?]
    exact String.lt_asymm h
  trans := by
    intro a b c ha hb hc h1 h2
    cases a <;> cases b <;> cases c <;> simp_all [Level.isS, levelLt, Level.lt?]
    exact String.lt_trans h1 h2
  tri := by
    intro a b ha hb h1 h2
    cases a <;> cases b <;> simp_all [Level.isS, levelLt, Level.lt?]
    exact String.le_antisymm h2 h1

theorem levelLt_ints : StrictTotalOn levelLt (fun l => l.isN = true) where
  asymm := by
    intro a b ha hb h
    cases a <;> cases b <;> simp_all [Level.isN, levelLt, Level.lt?]
    omega
  trans := by
    intro a b c ha hb hc h1 h2
    cases a <;> cases b <;> cases c <;> simp_all [Level.isN, levelLt, Level.lt?]
    omega
  tri := by
    intro a b ha hb h1 h2
    cases a <;> cases b <;> simp_all [Level.isN, levelLt, Level.lt?]
    omega

theorem sortLevels_eq (ls : List Level) :
    sortLevels ls =
      if (dedupL ls).all Level.isS || (dedupL ls).all Level.isN then some (sortBy levelLt (dedupL ls))
      else none := by
  unfold sortLevels
  have h1 : (fun (l : Level) => match l with | .s _ => true | _ => false) = Level.isS := by
    funext l; cases l <;> rfl
  have h2 : (fun (l : Level) => match l with | .n _ => true | _ => false) = Level.isN := by
    funext l; cases l <;> rfl
  simp only [h1, h2]
  rfl

/-- **`sorted(set(levels))` is the same for any order of the data** (the TypeError for mixed
types included) -/
theorem sortLevels_perm {xs ys : List Level} (h : xs.Perm ys) : sortLevels xs = sortLevels ys := by
  have hd := dedupL_perm h
  rw [sortLevels_eq, sortLevels_eq, all_perm Level.isS hd, all_perm Level.isN hd]
  split
  · rename_i hc
    congr 1
    rw [Bool.or_eq_true, List.all_eq_true, List.all_eq_true] at hc
    rcases hc with hc | hc
    · exact sortBy_perm levelLt _ levelLt_strings hd (fun a ha => hc a (hd.mem_iff.1 ha))
    · exact sortBy_perm levelLt _ levelLt_ints hd (fun a ha => hc a (hd.mem_iff.1 ha))
  · rfl

/-! ### rationals (`binary`: the default success value is the smallest value) -/

theorem ratLt_order : StrictTotalOn (fun (a b : Rat) => decide (a < b)) (fun _ => True) where
  asymm := by
    intro a b _ _ h
    simp only [decide_eq_true_eq, decide_eq_false_iff_not] at h ⊢
    exact Rat.not_lt.2 (Rat.le_of_lt h)
  trans := by
    intro a b c _ _ _ h1 h2
    simp only [decide_eq_true_eq] at h1 h2 ⊢
    grind
  tri := by
    intro a b _ _ h1 h2
    simp only [decide_eq_false_iff_not, Rat.not_lt] at h1 h2
    exact Rat.le_antisymm h2 h1

theorem sortRat_perm {xs ys : List Rat} (h : xs.Perm ys) :
    sortBy (fun (a b : Rat) => decide (a < b)) xs = sortBy (fun (a b : Rat) => decide (a < b)) ys :=
  sortBy_perm _ _ ratLt_order h (fun _ _ => trivial)

end FormulaeModel
