import FormulaeModel.Proofs.TermsNodup
set_option linter.unusedSectionVars false
set_option linter.unusedSimpArgs false
set_option linter.unusedVariables false
/-
C02, layer 4: additive chains with intercept literals and group-specific items.

Every value that occurs while a chain is resolved is read as a pair of lists (`asC`, `asG`: what
`model_description` would wrap it into), `+` and `-` are computed on these lists in closed form
(`add_as`, `sub_as`), and the lists are related to the state of the specification's chain fold at
the level of sets.
-/
namespace FormulaeModel.Resolver
open FormulaeModel FormulaeModel.Terms FormulaeModel.Spec.C02

-- ---------------------------------------------------------------------------------------------
-- list facts
-- ---------------------------------------------------------------------------------------------
section lists
variable {α : Type} [BEq α] [LawfulBEq α]

theorem mem_removeFirst_nodup {l : List α} (h : l.Nodup) (x y : α) :
    x ∈ removeFirst y l ↔ x ∈ l ∧ x ≠ y := by
  rw [removeFirst_of_nodup h, List.mem_filter]
  simp

theorem mem_remL_nodup {A : List α} (h : A.Nodup) (B : List α) (x : α) :
    x ∈ remL A B ↔ x ∈ A ∧ x ∉ B := by
  rw [remL_of_nodup h, List.mem_filter]
  simp

theorem remL_singleton (x : α) (B : List α) :
    remL [x] B = if B.contains x then [] else [x] := by
  rw [remL_of_nodup (by simp)]
  by_cases h : B.contains x = true
  · have hx : x ∈ B := by simpa using h
    simp [hx]
  · have hx : x ∉ B := by simpa using h
    simp [hx]

theorem remL_nil (B : List α) : remL ([] : List α) B = [] := by
  rw [remL_of_nodup (by simp)]; rfl

theorem remL_nil_right (A : List α) : remL A ([] : List α) = A := rfl

theorem remL_single_right (A : List α) (x : α) : remL A [x] = removeFirst x A := rfl

theorem addL_nil_right (A : List α) : addL A ([] : List α) = A := rfl

theorem addL_nil_left_single (x : α) : addL ([] : List α) [x] = [x] := by simp [addL]

end lists

-- ---------------------------------------------------------------------------------------------
-- values read as what `model_description` wraps them into
-- ---------------------------------------------------------------------------------------------
def asC : Obj → List CTerm
  | .c t => [t]
  | .model m => m.common
  | _ => []

def asG : Obj → List GTerm
  | .g x => [x]
  | .model m => m.group
  | _ => []

def asResp : Obj → Option (List Atom)
  | .model m => m.resp
  | _ => none

/-- a value a chain can continue from: `Intercept`, `NegatedIntercept`, `Term`, `Model` -/
def isAcc : Obj → Bool
  | .c _ => true
  | .model _ => true
  | _ => false

theorem describe_eq {e : Expr} {v : Obj} (h : resolve docOps e = .ok v) (hv : ∀ r, v ≠ .response r) :
    describe docOps e = .ok { common := asC v, group := asG v, resp := asResp v } := by
  simp only [describe, h, bind, Except.bind]
  cases v with
  | c t => rfl
  | g x => rfl
  | model m => rfl
  | response r => exact absurd rfl (hv r)

/-- `lv + rv` on the lists. `rv` is an item value: `Intercept`, `Term`, a bare group-specific
term, or a `Model` without `NegatedIntercept`; `lv` is not a bare `NegatedIntercept` when `rv` is
the `Intercept`. -/
theorem add_as {lv rv v' : Obj} (h : add lv rv = .ok v') (hl : isAcc lv = true)
    (hrv : rv ≠ .c .negIntercept) (hrr : ∀ r, rv ≠ .response r)
    (hneg : ∀ c ∈ asC rv, c ≠ .negIntercept)
    (hni : lv = .c .negIntercept → rv ≠ .c .intercept) :
    asC v' = addL (asC lv) (asC rv) ∧ asG v' = addL (asG lv) (asG rv) ∧ asResp v' = asResp lv ∧
      isAcc v' = true := by
  cases lv with
  | g x => simp [isAcc] at hl
  | response r => simp [isAcc] at hl
  | c t =>
    cases t with
    | intercept =>
      cases rv with
      | c x =>
        cases x with
        | negIntercept => exact absurd rfl hrv
        | intercept =>
          simp only [add, pure, Except.pure] at h; injection h with h; subst h
          simp [asC, asG, asResp, isAcc, addL]
        | term cs =>
          simp only [add, mkModel, mkModelFrom, bind, Except.bind, pure, Except.pure] at h
          injection h with h; subst h
          simp [asC, asG, asResp, isAcc, addL]
      | g x =>
        simp only [add, mkModel, mkModelFrom, bind, Except.bind, pure, Except.pure] at h
        injection h with h; subst h
        simp [asC, asG, asResp, isAcc, addL]
      | response r => exact absurd rfl (hrr r)
      | model o =>
        simp only [add, bind, Except.bind, pure, Except.pure] at h
        rw [addModel_eq _ _ hneg] at h
        injection h with h; subst h
        simp [asC, asG, asResp, isAcc, modelOfC]
    | negIntercept =>
      cases rv with
      | c x =>
        cases x with
        | negIntercept => exact absurd rfl hrv
        | intercept => exact absurd rfl (hni rfl)
        | term cs =>
          simp only [add, mkModel, mkModelFrom, bind, Except.bind, pure, Except.pure] at h
          injection h with h; subst h
          simp [asC, asG, asResp, isAcc, addL]
      | g x =>
        simp only [add, mkModel, mkModelFrom, bind, Except.bind, pure, Except.pure] at h
        injection h with h; subst h
        simp [asC, asG, asResp, isAcc, addL]
      | response r => exact absurd rfl (hrr r)
      | model o =>
        simp only [add, bind, Except.bind, pure, Except.pure] at h
        rw [addModel_eq _ _ hneg] at h
        injection h with h; subst h
        simp [asC, asG, asResp, isAcc, modelOfC]
    | term a =>
      cases rv with
      | c x =>
        cases x with
        | negIntercept => exact absurd rfl hrv
        | intercept => simp [add] at h
        | term b =>
          simp only [add] at h
          by_cases hab : (a == b) = true
          · have : a = b := eq_of_beq hab
            subst this
            simp only [hab, if_true, pure, Except.pure] at h; injection h with h; subst h
            simp [asC, asG, asResp, isAcc, addL]
          · have hne : a ≠ b := fun e => hab (by simp [e])
            simp only [hab, Bool.false_eq_true, if_false, pure, Except.pure] at h
            injection h with h; subst h
            have : ¬ (CTerm.term b = CTerm.term a) := fun e => hne (term_inj _ _ e).symm
            simp [asC, asG, asResp, isAcc, addL, modelOfC, this]
      | g x => simp [add] at h
      | response r => exact absurd rfl (hrr r)
      | model o =>
        simp only [add, bind, Except.bind, pure, Except.pure] at h
        rw [addModel_eq _ _ hneg] at h
        injection h with h; subst h
        simp [asC, asG, asResp, isAcc, modelOfC]
  | model m =>
    cases rv with
    | c x =>
      cases x with
      | negIntercept => exact absurd rfl hrv
      | intercept =>
        simp only [add, bind, Except.bind, pure, Except.pure] at h
        rw [addTerm_c _ _ (by simp)] at h
        injection h with h; subst h
        simp [asC, asG, asResp, isAcc, addL_nil_right]
      | term cs =>
        simp only [add, bind, Except.bind, pure, Except.pure] at h
        rw [addTerm_c _ _ (by simp)] at h
        injection h with h; subst h
        simp [asC, asG, asResp, isAcc, addL_nil_right]
    | g x =>
      simp only [add, bind, Except.bind, pure, Except.pure] at h
      rw [addTerm_g] at h
      injection h with h; subst h
      simp [asC, asG, asResp, isAcc, addL_nil_right]
    | response r => exact absurd rfl (hrr r)
    | model o =>
      simp only [add, bind, Except.bind, pure, Except.pure] at h
      rw [addModel_eq _ _ hneg] at h
      injection h with h; subst h
      simp [asC, asG, asResp, isAcc]

/-- `lv + 0` on the lists -/
theorem add_neg_as {lv v' : Obj} (h : add lv (.c .negIntercept) = .ok v') (hl : isAcc lv = true) :
    asC v' = removeFirst .intercept (asC lv) ∧ asG v' = asG lv ∧ asResp v' = asResp lv ∧
      isAcc v' = true := by
  cases lv with
  | g x => simp [isAcc] at hl
  | response r => simp [isAcc] at hl
  | c t =>
    cases t with
    | intercept =>
      simp only [add, pure, Except.pure] at h; injection h with h; subst h
      simp [asC, asG, asResp, isAcc, removeFirst]
    | negIntercept =>
      simp only [add, pure, Except.pure] at h; injection h with h; subst h
      simp [asC, asG, asResp, isAcc, removeFirst]
    | term a => simp [add] at h
  | model m =>
    simp only [add, pure, Except.pure] at h; injection h with h; subst h
    simp [asC, asG, asResp, isAcc]

/-- `lv - rv` on the lists (`rv`: `Intercept`, `Term`, group-specific term, `Model`) -/
theorem sub_as {lv rv v' : Obj} (h : sub lv rv = .ok v') (hl : isAcc lv = true)
    (hrv : rv ≠ .c .negIntercept) (hrr : ∀ r, rv ≠ .response r) :
    asC v' = remL (asC lv) (asC rv) ∧ asG v' = remL (asG lv) (asG rv) ∧ asResp v' = asResp lv ∧
      isAcc v' = true := by
  cases lv with
  | g x => simp [isAcc] at hl
  | response r => simp [isAcc] at hl
  | c t =>
    cases t with
    | negIntercept => cases rv <;> simp [sub] at h
    | intercept =>
      cases rv with
      | c x =>
        cases x with
        | negIntercept => exact absurd rfl hrv
        | intercept =>
          simp only [sub, pure, Except.pure] at h; injection h with h; subst h
          simp [asC, asG, asResp, isAcc, remL_singleton, remL_nil]
        | term cs => simp [sub] at h
      | g x => simp [sub] at h
      | response r => exact absurd rfl (hrr r)
      | model o =>
        simp only [sub, pure, Except.pure] at h
        by_cases hc : o.common.contains .intercept = true
        · have hm : CTerm.intercept ∈ o.common := by simpa using hc
          simp only [hc, if_true] at h; injection h with h; subst h
          simp [asC, asG, asResp, isAcc, remL_singleton, hm, remL_nil]
        · have hm : CTerm.intercept ∉ o.common := by simpa using hc
          simp only [hc, Bool.false_eq_true, if_false] at h; injection h with h; subst h
          simp [asC, asG, asResp, isAcc, remL_singleton, hm, remL_nil]
    | term a =>
      cases rv with
      | c x =>
        cases x with
        | negIntercept => exact absurd rfl hrv
        | intercept => simp [sub] at h
        | term b =>
          simp only [sub] at h
          by_cases hab : (a == b) = true
          · have : a = b := eq_of_beq hab
            subst this
            simp only [hab, if_true, pure, Except.pure] at h; injection h with h; subst h
            simp [asC, asG, asResp, isAcc, remL_singleton, remL_nil]
          · have hne : a ≠ b := fun e => hab (by simp [e])
            simp only [hab, Bool.false_eq_true, if_false, pure, Except.pure] at h
            injection h with h; subst h
            have : ¬ (CTerm.term a = CTerm.term b) := fun e => hne (term_inj _ _ e)
            simp [asC, asG, asResp, isAcc, remL_singleton, this, remL_nil]
      | g x => simp [sub] at h
      | response r => exact absurd rfl (hrr r)
      | model o =>
        simp only [sub, pure, Except.pure] at h
        by_cases hc : o.common.contains (.term a) = true
        · have hm : (CTerm.term a) ∈ o.common := by simpa using hc
          simp only [hc, if_true] at h; injection h with h; subst h
          simp [asC, asG, asResp, isAcc, remL_singleton, hm, remL_nil]
        · have hm : (CTerm.term a) ∉ o.common := by simpa using hc
          simp only [hc, Bool.false_eq_true, if_false] at h; injection h with h; subst h
          simp [asC, asG, asResp, isAcc, remL_singleton, hm, remL_nil]
  | model m =>
    cases rv with
    | c x =>
      cases x with
      | negIntercept => exact absurd rfl hrv
      | intercept =>
        simp only [sub, pure, Except.pure] at h; injection h with h; subst h
        simp [asC, asG, asResp, isAcc, remL_single_right, remL_nil_right]
      | term cs =>
        simp only [sub, pure, Except.pure] at h; injection h with h; subst h
        simp [asC, asG, asResp, isAcc, remL_single_right, remL_nil_right]
    | g x =>
      simp only [sub, pure, Except.pure] at h; injection h with h; subst h
      simp [asC, asG, asResp, isAcc, remL_single_right, remL_nil_right]
    | response r => exact absurd rfl (hrr r)
    | model o =>
      simp only [sub, pure, Except.pure] at h; injection h with h; subst h
      simp [asC, asG, asResp, isAcc, remL]

-- ---------------------------------------------------------------------------------------------
-- the lists against the state of the specification's chain fold, as sets
-- ---------------------------------------------------------------------------------------------
theorem mem_union {α : Type} [BEq α] [LawfulBEq α] (a b : List α) (x : α) :
    x ∈ union a b ↔ x ∈ a ∨ x ∈ b := by
  simp only [union, List.mem_append, List.mem_filter]
  by_cases h : x ∈ a <;> simp [h]

theorem mem_diff {α : Type} [BEq α] [LawfulBEq α] (a b : List α) (x : α) :
    x ∈ diff a b ↔ x ∈ a ∧ x ∉ b := by
  simp [diff, List.mem_filter]

structure Rep (cs : List CTerm) (gs : List GTerm) (st : ChainSt) : Prop where
  wfc : ∀ c ∈ cs, c ≠ .negIntercept
  wfg : ∀ g ∈ gs, ∃ s, sgOf g = some s
  icpt : cs.contains .intercept = st.1
  terms : ∀ t, CTerm.term t ∈ cs ↔ t ∈ st.2.1
  groups : ∀ s, (∃ g ∈ gs, sgOf g = some s) ↔ s ∈ st.2.2

theorem sgOf_inj {g g' : GTerm} {s : SG} (h : sgOf g = some s) (h' : sgOf g' = some s) :
    g = g' := by
  obtain ⟨e, f⟩ := g
  obtain ⟨e', f'⟩ := g'
  unfold sgOf at h h'
  cases e <;> cases f <;> simp at h <;> cases e' <;> cases f' <;> simp at h' <;>
    (subst h; simp at h'; try (obtain ⟨rfl, rfl⟩ := h'); try subst h') <;> rfl

theorem Rep.addI {cs gs st} (h : Rep cs gs st) :
    Rep (addL cs [.intercept]) gs (true, st.2.1, st.2.2) where
  wfc := by
    intro c hc
    rcases (mem_addL _ _).1 hc with h1 | h1
    · exact h.wfc c h1
    · simp at h1; subst h1; simp
  wfg := h.wfg
  icpt := by simp [mem_addL]
  terms := by
    intro t
    rw [mem_addL]
    simp [h.terms t]
  groups := h.groups

theorem Rep.remI {cs gs st} (h : Rep cs gs st) (hn : cs.Nodup) :
    Rep (removeFirst .intercept cs) gs (false, st.2.1, st.2.2) where
  wfc := fun c hc => h.wfc c (mem_removeFirst hc)
  wfg := h.wfg
  icpt := by
    rw [Bool.eq_false_iff]
    intro hc
    have := (mem_removeFirst_nodup hn _ _).1 (by simpa using hc)
    exact this.2 rfl
  terms := by
    intro t
    rw [mem_removeFirst_nodup hn]
    simp [h.terms t]
  groups := h.groups

theorem Rep.addPlain {cs gs st} (h : Rep cs gs st) (L ts : List STerm)
    (hL : ∀ t, t ∈ L ↔ t ∈ ts) :
    Rep (addL cs (L.map .term)) gs (st.1, union st.2.1 ts, st.2.2) where
  wfc := by
    intro c hc
    rcases (mem_addL _ _).1 hc with h1 | h1
    · exact h.wfc c h1
    · exact ne_neg_of_map_term c h1
  wfg := h.wfg
  icpt := by
    rw [← h.icpt, Bool.eq_iff_iff]
    simp [mem_addL]
  terms := by
    intro t
    rw [mem_addL, mem_union, h.terms t, ← hL t]
    simp
  groups := h.groups

theorem Rep.subPlain {cs gs st} (h : Rep cs gs st) (hn : cs.Nodup) (L ts : List STerm)
    (hL : ∀ t, t ∈ L ↔ t ∈ ts) :
    Rep (remL cs (L.map .term)) gs (st.1, diff st.2.1 ts, st.2.2) where
  wfc := fun c hc => h.wfc c (mem_remL hc)
  wfg := h.wfg
  icpt := by
    rw [← h.icpt, Bool.eq_iff_iff]
    simp [mem_remL_nodup hn]
  terms := by
    intro t
    rw [mem_remL_nodup hn, mem_diff, h.terms t, ← hL t]
    simp
  groups := h.groups

theorem Rep.addGrp {cs gs st} (h : Rep cs gs st) (Lg : List GTerm) (gs' : List SG)
    (hwf : ∀ g ∈ Lg, ∃ s, sgOf g = some s)
    (hL : ∀ s, (∃ g ∈ Lg, sgOf g = some s) ↔ s ∈ gs') :
    Rep cs (addL gs Lg) (st.1, st.2.1, union st.2.2 gs') where
  wfc := h.wfc
  wfg := by
    intro g hg
    rcases (mem_addL _ _).1 hg with h1 | h1
    · exact h.wfg g h1
    · exact hwf g h1
  icpt := h.icpt
  terms := h.terms
  groups := by
    intro s
    rw [mem_union, ← h.groups s, ← hL s]
    constructor
    · rintro ⟨g, hg, hs⟩
      rcases (mem_addL _ _).1 hg with h1 | h1
      · exact Or.inl ⟨g, h1, hs⟩
      · exact Or.inr ⟨g, h1, hs⟩
    · rintro (⟨g, hg, hs⟩ | ⟨g, hg, hs⟩)
      · exact ⟨g, (mem_addL _ _).2 (Or.inl hg), hs⟩
      · exact ⟨g, (mem_addL _ _).2 (Or.inr hg), hs⟩

theorem Rep.subGrp {cs gs st} (h : Rep cs gs st) (hn : gs.Nodup) (Lg : List GTerm)
    (gs' : List SG) (hL : ∀ s, (∃ g ∈ Lg, sgOf g = some s) ↔ s ∈ gs') :
    Rep cs (remL gs Lg) (st.1, st.2.1, diff st.2.2 gs') where
  wfc := h.wfc
  wfg := fun g hg => h.wfg g (mem_remL hg)
  icpt := h.icpt
  terms := h.terms
  groups := by
    intro s
    rw [mem_diff, ← h.groups s, ← hL s]
    constructor
    · rintro ⟨g, hg, hs⟩
      have := (mem_remL_nodup hn _ _).1 hg
      refine ⟨⟨g, this.1, hs⟩, ?_⟩
      rintro ⟨g', hg', hs'⟩
      exact this.2 (sgOf_inj hs hs' ▸ hg')
    · rintro ⟨⟨g, hg, hs⟩, hno⟩
      refine ⟨g, (mem_remL_nodup hn _ _).2 ⟨hg, fun hg' => hno ⟨g, hg', hs⟩⟩, hs⟩

end FormulaeModel.Resolver
