import FormulaeModel.Proofs.Contrasts
import FormulaeModel.Spec.C03
import FormulaeModel.Proofs.EncodingDim
/-
Lemmas about the pipeline model (`Model/Encoding.lean`): Python-dict helpers, margins-first
families need no extra terms and get exactly one coding per term.
-/
set_option linter.unusedSimpArgs false
namespace FormulaeModel.Encoding
open FormulaeModel.Contrasts FormulaeModel.Spec.C03

theorem get?_set {β : Type} (d : Dict β) (k q : String) (v : β) :
    Dict.get? (Dict.set d k v) q = if k == q then some v else Dict.get? d q := by
  induction d with
  | nil => simp [Dict.set, Dict.get?]
  | cons e d ih =>
    obtain ⟨k', v'⟩ := e
    simp only [Dict.set]
    by_cases h : (k' == k) = true
    · have hk : k' = k := by simpa using h
      subst hk
      simp only [h, if_true, Dict.get?]
      by_cases hq : (k' == q) = true <;> simp [hq]
    · have hk : k' ≠ k := by simpa using h
      simp only [h, Bool.false_eq_true, if_false, Dict.get?, ih]
      by_cases hq : (k' == q) = true
      · have : k' = q := by simpa using hq
        subst this
        have : (k == k') = false := by simpa using fun h' : k = k' => hk h'.symm
        simp [this]
      · simp [hq]

theorem update_values {β : Type} (P : β → Prop) (e : Dict β) :
    ∀ d : Dict β, (∀ k v, Dict.get? d k = some v → P v) → (∀ kv ∈ e, P kv.2) →
      ∀ k v, Dict.get? (Dict.update d e) k = some v → P v := by
  induction e with
  | nil => intro d hd _ k v h; exact hd k v h
  | cons x xs ih =>
    intro d hd he k v h
    simp only [Dict.update, List.foldl_cons] at h
    refine ih (Dict.set d x.1 x.2) ?_ (fun kv hkv => he kv (by simp [hkv])) k v h
    intro k' v' h'
    rw [get?_set] at h'
    by_cases hq : (x.1 == k') = true
    · simp only [hq, if_true] at h'
      injection h' with h'; subst h'; exact he x (by simp)
    · simp only [hq, Bool.false_eq_true, if_false] at h'
      exact hd k' v' h'

theorem foldl_update_values {β : Type} (P : β → Prop) (l : List (Dict β)) :
    ∀ d : Dict β, (∀ k v, Dict.get? d k = some v → P v) → (∀ e ∈ l, ∀ kv ∈ e, P kv.2) →
      ∀ k v, Dict.get? (l.foldl (fun r e => Dict.update r e) d) k = some v → P v := by
  induction l with
  | nil => intro d hd _ k v h; exact hd k v h
  | cons e es ih =>
    intro d hd hl k v h
    simp only [List.foldl_cons] at h
    exact ih (Dict.update d e) (update_values P e d hd (hl e (by simp)))
      (fun e' he' => hl e' (by simp [he'])) k v h

theorem mapExcept_ok {α β ε : Type} (f : α → Except ε β) (Q : β → Prop) (l : List α)
    (h : ∀ x ∈ l, ∃ y, f x = .ok y ∧ Q y) : ∃ ys, mapExcept f l = .ok ys ∧ ∀ y ∈ ys, Q y := by
  induction l with
  | nil => exact ⟨[], rfl, by simp⟩
  | cons x xs ih =>
    obtain ⟨y, hy, hq⟩ := h x (by simp)
    obtain ⟨ys, hys, hqs⟩ := ih (fun x' hx' => h x' (by simp [hx']))
    refine ⟨y :: ys, by simp [mapExcept, hy, hys], ?_⟩
    intro y' hy'
    rcases List.mem_cons.1 hy' with rfl | hy'
    · exact hq
    · exact hqs y' hy'

theorem encodingBools_hier (fam : List TermDesc) (h : hierFamily fam = true) :
    ∃ enc, encodingBools fam = .ok enc ∧ ∀ k v, Dict.get? enc k = some v → v.length = 1 := by
  simp only [hierFamily, List.all_eq_true, Bool.and_eq_true, decide_eq_true_eq] at h
  obtain ⟨outs, hok, hq⟩ := mapExcept_ok pickContrasts (fun out => ∀ e ∈ out, e.2.length = 1)
    (encodingGroups fam) (fun g hg => by
      obtain ⟨out, h1, _, h3⟩ := pickContrasts_hier g (fun t ht => (h g hg).1 t ht) (h g hg).2
      exact ⟨out, h1, h3⟩)
  refine ⟨outs.foldl (fun r e => Dict.update r e) [], by simp [encodingBools, hok], ?_⟩
  exact foldl_update_values (fun v => v.length = 1) outs [] (by simp [Dict.get?]) hq

theorem addExtraTermsLoop_id (envc : Bool) (enc : Dict (List Coding))
    (h : ∀ k v, Dict.get? enc k = some v → v.length = 1) (ts live : List TermDesc) :
    addExtraTermsLoop envc enc ts live = .ok live := by
  induction ts with
  | nil => rfl
  | cons t rest ih =>
    simp only [addExtraTermsLoop]
    cases hg : Dict.get? enc t.name with
    | none => simpa using ih
    | some l =>
      have := h _ _ hg
      simp only [this, show ¬ (1 > 1) by omega, if_false]
      exact ih

/-- **C03_hierarchical** (model level): when every analysis group lists margins first, no extra
terms are created and both analyses give exactly one coding to every term. -/
theorem hierarchical_singlePass (envc : Bool) (fam : List TermDesc) (h : hierFamily fam = true) :
    secondFamily envc fam = .ok fam ∧ SinglePass2 envc fam = true := by
  obtain ⟨enc, hok, hlen⟩ := encodingBools_hier fam h
  have h2 : secondFamily envc fam = .ok fam := by
    simp only [secondFamily, hok, addExtraTerms]
    exact addExtraTermsLoop_id envc enc hlen fam fam
  refine ⟨h2, ?_⟩
  simp only [SinglePass2, secondPass, h2, hok, List.all_eq_true]
  intro t _
  cases hg : Dict.get? enc t.name with
  | none => rfl
  | some l => simp [hlen _ _ hg]

/-! ### Python-dict helpers, continued -/

theorem keys_set {β : Type} (d : Dict β) (k : String) (v : β) :
    Dict.keys (Dict.set d k v) = if k ∈ Dict.keys d then Dict.keys d else Dict.keys d ++ [k] := by
  induction d with
  | nil => simp [Dict.set, Dict.keys]
  | cons e d ih =>
    obtain ⟨k', v'⟩ := e
    simp only [Dict.set]
    by_cases h : (k' == k) = true
    · have hk : k' = k := by simpa using h
      subst hk
      simp [h, Dict.keys]
    · have hk : k' ≠ k := by simpa using h
      simp only [Dict.keys] at ih
      simp only [h, Bool.false_eq_true, if_false, Dict.keys, List.map_cons, ih, List.mem_cons]
      have hk' : ¬ k = k' := fun h' => hk h'.symm
      by_cases hm : k ∈ d.map (·.1) <;> simp [hm, hk']

theorem keys_set_nodup {β : Type} (d : Dict β) (k : String) (v : β) (h : (Dict.keys d).Nodup) :
    (Dict.keys (Dict.set d k v)).Nodup := by
  rw [keys_set]
  split
  · exact h
  · rename_i hk
    rw [List.nodup_append]
    exact ⟨h, by simp, fun a ha b hb => by simp at hb; subst hb; exact fun h' => hk (h' ▸ ha)⟩

theorem mem_set {β : Type} (d : Dict β) (k : String) (v : β) (x : String × β)
    (h : x ∈ Dict.set d k v) : x ∈ d ∨ x = (k, v) := by
  induction d with
  | nil => simp [Dict.set] at h; exact Or.inr h
  | cons e d ih =>
    obtain ⟨k', v'⟩ := e
    simp only [Dict.set] at h
    split at h
    · rcases List.mem_cons.1 h with h | h
      · exact Or.inr h
      · exact Or.inl (List.mem_cons_of_mem _ h)
    · rcases List.mem_cons.1 h with h | h
      · exact Or.inl (h ▸ List.mem_cons_self)
      · rcases ih h with h | h
        · exact Or.inl (List.mem_cons_of_mem _ h)
        · exact Or.inr h

theorem get?_iff_mem {β : Type} (d : Dict β) (hn : (Dict.keys d).Nodup) (k : String) (v : β) :
    Dict.get? d k = some v ↔ (k, v) ∈ d := by
  induction d with
  | nil => simp [Dict.get?]
  | cons e d ih =>
    obtain ⟨k', v'⟩ := e
    simp only [Dict.keys, List.map_cons, List.nodup_cons] at hn
    simp only [Dict.get?]
    by_cases h : (k' == k) = true
    · have hk : k' = k := by simpa using h
      subst hk
      simp only [h, if_true, List.mem_cons, Prod.mk.injEq, true_and]
      constructor
      · intro h'; injection h' with h'; exact Or.inl h'.symm
      · rintro (h' | h')
        · rw [h']
        · exact absurd (List.mem_map.2 ⟨(k', v), h', rfl⟩) hn.1
    · have hk : k' ≠ k := by simpa using h
      simp only [h, Bool.false_eq_true, if_false, List.mem_cons, Prod.mk.injEq]
      rw [ih hn.2]
      constructor
      · exact Or.inr
      · rintro (⟨h', _⟩ | h')
        · exact absurd h'.symm hk
        · exact h'

theorem get?_none_iff {β : Type} (d : Dict β) (k : String) :
    Dict.get? d k = none ↔ k ∉ Dict.keys d := by
  induction d with
  | nil => simp [Dict.get?, Dict.keys]
  | cons e d ih =>
    obtain ⟨k', v'⟩ := e
    simp only [Dict.get?, Dict.keys, List.map_cons, List.mem_cons, not_or]
    by_cases h : (k' == k) = true
    · have hk : k' = k := by simpa using h
      simp [h, hk]
    · have hk : k' ≠ k := by simpa using h
      simp only [h, Bool.false_eq_true, if_false]
      simp only [Dict.keys] at ih
      rw [ih]
      exact ⟨fun h' => ⟨fun h'' => hk h''.symm, h'⟩, fun h' => h'.2⟩

/-- looking up in `d.update(e)` when the keys of `e` are pairwise distinct -/
theorem get?_update {β : Type} (e : Dict β) : ∀ (d : Dict β), (Dict.keys e).Nodup → ∀ k,
    Dict.get? (Dict.update d e) k = match Dict.get? e k with
      | some v => some v
      | none => Dict.get? d k := by
  induction e with
  | nil => intro d _ k; simp [Dict.update, Dict.get?]
  | cons x xs ih =>
    intro d hn k
    obtain ⟨k', v'⟩ := x
    simp only [Dict.keys, List.map_cons, List.nodup_cons] at hn
    have := ih (Dict.set d k' v') hn.2 k
    simp only [Dict.update, List.foldl_cons] at this ⊢
    rw [this, get?_set]
    simp only [Dict.get?]
    by_cases h : (k' == k) = true
    · have hk : k' = k := by simpa using h
      subst hk
      have : Dict.get? xs k' = none := (get?_none_iff xs k').2 hn.1
      simp [h, this]
    · simp [h]

theorem keys_update_subset {β : Type} (e : Dict β) : ∀ (d : Dict β) (k : String),
    k ∈ Dict.keys (Dict.update d e) → k ∈ Dict.keys d ∨ k ∈ Dict.keys e := by
  induction e with
  | nil => intro d k h; exact Or.inl h
  | cons x xs ih =>
    intro d k h
    simp only [Dict.update, List.foldl_cons] at h
    rcases ih (Dict.set d x.1 x.2) k h with h | h
    · rw [keys_set] at h
      split at h
      · exact Or.inl h
      · rcases List.mem_append.1 h with h | h
        · exact Or.inl h
        · simp at h; subst h; exact Or.inr (by simp [Dict.keys])
    · exact Or.inr (by simp only [Dict.keys, List.map_cons, List.mem_cons]; exact Or.inr h)

/-- merging the outputs of all groups when all keys are pairwise distinct: a lookup finds the entry
of the group that has the key -/
theorem get?_merged {β : Type} (outs : List (Dict β)) :
    ∀ (d : Dict β), ((outs.flatMap Dict.keys)).Nodup → (∀ k ∈ Dict.keys d, k ∉ outs.flatMap Dict.keys) →
    ∀ k v, Dict.get? (outs.foldl (fun r e => Dict.update r e) d) k = some v ↔
      (Dict.get? d k = some v ∨ ∃ out ∈ outs, (k, v) ∈ out) := by
  induction outs with
  | nil => intro d _ _ k v; simp
  | cons o os ih =>
    intro d hn hd k v
    simp only [List.flatMap_cons, List.nodup_append] at hn
    obtain ⟨hno, hnos, hdisj⟩ := hn
    simp only [List.foldl_cons]
    rw [ih (Dict.update d o) hnos]
    · rw [get?_update o d hno k]
      constructor
      · rintro (h | ⟨out, ho, hm⟩)
        · cases hg : Dict.get? o k with
          | none => simp only [hg] at h; exact Or.inl h
          | some v' =>
            simp only [hg] at h
            injection h with h; subst h
            exact Or.inr ⟨o, by simp, (get?_iff_mem o hno k v').1 hg⟩
        · exact Or.inr ⟨out, by simp [ho], hm⟩
      · rintro (h | ⟨out, ho, hm⟩)
        · left
          have : Dict.get? o k = none := by
            rw [get?_none_iff]
            intro hk
            have hkd : k ∈ Dict.keys d := by
              by_cases hc : k ∈ Dict.keys d
              · exact hc
              · rw [(get?_none_iff d k).2 hc] at h; cases h
            exact hd k hkd (by simp [List.flatMap_cons, hk])
          simp [this, h]
        · rcases List.mem_cons.1 ho with rfl | ho
          · left
            rw [(get?_iff_mem out hno k v).2 hm]
          · right; exact ⟨out, ho, hm⟩
    · intro k' hk'
      rcases keys_update_subset o d k' hk' with h | h
      · intro hc; exact hd k' h (by simp [List.flatMap_cons, hc])
      · intro hc; exact hdisj k' h k' hc rfl

/-! ### `CommonEffectsMatrix.terms`: one entry per name -/

theorem foldl_set_keys_nodup {β : Type} (l : List (String × β)) : ∀ d : Dict β, (Dict.keys d).Nodup →
    (Dict.keys (l.foldl (fun d t => Dict.set d t.1 t.2) d)).Nodup := by
  induction l with
  | nil => intro d h; exact h
  | cons x xs ih => intro d h; exact ih _ (keys_set_nodup d x.1 x.2 h)

theorem foldl_set_mem {β : Type} (l : List (String × β)) : ∀ (d : Dict β) (x : String × β),
    x ∈ l.foldl (fun d t => Dict.set d t.1 t.2) d → x ∈ d ∨ x ∈ l := by
  induction l with
  | nil => intro d x h; exact Or.inl h
  | cons y ys ih =>
    intro d x h
    rcases ih _ x h with h | h
    · rcases mem_set d y.1 y.2 x h with h | h
      · exact Or.inl h
      · exact Or.inr (by rw [h]; simp)
    · exact Or.inr (List.mem_cons_of_mem _ h)

theorem foldl_set_keys_sup {β : Type} (l : List (String × β)) : ∀ (d : Dict β) (k : String),
    (k ∈ Dict.keys d ∨ k ∈ l.map (·.1)) → k ∈ Dict.keys (l.foldl (fun d t => Dict.set d t.1 t.2) d) := by
  induction l with
  | nil => intro d k h; simpa using h
  | cons y ys ih =>
    intro d k h
    apply ih
    rw [keys_set]
    rcases h with h | h
    · left; split <;> simp [h]
    · simp only [List.map_cons, List.mem_cons] at h
      rcases h with h | h
      · left; subst h; split <;> simp [*]
      · right; exact h

theorem designTerms_nodup (coded : List CodedTerm) : ((designTerms coded).map (·.1)).Nodup :=
  foldl_set_keys_nodup coded [] (by simp [Dict.keys])

theorem mem_designTerms (coded : List CodedTerm)
    (huniq : ∀ x ∈ coded, ∀ y ∈ coded, x.1 = y.1 → x = y) (x : CodedTerm) :
    x ∈ designTerms coded ↔ x ∈ coded := by
  constructor
  · intro h
    rcases foldl_set_mem coded [] x h with h | h
    · simp at h
    · exact h
  · intro h
    have hk : x.1 ∈ Dict.keys (designTerms coded) :=
      foldl_set_keys_sup coded [] x.1 (Or.inr (List.mem_map.2 ⟨x, h, rfl⟩))
    obtain ⟨y, hy, hxy⟩ := List.mem_map.1 hk
    have hy' : y ∈ coded := by
      rcases foldl_set_mem coded [] y hy with h' | h'
      · simp at h'
      · exact h'
    have := huniq y hy' x h hxy
    rw [← this]; exact hy

theorem mapExcept_mem {α β ε : Type} (f : α → Except ε β) (l : List α) (ys : List β)
    (h : mapExcept f l = .ok ys) : (∀ y ∈ ys, ∃ x ∈ l, f x = .ok y) ∧ (∀ x ∈ l, ∃ y ∈ ys, f x = .ok y) := by
  induction l generalizing ys with
  | nil => simp only [mapExcept] at h; injection h with h; subst h; simp
  | cons x xs ih =>
    simp only [mapExcept] at h
    cases hx : f x with
    | error e => simp [hx] at h
    | ok y =>
      cases hxs : mapExcept f xs with
      | error e => simp [hx, hxs] at h
      | ok ys' =>
        simp only [hx, hxs] at h
        injection h with h; subst h
        obtain ⟨h1, h2⟩ := ih ys' hxs
        constructor
        · intro y' hy'
          rcases List.mem_cons.1 hy' with rfl | hy'
          · exact ⟨x, by simp, hx⟩
          · obtain ⟨x', hx', hf⟩ := h1 y' hy'
            exact ⟨x', by simp [hx'], hf⟩
        · intro x' hx'
          rcases List.mem_cons.1 hx' with rfl | hx'
          · exact ⟨y, by simp, hx⟩
          · obtain ⟨y', hy', hf⟩ := h2 x' hx'
            exact ⟨y', by simp [hy'], hf⟩

/-- `mapExcept` pairs inputs and outputs position by position -/
theorem mapExcept_zip {α β ε : Type} (f : α → Except ε β) (l : List α) (ys : List β)
    (h : mapExcept f l = .ok ys) : ∀ y ∈ ys, ∃ x ∈ l, f x = .ok y := (mapExcept_mem f l ys h).1

theorem countP_eq_one_of_unique {α : Type} (l : List α) (hn : l.Nodup) (p : α → Bool)
    (hex : ∃ x ∈ l, p x = true) (huniq : ∀ x ∈ l, ∀ y ∈ l, p x = true → p y = true → x = y) :
    l.countP p = 1 := by
  induction l with
  | nil => obtain ⟨x, hx, _⟩ := hex; simp at hx
  | cons a as ih =>
    rw [List.nodup_cons] at hn
    rw [List.countP_cons]
    by_cases ha : p a = true
    · have : as.countP p = 0 := by
        rw [List.countP_eq_zero]
        intro y hy hpy
        have := huniq a (by simp) y (by simp [hy]) ha hpy
        subst this
        exact hn.1 hy
      simp [ha, this]
    · obtain ⟨x, hx, hpx⟩ := hex
      rcases List.mem_cons.1 hx with rfl | hx
      · exact absurd hpx ha
      · have := ih hn.2 ⟨x, hx, hpx⟩ (fun x hx y hy => huniq x (by simp [hx]) y (by simp [hy]))
        simp [ha, this]

/-! ### the flags handed to `set_data` versus the coding dictionary -/

def codedWith (t : TermDesc) (c : Coding) : CodedTerm :=
  (t.name, t.comps.map (fun x => (x, (Dict.get? c x.name).getD false)))

def codedDefault (t : TermDesc) : CodedTerm := (t.name, t.comps.map (fun x => (x, false)))

theorem codeTerm_cases (enc : Dict (List Coding)) (t : TermDesc) (x : CodedTerm)
    (h : codeTerm enc t = .ok x) :
    (Dict.get? enc t.name = none ∧ x = codedDefault t) ∨
    (∃ c cs, Dict.get? enc t.name = some (c :: cs) ∧ x = codedWith t c) := by
  unfold codeTerm at h
  split at h
  · cases h
  · rename_i c cs hg
    injection h with h
    exact Or.inr ⟨c, cs, hg, h.symm⟩
  · rename_i hg
    injection h with h
    exact Or.inl ⟨hg, h.symm⟩

theorem kind_beq (a b : Kind) : (a == b) = true ↔ a = b := by
  cases a <;> cases b <;> decide

theorem mem_categoricNames {t : TermDesc} {f : String} :
    f ∈ categoricNames t ↔ ∃ x ∈ t.comps, x.kind = .categoric ∧ x.name = f := by
  simp only [categoricNames, List.mem_map, List.mem_filter, kind_beq]
  constructor
  · rintro ⟨x, ⟨hx, hk⟩, rfl⟩; exact ⟨x, hx, hk, rfl⟩
  · rintro ⟨x, hx, hk, rfl⟩; exact ⟨x, ⟨hx, hk⟩, rfl⟩

/-- a coding that mentions exactly the categorical components of the term -/
structure Covers (t : TermDesc) (c : Coding) : Prop where
  wf : WF c
  sub : ∀ f b, (f, b) ∈ c → f ∈ categoricNames t
  sup : ∀ f ∈ categoricNames t, ∃ b, (f, b) ∈ c

theorem flag_of_covers {t : TermDesc} {c : Coding} (hc : Covers t c) {x : Comp} (hx : x ∈ t.comps)
    (hk : x.kind = .categoric) (b : Bool) :
    (Dict.get? c x.name).getD false = b ↔ (x.name, b) ∈ c := by
  obtain ⟨b', hb'⟩ := hc.sup x.name (mem_categoricNames.2 ⟨x, hx, hk, rfl⟩)
  have hg : Dict.get? c x.name = some b' := (get?_iff_mem c hc.wf x.name b').2 hb'
  rw [hg]
  simp only [Option.getD_some]
  constructor
  · intro h; rw [← h]; exact hb'
  · intro h; exact hc.wf.unique hb' h

theorem mem_red_codedWith {t : TermDesc} {c : Coding} (hc : Covers t c) (f : String) :
    f ∈ (ofCoded (codedWith t c)).red ↔ (f, false) ∈ c := by
  simp only [ofCoded, codedWith, List.mem_map, List.mem_filter, Bool.and_eq_true, kind_beq,
    Bool.not_eq_true']
  constructor
  · rintro ⟨⟨x, b⟩, ⟨⟨y, hy, hxy⟩, hk, hb⟩, rfl⟩
    simp only [Prod.mk.injEq] at hxy
    obtain ⟨rfl, rfl⟩ := hxy
    exact (flag_of_covers hc hy hk false).1 hb
  · intro h
    obtain ⟨x, hx, hk, hn⟩ := mem_categoricNames.1 (hc.sub f false h)
    subst hn
    exact ⟨(x, false), ⟨⟨x, hx, by rw [(flag_of_covers hc hx hk false).2 h]⟩, hk, rfl⟩, rfl⟩

theorem mem_full_codedWith {t : TermDesc} {c : Coding} (hc : Covers t c) (f : String) :
    f ∈ (ofCoded (codedWith t c)).full ↔ (f, true) ∈ c := by
  simp only [ofCoded, codedWith, List.mem_map, List.mem_filter, Bool.and_eq_true, kind_beq]
  constructor
  · rintro ⟨⟨x, b⟩, ⟨⟨y, hy, hxy⟩, hk, hb⟩, rfl⟩
    simp only [Prod.mk.injEq] at hxy
    obtain ⟨rfl, rfl⟩ := hxy
    exact (flag_of_covers hc hy hk true).1 hb
  · intro h
    obtain ⟨x, hx, hk, hn⟩ := mem_categoricNames.1 (hc.sub f true h)
    subst hn
    exact ⟨(x, true), ⟨⟨x, hx, by rw [(flag_of_covers hc hx hk true).2 h]⟩, hk, rfl⟩, rfl⟩

/-- (K) the interval of the coded term is the interval of the coding dictionary -/
theorem inInterval_codedWith {t : TermDesc} {c : Coding} (hc : Covers t c) (U : List String) :
    inInterval (ofCoded (codedWith t c)) U = inIv c U := by
  rw [Bool.eq_iff_iff, inIv_iff]
  simp only [inInterval, Bool.and_eq_true, subsetOf_iff, List.mem_append, mem_red_codedWith hc,
    mem_full_codedWith hc]
  constructor
  · rintro ⟨h1, h2⟩
    refine ⟨fun f b hm hb => h1 f (hb ▸ hm), fun u hu => ?_⟩
    rcases h2 u hu with h | h
    · exact ⟨false, h⟩
    · exact ⟨true, h⟩
  · rintro ⟨h1, h2⟩
    refine ⟨fun f hf => h1 f false hf rfl, fun u hu => ?_⟩
    obtain ⟨b, hb⟩ := h2 u hu
    cases b with
    | false => exact Or.inl hb
    | true => exact Or.inr hb

theorem num_codedWith (t : TermDesc) (c : Coding) : (ofCoded (codedWith t c)).num = numericNames t := by
  simp only [ofCoded, codedWith, numericNames, List.filter_map, List.map_map]
  rfl

theorem num_codedDefault (t : TermDesc) : (ofCoded (codedDefault t)).num = numericNames t := by
  simp only [ofCoded, codedDefault, numericNames, List.filter_map, List.map_map]
  rfl

/-- (K') a term without categorical components that is not analysed: its interval is `{∅}` -/
theorem inInterval_codedDefault {t : TermDesc} (hc : categoricNames t = []) (U : List String) :
    inInterval (ofCoded (codedDefault t)) U = U.isEmpty := by
  have hred : (ofCoded (codedDefault t)).red = [] := by
    have : ∀ x ∈ t.comps, ¬ x.kind = .categoric := by
      intro x hx hk
      have : x.name ∈ categoricNames t := mem_categoricNames.2 ⟨x, hx, hk, rfl⟩
      rw [hc] at this; simp at this
    simp only [ofCoded, codedDefault, List.map_eq_nil_iff, List.filter_eq_nil_iff, List.mem_map,
      Bool.and_eq_true, kind_beq, Bool.not_eq_true']
    rintro ⟨x, b⟩ ⟨y, hy, hxy⟩ ⟨hk, _⟩
    simp only [Prod.mk.injEq] at hxy
    exact this y hy (hxy.1 ▸ hk)
  have hfull : (ofCoded (codedDefault t)).full = [] := by
    simp only [ofCoded, codedDefault, List.map_eq_nil_iff, List.filter_eq_nil_iff, List.mem_map,
      Bool.and_eq_true, kind_beq]
    rintro ⟨x, b⟩ ⟨y, hy, hxy⟩ ⟨_, hb⟩
    simp only [Prod.mk.injEq] at hxy
    rw [← hxy.2] at hb; cases hb
  simp only [inInterval, hred, hfull, subsetOf, List.all_nil, List.append_nil, Bool.true_and]
  cases U <;> simp

/-! ### the second analysis, group by group -/

theorem nodup_of_map_fst {α β : Type} (l : List (α × β)) (h : (l.map (·.1)).Nodup) :
    ∀ a ∈ l, ∀ b ∈ l, a.1 = b.1 → a = b := by
  induction l with
  | nil => intro a ha; simp at ha
  | cons x xs ih =>
    simp only [List.map_cons, List.nodup_cons, List.mem_map, not_exists, not_and] at h
    intro a ha b hb hab
    rcases List.mem_cons.1 ha with ha' | ha' <;> rcases List.mem_cons.1 hb with hb' | hb'
    · rw [ha', hb']
    · subst ha'; exact absurd hab.symm (h.1 b hb')
    · subst hb'; exact absurd hab (h.1 a ha')
    · exact ih h.2 a ha' b hb' hab

theorem nodup_of_nodup_map_fst {α β : Type} (l : List (α × β)) (h : (l.map (·.1)).Nodup) : l.Nodup := by
  induction l with
  | nil => simp
  | cons x xs ih =>
    simp only [List.map_cons, List.nodup_cons, List.mem_map, not_exists, not_and] at h
    rw [List.nodup_cons]
    exact ⟨fun hx => h.1 x hx rfl, ih h.2⟩

theorem two_entries {out : Dict (List Coding)} {e1 e2 : String × List Coding} {c1 c2 : Coding}
    {U : List Factor} (h1 : e1 ∈ out) (h2 : e2 ∈ out) (hne : e1.1 ≠ e2.1) (hc1 : c1 ∈ e1.2)
    (hc2 : c2 ∈ e2.2) (hi1 : inIv c1 U = true) (hi2 : inIv c2 U = true) :
    2 ≤ cnt (out.flatMap (·.2)) U := by
  induction out with
  | nil => simp at h1
  | cons a rest ih =>
    simp only [List.flatMap_cons, cnt_append]
    have hmem : ∀ (e : String × List Coding) (c : Coding), e ∈ rest → c ∈ e.2 → inIv c U = true →
        0 < cnt (rest.flatMap (·.2)) U := fun e c he hc hi =>
      cnt_pos_of_mem (List.mem_flatMap.2 ⟨e, he, hc⟩) hi
    rcases List.mem_cons.1 h1 with h1' | h1' <;> rcases List.mem_cons.1 h2 with h2' | h2'
    · exact absurd (by rw [h1', h2']) hne
    · subst h1'; have := cnt_pos_of_mem hc1 hi1; have := hmem e2 c2 h2' hc2 hi2; omega
    · subst h2'; have := cnt_pos_of_mem hc2 hi2; have := hmem e1 c1 h1' hc1 hi1; omega
    · have := ih h1' h2'; omega

theorem categoricNames_nodup {t : TermDesc} (h : (t.comps.map (·.name)).Nodup) :
    (categoricNames t).Nodup := by
  unfold categoricNames
  exact List.Nodup.sublist (List.Sublist.map _ List.filter_sublist) h

/-- what the proof needs to know about the grouping stage (`_get_encoding_groups`) applied to the
family of the second analysis -/
structure Faithful (fam2 : List TermDesc) (groups : List (Dict (List String))) : Prop where
  compsNodup : ∀ t ∈ fam2, (t.comps.map (·.name)).Nodup
  namesDet : ∀ t ∈ fam2, ∀ u ∈ fam2, t.name = u.name → t = u
  keysNodup : (groups.flatMap Dict.keys).Nodup
  entryTerm : ∀ g ∈ groups, ∀ e ∈ g, ∃ t ∈ fam2, t.name = e.1 ∧ categoricNames t = e.2
  sameBlock : ∀ g ∈ groups, ∀ t ∈ fam2, ∀ u ∈ fam2, (t.name, categoricNames t) ∈ g →
    ((u.name, categoricNames u) ∈ g ↔ sameSet (numericNames u) (numericNames t) = true)
  alone : ∀ t ∈ fam2, (∀ g ∈ groups, (t.name, categoricNames t) ∉ g) →
    categoricNames t = [] ∧
      ∀ u ∈ fam2, sameSet (numericNames u) (numericNames t) = true → u.name = t.name

theorem Faithful.groupNodup {fam2 : List TermDesc} {groups : List (Dict (List String))}
    (hf : Faithful fam2 groups) : ∀ g ∈ groups, ∀ e ∈ g, e.2.Nodup := by
  intro g hg e he
  obtain ⟨t, ht, _, hc⟩ := hf.entryTerm g hg e he
  rw [← hc]
  exact categoricNames_nodup (hf.compsNodup t ht)

/-- the outputs of `pick_contrasts` have the keys of their groups, position by position -/
theorem outs_keys (groups : List (Dict (List String))) (hnd : ∀ g ∈ groups, ∀ e ∈ g, e.2.Nodup) :
    ∀ outs, mapExcept pickContrasts groups = .ok outs →
      outs.flatMap Dict.keys = groups.flatMap Dict.keys := by
  induction groups with
  | nil => intro outs h; simp only [mapExcept] at h; injection h with h; subst h; rfl
  | cons g gs ih =>
    intro outs h
    obtain ⟨out, hok, hn, _⟩ := pickContrasts_group g (hnd g (by simp))
    simp only [mapExcept, hok] at h
    cases hgs : mapExcept pickContrasts gs with
    | error e => simp [hgs] at h
    | ok outs' =>
      simp only [hgs] at h
      injection h with h; subst h
      simp only [List.flatMap_cons, ih (fun g' hg' => hnd g' (by simp [hg'])) outs' hgs]
      congr 1

/-- looking a name up in the merged encodings finds the entry of the one group that has it -/
theorem lookup_merged {fam2 : List TermDesc} {groups : List (Dict (List String))}
    (hf : Faithful fam2 groups) {outs : List (Dict (List Coding))}
    (houts : mapExcept pickContrasts groups = .ok outs) (k : String) (v : List Coding) :
    Dict.get? (outs.foldl (fun r e => Dict.update r e) []) k = some v ↔ ∃ out ∈ outs, (k, v) ∈ out := by
  have hk : (outs.flatMap Dict.keys).Nodup := by
    rw [outs_keys groups hf.groupNodup outs houts]; exact hf.keysNodup
  rw [get?_merged outs [] hk (by simp [Dict.keys])]
  simp [Dict.get?]

theorem describe {fam2 : List TermDesc} {groups : List (Dict (List String))}
    (hf : Faithful fam2 groups) {outs : List (Dict (List Coding))}
    (houts : mapExcept pickContrasts groups = .ok outs)
    (hsingle : ∀ out ∈ outs, ∀ e ∈ out, e.2.length = 1)
    {t : TermDesc} (ht : t ∈ fam2) {x : CodedTerm}
    (hx : codeTerm (outs.foldl (fun r e => Dict.update r e) []) t = .ok x) :
    (∃ g ∈ groups, ∃ out ∈ outs, ∃ c, pickContrasts g = .ok out ∧ (t.name, categoricNames t) ∈ g ∧
        (t.name, [c]) ∈ out ∧ Covers t c ∧ x = codedWith t c) ∨
    (x = codedDefault t ∧ ∀ g ∈ groups, (t.name, categoricNames t) ∉ g) := by
  rcases codeTerm_cases _ t x hx with ⟨hnone, hxd⟩ | ⟨c, cs', hsome, hxw⟩
  · right
    refine ⟨hxd, ?_⟩
    intro g hg hmem
    obtain ⟨out, hout, hpc⟩ := (mapExcept_mem pickContrasts groups outs houts).2 g hg
    obtain ⟨out', hok', hn, _, _⟩ := pickContrasts_group g (hf.groupNodup g hg)
    rw [hpc] at hok'; injection hok' with hok'; subst hok'
    have : t.name ∈ out.map (·.1) := by
      rw [hn]; exact List.mem_map.2 ⟨_, hmem, rfl⟩
    obtain ⟨e, he, hen⟩ := List.mem_map.1 this
    have := (lookup_merged hf houts t.name e.2).2 ⟨out, hout, by rw [← hen]; exact he⟩
    rw [hnone] at this; cases this
  · left
    obtain ⟨out, hout, hmem⟩ := (lookup_merged hf houts t.name (c :: cs')).1 hsome
    have hlen := hsingle out hout _ hmem
    have hcs : cs' = [] := by
      cases cs' with
      | nil => rfl
      | cons a as => simp at hlen
    subst hcs
    obtain ⟨g, hg, hpc⟩ := (mapExcept_mem pickContrasts groups outs houts).1 out hout
    obtain ⟨out', hok', _, _, hfacts⟩ := pickContrasts_group g (hf.groupNodup g hg)
    rw [hpc] at hok'; injection hok' with hok'; subst hok'
    obtain ⟨te, hte, hname, hfa⟩ := hfacts _ hmem
    obtain ⟨t', ht', hn', hc'⟩ := hf.entryTerm g hg te hte
    have htt : t' = t := hf.namesDet t' ht' t ht (by rw [hn', ← hname])
    subst htt
    have hte' : (t'.name, categoricNames t') ∈ g := by
      have : te = (t'.name, categoricNames t') := Prod.ext hn'.symm hc'.symm
      rw [← this]; exact hte
    refine ⟨g, hg, out, hout, c, hpc, hte', hmem, ?_, hxw⟩
    rw [← hc'] at hfa
    obtain ⟨hwf, hsub, hsup⟩ := hfa
    refine ⟨hwf c (by simp), fun f b hm => hsub c (by simp) f b hm, ?_⟩
    obtain ⟨c', hc'mem, hall⟩ := hsup (by simp)
    simp only [List.mem_singleton] at hc'mem
    subst hc'mem
    exact hall

theorem ofTerm_eq (t : TermDesc) : ofTerm t = { cat := categoricNames t, num := numericNames t } := rfl

theorem codedWith_fst (t : TermDesc) (c : Coding) : (codedWith t c).1 = t.name := rfl
theorem codedDefault_fst (t : TermDesc) : (codedDefault t).1 = t.name := rfl

/-- **Glue theorem.**  If the grouping stage is faithful and the second analysis returns exactly one
coding per analysed term, the terms of the design matrix with the flags handed to `set_data`
partition the down-closure of the analysed family in every numeric block. -/
theorem design_partition {fam2 : List TermDesc} {groups : List (Dict (List String))}
    (hf : Faithful fam2 groups) {outs : List (Dict (List Coding))}
    (houts : mapExcept pickContrasts groups = .ok outs)
    (hsingle : ∀ out ∈ outs, ∀ e ∈ out, e.2.length = 1)
    {coded : List CodedTerm}
    (hcoded : mapExcept (codeTerm (outs.foldl (fun r e => Dict.update r e) [])) fam2 = .ok coded) :
    Partition (fam2.map ofTerm) ((designTerms coded).map ofCoded) := by
  obtain ⟨hc1, hc2⟩ := mapExcept_mem _ fam2 coded hcoded
  -- every coded term carries the name of its term
  have hname : ∀ t ∈ fam2, ∀ x, codeTerm (outs.foldl (fun r e => Dict.update r e) []) t = .ok x →
      x.1 = t.name := by
    intro t _ x hx
    rcases codeTerm_cases _ t x hx with ⟨_, h⟩ | ⟨c, cs, _, h⟩ <;> rw [h] <;> rfl
  have huniq : ∀ x ∈ coded, ∀ y ∈ coded, x.1 = y.1 → x = y := by
    intro x hx y hy hxy
    obtain ⟨t, ht, htx⟩ := hc1 x hx
    obtain ⟨u, hu, huy⟩ := hc1 y hy
    have : t = u := hf.namesDet t ht u hu (by rw [← hname t ht x htx, ← hname u hu y huy, hxy])
    subst this
    rw [htx] at huy; injection huy
  have hD : ∀ x, x ∈ designTerms coded ↔ x ∈ coded := mem_designTerms coded huniq
  have hDn : (designTerms coded).Nodup := nodup_of_nodup_map_fst _ (designTerms_nodup coded)
  intro N U
  simp only [count, List.countP_map]
  -- the term behind a design entry
  have hterm : ∀ x ∈ designTerms coded, ∃ t ∈ fam2,
      codeTerm (outs.foldl (fun r e => Dict.update r e) []) t = .ok x := fun x hx => hc1 x ((hD x).1 hx)
  have hpresent : ∀ t ∈ fam2, ∃ x ∈ designTerms coded,
      codeTerm (outs.foldl (fun r e => Dict.update r e) []) t = .ok x := by
    intro t ht
    obtain ⟨x, hx, h⟩ := hc2 t ht
    exact ⟨x, (hD x).2 hx, h⟩
  -- q: the design entry is in block N and has U in its interval
  by_cases hdown : inDownset (fam2.map ofTerm) N U = true
  · rw [if_pos hdown]
    simp only [inDownset, List.any_map, List.any_eq_true, Function.comp, ofTerm_eq, Bool.and_eq_true,
      subsetOf_iff] at hdown
    obtain ⟨t, ht, htN, htU⟩ := hdown
    apply countP_eq_one_of_unique _ hDn
    · -- existence
      by_cases hrep : ∃ g ∈ groups, (t.name, categoricNames t) ∈ g
      · obtain ⟨g, hg, hmem⟩ := hrep
        obtain ⟨out, hout, hpc⟩ := (mapExcept_mem pickContrasts groups outs houts).2 g hg
        obtain ⟨out', hok', hn, hcnt, _⟩ := pickContrasts_group g (hf.groupNodup g hg)
        rw [hpc] at hok'; injection hok' with hok'; subst hok'
        have hin : inDown (g.map (·.2)) U = true :=
          inDown_iff.2 ⟨categoricNames t, List.mem_map.2 ⟨_, hmem, rfl⟩, htU⟩
        have hpos : 0 < cnt (out.flatMap (·.2)) U := by rw [hcnt U, if_pos hin]; omega
        obtain ⟨c, hcm, hci⟩ := exists_of_cnt_pos hpos
        obtain ⟨e, he, hce⟩ := List.mem_flatMap.1 hcm
        have hlen := hsingle out hout e he
        have he2 : e.2 = [c] := by
          obtain ⟨a, ha⟩ := List.length_eq_one_iff.1 hlen
          rw [ha] at hce ⊢; simp at hce; rw [hce]
        have hek : e.1 ∈ g.map (·.1) := by rw [← hn]; exact List.mem_map.2 ⟨e, he, rfl⟩
        obtain ⟨ge, hge, hgen⟩ := List.mem_map.1 hek
        obtain ⟨u, hu, hun, huc⟩ := hf.entryTerm g hg ge hge
        have hmemu : (u.name, categoricNames u) ∈ g := by
          have : ge = (u.name, categoricNames u) := Prod.ext hun.symm huc.symm
          rw [← this]; exact hge
        obtain ⟨x, hxD, hxu⟩ := hpresent u hu
        refine ⟨x, hxD, ?_⟩
        rcases describe hf houts hsingle hu hxu with
          ⟨g', hg', out', hout', c', hpc', hmem', hmemo', hcov, hxw⟩ | ⟨_, hnot⟩
        · -- same coding by the lookup
          have h1 := (lookup_merged hf houts u.name [c']).2 ⟨out', hout', hmemo'⟩
          have h2 := (lookup_merged hf houts u.name [c]).2 ⟨out, hout, by
            have : e = (u.name, [c]) := Prod.ext (by rw [hun, hgen]) he2
            rw [← this]; exact he⟩
          rw [h1] at h2; injection h2 with h2; injection h2 with h2
          subst h2
          simp only [Function.comp]
          rw [hxw, num_codedWith, inInterval_codedWith hcov, hci, Bool.and_true]
          have := (hf.sameBlock g hg t ht u hu hmem).1 hmemu
          exact sameSet_trans this htN
        · exact absurd hmemu (hnot g hg)
      · have hnot : ∀ g ∈ groups, (t.name, categoricNames t) ∉ g := fun g hg hm => hrep ⟨g, hg, hm⟩
        obtain ⟨hcat, _⟩ := hf.alone t ht hnot
        obtain ⟨x, hxD, hxt⟩ := hpresent t ht
        refine ⟨x, hxD, ?_⟩
        rcases describe hf houts hsingle ht hxt with
          ⟨g', hg', _, _, _, _, hmem', _, _, _⟩ | ⟨hxd, _⟩
        · exact absurd hmem' (hnot g' hg')
        · simp only [Function.comp]
          rw [hxd, num_codedDefault, inInterval_codedDefault hcat, htN, Bool.true_and]
          rw [hcat] at htU
          cases U with
          | nil => rfl
          | cons a as => exact absurd (htU a (by simp)) (by simp)
    · -- uniqueness
      intro x hx y hy hqx hqy
      obtain ⟨t1, ht1, hx1⟩ := hterm x hx
      obtain ⟨t2, ht2, hy2⟩ := hterm y hy
      simp only [Function.comp, Bool.and_eq_true] at hqx hqy
      suffices hnm : t1.name = t2.name by
        apply nodup_of_map_fst _ (designTerms_nodup coded) x hx y hy
        rw [hname t1 ht1 x hx1, hname t2 ht2 y hy2, hnm]
      rcases describe hf houts hsingle ht1 hx1 with
        ⟨g, hg, out, hout, c1, hpc, hmem1, hmemo1, hcov1, hxw1⟩ | ⟨hxd1, hnot1⟩
      · rw [hxw1, num_codedWith, inInterval_codedWith hcov1] at hqx
        -- t2 is in the same block, hence in the same group
        have hblock : sameSet (numericNames t2) (numericNames t1) = true := by
          have h2N : sameSet (numericNames t2) N = true := by
            rcases describe hf houts hsingle ht2 hy2 with ⟨_, _, _, _, c2, _, _, _, _, hxw2⟩ | ⟨hxd2, _⟩
            · rw [hxw2, num_codedWith] at hqy; exact hqy.1
            · rw [hxd2, num_codedDefault] at hqy; exact hqy.1
          have hN1 : sameSet N (numericNames t1) = true := by rw [sameSet_symm]; exact hqx.1
          exact sameSet_trans h2N hN1
        have hmem2 : (t2.name, categoricNames t2) ∈ g := (hf.sameBlock g hg t1 ht1 t2 ht2 hmem1).2 hblock
        rcases describe hf houts hsingle ht2 hy2 with
          ⟨g', hg', out', hout', c2, hpc', _, hmemo2, hcov2, hxw2⟩ | ⟨_, hnot2⟩
        · rw [hxw2, num_codedWith, inInterval_codedWith hcov2] at hqy
          -- the entry of t2 lies in `out` as well
          obtain ⟨out2, hok2, hn2, hcnt2, _⟩ := pickContrasts_group g (hf.groupNodup g hg)
          rw [hpc] at hok2; injection hok2 with hok2; subst hok2
          have hk2 : t2.name ∈ out.map (·.1) := by rw [hn2]; exact List.mem_map.2 ⟨_, hmem2, rfl⟩
          obtain ⟨e2, he2, he2n⟩ := List.mem_map.1 hk2
          have h1 := (lookup_merged hf houts t2.name e2.2).2 ⟨out, hout, by rw [← he2n]; exact he2⟩
          have h2 := (lookup_merged hf houts t2.name [c2]).2 ⟨out', hout', hmemo2⟩
          rw [h1] at h2; injection h2 with h2
          apply Classical.byContradiction
          intro hne
          have hge := two_entries hmemo1 he2 (by rw [he2n]; exact hne) (by simp) (by rw [h2]; simp)
            hqx.2 hqy.2
          have hle : cnt (out.flatMap (·.2)) U ≤ 1 := by rw [hcnt2 U]; split <;> omega
          omega
        · exact absurd hmem2 (hnot2 g hg)
      · have hN1 : sameSet (numericNames t1) N = true := by
          rw [hxd1, num_codedDefault] at hqx; exact hqx.1
        have h2N : sameSet (numericNames t2) N = true := by
          rcases describe hf houts hsingle ht2 hy2 with ⟨_, _, _, _, c2, _, _, _, _, hxw2⟩ | ⟨hxd2, _⟩
          · rw [hxw2, num_codedWith] at hqy; exact hqy.1
          · rw [hxd2, num_codedDefault] at hqy; exact hqy.1
        have hblock : sameSet (numericNames t2) (numericNames t1) = true := by
          have : sameSet N (numericNames t1) = true := by rw [sameSet_symm]; exact hN1
          exact sameSet_trans h2N this
        exact ((hf.alone t1 ht1 hnot1).2 t2 ht2 hblock).symm
  · have hdown' : inDownset (fam2.map ofTerm) N U = false := by simpa using hdown
    rw [hdown']
    simp only [Bool.false_eq_true, if_false]
    rw [List.countP_eq_zero]
    intro x hx hq
    apply hdown
    simp only [Function.comp, Bool.and_eq_true] at hq
    obtain ⟨t, ht, hxt⟩ := hterm x hx
    simp only [inDownset, List.any_map, List.any_eq_true, Function.comp, ofTerm_eq, Bool.and_eq_true,
      subsetOf_iff]
    refine ⟨t, ht, ?_, ?_⟩
    · rcases describe hf houts hsingle ht hxt with ⟨_, _, _, _, c, _, _, _, _, hxw⟩ | ⟨hxd, _⟩
      · rw [hxw, num_codedWith] at hq; exact hq.1
      · rw [hxd, num_codedDefault] at hq; exact hq.1
    · rcases describe hf houts hsingle ht hxt with ⟨_, _, _, _, c, _, _, _, hcov, hxw⟩ | ⟨hxd, hnot⟩
      · rw [hxw, inInterval_codedWith hcov] at hq
        intro u hu
        obtain ⟨b, hb⟩ := (inIv_iff.1 hq.2).2 u hu
        exact hcov.sub u b hb
      · obtain ⟨hcat, _⟩ := hf.alone t ht hnot
        rw [hxd, inInterval_codedDefault hcat] at hq
        intro u hu
        cases U with
        | nil => simp at hu
        | cons a as => simp at hq

/-! ### decidable form of the hypotheses -/

theorem faithful_of_faithfulB {fam2 : List TermDesc} {groups : List (Dict (List String))}
    (h : faithfulB fam2 groups = true) : Faithful fam2 groups := by
  simp only [faithfulB, Bool.and_eq_true, List.all_eq_true, decide_eq_true_eq, Bool.or_eq_true,
    bne_iff_ne, ne_eq, beq_iff_eq, List.any_eq_true, Bool.not_eq_true', List.contains_iff_mem,
    List.isEmpty_iff] at h
  obtain ⟨⟨⟨⟨⟨h1, h2⟩, h3⟩, h4⟩, h5⟩, h6⟩ := h
  refine ⟨h1, ?_, h3, ?_, ?_, ?_⟩
  · intro t ht u hu hn
    rcases h2 t ht u hu with h | h
    · exact absurd hn h
    · exact h
  · intro g hg e he
    obtain ⟨t, ht, hn, hc⟩ := h4 g hg e he
    exact ⟨t, ht, hn, hc⟩
  · intro g hg t ht u hu hmem
    rcases h5 g hg t ht u hu with h | h
    · have : (t.name, categoricNames t) ∈ g := hmem
      have hc : g.contains (t.name, categoricNames t) = true := by simpa using this
      rw [hc] at h; cases h
    · constructor
      · intro hm
        have hc : g.contains (u.name, categoricNames u) = true := by simpa using hm
        rw [hc] at h; exact h.symm
      · intro hs
        rw [hs] at h
        simpa using h
  · intro t ht hnot
    rcases h6 t ht with ⟨g, hg, hm⟩ | ⟨hc, hall⟩
    · exact absurd hm (hnot g hg)
    · refine ⟨hc, ?_⟩
      intro u hu hs
      rcases hall u hu with h | h
      · rw [hs] at h; cases h
      · exact h

theorem inDownset_of_marginsOf {fam fam2 : List TermDesc} (h : marginsOf fam fam2 = true)
    (N U : List String) :
    inDownset (fam2.map ofTerm) N U = inDownset (fam.map ofTerm) N U := by
  simp only [marginsOf, Bool.and_eq_true, List.all_eq_true, List.contains_iff_mem, List.any_eq_true,
    subsetOf_iff] at h
  obtain ⟨h1, h2⟩ := h
  rw [Bool.eq_iff_iff]
  simp only [inDownset, List.any_map, List.any_eq_true, Function.comp, ofTerm_eq, Bool.and_eq_true,
    subsetOf_iff]
  constructor
  · rintro ⟨t2, ht2, hN, hU⟩
    obtain ⟨t, ht, hs, hc⟩ := h2 t2 ht2
    refine ⟨t, ht, ?_, fun x hx => hc x (hU x hx)⟩
    rw [sameSet_symm] at hs
    exact sameSet_trans hs hN
  · rintro ⟨t, ht, hN, hU⟩
    exact ⟨t, h1 t ht, hN, hU⟩

/-- the pipeline theorem with the hypotheses as propositions -/
theorem pipeline_partial_of_faithful (envc : Bool) (fam fam2 : List TermDesc) (coded : List CodedTerm)
    (hrun : run envc fam = .ok coded) (hsp : SinglePass2 envc fam = true)
    (hsf : secondFamily envc fam = .ok fam2) (hf : Faithful fam2 (encodingGroups fam2))
    (hmarg : ∀ N U, inDownset (fam2.map ofTerm) N U = inDownset (fam.map ofTerm) N U) :
    Partition (fam.map ofTerm) ((designTerms coded).map ofCoded) := by
  simp only [run, hsf] at hrun
  cases henc : encodingBools fam2 with
  | error e => simp [henc] at hrun
  | ok enc2 =>
    simp only [henc] at hrun
    -- unfold the merged dictionary
    simp only [encodingBools] at henc
    cases houts : mapExcept pickContrasts (encodingGroups fam2) with
    | error e => simp [houts] at henc
    | ok outs =>
      simp only [houts] at henc
      injection henc with henc
      subst henc
      have hsingle : ∀ out ∈ outs, ∀ e ∈ out, e.2.length = 1 := by
        intro out hout e he
        obtain ⟨g, hg, hpc⟩ := (mapExcept_mem pickContrasts _ outs houts).1 out hout
        obtain ⟨out', hok', hn, _, _⟩ := pickContrasts_group g (hf.groupNodup g hg)
        rw [hpc] at hok'; injection hok' with hok'; subst hok'
        have hk : e.1 ∈ g.map (·.1) := by rw [← hn]; exact List.mem_map.2 ⟨e, he, rfl⟩
        obtain ⟨ge, hge, hgen⟩ := List.mem_map.1 hk
        obtain ⟨t, ht, htn, _⟩ := hf.entryTerm g hg ge hge
        have hl := (lookup_merged hf houts e.1 e.2).2 ⟨out, hout, he⟩
        simp only [SinglePass2, secondPass, hsf, encodingBools, houts, List.all_eq_true] at hsp
        have := hsp t ht
        rw [htn, hgen, hl] at this
        simpa using this
      intro N U
      rw [← hmarg N U]
      exact design_partition hf houts hsingle hrun N U

theorem pipeline_partial (envc : Bool) (fam : List TermDesc) (coded : List CodedTerm)
    (hrun : run envc fam = .ok coded) (hguard : pipelineGuard envc fam = true) :
    Partition (fam.map ofTerm) ((designTerms coded).map ofCoded) := by
  simp only [pipelineGuard, Bool.and_eq_true] at hguard
  obtain ⟨hsp, hrest⟩ := hguard
  cases hsf : secondFamily envc fam with
  | error e => simp [hsf] at hrest
  | ok fam2 =>
    simp only [hsf, Bool.and_eq_true] at hrest
    obtain ⟨hfb, hmarg⟩ := hrest
    exact pipeline_partial_of_faithful envc fam fam2 coded hrun hsp hsf (faithful_of_faithfulB hfb)
      (inDownset_of_marginsOf hmarg)

/-! ### the grouping stage on purely categorical families -/

/-- `foldl` of `d[k] = v` over entries with fresh, pairwise distinct keys appends them -/
theorem foldl_set_fresh {α β : Type} (k : α → String) (v : α → β) (l : List α) :
    ∀ acc : Dict β, (Dict.keys acc ++ l.map k).Nodup →
      l.foldl (fun d t => Dict.set d (k t) (v t)) acc = acc ++ l.map (fun t => (k t, v t)) := by
  induction l with
  | nil => intro acc _; simp
  | cons x xs ih =>
    intro acc hn
    simp only [List.foldl_cons, List.map_cons]
    have hfresh : ∀ e ∈ acc, e.1 ≠ k x := by
      intro e he heq
      rw [List.nodup_append] at hn
      exact hn.2.2 e.1 (List.mem_map.2 ⟨e, he, rfl⟩) (k x) (by simp) heq
    rw [dict_set_fresh acc (k x) (v x) hfresh, ih]
    · simp
    · simp only [Dict.keys, List.map_append, List.map_cons, List.map_nil, List.append_assoc,
        List.singleton_append]
      simpa [Dict.keys] using hn

theorem moveInterceptFirst_perm (ts : List TermDesc) : (moveInterceptFirst ts).Perm ts := by
  unfold moveInterceptFirst
  cases h : ts.findIdx? (·.isIntercept) with
  | none => exact List.Perm.refl _
  | some i =>
    simp only
    induction ts generalizing i with
    | nil => simp at h
    | cons t ts ih =>
      rw [List.findIdx?_cons] at h
      by_cases ht : t.isIntercept = true
      · simp only [ht, if_true, Option.some.injEq] at h
        subst h
        cases t with
        | intercept => exact List.Perm.refl _
        | term c cs => simp [TermDesc.isIntercept] at ht
      · simp only [ht, Bool.false_eq_true, if_false, Option.map_eq_some_iff] at h
        obtain ⟨j, hj, rfl⟩ := h
        rw [List.eraseIdx_cons_succ]
        exact (List.Perm.swap t .intercept _).trans ((List.perm_cons t).2 (ih j hj))

/-- all components categorical, names of the components of a term pairwise distinct, names of the
terms pairwise distinct -/
def AllCategoric (ts : List TermDesc) : Prop :=
  (∀ t ∈ ts, ∀ c ∈ t.comps, c.kind = .categoric) ∧ (∀ t ∈ ts, (t.comps.map (·.name)).Nodup) ∧
  (ts.map (·.name)).Nodup

/-- the entry of a purely categorical term in the categoric group -/
def catEntry (t : TermDesc) : String × List String := (t.name, t.comps.map (·.name))

theorem cinfo_entry (t : TermDesc) (hk : ∀ c ∈ t.comps, c.kind = .categoric)
    (hn : (t.comps.map (·.name)).Nodup) (g : Dict (List String)) (hfresh : ∀ e ∈ g, e.1 ≠ t.name) :
    categoricStep g (t.name, cinfo t) = g ++ [catEntry t] := by
  unfold categoricStep
  cases t with
  | intercept => simp [cinfo, catEntry, TermDesc.comps, dict_set_fresh g _ _ hfresh]
  | term c cs =>
    cases cs with
    | nil =>
      have : c.kind = .categoric := hk c (by simp [TermDesc.comps])
      simp only [cinfo, this]
      rw [dict_set_fresh g _ _ hfresh]
      rfl
    | cons c2 cs =>
      have hd : (c :: c2 :: cs).foldl (fun d x => Dict.set d x.name x.kind) [] =
          (c :: c2 :: cs).map (fun x => (x.name, x.kind)) := by
        have := foldl_set_fresh (fun x : Comp => x.name) (fun x => x.kind) (c :: c2 :: cs) []
          (by simpa [Dict.keys, TermDesc.comps] using hn)
        simpa using this
      simp only [cinfo, hd]
      have hall : ((c :: c2 :: cs).map (fun x => (x.name, x.kind))).all (fun e => e.2 == .categoric) = true := by
        simp only [List.all_map, List.all_eq_true, Function.comp]
        intro x hx
        rw [hk x (by simpa [TermDesc.comps] using hx)]
        rfl
      rw [hall]
      simp only [if_true]
      rw [dict_set_fresh g _ _ hfresh]
      simp [catEntry, TermDesc.comps, Dict.keys, List.map_map, Function.comp]

theorem componentsDict_eq (ts : List TermDesc) (hn : (ts.map (·.name)).Nodup) :
    componentsDict ts = (moveInterceptFirst ts).map (fun t => (t.name, cinfo t)) := by
  unfold componentsDict
  have hp := (moveInterceptFirst_perm ts).map (·.name)
  have := foldl_set_fresh (fun t : TermDesc => t.name) cinfo (moveInterceptFirst ts) []
    (by simpa [Dict.keys] using hp.nodup_iff.2 hn)
  simpa using this

theorem categoricGroup_eq (l : List TermDesc) (hk : ∀ t ∈ l, ∀ c ∈ t.comps, c.kind = .categoric)
    (hc : ∀ t ∈ l, (t.comps.map (·.name)).Nodup) :
    ∀ g : Dict (List String), (Dict.keys g ++ l.map (·.name)).Nodup →
    (l.map (fun t => (t.name, cinfo t))).foldl categoricStep g = g ++ l.map catEntry := by
  induction l with
  | nil => intro g _; simp
  | cons t l ih =>
    intro g hn
    simp only [List.map_cons, List.foldl_cons]
    have hfresh : ∀ e ∈ g, e.1 ≠ t.name := by
      intro e he heq
      rw [List.nodup_append] at hn
      exact hn.2.2 e.1 (List.mem_map.2 ⟨e, he, rfl⟩) t.name (by simp) heq
    rw [cinfo_entry t (hk t (by simp)) (hc t (by simp)) g hfresh]
    rw [ih (fun t' ht' => hk t' (by simp [ht'])) (fun t' ht' => hc t' (by simp [ht']))]
    · simp
    · simpa [Dict.keys, catEntry] using hn

theorem numericStep_categoric (comps : Dict CInfo) (t : TermDesc)
    (hk : ∀ c ∈ t.comps, c.kind = .categoric) (hc : (t.comps.map (·.name)).Nodup) (st : NumState) :
    numericStep comps st (t.name, cinfo t) = st := by
  unfold numericStep
  cases t with
  | intercept => rfl
  | term c cs =>
    cases cs with
    | nil => rfl
    | cons c2 cs =>
      have hd : (c :: c2 :: cs).foldl (fun d x => Dict.set d x.name x.kind) [] =
          (c :: c2 :: cs).map (fun x => (x.name, x.kind)) := by
        have := foldl_set_fresh (fun x : Comp => x.name) (fun x => x.kind) (c :: c2 :: cs) []
          (by simpa [Dict.keys, TermDesc.comps] using hc)
        simpa using this
      have hnum : ((c :: c2 :: cs).map (fun x => (x.name, x.kind))).filter (fun e => e.2 == .numeric) = [] := by
        rw [List.filter_eq_nil_iff]
        intro e he
        obtain ⟨x, hx, rfl⟩ := List.mem_map.1 he
        rw [hk x (by simpa [TermDesc.comps] using hx)]
        simp
      simp only [cinfo, hd, hnum, Dict.keys, List.map_nil, List.isEmpty_nil, Bool.not_true,
        Bool.and_false, Bool.false_eq_true, if_false]

theorem numericGroups_nil (comps : Dict CInfo) (l : List TermDesc)
    (hk : ∀ t ∈ l, ∀ c ∈ t.comps, c.kind = .categoric) (hc : ∀ t ∈ l, (t.comps.map (·.name)).Nodup) :
    ∀ st : NumState, (l.map (fun t => (t.name, cinfo t))).foldl (numericStep comps) st = st := by
  induction l with
  | nil => intro st; rfl
  | cons t l ih =>
    intro st
    simp only [List.map_cons, List.foldl_cons]
    rw [numericStep_categoric comps t (hk t (by simp)) (hc t (by simp)) st]
    exact ih (fun t' ht' => hk t' (by simp [ht'])) (fun t' ht' => hc t' (by simp [ht'])) st

/-- `_get_encoding_groups` on a purely categorical family: one group, every term with its
components, the intercept first -/
theorem encodingGroups_categoric (ts : List TermDesc) (h : AllCategoric ts) :
    encodingGroups ts = [(moveInterceptFirst ts).map catEntry] := by
  obtain ⟨hk, hc, hn⟩ := h
  have hp := moveInterceptFirst_perm ts
  have hk' : ∀ t ∈ moveInterceptFirst ts, ∀ c ∈ t.comps, c.kind = .categoric :=
    fun t ht => hk t (hp.mem_iff.1 ht)
  have hc' : ∀ t ∈ moveInterceptFirst ts, (t.comps.map (·.name)).Nodup :=
    fun t ht => hc t (hp.mem_iff.1 ht)
  have hn' : ((moveInterceptFirst ts).map (·.name)).Nodup := (hp.map (·.name)).nodup_iff.2 hn
  unfold encodingGroups
  simp only [componentsDict_eq ts hn]
  unfold categoricGroup numericGroups
  rw [categoricGroup_eq _ hk' hc' [] (by simpa [Dict.keys] using hn'),
    numericGroups_nil _ _ hk' hc']
  simp

theorem eq_of_nodup_map {α β : Type} (f : α → β) (l : List α) (h : (l.map f).Nodup) :
    ∀ a ∈ l, ∀ b ∈ l, f a = f b → a = b := by
  induction l with
  | nil => intro a ha; simp at ha
  | cons x xs ih =>
    simp only [List.map_cons, List.nodup_cons, List.mem_map, not_exists, not_and] at h
    intro a ha b hb hab
    rcases List.mem_cons.1 ha with ha' | ha' <;> rcases List.mem_cons.1 hb with hb' | hb'
    · rw [ha', hb']
    · subst ha'; exact absurd hab.symm (h.1 b hb')
    · subst hb'; exact absurd hab (h.1 a ha')
    · exact ih h.2 a ha' b hb' hab

theorem categoricNames_all (t : TermDesc) (hk : ∀ c ∈ t.comps, c.kind = .categoric) :
    categoricNames t = t.comps.map (·.name) := by
  unfold categoricNames
  rw [List.filter_eq_self.2]
  intro c hc
  rw [hk c hc]; simp

theorem numericNames_none (t : TermDesc) (hk : ∀ c ∈ t.comps, c.kind = .categoric) :
    numericNames t = [] := by
  unfold numericNames
  rw [List.map_eq_nil_iff, List.filter_eq_nil_iff]
  intro c hc
  rw [hk c hc]; simp

/-- on a purely categorical family the grouping stage is faithful -/
theorem faithful_categoric (ts : List TermDesc) (h : AllCategoric ts) :
    Faithful ts (encodingGroups ts) := by
  rw [encodingGroups_categoric ts h]
  obtain ⟨hk, hc, hn⟩ := h
  have hp := moveInterceptFirst_perm ts
  have hentry : ∀ t ∈ ts, (t.name, categoricNames t) ∈ (moveInterceptFirst ts).map catEntry := by
    intro t ht
    refine List.mem_map.2 ⟨t, hp.mem_iff.2 ht, ?_⟩
    simp [catEntry, categoricNames_all t (hk t ht)]
  refine ⟨hc, eq_of_nodup_map _ ts hn, ?_, ?_, ?_, ?_⟩
  · simp only [List.flatMap_cons, List.flatMap_nil, List.append_nil, Dict.keys, List.map_map]
    exact (hp.map _).nodup_iff.2 hn
  · intro g hg e he
    simp only [List.mem_singleton] at hg
    subst hg
    obtain ⟨t, ht, rfl⟩ := List.mem_map.1 he
    have ht' := hp.mem_iff.1 ht
    exact ⟨t, ht', rfl, categoricNames_all t (hk t ht')⟩
  · intro g hg t ht u hu _
    simp only [List.mem_singleton] at hg
    subst hg
    rw [numericNames_none t (hk t ht), numericNames_none u (hk u hu)]
    exact ⟨fun _ => rfl, fun _ => hentry u hu⟩
  · intro t ht hnot
    exact absurd (hentry t ht) (hnot _ (by simp))

theorem codeTerms_ok (enc : Dict (List Coding)) (h : ∀ k v, Dict.get? enc k = some v → v.length = 1)
    (ts : List TermDesc) : ∃ coded, mapExcept (codeTerm enc) ts = .ok coded := by
  obtain ⟨ys, hys, _⟩ := mapExcept_ok (codeTerm enc) (fun _ => True) ts (by
    intro t _
    unfold codeTerm
    cases hg : Dict.get? enc t.name with
    | none => exact ⟨_, rfl, trivial⟩
    | some l =>
      cases l with
      | nil => have := h _ _ hg; simp at this
      | cons c cs => exact ⟨_, rfl, trivial⟩)
  exact ⟨ys, hys⟩

/-- **End-to-end, purely syntactic.**  A family of categorical terms (and possibly the intercept)
with pairwise distinct names, written margins first: `Model.eval` succeeds, adds no helper terms,
and the design it codes partitions the down-closure of the family. -/
theorem hierarchical_categoric_partition (envc : Bool) (fam : List TermDesc) (hc : AllCategoric fam)
    (hh : hierGroup ((moveInterceptFirst fam).map catEntry) = true) :
    ∃ coded, run envc fam = .ok coded ∧ secondFamily envc fam = .ok fam ∧
      Partition (fam.map ofTerm) ((designTerms coded).map ofCoded) := by
  have hf := faithful_categoric fam hc
  have hhier : hierFamily fam = true := by
    simp only [hierFamily, List.all_eq_true, Bool.and_eq_true, decide_eq_true_eq]
    intro g hg
    refine ⟨fun e he => hf.groupNodup g hg e he, ?_⟩
    rw [encodingGroups_categoric fam hc] at hg
    simp only [List.mem_singleton] at hg
    rw [hg]; exact hh
  obtain ⟨hsf, hsp⟩ := hierarchical_singlePass envc fam hhier
  obtain ⟨enc, henc, hlen⟩ := encodingBools_hier fam hhier
  obtain ⟨coded, hcoded⟩ := codeTerms_ok enc hlen fam
  have hrun : run envc fam = .ok coded := by simp only [run, hsf, henc, hcoded]
  exact ⟨coded, hrun, hsf,
    pipeline_partial_of_faithful envc fam fam coded hrun hsp hsf hf (fun _ _ => rfl)⟩


end FormulaeModel.Encoding
