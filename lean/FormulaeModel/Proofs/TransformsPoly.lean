import FormulaeModel.Proofs.TransformsOrtho
/-
Tie between the memoised, NaN-aware model of `Polynomial.eval` (`Poly.step/loop/evalOrtho`) and
the pure three-term recurrence `Ortho.p` — for the training call and for later calls on other
data (the memoised `alpha`/`norms2` make it the same polynomial map).
-/
namespace FormulaeModel.Transforms.Poly
open FormulaeModel.Transforms FormulaeModel.Transforms.Ortho

/-- column `k`: the training polynomial `P_k` (coefficients from `x`) evaluated on the data `y` -/
def col (x y : List Rat) (k : Nat) : List Num := y.map (fun v => some (p x k v))

/-- every memoised value is the training value -/
def MemoOK (m : Memo) (val : Nat → Rat) : Prop := ∀ k v, m.lookup k = some v → v = some (val k)
/-- key `k` is memoised -/
def Has (m : Memo) (k : Nat) : Prop := m.lookup k ≠ none

theorem memoOK_nil (val : Nat → Rat) : MemoOK [] val := by intro k v h; simp at h

theorem numSum_some (f : Rat → Rat) (l : List Rat) :
    Num.sum (l.map (fun v => some (f v))) = some (sum (l.map f)) := by
  induction l with
  | nil => rfl
  | cons a l ih => simp [Num.sum, ih, Num.add, sum]

theorem zip_map_self {β : Type} (y : List Rat) (f : Rat → β) :
    y.zip (y.map f) = y.map (fun v => (v, f v)) := by
  induction y with
  | nil => rfl
  | cons a l ih => simp [ih]

theorem zip_map_map {β γ : Type} (y : List Rat) (f : Rat → β) (g : Rat → γ) :
    (y.map f).zip (y.map g) = y.map (fun v => (f v, g v)) := by
  induction y with
  | nil => rfl
  | cons a l ih => simp [ih]

theorem sumSq_col (x y : List Rat) (k : Nat) :
    sumSq (col x y k) = some (ip y (p x k) (p x k)) := by
  unfold sumSq col ip
  rw [List.map_map, ← numSum_some]
  rfl

theorem sumXSq_col (x y : List Rat) (k : Nat) :
    sumXSq y (col x y k) = some (ip y (fun v => v * p x k v) (p x k)) := by
  unfold sumXSq col ip
  rw [zip_map_self, List.map_map, ← numSum_some]
  congr 1
  apply List.map_congr_left
  intro v _
  simp only [Function.comp, Num.mul]
  congr 1; ring

theorem lookup_cons_self (k : Nat) (v : Num) (m : Memo) : List.lookup k ((k, v) :: m) = some v := by
  simp [List.lookup]

theorem lookup_cons_ne (k j : Nat) (v : Num) (m : Memo) (h : j ≠ k) :
    List.lookup j ((k, v) :: m) = List.lookup j m := by
  have : (j == k) = false := by simpa using h
  simp [List.lookup, this]

theorem memoOK_cons (m : Memo) (val : Nat → Rat) (k : Nat) (h : MemoOK m val) :
    MemoOK ((k, some (val k)) :: m) val := by
  intro j v hj
  by_cases hjk : j = k
  · subst hjk; rw [lookup_cons_self] at hj; simpa using hj.symm
  · rw [lookup_cons_ne _ _ _ _ hjk] at hj; exact h j v hj

theorem has_cons (m : Memo) (k j : Nat) (v : Num) (h : Has m j) : Has ((k, v) :: m) j := by
  unfold Has at *
  by_cases hjk : j = k
  · subst hjk; rw [lookup_cons_self]; simp
  · rw [lookup_cons_ne _ _ _ _ hjk]; exact h

/-- `get_alpha(k)` returns the training `alpha[k]`: memoised, or computed on the training data -/
theorem getAlpha_ok (x y : List Rat) (am : Memo) (k : Nat) (hok : MemoOK am (alpha x))
    (hmode : Has am k ∨ (y = x ∧ norm2 x k ≠ 0)) :
    ∃ am', getAlpha am k y (col x y k) = (am', some (alpha x k)) ∧ MemoOK am' (alpha x) ∧
      Has am' k ∧ (∀ j, Has am j → Has am' j) ∧ (Has am k → am' = am) := by
  unfold getAlpha
  cases hl : List.lookup k am with
  | some a =>
    have := hok k a hl
    subst this
    exact ⟨am, rfl, hok, by simp [Has, hl], fun _ h => h, fun _ => rfl⟩
  | none =>
    rcases hmode with h | ⟨rfl, hN⟩
    · exact absurd hl h
    · simp only
      rw [sumXSq_col, sumSq_col]
      have hN' : ip y (p y k) (p y k) ≠ 0 := hN
      simp only [Num.div, hN', if_false]
      refine ⟨_, rfl, memoOK_cons am _ k hok, ?_, fun j h => has_cons am k j _ h, fun h => absurd hl h⟩
      simp [Has]

/-- `get_norm(k)` returns the training `norms2[k]` -/
theorem getNorm_ok (x y : List Rat) (nm : Memo) (k : Nat) (hok : MemoOK nm (norm2 x))
    (hmode : Has nm k ∨ y = x) :
    ∃ nm', getNorm nm k (col x y k) = (nm', some (norm2 x k)) ∧ MemoOK nm' (norm2 x) ∧
      Has nm' k ∧ (∀ j, Has nm j → Has nm' j) ∧ (Has nm k → nm' = nm) := by
  unfold getNorm
  cases hl : List.lookup k nm with
  | some a =>
    have := hok k a hl
    subst this
    exact ⟨nm, rfl, hok, by simp [Has, hl], fun _ h => h, fun _ => rfl⟩
  | none =>
    rcases hmode with h | rfl
    · exact absurd hl h
    · simp only
      rw [sumSq_col]
      refine ⟨_, rfl, memoOK_cons nm _ k hok, ?_, fun j h => has_cons nm k j _ h, fun h => absurd hl h⟩
      simp [Has]

/-- every key a call with degree `D` needs is memoised -/
def Complete (am nm : Memo) (D : Nat) : Prop := (∀ k < D, Has am k) ∧ (∀ k ≤ D, Has nm k)

/-- the call is the training call (same data), or every key is already memoised -/
def Mode (x y : List Rat) (am nm : Memo) (D : Nat) : Prop := y = x ∨ Complete am nm D

theorem p1_eq (x y : List Rat) (k : Nat) (a : Rat) :
    (y.zip (col x y k)).map (fun vc => Num.mul (Num.sub (some vc.1) (some a)) vc.2)
      = y.map (fun v => some ((v - a) * p x k v)) := by
  unfold col
  rw [zip_map_self, List.map_map]
  apply List.map_congr_left
  intro v _
  simp [Num.mul, Num.sub]

/-- one iteration of the loop computes the next training polynomial on the data `y` -/
theorem step_ok (x y : List Rat) (D : Nat) (hN : ∀ j < D, norm2 x j ≠ 0) (k : Nat) (hk : k < D)
    (am nm : Memo) (hA : MemoOK am (alpha x)) (hM : MemoOK nm (norm2 x))
    (hmode : Mode x y am nm D) (prev : List Num) (hprev : ∀ k', k = k' + 1 → prev = col x y k') :
    ∃ am' nm', step y (k + 1) am nm (col x y k) prev = (am', nm', col x y (k + 1)) ∧
      MemoOK am' (alpha x) ∧ MemoOK nm' (norm2 x) ∧
      (∀ j, Has am j → Has am' j) ∧ (∀ j, Has nm j → Has nm' j) ∧
      (Complete am nm D → am' = am ∧ nm' = nm) ∧ Has am' k := by
  have hmA : Has am k ∨ (y = x ∧ norm2 x k ≠ 0) := by
    rcases hmode with h | h
    · exact Or.inr ⟨h, hN k hk⟩
    · exact Or.inl (h.1 k hk)
  obtain ⟨am', hga, hA', hHas, hmonoA, hfrA⟩ := getAlpha_ok x y am k hA hmA
  unfold step
  simp only [Nat.add_sub_cancel, hga, p1_eq]
  cases k with
  | zero =>
    simp only [show ¬ (2 ≤ 0 + 1) by omega, if_false]
    refine ⟨am', nm, ?_, hA', hM, hmonoA, fun _ h => h, fun hc => ⟨hfrA (hc.1 0 hk), rfl⟩, hHas⟩
    congr 2
    unfold col
    apply List.map_congr_left
    intro v _
    rw [p_succ, b_zero]; ring_nf
  | succ k' =>
    have hpv : prev = col x y k' := hprev k' rfl
    subst hpv
    simp only [show (2 ≤ k' + 1 + 1) by omega, if_true, show k' + 1 + 1 - 2 = k' by omega]
    have hm1 : Has nm (k' + 1) ∨ y = x := by
      rcases hmode with h | h
      · exact Or.inr h
      · exact Or.inl (h.2 (k' + 1) (by omega))
    obtain ⟨nm1, hg1, hM1, _, hmono1, hfr1⟩ := getNorm_ok x y nm (k' + 1) hM hm1
    have hm0 : Has nm1 k' ∨ y = x := by
      rcases hmode with h | h
      · exact Or.inr h
      · exact Or.inl (hmono1 _ (h.2 k' (by omega)))
    obtain ⟨nm2, hg0, hM2, _, hmono0, hfr0⟩ := getNorm_ok x y nm1 k' hM1 hm0
    rw [hg1]
    simp only
    rw [hg0]
    simp only
    have hN0 : norm2 x k' ≠ 0 := hN k' (by omega)
    refine ⟨am', nm2, ?_, hA', hM2, hmonoA, fun j h => hmono0 j (hmono1 j h), ?_, hHas⟩
    · congr 2
      simp only [Num.div, hN0, if_false]
      unfold col
      rw [zip_map_map, List.map_map]
      apply List.map_congr_left
      intro v _
      simp only [Function.comp, Num.mul, Num.sub]
      rw [p_succ_succ]
    · intro hc
      have e1 : nm1 = nm := hfr1 (hc.2 (k' + 1) (by omega))
      have e0 : nm2 = nm1 := hfr0 (by rw [e1]; exact hc.2 k' (by omega))
      exact ⟨hfrA (hc.1 (k' + 1) hk), by rw [e0, e1]⟩

theorem complete_mono {am nm am' nm' : Memo} {D : Nat} (h : Complete am nm D)
    (hA : ∀ j, Has am j → Has am' j) (hM : ∀ j, Has nm j → Has nm' j) : Complete am' nm' D :=
  ⟨fun k hk => hA k (h.1 k hk), fun k hk => hM k (h.2 k hk)⟩

theorem mode_mono {x y : List Rat} {am nm am' nm' : Memo} {D : Nat} (h : Mode x y am nm D)
    (hA : ∀ j, Has am j → Has am' j) (hM : ∀ j, Has nm j → Has nm' j) : Mode x y am' nm' D := by
  rcases h with h | h
  · exact Or.inl h
  · exact Or.inr (complete_mono h hA hM)

/-- the whole loop -/
theorem loop_ok (x y : List Rat) (D : Nat) (hN : ∀ j < D, norm2 x j ≠ 0) :
    ∀ todo k am nm acc prev, k + todo = D → MemoOK am (alpha x) → MemoOK nm (norm2 x) →
      Mode x y am nm D → (∀ k', k = k' + 1 → prev = col x y k') →
      ∃ am' nm', loop y todo (k + 1) am nm (col x y k) prev acc
          = (am', nm', acc.reverse ++ (List.range' (k + 1) todo).map (col x y)) ∧
        MemoOK am' (alpha x) ∧ MemoOK nm' (norm2 x) ∧
        (∀ j, Has am j → Has am' j) ∧ (∀ j, Has nm j → Has nm' j) ∧
        (Complete am nm D → am' = am ∧ nm' = nm) ∧ (∀ j, k ≤ j → j < k + todo → Has am' j) := by
  intro todo
  induction todo with
  | zero =>
    intro k am nm acc prev _ hA hM _ _
    exact ⟨am, nm, by simp [loop], hA, hM, fun _ h => h, fun _ h => h, fun _ => ⟨rfl, rfl⟩,
      fun j h1 h2 => by omega⟩
  | succ todo ih =>
    intro k am nm acc prev hk hA hM hmode hprev
    obtain ⟨am1, nm1, hs, hA1, hM1, hmA, hmM, hfr, hHask⟩ :=
      step_ok x y D hN k (by omega) am nm hA hM hmode prev hprev
    obtain ⟨am2, nm2, hl, hA2, hM2, hmA2, hmM2, hfr2, hHas2⟩ :=
      ih (k + 1) am1 nm1 (col x y (k + 1) :: acc) (col x y k) (by omega) hA1 hM1
        (mode_mono hmode hmA hmM) (fun k' hk' => by
          have hkk : k' = k := by omega
          rw [hkk])
    refine ⟨am2, nm2, ?_, hA2, hM2, fun j h => hmA2 j (hmA j h), fun j h => hmM2 j (hmM j h), ?_, ?_⟩
    · simp only [loop, hs]
      rw [hl]
      simp [List.range'_succ]
    · intro hc
      obtain ⟨e1, e2⟩ := hfr hc
      subst e1 e2
      exact hfr2 hc
    · intro j h1 h2
      by_cases hj : j = k
      · subst hj; exact hmA2 _ hHask
      · exact hHas2 j (by omega) (by omega)

/-- the final `[get_norm(k) for k in range(0, degree + 1)]` -/
theorem finalNorms_ok (x y : List Rat) :
    ∀ m k nm, MemoOK nm (norm2 x) → ((∀ j, k ≤ j → j < k + m → Has nm j) ∨ y = x) →
      ∃ nm', finalNorms nm k ((List.range' k m).map (col x y))
          = (nm', (List.range' k m).map (fun j => some (norm2 x j))) ∧
        MemoOK nm' (norm2 x) ∧ (∀ j, Has nm j → Has nm' j) ∧ (∀ j, k ≤ j → j < k + m → Has nm' j) ∧
        ((∀ j, k ≤ j → j < k + m → Has nm j) → nm' = nm) := by
  intro m
  induction m with
  | zero =>
    intro k nm hM _
    exact ⟨nm, by simp [finalNorms], hM, fun _ h => h, fun j h1 h2 => by omega, fun _ => rfl⟩
  | succ m ih =>
    intro k nm hM hmode
    have hm0 : Has nm k ∨ y = x := by
      rcases hmode with h | h
      · exact Or.inl (h k (le_refl _) (by omega))
      · exact Or.inr h
    obtain ⟨nm1, hg, hM1, hk1, hmono1, hfr1⟩ := getNorm_ok x y nm k hM hm0
    have hmode1 : (∀ j, k + 1 ≤ j → j < k + 1 + m → Has nm1 j) ∨ y = x := by
      rcases hmode with h | h
      · exact Or.inl (fun j h1 h2 => hmono1 j (h j (by omega) (by omega)))
      · exact Or.inr h
    obtain ⟨nm2, hf, hM2, hmono2, hhas2, hfr2⟩ := ih (k + 1) nm1 hM1 hmode1
    refine ⟨nm2, ?_, hM2, fun j h => hmono2 j (hmono1 j h), ?_, ?_⟩
    · simp only [List.range'_succ, List.map_cons, finalNorms, hg, hf]
    · intro j h1 h2
      by_cases hj : j = k
      · subst hj; exact hmono2 _ hk1
      · exact hhas2 j (by omega) (by omega)
    · intro hall
      have e1 : nm1 = nm := hfr1 (hall k (le_refl _) (by omega))
      subst e1
      exact hfr2 (fun j h1 h2 => hall j (by omega) (by omega))

theorem col_zero (x y : List Rat) : col x y 0 = y.map (fun _ => some 1) := rfl

theorem zip_drop_norms (x y : List Rat) (D : Nat) :
    ((List.range' 1 D).map (col x y)).zip
        (((List.range' 0 (D + 1)).map (fun j => (some (norm2 x j) : Num))).drop 1)
      = (List.range' 1 D).map (fun k => (col x y k, (some (norm2 x k) : Num))) := by
  rw [List.range'_succ]
  simp only [List.map_cons, List.drop_succ_cons, List.drop_zero, Nat.zero_add]
  generalize List.range' 1 D = l
  induction l with
  | nil => rfl
  | cons a l ih => simp [ih]

/-- `Polynomial.eval` (raw = False) with consistent memos: on the training data, or on any data
once everything is memoised, the columns are the *training* polynomials `P_1 … P_D` evaluated on
the given data, paired with the training `norms2`. -/
theorem evalOrtho_ok (x y : List Rat) (s : St) (hN : ∀ j < s.degree, norm2 x j ≠ 0)
    (hA : MemoOK s.alpha (alpha x)) (hM : MemoOK s.norms2 (norm2 x))
    (hmode : Mode x y s.alpha s.norms2 s.degree) :
    ∃ am' nm', evalOrtho s y
        = ({ s with alpha := am', norms2 := nm' },
           (List.range' 1 s.degree).map (fun k => (col x y k, (some (norm2 x k) : Num)))) ∧
      MemoOK am' (alpha x) ∧ MemoOK nm' (norm2 x) ∧ Complete am' nm' s.degree ∧
      (Complete s.alpha s.norms2 s.degree → am' = s.alpha ∧ nm' = s.norms2) := by
  obtain ⟨am1, nm1, hl, hA1, hM1, hmA, hmM, hfr, hHasA⟩ :=
    loop_ok x y s.degree hN s.degree 0 s.alpha s.norms2 [] [] (by omega) hA hM hmode
      (fun k' h => by omega)
  have hmode1 : (∀ j, 0 ≤ j → j < 0 + (s.degree + 1) → Has nm1 j) ∨ y = x := by
    rcases hmode with h | h
    · exact Or.inr h
    · exact Or.inl (fun j _ h2 => hmM j (h.2 j (by omega)))
  obtain ⟨nm2, hf, hM2, hmono2, hhas2, hfr2⟩ := finalNorms_ok x y (s.degree + 1) 0 nm1 hM1 hmode1
  refine ⟨am1, nm2, ?_, hA1, hM2, ?_, ?_⟩
  · unfold evalOrtho
    simp only [← col_zero x y, Nat.zero_add] at hl ⊢
    rw [hl]
    simp only [List.reverse_nil, List.nil_append]
    have : col x y 0 :: (List.range' 1 s.degree).map (col x y)
        = (List.range' 0 (s.degree + 1)).map (col x y) := by
      rw [List.range'_succ]; rfl
    rw [this, hf]
    simp only
    rw [zip_drop_norms]
  · exact ⟨fun k hk => by
            exact hHasA k (by omega) (by omega),
           fun k hk => hhas2 k (by omega) (by omega)⟩
  · intro hc
    obtain ⟨e1, e2⟩ := hfr hc
    subst e1 e2
    refine ⟨rfl, hfr2 (fun j _ h2 => hc.2 j (by omega))⟩

end FormulaeModel.Transforms.Poly
