import FormulaeModel.Model.Parser
set_option linter.unusedSimpArgs false
/-
Helper lemmas for C01: every parser function returns a tree whose yield, followed by the
remaining input, is the input it was given.
-/
namespace FormulaeModel.Parser
open FormulaeModel

variable (T : Table)

/-- The yield statement for all mutually recursive parser functions at one fuel value. -/
structure YieldAt (n : Nat) : Prop where
  expression : ∀ ts e r, expression T n ts = .ok (e, r) → e.flat ++ r = ts
  assignment : ∀ ts e r, assignment T n ts = .ok (e, r) → e.flat ++ r = ts
  tilde : ∀ ts e r, tilde T n ts = .ok (e, r) → e.flat ++ r = ts
  binLevel : ∀ lv ts e r, binLevel T n lv ts = .ok (e, r) → e.flat ++ r = ts
  binLoop : ∀ ops lv acc ts e r, binLoop T n ops lv acc ts = .ok (e, r) → e.flat ++ r = acc.flat ++ ts
  unary : ∀ ts e r, unary T n ts = .ok (e, r) → e.flat ++ r = ts
  call : ∀ ts e r, call T n ts = .ok (e, r) → e.flat ++ r = ts
  callLoop : ∀ acc ts e r, callLoop T n acc ts = .ok (e, r) → e.flat ++ r = acc.flat ++ ts
  argList : ∀ ts a r, argList T n ts = .ok (a, r) → a.flat ++ r = ts
  primary : ∀ ts e r, primary T n ts = .ok (e, r) → e.flat ++ r = ts

theorem consume_ok {k : Kind} {ts : List Token} {t : Token} {r : List Token}
    (h : consume k ts = .ok (t, r)) : ts = t :: r ∧ t.kind = k := by
  unfold consume at h
  split at h
  · split at h
    · simp at h; obtain ⟨rfl, rfl⟩ := h; simp_all
    · simp at h
  · simp at h

theorem yieldAt_zero : YieldAt T 0 := by
  constructor <;> intros <;> simp_all [expression, assignment, tilde, binLevel, binLoop, unary, call, callLoop, argList, primary]

end FormulaeModel.Parser

namespace FormulaeModel.Parser
variable (T : Table)

theorem yieldAt_succ (n : Nat) (ih : YieldAt T n) : YieldAt T (n + 1) := by
  have h1 := ih.expression; have h2 := ih.assignment; have h3 := ih.tilde
  have h4 := ih.binLevel; have h5 := ih.binLoop; have h6 := ih.unary; have h7 := ih.call
  have h8 := ih.callLoop; have h9 := ih.argList; have h10 := ih.primary
  have hc := @consume_ok
  constructor
  · intro ts e r h; simp only [expression] at h; exact ih.assignment _ _ _ h
  · intro ts e r h
    simp only [assignment, bind, Except.bind, pure, Except.pure] at h
    grind [Expr.flat]
  · intro ts e r h
    simp only [tilde, bind, Except.bind, pure, Except.pure] at h
    grind [Expr.flat]
  · intro lv ts e r h
    cases lv with
    | nil => simp only [binLevel] at h; exact ih.unary _ _ _ h
    | cons ops rest =>
      simp only [binLevel, bind, Except.bind, pure, Except.pure] at h
      grind [Expr.flat]
  · intro ops lv acc ts e r h
    simp only [binLoop, bind, Except.bind, pure, Except.pure] at h
    grind [Expr.flat]
  · intro ts e r h
    simp only [unary, bind, Except.bind, pure, Except.pure] at h
    grind [Expr.flat]
  · intro ts e r h
    simp only [call, bind, Except.bind, pure, Except.pure] at h
    grind [Expr.flat]
  · intro acc ts e r h
    simp only [callLoop, bind, Except.bind, pure, Except.pure] at h
    split at h
    · split at h
      · split at h
        · split at h
          · have := h8 _ _ _ _ h; grind [Expr.flat, Args.flat]
          · split at h
            · simp at h
            · split at h
              · simp at h
              · have := h8 _ _ _ _ h; grind [Expr.flat, Args.flat]
        · split at h
          · simp at h
          · split at h
            · simp at h
            · have := h8 _ _ _ _ h; grind [Expr.flat, Args.flat]
      · grind
    · grind
  · intro ts a r h
    simp only [argList, bind, Except.bind, pure, Except.pure] at h
    grind [Expr.flat, Args.flat]
  · intro ts e r h
    simp only [primary, bind, Except.bind, pure, Except.pure] at h
    repeat' split at h
    all_goals (try (simp at h; done))
    all_goals grind [Expr.flat]

theorem yieldAt (n : Nat) : YieldAt T n := by
  induction n with
  | zero => exact yieldAt_zero T
  | succ n ih => exact yieldAt_succ T n ih

end FormulaeModel.Parser
