import FormulaeModel.Proofs.TransformsBasic
/-
C14 stretch goal: the three-term recurrence produces mutually orthogonal polynomials
(w.r.t. the discrete inner product on the data), orthogonal to the constant.
-/
namespace FormulaeModel.Transforms.Ortho
open FormulaeModel.Transforms

theorem ip_comm (x : List Rat) (f g : Rat → Rat) : ip x f g = ip x g f := by
  unfold ip; congr 1; apply List.map_congr_left; intro v _; ring

theorem ip_add_left (x : List Rat) (f g h : Rat → Rat) :
    ip x (fun v => f v + g v) h = ip x f h + ip x g h := by
  unfold ip
  rw [← sum_map_add]; congr 1; apply List.map_congr_left; intro v _; ring

theorem ip_smul_left (x : List Rat) (c : Rat) (f h : Rat → Rat) :
    ip x (fun v => c * f v) h = c * ip x f h := by
  unfold ip
  rw [← sum_map_mul_left]; congr 1; apply List.map_congr_left; intro v _; ring

theorem ip_zero_left (x : List Rat) (h : Rat → Rat) : ip x (fun _ => 0) h = 0 := by
  unfold ip
  have : x.map (fun v => (0 : Rat) * h v) = x.map (fun _ => (0 : Rat)) :=
    List.map_congr_left (fun v _ => by ring)
  rw [this, sum_map_const]; ring

/-- multiplication by the abscissa is self-adjoint -/
theorem ip_mulx (x : List Rat) (f g : Rat → Rat) :
    ip x (fun v => v * f v) g = ip x f (fun v => v * g v) := by
  unfold ip; congr 1; apply List.map_congr_left; intro v _; ring

theorem ip_congr_left (x : List Rat) (f g h : Rat → Rat) (hfg : ∀ v, f v = g v) :
    ip x f h = ip x g h := by
  have : f = g := funext hfg
  rw [this]

/-- `q k = P_{k-1}` (`0` for `k = 0`) and `b k = norms2[k]/norms2[k-1]` (`0` for `k = 0`) -/
def q (x : List Rat) (k : Nat) : Rat → Rat := (pp x k).2
def b (x : List Rat) (k : Nat) : Rat := if k = 0 then 0 else norm2 x k / ip x (q x k) (q x k)

theorem q_zero (x : List Rat) : q x 0 = fun _ => 0 := rfl
theorem q_succ (x : List Rat) (k : Nat) : q x (k + 1) = p x k := rfl
theorem p_zero (x : List Rat) : p x 0 = fun _ => 1 := rfl

/-- the recurrence in uniform shape -/
theorem p_succ (x : List Rat) (k : Nat) (v : Rat) :
    p x (k + 1) v = (v - alpha x k) * p x k v - b x k * q x k v := rfl

theorem b_succ (x : List Rat) (k : Nat) : b x (k + 1) = norm2 x (k + 1) / norm2 x k := by
  simp [b, q_succ, norm2]

theorem b_zero (x : List Rat) : b x 0 = 0 := rfl

/-- the form of the recurrence in the Python code, for `i ≥ 2` -/
theorem p_succ_succ (x : List Rat) (k : Nat) (v : Rat) :
    p x (k + 2) v = (v - alpha x (k + 1)) * p x (k + 1) v
                    - (norm2 x (k + 1) / norm2 x k) * p x k v := by
  rw [p_succ, b_succ, q_succ]

/-- `x · P_k = P_{k+1} + α_k P_k + b_k q_k` -/
theorem mulx_p (x : List Rat) (k : Nat) (v : Rat) :
    v * p x k v = p x (k + 1) v + alpha x k * p x k v + b x k * q x k v := by
  rw [p_succ]; ring

theorem alpha_mul_norm (x : List Rat) (k : Nat) (h : norm2 x k ≠ 0) :
    alpha x k * norm2 x k = ip x (fun v => v * p x k v) (p x k) := by
  unfold alpha norm2 at *
  field_simp

/-- expansion of `⟨P_{k+1}, g⟩` -/
theorem ip_p_succ (x : List Rat) (k : Nat) (g : Rat → Rat) :
    ip x (p x (k + 1)) g
      = ip x (fun v => v * p x k v) g - alpha x k * ip x (p x k) g - b x k * ip x (q x k) g := by
  have h1 : ip x (p x (k + 1)) g
      = ip x (fun v => (v * p x k v + (-(alpha x k)) * p x k v) + (-(b x k)) * q x k v) g := by
    apply ip_congr_left; intro v; rw [p_succ]; ring
  rw [h1, ip_add_left, ip_add_left, ip_smul_left, ip_smul_left]
  ring

/-- expansion of `⟨f, x·P_j⟩` -/
theorem ip_mulx_p (x : List Rat) (j : Nat) (f : Rat → Rat) :
    ip x f (fun v => v * p x j v)
      = ip x f (p x (j + 1)) + alpha x j * ip x f (p x j) + b x j * ip x f (q x j) := by
  rw [ip_comm x f, ip_comm x f, ip_comm x f, ip_comm x f]
  have h1 : ip x (fun v => v * p x j v) f
      = ip x (fun v => (p x (j + 1) v + alpha x j * p x j v) + b x j * q x j v) f := by
    apply ip_congr_left; intro v; rw [mulx_p]
  rw [h1, ip_add_left, ip_add_left, ip_smul_left, ip_smul_left]

/-- Mutual orthogonality: if `norms2[j] ≠ 0` for all `j < D`, then for every `k ≤ D` the
polynomial `P_k` is orthogonal to every `P_j`, `j < k`. -/
theorem orthogonal (x : List Rat) (D : Nat) (hN : ∀ j < D, norm2 x j ≠ 0) :
    ∀ k ≤ D, ∀ j < k, ip x (p x k) (p x j) = 0 := by
  intro k
  induction k using Nat.strong_induction_on with
  | _ k IH =>
    intro hkD j hjk
    cases k with
    | zero => omega
    | succ k =>
      have Sk : ∀ j < k, ip x (p x k) (p x j) = 0 := IH k (by omega) (by omega)
      rw [ip_p_succ]
      -- the term `b_k ⟨q_k, P_j⟩`
      have hq : b x k * ip x (q x k) (p x j)
          = if j + 1 = k then norm2 x k else 0 := by
        cases k with
        | zero => simp [b_zero]
        | succ k' =>
          rw [q_succ, b_succ]
          by_cases hj : j = k'
          · subst hj
            have := hN j (by omega)
            simp only [if_true]
            unfold norm2 at *
            field_simp
          · have : ip x (p x k') (p x j) = 0 := by
              by_cases hlt : j < k'
              · exact IH k' (by omega) (by omega) j hlt
              · have hjk1 : j = k' + 1 := by omega
                rw [ip_comm, hjk1]; exact Sk k' (by omega)
            rw [this, if_neg (by omega)]; ring
      by_cases hj : j = k
      · -- j = k
        subst hj
        rw [hq, if_neg (by omega)]
        have := alpha_mul_norm x j (hN j (by omega))
        unfold norm2 at this
        rw [← this]; ring
      · have hjk' : j < k := by omega
        rw [hq, Sk j hjk', ip_mulx, ip_mulx_p]
        rw [Sk j hjk']
        -- ⟨P_k, q_j⟩ = 0
        have hq2 : b x j * ip x (p x k) (q x j) = 0 := by
          cases j with
          | zero => simp [b_zero]
          | succ j' => rw [q_succ, Sk j' (by omega)]; ring
        rw [hq2]
        by_cases hj1 : j + 1 = k
        · rw [if_pos hj1]; subst hj1; unfold norm2; ring
        · rw [if_neg hj1, Sk (j + 1) (by omega)]; ring

/-- … and orthogonal to the constant: the values of `P_k` (`k ≥ 1`) on the data sum to zero. -/
theorem orthogonal_const (x : List Rat) (D : Nat) (hN : ∀ j < D, norm2 x j ≠ 0)
    (k : Nat) (hk : k ≤ D) (hk1 : 1 ≤ k) : sum (x.map (p x k)) = 0 := by
  have := orthogonal x D hN k hk 0 (by omega)
  unfold ip at this
  rw [p_zero] at this
  simpa using this

end FormulaeModel.Transforms.Ortho
