import FormulaeModel.Spec.C03
set_option linter.unusedSimpArgs false
namespace FormulaeModel.Spec.C03

/-! ### column count of a partitioning coding = dimension formula -/

theorem sumList_append (a b : List Nat) : sumList (a ++ b) = sumList a + sumList b := by
  induction a with
  | nil => simp [sumList]
  | cons x xs ih => simp [sumList, ih, Nat.add_assoc]

theorem sumList_map_mul (k : Nat) {α : Type} (l : List α) (f : α → Nat) :
    sumList (l.map (fun x => k * f x)) = k * sumList (l.map f) := by
  induction l with
  | nil => simp [sumList]
  | cons x xs ih => simp [sumList, ih, Nat.mul_add]

theorem sumList_map_add {α : Type} (l : List α) (f g : α → Nat) :
    sumList (l.map (fun x => f x + g x)) = sumList (l.map f) + sumList (l.map g) := by
  induction l with
  | nil => simp [sumList]
  | cons x xs ih => simp only [List.map_cons, sumList, ih]; omega

theorem sumList_congr {α : Type} (l : List α) (f g : α → Nat) (h : ∀ x ∈ l, f x = g x) :
    sumList (l.map f) = sumList (l.map g) := by
  rw [List.map_congr_left h]

theorem sumList_zero {α : Type} (l : List α) : sumList (l.map (fun _ => 0)) = 0 := by
  induction l with
  | nil => rfl
  | cons x xs ih => simp [sumList, ih]

theorem all_congr' {α : Type} (l : List α) (p q : α → Bool) (h : ∀ y ∈ l, p y = q y) :
    l.all p = l.all q := by
  induction l with
  | nil => rfl
  | cons x xs ih =>
    simp only [List.all_cons, h x (by simp), ih (fun y hy => h y (by simp [hy]))]

/-- status of a factor in a coded term -/
def cw (levels : String → Nat) (c : CTerm) (x : String) : Nat :=
  if c.red.contains x then levels x - 1 else if c.full.contains x then levels x else 1

/-- pointwise form of "U is in the interval", for U and the term's factors inside `xs` -/
def okAt (c : CTerm) (U : List String) (x : String) : Bool :=
  (!c.red.contains x || U.contains x) && (!U.contains x || c.red.contains x || c.full.contains x)

def okOn (c : CTerm) (xs U : List String) : Bool := xs.all (okAt c U)

theorem mem_sublists {α : Type} {l s : List α} (h : s ∈ sublists l) : ∀ x ∈ s, x ∈ l := by
  induction l generalizing s with
  | nil => simp [sublists] at h; subst h; simp
  | cons y ys ih =>
    simp only [sublists, List.mem_append, List.mem_map] at h
    rcases h with h | ⟨t, ht, rfl⟩
    · intro x hx; exact List.mem_cons_of_mem _ (ih h x hx)
    · intro x hx
      rcases List.mem_cons.1 hx with rfl | hx
      · simp
      · exact List.mem_cons_of_mem _ (ih ht x hx)

/-- Σ_{U ⊆ xs, U pointwise admissible on xs} Π_{f∈U}(n_f − 1) = Π_{x ∈ xs} (column factor of x) -/
theorem sum_okOn (levels : String → Nat) (hpos : ∀ f, 1 ≤ levels f) (c : CTerm) (xs : List String)
    (hnd : xs.Nodup) :
    sumList ((sublists xs).map (fun U => if okOn c xs U then weight levels U else 0)) =
      prodList (xs.map (cw levels c)) := by
  induction xs with
  | nil => simp [sublists, okOn, weight, prodList, sumList]
  | cons x xs ih =>
    rw [List.nodup_cons] at hnd
    have ih := ih hnd.2
    simp only [sublists, List.map_append, List.map_map, sumList_append, List.map_cons, prodList]
    -- U ⊆ xs does not contain x
    have hx : ∀ U ∈ sublists xs, U.contains x = false := by
      intro U hU
      have : x ∉ U := fun h => hnd.1 (mem_sublists hU x h)
      simpa using this
    have hrest : ∀ U ∈ sublists xs, okOn c xs (x :: U) = okOn c xs U := by
      intro U hU
      simp only [okOn]
      apply all_congr'
      intro y hy
      have hyx : y ≠ x := fun h => hnd.1 (h ▸ hy)
      simp [okAt, hyx]
    have e1 : sumList ((sublists xs).map (fun U => if okOn c (x :: xs) U then weight levels U else 0)) =
        (if c.red.contains x then 0 else 1) *
          sumList ((sublists xs).map (fun U => if okOn c xs U then weight levels U else 0)) := by
      rw [← sumList_map_mul]
      apply sumList_congr
      intro U hU
      simp only [okOn, List.all_cons, okAt, hx U hU]
      cases c.red.contains x <;> simp
    have e2 : sumList ((sublists xs).map ((fun U => if okOn c (x :: xs) U then weight levels U else 0) ∘ (x :: ·))) =
        (if c.red.contains x || c.full.contains x then levels x - 1 else 0) *
          sumList ((sublists xs).map (fun U => if okOn c xs U then weight levels U else 0)) := by
      rw [← sumList_map_mul]
      apply sumList_congr
      intro U hU
      have h1 := hrest U hU
      simp only [okOn] at h1
      simp only [Function.comp, okOn, List.all_cons, okAt, List.contains_cons, beq_self_eq_true,
        Bool.true_or, Bool.not_true, Bool.false_or, Bool.or_true, Bool.true_and, h1, weight,
        List.map_cons, prodList]
      cases c.red.contains x <;> cases c.full.contains x <;> simp <;> split <;> simp [Nat.mul_comm]
    rw [e1, e2, ih]
    have := hpos x
    simp only [cw]
    cases c.red.contains x <;> cases c.full.contains x <;> simp <;> try omega
    have hl : levels x = (levels x - 1) + 1 := by omega
    conv => rhs; rw [hl, Nat.add_mul, Nat.one_mul]
    omega

theorem inInterval_eq_okOn (c : CTerm) (univ U : List String) (hU : U ∈ sublists univ)
    (hc : ∀ f ∈ c.red ++ c.full, f ∈ univ) : inInterval c U = okOn c univ U := by
  rw [Bool.eq_iff_iff]
  simp only [inInterval, subsetOf, okOn, okAt, Bool.and_eq_true, List.all_eq_true,
    List.contains_iff_mem, Bool.or_eq_true, Bool.not_eq_true', List.mem_append]
  constructor
  · rintro ⟨h1, h2⟩ x _
    refine ⟨?_, ?_⟩
    · by_cases hr : x ∈ c.red
      · exact Or.inr (h1 x hr)
      · left; simpa using hr
    · by_cases hu : x ∈ U
      · rcases h2 x hu with h | h
        · exact Or.inl (Or.inr h)
        · exact Or.inr h
      · left; left; simpa using hu
  · intro h
    refine ⟨fun x hx => ?_, fun x hx => ?_⟩
    · rcases (h x (hc x (List.mem_append.2 (Or.inl hx)))).1 with h' | h'
      · have : x ∉ c.red := by simpa using h'
        exact absurd hx this
      · exact h'
    · rcases (h x (mem_sublists hU x hx)).2 with (h' | h') | h'
      · have : x ∉ U := by simpa using h'
        exact absurd hx this
      · exact Or.inl h'
      · exact Or.inr h'

theorem prodList_perm {a b : List Nat} (h : a.Perm b) : prodList a = prodList b := by
  induction h with
  | nil => rfl
  | cons x _ ih => simp [prodList, ih]
  | swap x y l => simp only [prodList]; rw [← Nat.mul_assoc, ← Nat.mul_assoc, Nat.mul_comm y x]
  | trans _ _ ih1 ih2 => rw [ih1, ih2]

theorem prodList_map_mul {α : Type} (l : List α) (f g : α → Nat) :
    prodList (l.map f) * prodList (l.map g) = prodList (l.map (fun x => f x * g x)) := by
  induction l with
  | nil => simp [prodList]
  | cons x xs ih =>
    simp only [List.map_cons, prodList, ← ih]
    rw [Nat.mul_assoc, Nat.mul_assoc, Nat.mul_left_comm (prodList (xs.map f))]

/-- a product over a duplicate-free list inside `univ`, written as a product over `univ` -/
theorem prodList_over_univ (h : String → Nat) (univ : List String) (hu : univ.Nodup) :
    ∀ l : List String, l.Nodup → (∀ x ∈ l, x ∈ univ) →
      prodList (l.map h) = prodList (univ.map (fun x => if l.contains x then h x else 1)) := by
  induction univ with
  | nil =>
    intro l _ hl
    cases l with
    | nil => rfl
    | cons a as => exact absurd (hl a (by simp)) (by simp)
  | cons x xs ih =>
    intro l hnd hl
    rw [List.nodup_cons] at hu
    by_cases hx : x ∈ l
    · have hp : l.Perm (x :: l.erase x) := List.perm_cons_erase hx
      rw [prodList_perm (hp.map h)]
      have hl' : ∀ y ∈ l.erase x, y ∈ xs := by
        intro y hy
        have hy' := (List.Nodup.mem_erase_iff hnd).1 hy
        rcases List.mem_cons.1 (hl y hy'.2) with h' | h'
        · exact absurd h' hy'.1
        · exact h'
      rw [List.map_cons, prodList, ih hu.2 (l.erase x) (hnd.erase x) hl']
      have hcx : l.contains x = true := by simpa using hx
      simp only [List.map_cons, prodList, hcx, if_true]
      congr 2
      apply List.map_congr_left
      intro y hy
      have hyx : y ≠ x := fun h => hu.1 (h ▸ hy)
      have : (l.erase x).contains y = l.contains y := by
        rw [Bool.eq_iff_iff]; simp [List.mem_erase_of_ne hyx]
      rw [this]
    · have hl' : ∀ y ∈ l, y ∈ xs := by
        intro y hy
        rcases List.mem_cons.1 (hl y hy) with h' | h'
        · subst h'; exact absurd hy hx
        · exact h'
      have hcx : l.contains x = false := by simpa using hx
      rw [ih hu.2 l hnd hl']
      simp [prodList, hx]

theorem columns_eq_prod (levels : String → Nat) (c : CTerm) (univ : List String) (hu : univ.Nodup)
    (hnd : (c.red ++ c.full).Nodup) (hc : ∀ f ∈ c.red ++ c.full, f ∈ univ) :
    columns levels c = prodList (univ.map (cw levels c)) := by
  rw [List.nodup_append] at hnd
  obtain ⟨hr, hf, hdisj⟩ := hnd
  unfold columns
  rw [prodList_over_univ (fun f => levels f - 1) univ hu c.red hr
        (fun x hx => hc x (List.mem_append.2 (Or.inl hx))),
      prodList_over_univ levels univ hu c.full hf
        (fun x hx => hc x (List.mem_append.2 (Or.inr hx))),
      prodList_map_mul]
  congr 1
  apply List.map_congr_left
  intro x _
  simp only [cw]
  by_cases h1 : x ∈ c.red
  · have h2 : x ∉ c.full := fun h2 => hdisj x h1 x h2 rfl
    simp [h1, h2]
  · simp [h1]

/-- the columns of one coded term, counted over the subsets in its interval -/
theorem columns_eq_sum (levels : String → Nat) (hpos : ∀ f, 1 ≤ levels f) (c : CTerm)
    (univ : List String) (hu : univ.Nodup) (hnd : (c.red ++ c.full).Nodup)
    (hc : ∀ f ∈ c.red ++ c.full, f ∈ univ) :
    columns levels c =
      sumList ((sublists univ).map (fun U => if inInterval c U then weight levels U else 0)) := by
  rw [columns_eq_prod levels c univ hu hnd hc, ← sum_okOn levels hpos c univ hu]
  apply sumList_congr
  intro U hU
  rw [inInterval_eq_okOn c univ U hU hc]

theorem sumList_swap {α β : Type} (l : List α) (m : List β) (f : α → β → Nat) :
    sumList (l.map (fun c => sumList (m.map (f c)))) =
      sumList (m.map (fun u => sumList (l.map (fun c => f c u)))) := by
  induction l with
  | nil => simp only [List.map_nil, sumList]; rw [sumList_zero]
  | cons x xs ih =>
    simp only [List.map_cons, sumList, ih]
    rw [← sumList_map_add]

theorem sumList_ite_countP {α : Type} (l : List α) (p : α → Bool) (w : Nat) :
    sumList (l.map (fun c => if p c then w else 0)) = l.countP p * w := by
  induction l with
  | nil => simp [sumList]
  | cons x xs ih =>
    simp only [List.map_cons, sumList, ih, List.countP_cons]
    by_cases h : p x = true <;> simp [h, Nat.add_mul, Nat.add_comm]

/-- **Column count of one numeric block.**  If the coding partitions the down-closure, the coded
terms of block `N` have exactly Σ_{U ∈ downset} Π_{f ∈ U} (n_f − 1) columns. -/
theorem block_columns (levels : String → Nat) (hpos : ∀ f, 1 ≤ levels f) (fam : List STerm)
    (coding : List CTerm) (univ : List String) (hu : univ.Nodup)
    (hnd : ∀ c ∈ coding, (c.red ++ c.full).Nodup)
    (hc : ∀ c ∈ coding, ∀ f ∈ c.red ++ c.full, f ∈ univ)
    (hp : Partition fam coding) (N : List String) :
    totalColumns levels (coding.filter (fun c => sameSet c.num N)) = blockDim levels univ fam N := by
  unfold totalColumns blockDim
  have h1 : sumList ((coding.filter (fun c => sameSet c.num N)).map (columns levels)) =
      sumList ((coding.filter (fun c => sameSet c.num N)).map (fun c =>
        sumList ((sublists univ).map (fun U => if inInterval c U then weight levels U else 0)))) := by
    apply sumList_congr
    intro c hcm
    have hcm' := (List.mem_filter.1 hcm).1
    exact columns_eq_sum levels hpos c univ hu (hnd c hcm') (hc c hcm')
  rw [h1, sumList_swap]
  apply sumList_congr
  intro U _
  rw [sumList_ite_countP, List.countP_filter]
  have := hp N U
  simp only [count] at this
  have e : List.countP (fun a => inInterval a U && sameSet a.num N) coding =
      List.countP (fun c => sameSet c.num N && inInterval c U) coding := by
    apply List.countP_congr; intro c _; simp [Bool.and_comm]
  rw [e, this]
  split <;> simp

theorem subsetOf_iff {a b : List String} : subsetOf a b = true ↔ ∀ x ∈ a, x ∈ b := by
  simp [subsetOf]

theorem sameSet_iff {a b : List String} : sameSet a b = true ↔ ∀ x, x ∈ a ↔ x ∈ b := by
  simp only [sameSet, Bool.and_eq_true, subsetOf_iff]
  constructor
  · rintro ⟨h1, h2⟩ x; exact ⟨h1 x, h2 x⟩
  · intro h; exact ⟨fun x hx => (h x).1 hx, fun x hx => (h x).2 hx⟩

theorem sameSet_symm {a b : List String} : sameSet a b = sameSet b a := by
  simp [sameSet, Bool.and_comm]

theorem sameSet_trans {a b c : List String} (h1 : sameSet a b = true) (h2 : sameSet b c = true) :
    sameSet a c = true := by
  rw [sameSet_iff] at *
  intro x; exact (h1 x).trans (h2 x)

theorem mem_dedupStr {l : List String} {x : String} : x ∈ dedupStr l ↔ x ∈ l := by
  induction l with
  | nil => simp [dedupStr]
  | cons y ys ih =>
    simp only [dedupStr]
    split <;> simp_all

theorem nodup_dedupStr (l : List String) : (dedupStr l).Nodup := by
  induction l with
  | nil => simp [dedupStr]
  | cons y ys ih =>
    simp only [dedupStr]
    split
    · exact ih
    · rename_i h
      rw [List.nodup_cons, mem_dedupStr]
      exact ⟨by simpa using h, ih⟩

/-- one representative per numeric part -/
theorem distinctParts_count (M : List String) (l : List (List String)) :
    (distinctParts l).countP (fun N => sameSet M N) = if l.any (fun N => sameSet M N) then 1 else 0 := by
  induction l with
  | nil => simp [distinctParts]
  | cons N rest ih =>
    simp only [distinctParts, List.any_cons]
    by_cases hr : rest.any (sameSet N) = true
    · simp only [hr, if_true, ih]
      by_cases hM : sameSet M N = true
      · -- M ≈ N ≈ some element of rest
        obtain ⟨N', hN', h'⟩ := List.any_eq_true.1 hr
        have : rest.any (fun N => sameSet M N) = true :=
          List.any_eq_true.2 ⟨N', hN', sameSet_trans hM h'⟩
        simp [hM, this]
      · simp [hM]
    · simp only [hr, Bool.false_eq_true, if_false, List.countP_cons, ih]
      by_cases hM : sameSet M N = true
      · have : rest.any (fun N => sameSet M N) = false := by
          rw [Bool.eq_false_iff]
          intro h
          obtain ⟨N', hN', h'⟩ := List.any_eq_true.1 h
          apply hr
          rw [sameSet_symm] at hM
          exact List.any_eq_true.2 ⟨N', hN', sameSet_trans hM h'⟩
        simp [hM, this]
      · simp [hM]

theorem totalColumns_filter (levels : String → Nat) (coding : List CTerm) (N : List String) :
    totalColumns levels (coding.filter (fun c => sameSet c.num N)) =
      sumList (coding.map (fun c => if sameSet c.num N then columns levels c else 0)) := by
  unfold totalColumns
  induction coding with
  | nil => rfl
  | cons c cs ih =>
    simp only [List.filter_cons, List.map_cons, sumList]
    by_cases h : sameSet c.num N = true <;> simp [h, sumList, ih]

/-- **Column count.**  A coding that partitions the down-closure of the family (factors of a coded
term pairwise distinct) has exactly as many columns as the dimension formula says, for all level
counts ≥ 1 (treatment coding: full = n, reduced = n − 1 columns per factor). -/
theorem columns_count (levels : String → Nat) (hpos : ∀ f, 1 ≤ levels f) (fam : List STerm)
    (coding : List CTerm) (hnd : ∀ c ∈ coding, (c.red ++ c.full).Nodup) (hp : Partition fam coding) :
    totalColumns levels coding = modelDim levels fam := by
  -- every coded term lies under a term of the family
  have hunder : ∀ c ∈ coding, ∃ t ∈ fam, sameSet t.num c.num = true ∧ ∀ f ∈ c.red ++ c.full, f ∈ t.cat := by
    intro c hc
    have h := hp c.num (c.red ++ c.full)
    have hpos' : 0 < count coding c.num (c.red ++ c.full) := by
      simp only [count]
      apply List.countP_pos_iff.2
      refine ⟨c, hc, ?_⟩
      simp only [Bool.and_eq_true, inInterval, subsetOf_iff, sameSet_iff]
      exact ⟨by simp, fun x hx => List.mem_append.2 (Or.inl hx), fun x hx => hx⟩
    rw [h] at hpos'
    by_cases hd : inDownset fam c.num (c.red ++ c.full) = true
    · simp only [inDownset, List.any_eq_true, Bool.and_eq_true, subsetOf_iff] at hd
      obtain ⟨t, ht, h1, h2⟩ := hd
      exact ⟨t, ht, h1, h2⟩
    · simp [hd] at hpos'
  let univ := dedupStr (fam.flatMap (·.cat))
  have hu : univ.Nodup := nodup_dedupStr _
  have hc : ∀ c ∈ coding, ∀ f ∈ c.red ++ c.full, f ∈ univ := by
    intro c hcm f hf
    obtain ⟨t, ht, _, h2⟩ := hunder c hcm
    exact mem_dedupStr.2 (List.mem_flatMap.2 ⟨t, ht, h2 f hf⟩)
  show totalColumns levels coding =
    sumList ((distinctParts (fam.map (·.num))).map (blockDim levels univ fam))
  have hb : ∀ N, blockDim levels univ fam N =
      totalColumns levels (coding.filter (fun c => sameSet c.num N)) :=
    fun N => (block_columns levels hpos fam coding univ hu hnd hc hp N).symm
  rw [sumList_congr _ _ _ (fun N _ => hb N)]
  -- regroup the columns by block
  have h1 := fun N => totalColumns_filter levels coding N
  rw [sumList_congr _ _ _ (fun N _ => h1 N), ← sumList_swap]
  unfold totalColumns
  apply sumList_congr
  intro c hcm
  rw [sumList_ite_countP, distinctParts_count]
  obtain ⟨t, ht, h1, _⟩ := hunder c hcm
  have : (fam.map (·.num)).any (fun N => sameSet c.num N) = true := by
    rw [List.any_eq_true]
    exact ⟨t.num, List.mem_map.2 ⟨t, ht, rfl⟩, by rw [sameSet_symm]; exact h1⟩
  simp [this]

end FormulaeModel.Spec.C03
