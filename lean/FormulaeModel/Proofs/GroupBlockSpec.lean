import FormulaeModel.Proofs.GroupBlockNewGroup
import FormulaeModel.Spec.C05
set_option linter.unusedSimpArgs false
set_option linter.unusedVariables false
/-
Helper lemmas for C05 (part 5): when the complete indicator coding is guaranteed (every grouping
component not wrapped in `C(…, Sum)`; in particular plain variables), the state `trainGroup`
leaves, and the tie to the specification's `componentValues` / `componentLevels`.
-/
namespace FormulaeModel.Design
open FormulaeModel

/-- every component of the grouping factor asks for Treatment coding (plain variables always do;
`C(g)`, `C(g, Treatment(…))` do; `C(g, Sum)` does not) -/
def TreatmentFactor (env : Env) (table : List (String × Expr)) (names : List String) : Prop :=
  ∀ nm ∈ names, ∀ e v, compExpr table nm = .ok e → factorVal env nm e = .ok v →
    ∃ r, valContrast v = .treatment r

/-- grouping by plain variables (no calls) -/
def PlainFactor (table : List (String × Expr)) (names : List String) : Prop :=
  ∀ nm ∈ names, ∀ e, compExpr table nm = .ok e → isCallLike e = false

theorem PlainFactor.treatment {env : Env} {table : List (String × Expr)} {names : List String}
    (h : PlainFactor table names) : TreatmentFactor env table names := by
  intro nm hnm e v he hv
  exact ⟨none, factorVal_var_contrast env nm e v (h nm hnm e he) hv⟩

theorem trainGroup_factor_state (env : Env) (table : List (String × Expr)) (spec : GroupSpec)
    (out : GroupOut) (h : trainGroup env table spec = .ok out) :
    (∀ c ∈ out.st.factor.comps, c.kind = .categoric) ∧
    (TreatmentFactor env table (spec.factor.comps.map (·.1)) →
      ∀ c ∈ out.st.factor.comps, c.contrast = some (treatmentFull c.levels)) := by
  obtain ⟨f, X, el, hf, _, _, _, hst, _, _, _⟩ := trainGroup_parts env table spec out h
  rw [hst]
  unfold trainTerm at hf
  simp only [bind_ok, pure_ok] at hf
  obtain ⟨outs, houts, rfl⟩ := hf
  simp only
  constructor
  · have := mapM_forall _ (fun (o : CompOut) => o.st.kind = .categoric) _ _ houts (by
      intro c hc o ho
      simp only [bind_ok] at ho
      obtain ⟨e, he, ho⟩ := ho
      simp only [factorSpecOf, List.mem_map] at hc
      obtain ⟨c0, _, rfl⟩ := hc
      obtain ⟨v, xs, _, _, hfc⟩ := trainComp_factor env _ e true o ho
      exact hfc.kind)
    intro c hc
    obtain ⟨o, ho, rfl⟩ := List.mem_map.1 hc
    exact this o ho
  · intro hT
    have := mapM_forall _ (fun (o : CompOut) => o.st.contrast = some (treatmentFull o.st.levels)) _ _ houts (by
      intro c hc o ho
      simp only [bind_ok] at ho
      obtain ⟨e, he, ho⟩ := ho
      simp only [factorSpecOf, List.mem_map] at hc
      obtain ⟨c0, hc0, rfl⟩ := hc
      obtain ⟨v, xs, hv, _, hfc⟩ := trainComp_factor env _ e true o ho
      exact hfc.treatment (hT c0.1 (List.mem_map.2 ⟨c0, hc0, rfl⟩) e v he hv))
    intro c hc
    obtain ⟨o, ho, rfl⟩ := List.mem_map.1 hc
    exact this o ho

/-- every remembered grouping component carries its own name and expression -/
theorem trainGroup_factor_exprs (env : Env) (table : List (String × Expr)) (spec : GroupSpec)
    (out : GroupOut) (h : trainGroup env table spec = .ok out) :
    ∀ c ∈ out.st.factor.comps, compExpr table c.name = .ok c.expr := by
  obtain ⟨f, X, el, hf, _, _, _, hst, _, _, _⟩ := trainGroup_parts env table spec out h
  rw [hst]
  unfold trainTerm at hf
  simp only [bind_ok, pure_ok] at hf
  obtain ⟨outs, houts, rfl⟩ := hf
  simp only
  have := mapM_forall _ (fun (o : CompOut) => compExpr table o.st.name = .ok o.st.expr) _ _ houts (by
    intro c hc o ho
    simp only [bind_ok] at ho
    obtain ⟨e, he, ho⟩ := ho
    obtain ⟨v, xs, _, _, hfc⟩ := trainComp_factor env _ e _ o ho
    rw [hfc.name_eq, hfc.expr_eq]
    exact he)
  intro c hc
  obtain ⟨o, ho, rfl⟩ := List.mem_map.1 hc
  exact this o ho

/-- a plain variable reads the new frame exactly as it read the training frame (no state) -/
theorem newFactorVal_plain (st : CompState) (env : Env) (hc : isCallLike st.expr = false) :
    newFactorVal st env = factorVal env st.name st.expr := by
  simp only [newFactorVal, factorVal, hc, Bool.false_eq_true, if_false]
  cases env.frame.col? (varColRef st.name st.expr).1 <;> rfl

/-! ### tie to the specification -/

/-- the grouping expressions the specification's `componentValues` reads -/
def plainFactorExpr : Expr → Bool
  | .call .. | .brace .. | .quoted _ | .variable _ => true
  | _ => false

theorem compExpr_find (table : List (String × Expr)) (name : String) (e : Expr)
    (h : compExpr table name = .ok e) : ∃ p, table.find? (·.1 == name) = some p ∧ p.2 = e := by
  unfold compExpr at h
  split at h
  · rename_i p hp
    simp only [pure_ok] at h
    exact ⟨p, hp, h⟩
  · simp at h

/-- the values the model's grouping component reads are the specification's `componentValues` -/
theorem componentValues_eq (env : Env) (table : List (String × Expr)) (name : String) (e : Expr)
    (he : compExpr table name = .ok e) (hp : plainFactorExpr e = true) (v : Val)
    (xs : List (Option Level)) (hv : factorVal env name e = .ok v) (hxs : valLevels v = .ok xs) :
    Spec.C05.componentValues env table name = .ok xs := by
  obtain ⟨⟨n0, e0⟩, hfind, rfl⟩ := compExpr_find table name _ he
  have hval : ∀ (w : M Val), w = .ok v →
      (w >>= fun v => match v with
        | .vec xs _ => numericLevels xs
        | .lvec xs _ => pure xs
        | .box b => pure b.data
        | _ => .error (.unmodelled "grouping value")) = .ok xs := by
    intro w hw
    subst hw
    cases v <;> simp only [valLevels] at hxs <;> simp only [ok_bind] <;> exact hxs
  cases e0 with
  | «variable» x =>
    unfold Spec.C05.componentValues
    simp only [hfind]
    simp only [factorVal, isCallLike, Bool.false_eq_true, if_false, varColRef] at hv
    split at hv
    · rename_i c hc
      apply hval
      simp only [lookupName, hc]
      exact hv
    · simp at hv
  | quoted t =>
    unfold Spec.C05.componentValues
    simp only [hfind]
    simp only [factorVal, isCallLike, Bool.false_eq_true, if_false, varColRef] at hv
    split at hv
    · rename_i c hc
      apply hval
      simp only [lookupName, hc]
      exact hv
    · simp at hv
  | call c0 lp as rp =>
    unfold Spec.C05.componentValues
    simp only [hfind]
    simp only [factorVal, isCallLike, if_true] at hv
    cases hpo : posOnly (evalArg env (Expr.call c0 lp as rp) none) with
    | error err => rw [hpo] at hv; simp [Except.map] at hv
    | ok p =>
      rw [hpo] at hv
      simp only [Except.map, Except.ok.injEq] at hv
      subst hv
      exact hval (pure p.1) rfl
  | brace lb e1 rb =>
    unfold Spec.C05.componentValues
    simp only [hfind]
    simp only [factorVal, isCallLike, if_true] at hv
    cases hpo : posOnly (evalArg env (Expr.brace lb e1 rb) none) with
    | error err => rw [hpo] at hv; simp [Except.map] at hv
    | ok p =>
      rw [hpo] at hv
      simp only [Except.map, Except.ok.injEq] at hv
      subst hv
      exact hval (pure p.1) rfl
  | _ => simp [plainFactorExpr] at hp

/-- for a plain variable the remembered levels are the specification's `componentLevels`:
declared order of an ordered Categorical, sorted distinct values otherwise -/
theorem componentLevels_eq (env : Env) (table : List (String × Expr)) (name : String) (x : Token)
    (he : compExpr table name = .ok (.variable x)) (v : Val) (xs : List (Option Level))
    (levels : List Level) (hv : factorVal env name (.variable x) = .ok v) (hxs : valLevels v = .ok xs)
    (ho : LevelOrder (valDeclared v) xs levels) :
    Spec.C05.componentLevels env table name = .ok levels := by
  have hcv := componentValues_eq env table name _ he rfl v xs hv hxs
  obtain ⟨⟨n0, e0⟩, hfind, he0⟩ := compExpr_find table name _ he
  simp only at he0
  subst he0
  simp only [factorVal, isCallLike, Bool.false_eq_true, if_false, varColRef] at hv
  split at hv
  · rename_i c hc
    simp only [pure_ok] at hv
    subst hv
    unfold Spec.C05.componentLevels
    simp only [hfind, hc, hcv, ok_bind]
    unfold colVal at ho
    cases hk : c.kind with
    | numeric isInt =>
      simp only [hk, valDeclared, LevelOrder] at ho
      simp only [ho]
      rfl
    | string =>
      simp only [hk, valDeclared, declaredOf, LevelOrder] at ho
      simp only [ho]
      rfl
    | categorical o cats =>
      cases o with
      | true =>
        simp only [hk, valDeclared, declaredOf, LevelOrder] at ho
        subst ho
        rfl
      | false =>
        simp only [hk, valDeclared, declaredOf, LevelOrder] at ho
        simp only [ho]
        rfl
  · simp at hv

end FormulaeModel.Design
