import FormulaeModel.Proofs.TermsTotal
set_option linter.unusedSectionVars false
set_option linter.unusedSimpArgs false
set_option linter.unusedVariables false
/-
C02: a right-hand side that starts with the implicit `1 +` is resolved to a model without
duplicate terms — every later `+` goes through `Model.add_term`, every `-` through `list.remove`.
-/
namespace FormulaeModel.Resolver
open FormulaeModel FormulaeModel.Terms FormulaeModel.Spec.C02

def NodupM (m : ModelV) : Prop := m.common.Nodup ∧ m.group.Nodup

/-- the accumulated value of a chain that started with `1` -/
inductive NodupV : Obj → Prop
  | icpt : NodupV (.c .intercept)
  | model (m : ModelV) (h : NodupM m) : NodupV (.model m)

theorem nodup_append_singleton {α : Type} [BEq α] [LawfulBEq α] {l : List α} {x : α}
    (h : l.Nodup) (hx : l.contains x = false) : (l ++ [x]).Nodup := by
  rw [List.nodup_append]
  refine ⟨h, by simp, ?_⟩
  intro a ha b hb
  simp at hb; subst hb
  intro e; subst e
  have : l.contains a = true := by simpa using ha
  rw [this] at hx; exact absurd hx (by simp)

theorem addTerm_nodup {m m' : ModelV} {t : Obj} (h : addTerm m t = .ok m') (hm : NodupM m) :
    NodupM m' := by
  cases t with
  | g x =>
    simp only [addTerm, pure, Except.pure] at h
    injection h with h; subst h
    by_cases hc : m.group.contains x = true
    · simp only [hc, if_true]; exact hm
    · have hc' : m.group.contains x = false := by simpa using hc
      simp only [hc', Bool.false_eq_true, if_false]
      exact ⟨hm.1, nodup_append_singleton hm.2 hc'⟩
  | c x =>
    cases x with
    | negIntercept => simp [addTerm] at h
    | intercept =>
      simp only [addTerm, pure, Except.pure] at h
      injection h with h; subst h
      by_cases hc : m.common.contains .intercept = true
      · simp only [hc, if_true]; exact hm
      · have hc' : m.common.contains .intercept = false := by simpa using hc
        simp only [hc', Bool.false_eq_true, if_false]
        exact ⟨nodup_append_singleton hm.1 hc', hm.2⟩
    | term cs =>
      simp only [addTerm, pure, Except.pure] at h
      injection h with h; subst h
      by_cases hc : m.common.contains (.term cs) = true
      · simp only [hc, if_true]; exact hm
      · have hc' : m.common.contains (.term cs) = false := by simpa using hc
        simp only [hc', Bool.false_eq_true, if_false]
        exact ⟨nodup_append_singleton hm.1 hc', hm.2⟩
  | response r => simp [addTerm] at h
  | model o => simp [addTerm] at h

theorem addTerms_nodup {m m' : ModelV} {ts : List Obj} (h : addTerms m ts = .ok m')
    (hm : NodupM m) : NodupM m' := by
  induction ts generalizing m with
  | nil => simp only [addTerms, pure, Except.pure] at h; injection h with h; subst h; exact hm
  | cons t ts ih =>
    simp only [addTerms, bind, Except.bind] at h
    cases h1 : addTerm m t with
    | error e => simp [h1] at h
    | ok m1 =>
      simp only [h1] at h
      exact ih h (addTerm_nodup h1 hm)

theorem addModel_nodup {m o m' : ModelV} (h : addModel m o = .ok m') (hm : NodupM m) :
    NodupM m' := addTerms_nodup h hm

theorem nodup_foldl_removeFirst {α : Type} [BEq α] [LawfulBEq α] (B A : List α) (h : A.Nodup) :
    (B.foldl (fun acc t => removeFirst t acc) A).Nodup :=
  h.sublist (remL_sublist A B)

theorem add_nodupV {v rv v' : Obj} (hv : NodupV v) (h : add v rv = .ok v') : NodupV v' := by
  cases hv with
  | icpt =>
    cases rv with
    | c x =>
      cases x with
      | intercept =>
        simp only [add, pure, Except.pure] at h; injection h with h; subst h; exact .icpt
      | negIntercept =>
        simp only [add, pure, Except.pure] at h; injection h with h; subst h
        exact .model _ ⟨by simp, by simp⟩
      | term cs =>
        simp only [add, mkModel, mkModelFrom, bind, Except.bind, pure, Except.pure] at h
        injection h with h; subst h
        exact .model _ ⟨by simp, by simp⟩
    | g x =>
      simp only [add, mkModel, mkModelFrom, bind, Except.bind, pure, Except.pure] at h
      injection h with h; subst h
      exact .model _ ⟨by simp, by simp⟩
    | response r => simp [add] at h
    | model o =>
      simp only [add, bind, Except.bind, pure, Except.pure] at h
      cases h1 : addModel (modelOfC [.intercept]) o with
      | error e => simp [h1] at h
      | ok m1 =>
        simp only [h1] at h; injection h with h; subst h
        exact .model _ (addModel_nodup h1 ⟨by simp [modelOfC], by simp [modelOfC]⟩)
  | model m hm =>
    cases rv with
    | c x =>
      cases x with
      | negIntercept =>
        simp only [add, pure, Except.pure] at h; injection h with h; subst h
        exact .model _ ⟨hm.1.sublist (removeFirst_sublist _ _), hm.2⟩
      | intercept =>
        simp only [add, bind, Except.bind, pure, Except.pure] at h
        cases h1 : addTerm m (.c .intercept) with
        | error e => simp [h1] at h
        | ok m1 =>
          simp only [h1] at h; injection h with h; subst h
          exact .model _ (addTerm_nodup h1 hm)
      | term cs =>
        simp only [add, bind, Except.bind, pure, Except.pure] at h
        cases h1 : addTerm m (.c (.term cs)) with
        | error e => simp [h1] at h
        | ok m1 =>
          simp only [h1] at h; injection h with h; subst h
          exact .model _ (addTerm_nodup h1 hm)
    | g x =>
      simp only [add, bind, Except.bind, pure, Except.pure] at h
      cases h1 : addTerm m (.g x) with
      | error e => simp [h1] at h
      | ok m1 =>
        simp only [h1] at h; injection h with h; subst h
        exact .model _ (addTerm_nodup h1 hm)
    | response r => simp [add] at h
    | model o =>
      simp only [add, bind, Except.bind, pure, Except.pure] at h
      cases h1 : addModel m o with
      | error e => simp [h1] at h
      | ok m1 =>
        simp only [h1] at h; injection h with h; subst h
        exact .model _ (addModel_nodup h1 hm)

theorem sub_nodupV {v rv v' : Obj} (hv : NodupV v) (h : sub v rv = .ok v') : NodupV v' := by
  cases hv with
  | icpt =>
    cases rv with
    | c x =>
      cases x with
      | intercept =>
        simp only [sub, pure, Except.pure] at h; injection h with h; subst h
        exact .model _ ⟨by simp, by simp⟩
      | negIntercept =>
        simp only [sub, pure, Except.pure] at h; injection h with h; subst h; exact .icpt
      | term cs => simp [sub] at h
    | g x => simp [sub] at h
    | response r => simp [sub] at h
    | model o =>
      simp only [sub, pure, Except.pure] at h
      split at h
      · injection h with h; subst h; exact .model _ ⟨by simp, by simp⟩
      · injection h with h; subst h; exact .icpt
  | model m hm =>
    cases rv with
    | c x =>
      cases x with
      | negIntercept => simp [sub] at h
      | intercept =>
        simp only [sub, pure, Except.pure] at h; injection h with h; subst h
        exact .model _ ⟨hm.1.sublist (removeFirst_sublist _ _), hm.2⟩
      | term cs =>
        simp only [sub, pure, Except.pure] at h; injection h with h; subst h
        exact .model _ ⟨hm.1.sublist (removeFirst_sublist _ _), hm.2⟩
    | g x =>
      simp only [sub, pure, Except.pure] at h; injection h with h; subst h
      exact .model _ ⟨hm.1, hm.2.sublist (removeFirst_sublist _ _)⟩
    | response r => simp [sub] at h
    | model o =>
      simp only [sub, pure, Except.pure] at h; injection h with h; subst h
      exact .model _ ⟨nodup_foldl_removeFirst _ _ hm.1, nodup_foldl_removeFirst _ _ hm.2⟩

theorem resolve_one {t : Token} (h : isLit (.literal t) "1" = true) :
    resolve docOps (.literal t) = .ok (.c .intercept) := by
  simp only [isLit, Bool.and_eq_true, beq_iff_eq] at h
  obtain ⟨hk, hl⟩ := h
  have h0 : numIsZero "1" = false := by decide
  have h1 : numIsOne "1" = true := by decide
  simp only [resolve, hk, hl, h0, h1, Bool.false_eq_true, if_false, if_true]
  rfl

/-- a chain whose leftmost item is the literal `1` resolves to a bare `Intercept` or to a model
without duplicates -/
theorem chain_nodupV (x : Expr) : ∀ v, isLit (chainHead x) "1" = true →
    resolve docOps x = .ok v → NodupV v := by
  induction x using chainHead.induct with
  | case1 l op r hk ih =>
    intro v hh hr
    simp only [chainHead, hk, if_true] at hh
    simp only [Bool.or_eq_true, beq_iff_eq] at hk
    rcases hk with hk | hk
    · obtain ⟨lv, rv, hl, hrr, hv⟩ := resolve_binary_ok (o := .add) (by rw [hk]; rfl) hr
      exact add_nodupV (ih lv hh hl) hv
    · obtain ⟨lv, rv, hl, hrr, hv⟩ := resolve_binary_ok (o := .sub) (by rw [hk]; rfl) hr
      exact sub_nodupV (ih lv hh hl) hv
  | case2 l op r hk =>
    intro v hh hr
    simp only [chainHead, hk] at hh
    simp [isLit] at hh
  | case3 e h1 =>
    intro v hh hr
    cases e with
    | binary l op r => exact (h1 _ _ _ rfl).elim
    | literal t =>
      simp only [chainHead] at hh
      rw [resolve_one hh] at hr
      injection hr with hr; subst hr; exact .icpt
    | _ => simp [chainHead, isLit] at hh

theorem response_add_nodupV {r : List Atom} {rv v : Obj} (hv : NodupV rv)
    (h : add (.response r) rv = .ok v) : NodupV v := by
  cases hv with
  | icpt =>
    simp only [add, pure, Except.pure] at h; injection h with h; subst h
    exact .model _ ⟨by simp, by simp⟩
  | model m hm =>
    simp only [add, pure, Except.pure] at h; injection h with h; subst h
    exact .model _ hm

theorem mkResponse_ok {lv w : Obj} (h : mkResponse lv = .ok w) : ∃ r, w = .response r := by
  unfold mkResponse at h
  split at h
  · injection h with h; exact ⟨_, h.symm⟩
  · simp at h

/-- the whole formula (with or without response) resolves to a bare `Intercept` or to a model
without duplicates -/
theorem formula_nodupV (e : Expr) (v : Obj) (h1 : implicitOne e = true)
    (hr : resolve docOps e = .ok v) : NodupV v := by
  unfold implicitOne at h1
  cases e with
  | binary l op r =>
    by_cases hk : op.kind = .TILDE
    · simp only [rhsOf, hk, beq_self_eq_true, if_true] at h1
      obtain ⟨lv, rv, hl, hrr, hv⟩ := resolve_binary_ok (o := .tilde) (by rw [hk]; rfl) hr
      have hrv := chain_nodupV r rv h1 hrr
      simp only [apply, bind, Except.bind] at hv
      cases hm : mkResponse lv with
      | error er => simp [hm] at hv
      | ok w =>
        obtain ⟨rr, rfl⟩ := mkResponse_ok hm
        simp only [hm] at hv
        exact response_add_nodupV hrv hv
    · have : (op.kind == Kind.TILDE) = false := by simpa using hk
      simp only [rhsOf, this, Bool.false_eq_true, if_false] at h1
      exact chain_nodupV _ v h1 hr
  | _ => exact chain_nodupV _ v (by simpa [rhsOf] using h1) hr

theorem describe_nodup (e : Expr) (m : ModelV) (h1 : implicitOne e = true)
    (hd : describe docOps e = .ok m) : m.common.Nodup ∧ m.group.Nodup := by
  simp only [describe, bind, Except.bind] at hd
  cases hr : resolve docOps e with
  | error er => simp [hr] at hd
  | ok v =>
    have hv := formula_nodupV e v h1 hr
    simp only [hr] at hd
    cases hv with
    | icpt =>
      simp only [pure, Except.pure] at hd; injection hd with hd; subst hd
      exact ⟨by simp, by simp⟩
    | model m' hm =>
      simp only [pure, Except.pure] at hd; injection hd with hd; subst hd
      exact hm

end FormulaeModel.Resolver
