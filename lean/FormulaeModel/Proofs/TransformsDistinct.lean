import FormulaeModel.Proofs.TransformsOrtho
import Mathlib.Algebra.Polynomial.Roots
/-
`P_k` is a monic polynomial of degree `k`; hence `norms2[k] = Σ P_k(v)² ≠ 0` as soon as the data
contain more than `k` distinct values.
-/
namespace FormulaeModel.Transforms.Ortho
open Polynomial

/-- `(P_k, P_{k-1})` as Mathlib polynomials, same recursion as `pp` -/
noncomputable def PP (x : List Rat) : Nat → ℚ[X] × ℚ[X]
  | 0 => (1, 0)
  | k + 1 => ((X - C (alpha x k)) * (PP x k).1 - C (b x k) * (PP x k).2, (PP x k).1)

theorem PP_eval (x : List Rat) (k : Nat) (v : Rat) :
    ((PP x k).1).eval v = p x k v ∧ ((PP x k).2).eval v = q x k v := by
  induction k with
  | zero => simp [PP, p_zero, q_zero]
  | succ k ih =>
    constructor
    · simp only [PP, eval_sub, eval_mul, eval_X, eval_C, ih.1, ih.2, p_succ]
    · simp only [PP, ih.1, q_succ]

theorem PP_monic (x : List Rat) (k : Nat) :
    (PP x k).1.Monic ∧ (PP x k).1.natDegree = k ∧ ((PP x k).2 = 0 ∨ (PP x k).2.natDegree + 1 = k) := by
  induction k with
  | zero => simp [PP]
  | succ k ih =>
    obtain ⟨hm, hd, hq⟩ := ih
    have hmul : ((X - C (alpha x k)) * (PP x k).1).Monic := (monic_X_sub_C _).mul hm
    have hdeg : ((X - C (alpha x k)) * (PP x k).1).natDegree = k + 1 := by
      rw [(monic_X_sub_C _).natDegree_mul hm, natDegree_X_sub_C, hd]; omega
    have hlt : (C (b x k) * (PP x k).2).degree < ((X - C (alpha x k)) * (PP x k).1).degree := by
      rcases hq with h0 | h1
      · rw [h0, mul_zero, degree_zero]
        exact bot_lt_iff_ne_bot.mpr (by rw [Ne, degree_eq_bot]; exact hmul.ne_zero)
      · apply lt_of_le_of_lt (degree_le_natDegree)
        rw [degree_eq_natDegree hmul.ne_zero, hdeg]
        have := natDegree_C_mul_le (b x k) (PP x k).2
        exact_mod_cast (by omega : (C (b x k) * (PP x k).2).natDegree < k + 1)
    refine ⟨?_, ?_, Or.inr ?_⟩
    · simp only [PP]; exact hmul.sub_of_left hlt
    · simp only [PP]
      rw [natDegree_sub_eq_left_of_natDegree_lt, hdeg]
      rw [hdeg]
      rcases hq with h0 | h1
      · rw [h0]; simp
      · have := natDegree_C_mul_le (b x k) (PP x k).2; omega
    · simp only [PP]; rw [hd]

theorem sum_sq_eq_zero (f : Rat → Rat) (x : List Rat) (h : sum (x.map (fun v => f v * f v)) = 0) :
    ∀ v ∈ x, f v = 0 := by
  induction x with
  | nil => intro v hv; simp at hv
  | cons a l ih =>
    simp only [List.map_cons, sum] at h
    have h1 : 0 ≤ f a * f a := mul_self_nonneg _
    have h2 : 0 ≤ sum (l.map (fun v => f v * f v)) :=
      sum_map_nonneg _ l (fun v _ => mul_self_nonneg _)
    have ha : f a * f a = 0 := by linarith
    have hl : sum (l.map (fun v => f v * f v)) = 0 := by linarith
    intro v hv
    rcases List.mem_cons.mp hv with rfl | hv
    · exact mul_self_eq_zero.mp ha
    · exact ih hl v hv

/-- more than `k` distinct values in the data ⇒ `norms2[k] ≠ 0` -/
theorem norm2_ne_zero (x : List Rat) (k : Nat) (l : List Rat) (hnd : l.Nodup) (hlen : k < l.length)
    (hsub : ∀ v ∈ l, v ∈ x) : norm2 x k ≠ 0 := by
  intro h0
  have hroots := sum_sq_eq_zero (p x k) x h0
  obtain ⟨hm, hd, _⟩ := PP_monic x k
  have hsubset : (l.toFinset).val ⊆ (PP x k).1.roots := by
    intro v hv
    have hv' : v ∈ l := by simpa using hv
    rw [mem_roots hm.ne_zero, IsRoot, (PP_eval x k v).1]
    exact hroots v (hsub v hv')
  have := card_le_degree_of_subset_roots hsubset
  rw [hd, List.toFinset_card_of_nodup hnd] at this
  omega

theorem norm2_pos (x : List Rat) (k : Nat) (h : norm2 x k ≠ 0) : 0 < norm2 x k := by
  have : 0 ≤ norm2 x k := sum_map_nonneg _ x (fun v _ => mul_self_nonneg _)
  exact lt_of_le_of_ne this (Ne.symm h)

end FormulaeModel.Transforms.Ortho
