import FormulaeModel.Model.Encoding
set_option linter.unusedSimpArgs false
set_option linter.unusedVariables false
/-
Helper lemmas for C15 (part 2): the redundancy analysis (`Encoding.run`, `Encoding.designTerms`)
invents no component: every component of every coded term (helper terms included) is a component
of one of the terms it was given.
-/
namespace FormulaeModel.Encoding
open FormulaeModel.Contrasts

/-- every component of every term of the list is named in `S` -/
def NamesIn (S : List String) (ts : List TermDesc) : Prop := ∀ t ∈ ts, ∀ c ∈ t.comps, c.name ∈ S

theorem dedupKeepFirst_mem (cs : List Comp) : ∀ (acc : List Comp) (x : Comp),
    x ∈ dedupKeepFirst acc cs → x ∈ acc ∨ x ∈ cs := by
  induction cs with
  | nil => intro acc x h; exact Or.inl (by simpa [dedupKeepFirst] using h)
  | cons c cs ih =>
    intro acc x h
    simp only [dedupKeepFirst] at h
    split at h
    · rcases ih acc x h with h | h
      · exact Or.inl h
      · exact Or.inr (List.mem_cons_of_mem _ h)
    · rcases ih (acc ++ [c]) x h with h | h
      · simp only [List.mem_append, List.mem_singleton] at h
        rcases h with h | h
        · exact Or.inl h
        · exact Or.inr (by simp [h])
      · exact Or.inr (List.mem_cons_of_mem _ h)

theorem createExtraTerm_comps (b : Bool) (term : TermDesc) (enc : Coding) (t' : TermDesc)
    (h : createExtraTerm b term enc = .ok t') : ∀ c ∈ t'.comps, c ∈ term.comps := by
  cases term with
  | intercept => simp [createExtraTerm] at h
  | term c0 cs =>
    simp only [createExtraTerm] at h
    split at h
    · simp at h
    · split at h
      · simp at h
      · rename_i d ds hd
        simp only [Except.ok.injEq] at h
        subst h
        intro c hc
        have hc' : c ∈ dedupKeepFirst [] ((List.filterMap (fun n => List.find? (fun x => x.name == n) (c0 :: cs))
            (List.filter (fun x => enc.has x) (List.map (fun x => x.name) (c0 :: cs)))) ++
            List.filter (fun x => x.kind == Kind.numeric) (c0 :: cs)) := by
          rw [hd]; exact hc
        rcases dedupKeepFirst_mem _ _ _ hc' with h | h
        · simp at h
        · simp only [List.mem_append, List.mem_filterMap, List.mem_filter] at h
          rcases h with ⟨n, _, hn⟩ | ⟨h, _⟩
          · exact List.mem_of_find?_eq_some hn
          · exact h

theorem insertAt_mem {α : Type} (l : List α) : ∀ (i : Nat) (x y : α), y ∈ insertAt l i x → y ∈ l ∨ y = x := by
  induction l with
  | nil =>
    intro i x y h
    cases i <;> simp [insertAt] at h <;> exact Or.inr h
  | cons a l ih =>
    intro i x y h
    cases i with
    | zero =>
      simp only [insertAt, List.mem_cons] at h
      rcases h with h | h | h
      · exact Or.inr h
      · exact Or.inl (by simp [h])
      · exact Or.inl (by simp [h])
    | succ i =>
      simp only [insertAt, List.mem_cons] at h
      rcases h with h | h
      · exact Or.inl (by simp [h])
      · rcases ih i x y h with h | h
        · exact Or.inl (by simp [h])
        · exact Or.inr h

theorem insertExtras_names (S : List String) (b : Bool) (term : TermDesc)
    (ht : ∀ c ∈ term.comps, c.name ∈ S) : ∀ (subs : List Coding) (live live' : List TermDesc),
    NamesIn S live → insertExtras b term subs live = .ok live' → NamesIn S live' := by
  intro subs
  induction subs with
  | nil =>
    intro live live' hl h
    simp only [insertExtras, Except.ok.injEq] at h
    subst h; exact hl
  | cons sub subs ih =>
    intro live live' hl h
    simp only [insertExtras] at h
    split at h
    · simp at h
    · rename_i extra he
      split at h
      · simp at h
      · rename_i i hi
        refine ih _ _ ?_ h
        intro t ht' c hc
        rcases insertAt_mem _ _ _ _ ht' with h1 | h1
        · exact hl t h1 c hc
        · subst h1
          exact ht c (createExtraTerm_comps b term sub _ he c hc)

theorem addExtraTermsLoop_names (S : List String) (b : Bool) (enc : Dict (List Coding)) :
    ∀ (ts live live' : List TermDesc), NamesIn S ts → NamesIn S live →
    addExtraTermsLoop b enc ts live = .ok live' → NamesIn S live' := by
  intro ts
  induction ts with
  | nil =>
    intro live live' _ hl h
    simp only [addExtraTermsLoop, Except.ok.injEq] at h
    subst h; exact hl
  | cons t ts ih =>
    intro live live' hts hl h
    have hts' : NamesIn S ts := fun t' ht' => hts t' (List.mem_cons_of_mem _ ht')
    have ht : ∀ c ∈ t.comps, c.name ∈ S := hts t (by simp)
    simp only [addExtraTermsLoop] at h
    split at h
    · split at h
      · split at h
        · simp at h
        · rename_i live2 h2
          exact ih _ _ hts' (insertExtras_names S b t ht _ _ _ hl h2) h
      · exact ih _ _ hts' hl h
    · exact ih _ _ hts' hl h

theorem mapExcept_mem_ok {α β ε : Type} (f : α → Except ε β) : ∀ (xs : List α) (ys : List β),
    mapExcept f xs = .ok ys → ∀ y ∈ ys, ∃ x ∈ xs, f x = .ok y := by
  intro xs
  induction xs with
  | nil =>
    intro ys h y hy
    simp only [mapExcept, Except.ok.injEq] at h
    subst h; simp at hy
  | cons x xs ih =>
    intro ys h y hy
    simp only [mapExcept] at h
    split at h
    · simp at h
    · rename_i y0 hy0
      split at h
      · simp at h
      · rename_i ys0 hys0
        simp only [Except.ok.injEq] at h
        subst h
        simp only [List.mem_cons] at hy
        rcases hy with hy | hy
        · subst hy; exact ⟨x, by simp, hy0⟩
        · obtain ⟨x', hx', hf⟩ := ih _ hys0 y hy
          exact ⟨x', by simp [hx'], hf⟩

theorem codeTerm_names (enc : Dict (List Coding)) (t : TermDesc) (ct : CodedTerm)
    (h : codeTerm enc t = .ok ct) : ∀ p ∈ ct.2, p.1 ∈ t.comps := by
  simp only [codeTerm] at h
  split at h
  · simp at h
  · simp only [Except.ok.injEq] at h
    subst h
    intro p hp
    simp only [List.mem_map] at hp
    obtain ⟨c, hc, rfl⟩ := hp
    exact hc
  · simp only [Except.ok.injEq] at h
    subst h
    intro p hp
    simp only [List.mem_map] at hp
    obtain ⟨c, hc, rfl⟩ := hp
    exact hc

theorem dictSet_mem {β : Type} (d : Dict β) : ∀ (k : String) (v : β) (e : String × β),
    e ∈ Dict.set d k v → e ∈ d ∨ e = (k, v) := by
  induction d with
  | nil => intro k v e h; simp [Dict.set] at h; exact Or.inr h
  | cons kv rest ih =>
    intro k v e h
    obtain ⟨k', v'⟩ := kv
    simp only [Dict.set] at h
    split at h
    · simp only [List.mem_cons] at h
      rcases h with h | h
      · exact Or.inr h
      · exact Or.inl (by simp [h])
    · simp only [List.mem_cons] at h
      rcases h with h | h
      · exact Or.inl (by simp [h])
      · rcases ih k v e h with h | h
        · exact Or.inl (by simp [h])
        · exact Or.inr h

theorem designTerms_mem (coded : List CodedTerm) : ∀ e ∈ designTerms coded, e ∈ coded := by
  unfold designTerms
  suffices h : ∀ (xs : List CodedTerm) (d : Dict (List (Comp × Bool))),
      (∀ e ∈ d, e ∈ coded) → (∀ x ∈ xs, x ∈ coded) →
      ∀ e ∈ xs.foldl (fun d t => Dict.set d t.1 t.2) d, e ∈ coded from
    h coded [] (by simp) (fun x hx => hx)
  intro xs
  induction xs with
  | nil => intro d hd _ e he; exact hd e he
  | cons x xs ih =>
    intro d hd hx e he
    simp only [List.foldl_cons] at he
    refine ih _ ?_ (fun y hy => hx y (List.mem_cons_of_mem _ hy)) e he
    intro e' he'
    rcases dictSet_mem _ _ _ _ he' with h | h
    · exact hd e' h
    · rw [h]; exact hx x (by simp)

/-- **the redundancy analysis invents no component** -/
theorem run_names (S : List String) (b : Bool) (ts : List TermDesc) (coded : List CodedTerm)
    (hts : NamesIn S ts) (h : run b ts = .ok coded) :
    ∀ ct ∈ designTerms coded, ∀ p ∈ ct.2, p.1.name ∈ S := by
  simp only [run, secondFamily] at h
  split at h
  · simp at h
  · rename_i ts2 h2
    split at h2
    · simp at h2
    · rename_i enc1 _
      have hts2 : NamesIn S ts2 := addExtraTermsLoop_names S b enc1 ts ts ts2 hts hts h2
      split at h
      · simp at h
      · rename_i enc2 _
        intro ct hct p hp
        obtain ⟨t, ht, hf⟩ := mapExcept_mem_ok _ _ _ h ct (designTerms_mem coded ct hct)
        exact hts2 t ht p.1 (codeTerm_names enc2 t ct hf p hp)

end FormulaeModel.Encoding
