import FormulaeModel.Proofs.TermsChain
set_option linter.unusedSectionVars false
set_option linter.unusedSimpArgs false
set_option linter.unusedVariables false
/-
C02, layer 5: intercept literals, the effect side of `|` (a chain without implicit intercept,
`0`/`-1` first or not at all outside D3), `Model.__or__`, and group-specific items.
-/
namespace FormulaeModel.Resolver
open FormulaeModel FormulaeModel.Terms FormulaeModel.Spec.C02

-- ---------------------------------------------------------------------------------------------
-- intercept literals
-- ---------------------------------------------------------------------------------------------
theorem resolve_zero {t : Token} (h : isLit (.literal t) "0" = true) :
    resolve docOps (.literal t) = .ok (.c .negIntercept) := by
  simp only [isLit, Bool.and_eq_true, beq_iff_eq] at h
  obtain ⟨hk, hl⟩ := h
  have h0 : numIsZero "0" = true := by decide
  simp only [resolve, hk, hl, h0, if_true]
  rfl

theorem resolve_neg_one {op t : Token} (hk : op.kind = .MINUS) (h : isLit (.literal t) "1" = true) :
    resolve docOps (.unary op (.literal t)) = .ok (.c .negIntercept) := by
  have h2 := resolve_one h
  simp only [resolve] at h2 ⊢
  simp only [hk, h2, bind, Except.bind]
  rfl

theorem isLit_literal {e : Expr} {s : String} (h : isLit e s = true) : ∃ t, e = .literal t := by
  cases e <;> simp [isLit] at h
  exact ⟨_, rfl⟩

/-- what the literal items resolve to -/
theorem literal_val {s : Bool} {r : Expr} {i : Item} {rv : Obj}
    (h : literalItem s r = some i) (hr : resolve docOps r = .ok rv) :
    (s = true ∧ i = .addI ∧ rv = .c .intercept) ∨ (s = true ∧ i = .remI ∧ rv = .c .negIntercept) ∨
    (s = false ∧ i = .remI ∧ rv = .c .intercept) := by
  unfold literalItem at h
  split at h
  · rename_i h1
    simp only [Bool.and_eq_true] at h1
    obtain ⟨t, rfl⟩ := isLit_literal h1.2
    rw [resolve_one h1.2] at hr
    injection hr with hr; injection h with h
    exact Or.inl ⟨h1.1, h.symm, hr.symm⟩
  · split at h
    · rename_i h1
      simp only [Bool.and_eq_true] at h1
      obtain ⟨t, rfl⟩ := isLit_literal h1.2
      rw [resolve_zero h1.2] at hr
      injection hr with hr; injection h with h
      exact Or.inr (Or.inl ⟨h1.1, h.symm, hr.symm⟩)
    · split at h
      · rename_i h1
        simp only [Bool.and_eq_true, Bool.not_eq_true'] at h1
        obtain ⟨t, rfl⟩ := isLit_literal h1.2
        rw [resolve_one h1.2] at hr
        injection hr with hr; injection h with h
        exact Or.inr (Or.inr ⟨h1.1, h.symm, hr.symm⟩)
      · split at h
        · rename_i op r'
          split at h
          · rename_i h1
            simp only [Bool.and_eq_true, beq_iff_eq] at h1
            obtain ⟨t, rfl⟩ := isLit_literal h1.2
            rw [resolve_neg_one h1.1.2 h1.2] at hr
            injection hr with hr; injection h with h
            exact Or.inr (Or.inl ⟨h1.1.1, h.symm, hr.symm⟩)
          · simp at h
        · simp at h

theorem literalItem_cases {s : Bool} {r : Expr} {i : Item} (h : literalItem s r = some i) :
    i = .addI ∨ i = .remI := by
  unfold literalItem at h
  repeat' split at h
  all_goals first | (injection h with h; simp [← h]) | simp at h

-- ---------------------------------------------------------------------------------------------
-- plain values as items
-- ---------------------------------------------------------------------------------------------
theorem asC_toObj (p : PV) : asC p.toObj = p.list.map .term := by cases p <;> rfl
theorem asG_toObj (p : PV) : asG p.toObj = [] := by cases p <;> rfl
theorem asResp_toObj (p : PV) : asResp p.toObj = none := by cases p <;> rfl
theorem isAcc_toObj (p : PV) : isAcc p.toObj = true := by cases p <;> rfl
theorem toObj_ne_neg (p : PV) : p.toObj ≠ .c .negIntercept := by cases p <;> simp [PV.toObj]
theorem toObj_ne_icpt (p : PV) : p.toObj ≠ .c .intercept := by cases p <;> simp [PV.toObj]
theorem toObj_ne_resp (p : PV) : ∀ r, p.toObj ≠ .response r := by cases p <;> simp [PV.toObj]
theorem asC_toObj_ne_neg (p : PV) : ∀ c ∈ asC p.toObj, c ≠ .negIntercept := by
  rw [asC_toObj]; exact ne_neg_of_map_term

theorem mem_map_term {L : List STerm} {t : STerm} : CTerm.term t ∈ L.map CTerm.term ↔ t ∈ L := by
  simp only [List.mem_map]
  constructor
  · rintro ⟨y, hy, e⟩; exact term_inj _ _ e ▸ hy
  · intro h; exact ⟨t, h, rfl⟩

/-- a non-literal, non-group item: a plain value whose terms are the denotation -/
theorem plain_val {r : Expr} {ts : List STerm} {rv : Obj} (hd : denT r = some ts)
    (hr : resolve docOps r = .ok rv) (hng : NoGap r) :
    ∃ p : PV, rv = p.toObj ∧ ∀ t, t ∈ p.list ↔ t ∈ ts := by
  obtain ⟨p, rfl, _, hs⟩ := plain_main r ts rv hd hr
  refine ⟨p, rfl, ?_⟩
  intro t; rw [← hs hng, mem_dedup]

-- ---------------------------------------------------------------------------------------------
-- additive chains as lists
-- ---------------------------------------------------------------------------------------------
theorem chain_ne_nil (x : Expr) : chain x ≠ [] := by
  cases x with
  | binary l op r =>
    simp only [chain]
    split
    · simp
    · split <;> simp
  | _ => simp [chain]

theorem chain_plus {l : Expr} {op : Token} {r : Expr} (hk : op.kind = .PLUS) :
    chain (.binary l op r) = chain l ++ [(true, r)] := by
  simp [chain, hk]

theorem chain_minus {l : Expr} {op : Token} {r : Expr} (hk : op.kind = .MINUS) :
    chain (.binary l op r) = chain l ++ [(false, r)] := by
  simp [chain, hk]

theorem chain_other {l : Expr} {op : Token} {r : Expr} (h1 : op.kind ≠ .PLUS)
    (h2 : op.kind ≠ .MINUS) : chain (.binary l op r) = [(true, .binary l op r)] := by
  have h1' : (op.kind == Kind.PLUS) = false := by simpa using h1
  have h2' : (op.kind == Kind.MINUS) = false := by simpa using h2
  simp [chain, h1', h2']

def litOf (it : Bool × Expr) : Option Item := literalItem it.1 it.2

def firstRem (items : List (Bool × Expr)) : Bool := ((items.map litOf).take 1).any isRemItem

theorem effGapD3_eq (items : List (Bool × Expr)) : effGapD3 items =
    (((items.map litOf).drop 1).any isRemItem ||
      (((items.map litOf).take 1).any isRemItem && ((items.map litOf).drop 1).any isAddItem)) := rfl

theorem effGap_single (x : Bool × Expr) : effGapD3 [x] = false := by
  simp [effGapD3_eq]

theorem firstRem_snoc {A : List (Bool × Expr)} (x : Bool × Expr) (hA : A ≠ []) :
    firstRem (A ++ [x]) = firstRem A := by
  cases A with
  | nil => exact absurd rfl hA
  | cons a A => simp [firstRem]

theorem effGap_snoc {A : List (Bool × Expr)} (x : Bool × Expr) (hA : A ≠ [])
    (h : effGapD3 (A ++ [x]) = false) :
    effGapD3 A = false ∧ isRemItem (litOf x) = false ∧
      (firstRem A = true → isAddItem (litOf x) = false) := by
  cases A with
  | nil => exact absurd rfl hA
  | cons a A =>
    simp only [effGapD3_eq, firstRem, List.cons_append, List.map_cons, List.map_append,
      List.map_nil, List.drop_succ_cons, List.drop_zero, List.take_succ_cons, List.take_zero,
      List.any_append, List.any_cons, List.any_nil, Bool.or_false] at h ⊢
    generalize (A.map litOf).any isRemItem = p1 at h ⊢
    generalize isRemItem (litOf x) = p2 at h ⊢
    generalize isRemItem (litOf a) = p3 at h ⊢
    generalize (A.map litOf).any isAddItem = p4 at h ⊢
    generalize isAddItem (litOf x) = p5 at h ⊢
    cases p1 <;> cases p2 <;> cases p3 <;> cases p4 <;> cases p5 <;> simp_all

theorem effChain_snoc (A : List (Bool × Expr)) (x : Bool × Expr) :
    effChain (A ++ [x]) = (effChain A).bind (fun st => effStep st x) := by
  simp only [effChain, List.foldlM_append, List.foldlM_cons, List.foldlM_nil]
  cases List.foldlM effStep (true, []) A with
  | none => rfl
  | some st =>
    simp only [Option.bind_eq_bind, Option.bind_some]
    cases effStep st x <;> rfl

theorem effChain_single (x : Bool × Expr) : effChain [x] = effStep (true, []) x := by
  simp only [effChain, List.foldlM_cons, List.foldlM_nil]
  cases effStep (true, []) x <;> rfl

-- ---------------------------------------------------------------------------------------------
-- the effect side of `|`
-- ---------------------------------------------------------------------------------------------
structure EffRep (cs : List CTerm) (icpt : Bool) (ets : List STerm) : Prop where
  terms : ∀ t, CTerm.term t ∈ cs ↔ t ∈ ets
  pos : icpt = true → CTerm.negIntercept ∉ cs
  neg : icpt = false → cs.Nodup ∧ CTerm.negIntercept ∈ cs ∧ CTerm.intercept ∉ cs

structure EffVal (ev : Obj) (st : Bool × List STerm) : Prop where
  acc : isAcc ev = true
  nog : asG ev = []
  nor : asResp ev = none
  rep : EffRep (asC ev) st.1 st.2

def EffAt (x : Expr) : Prop :=
  ∀ ev st, resolve docOps x = .ok ev → effChain (chain x) = some st →
    effGapD3 (chain x) = false → NoGap x → EffVal ev st ∧ st.1 = !firstRem (chain x)

/-- outside D24 the left operand of `-` holds no duplicate (any accumulated value) -/
theorem NoGap.minus_nodup {l : Expr} {op : Token} {r : Expr} (h : NoGap (.binary l op r))
    (hk : op.kind = .MINUS) {lv : Obj} (hl : resolve docOps l = .ok lv) :
    (asC lv).Nodup ∧ (asG lv).Nodup := by
  have h2 := ((anySub_binary _ _ _ _).1 h.2.1).1
  cases lv with
  | c t => simp [asC, asG]
  | g x => simp [asC, asG]
  | response r => simp [asC, asG]
  | model m =>
    simp only [hk, hl, beq_self_eq_true, Bool.true_and, Bool.or_eq_false_iff,
      bne_eq_false_iff_eq] at h2
    exact ⟨nodup_of_dedup_length h2.1, nodup_of_dedup_length h2.2⟩

theorem eff_single (x : Expr) (hc : chain x = [(true, x)]) : EffAt x := by
  intro ev st hr he hg hng
  rw [hc, effChain_single] at he
  have hfr : firstRem (chain x) = isRemItem (literalItem true x) := by
    rw [hc]; simp [firstRem, litOf]
  rw [hfr]
  unfold effStep at he
  cases hlit : literalItem true x with
  | none =>
    simp only [hlit] at he
    cases hden : denT x with
    | none => simp [hden] at he
    | some ts =>
      simp only [hden, Option.bind_eq_bind, Option.bind_some, if_true, pure,
        Option.some.injEq] at he
      subst he
      obtain ⟨p, rfl, hp⟩ := plain_val hden hr hng
      refine ⟨⟨isAcc_toObj p, asG_toObj p, asResp_toObj p, ?_⟩, by simp [isRemItem]⟩
      rw [asC_toObj]
      refine ⟨?_, fun _ => ?_, fun h => by simp at h⟩
      · intro t; rw [mem_map_term, hp t, mem_union]; simp
      · intro hc; exact ne_neg_of_map_term _ hc rfl
  | some i =>
    rcases literal_val hlit hr with ⟨_, rfl, rfl⟩ | ⟨_, rfl, rfl⟩ | ⟨h1, _, _⟩
    · simp only [hlit, Option.some.injEq] at he
      subst he
      refine ⟨⟨rfl, rfl, rfl, ?_⟩, by simp [isRemItem]⟩
      refine ⟨by simp [asC], by simp [asC], fun h => by simp at h⟩
    · simp only [hlit, Option.some.injEq] at he
      subst he
      refine ⟨⟨rfl, rfl, rfl, ?_⟩, by simp [isRemItem]⟩
      refine ⟨by simp [asC], fun h => by simp at h, fun _ => by simp [asC]⟩
    · simp at h1

theorem opt_bind_some {α β : Type} {o : Option α} {f : α → Option β} {b : β}
    (h : o.bind f = some b) : ∃ a, o = some a ∧ f a = some b := by
  cases o with
  | none => simp at h
  | some a => exact ⟨a, rfl, h⟩

theorem eff_plus (l : Expr) (op : Token) (r : Expr) (hk : op.kind = .PLUS) (ih : EffAt l) :
    EffAt (.binary l op r) := by
  intro ev st hr he hg hng
  rw [chain_plus hk] at he hg ⊢
  rw [effChain_snoc] at he
  obtain ⟨stl, hel, hes⟩ := opt_bind_some he
  obtain ⟨hgl, hnrem, hadd⟩ := effGap_snoc _ (chain_ne_nil l) hg
  obtain ⟨lv, rv, hl, hrr, hv⟩ := resolve_binary_ok (o := .add) (by rw [hk]; rfl) hr
  obtain ⟨hvl, hfl⟩ := ih lv stl hl hel hgl hng.left
  rw [firstRem_snoc _ (chain_ne_nil l)]
  simp only [apply] at hv
  unfold effStep at hes
  cases hlit : literalItem true r with
  | none =>
    simp only [hlit] at hes
    cases hden : denT r with
    | none => simp [hden] at hes
    | some ts =>
      simp only [hden, Option.bind_eq_bind, Option.bind_some, if_true, pure,
        Option.some.injEq] at hes
      subst hes
      obtain ⟨p, rfl, hp⟩ := plain_val hden hrr hng.right
      obtain ⟨h1, h2, h3, h4⟩ := add_as hv hvl.acc (toObj_ne_neg p) (toObj_ne_resp p)
        (asC_toObj_ne_neg p) (fun _ => toObj_ne_icpt p)
      rw [asC_toObj] at h1
      rw [asG_toObj, hvl.nog] at h2
      refine ⟨⟨h4, by rw [h2]; rfl, by rw [h3, hvl.nor], ?_⟩, hfl⟩
      rw [h1]
      refine ⟨?_, ?_, ?_⟩
      · intro t
        rw [mem_addL, mem_map_term, mem_union, hvl.rep.terms t, hp t]
      · intro hi hc
        rcases (mem_addL _ _).1 hc with h | h
        · exact hvl.rep.pos hi h
        · exact ne_neg_of_map_term _ h rfl
      · intro hi
        obtain ⟨n1, n2, n3⟩ := hvl.rep.neg hi
        refine ⟨nodup_addL n1 _, (mem_addL _ _).2 (Or.inl n2), ?_⟩
        intro hc
        rcases (mem_addL _ _).1 hc with h | h
        · exact n3 h
        · simp at h
  | some i =>
    have hlo : litOf (true, r) = some i := hlit
    rcases literal_val hlit hrr with ⟨_, rfl, rfl⟩ | ⟨_, rfl, rfl⟩ | ⟨h1, _, _⟩
    · simp only [hlit, Option.some.injEq] at hes
      subst hes
      have hfr : firstRem (chain l) = false := by
        cases hf : firstRem (chain l) with
        | false => rfl
        | true =>
          have := hadd hf
          rw [hlo] at this; simp [isAddItem] at this
      have hst : stl.1 = true := by rw [hfl, hfr]; rfl
      have hnn : lv ≠ .c .negIntercept := by
        intro e
        have := hvl.rep.pos hst
        rw [e] at this
        simp [asC] at this
      obtain ⟨h1, h2, h3, h4⟩ := add_as hv hvl.acc (by simp) (by simp)
        (by simp [asC]) (fun e => absurd e hnn)
      have e1 : asC (Obj.c CTerm.intercept) = [CTerm.intercept] := rfl
      have e2 : asG (Obj.c CTerm.intercept) = [] := rfl
      rw [e1] at h1
      rw [e2] at h2
      refine ⟨⟨h4, by rw [h2, hvl.nog]; rfl, by rw [h3, hvl.nor], ?_⟩, by rw [hfr]; rfl⟩
      rw [h1]
      refine ⟨?_, ?_, fun h => by simp at h⟩
      · intro t
        rw [mem_addL, hvl.rep.terms t]
        simp
      · intro _ hc
        rcases (mem_addL _ _).1 hc with h | h
        · exact hvl.rep.pos hst h
        · simp at h
    · rw [hlo] at hnrem; simp [isRemItem] at hnrem
    · simp at h1

theorem eff_minus (l : Expr) (op : Token) (r : Expr) (hk : op.kind = .MINUS) (ih : EffAt l) :
    EffAt (.binary l op r) := by
  intro ev st hr he hg hng
  rw [chain_minus hk] at he hg ⊢
  rw [effChain_snoc] at he
  obtain ⟨stl, hel, hes⟩ := opt_bind_some he
  obtain ⟨hgl, hnrem, hadd⟩ := effGap_snoc _ (chain_ne_nil l) hg
  obtain ⟨lv, rv, hl, hrr, hv⟩ := resolve_binary_ok (o := .sub) (by rw [hk]; rfl) hr
  obtain ⟨hvl, hfl⟩ := ih lv stl hl hel hgl hng.left
  rw [firstRem_snoc _ (chain_ne_nil l)]
  simp only [apply] at hv
  unfold effStep at hes
  cases hlit : literalItem false r with
  | none =>
    simp only [hlit] at hes
    cases hden : denT r with
    | none => simp [hden] at hes
    | some ts =>
      simp only [hden, Option.bind_eq_bind, Option.bind_some, Bool.false_eq_true, if_false, pure,
        Option.some.injEq] at hes
      subst hes
      obtain ⟨p, rfl, hp⟩ := plain_val hden hrr hng.right
      obtain ⟨h1, h2, h3, h4⟩ := sub_as hv hvl.acc (toObj_ne_neg p) (toObj_ne_resp p)
      have hnd := (hng.minus_nodup hk hl).1
      rw [asC_toObj] at h1
      rw [asG_toObj, hvl.nog] at h2
      refine ⟨⟨h4, by rw [h2]; rfl, by rw [h3, hvl.nor], ?_⟩, hfl⟩
      rw [h1]
      refine ⟨?_, ?_, ?_⟩
      · intro t
        rw [mem_remL_nodup hnd, mem_map_term, mem_diff, hvl.rep.terms t, hp t]
      · intro hi hc
        exact hvl.rep.pos hi (mem_remL hc)
      · intro hi
        obtain ⟨n1, n2, n3⟩ := hvl.rep.neg hi
        refine ⟨n1.sublist (remL_sublist _ _), ?_, fun hc => n3 (mem_remL hc)⟩
        exact (mem_remL_nodup hnd _ _).2 ⟨n2, fun hc => ne_neg_of_map_term _ hc rfl⟩
  | some i =>
    have hlo : litOf (false, r) = some i := hlit
    rcases literal_val hlit hrr with ⟨h1, _, _⟩ | ⟨h1, _, _⟩ | ⟨_, rfl, rfl⟩
    · simp at h1
    · simp at h1
    · rw [hlo] at hnrem; simp [isRemItem] at hnrem

/-- the effect side of `|` (any additive chain of literals and plain items, outside D3) -/
theorem eff_main (x : Expr) : EffAt x := by
  induction x using chain.induct with
  | case1 l op r hk ih => exact eff_plus l op r (by simpa using hk) ih
  | case2 l op r h1 hk ih => exact eff_minus l op r (by simpa using hk) ih
  | case3 l op r h1 h2 =>
    exact eff_single _ (chain_other (by simpa using h1) (by simpa using h2))
  | case4 e h => 
    apply eff_single
    cases e with
    | binary l op r => exact (h _ _ _ rfl).elim
    | _ => rfl

-- ---------------------------------------------------------------------------------------------
-- `Model.__or__`
-- ---------------------------------------------------------------------------------------------
/-- the effect list `|` distributes, as a function of the common terms of its left operand -/
def effL (cs : List CTerm) : List CTerm := effectList { common := cs }

theorem effectList_eq (m : ModelV) : effectList m = effL m.common := rfl

/-- a group-specific item value: a bare `GroupSpecificTerm` or a `Model` with group terms only -/
structure GroupVal (rv : Obj) (Lg : List GTerm) : Prop where
  nresp : ∀ r, rv ≠ .response r
  nneg : rv ≠ .c .negIntercept
  nicpt : rv ≠ .c .intercept
  c : asC rv = []
  g : asG rv = Lg
  r : asResp rv = none

theorem gts_single (e f : CTerm) : gts [e] [f] = [⟨e, f⟩] := by simp [gts]
theorem gts_pair (a b : CTerm) (F : List CTerm) : gts [a, b] F = gts [a] F ++ gts [b] F := by
  simp [gts]

theorem effL_icpt : effL [.intercept] = [.intercept] := by decide
theorem effL_term (a : List Atom) : effL [.term a] = [.intercept, .term a] := by
  simp [effL, effectList, removeFirst]

/-- `ev | gv` for an effect-side value and a plain grouping-factor value -/
theorem or_as {ev rv : Obj} {q : PV} (hacc : isAcc ev = true) (h : or_ ev q.toObj = .ok rv) :
    GroupVal rv (gts (effL (asC ev)) (q.list.map .term)) := by
  cases ev with
  | g x => simp [isAcc] at hacc
  | response r => simp [isAcc] at hacc
  | c t =>
    cases t with
    | negIntercept => cases q <;> simp [or_, orC, PV.toObj] at h
    | intercept =>
      cases q with
      | t f =>
        simp only [or_, orC, PV.toObj, pure, Except.pure] at h; injection h with h; subst h
        simp only [asC, effL_icpt, PV.list, List.map_cons, List.map_nil, gts_single]
        exact ⟨by simp, by simp, by simp, rfl, rfl, rfl⟩
      | m O =>
        simp only [or_, orC, PV.toObj, pure, Except.pure] at h; injection h with h; subst h
        simp only [asC, effL_icpt, PV.list, plainM_common]
        exact ⟨by simp, by simp, by simp, rfl, rfl, rfl⟩
    | term a =>
      cases q with
      | t f =>
        simp only [or_, orC, PV.toObj, pure, Except.pure] at h; injection h with h; subst h
        simp only [asC, effL_term, PV.list, List.map_cons, List.map_nil, gts_pair, gts_single]
        exact ⟨by simp, by simp, by simp, rfl, rfl, rfl⟩
      | m O =>
        simp only [or_, orC, PV.toObj, pure, Except.pure] at h; injection h with h; subst h
        simp only [asC, effL_term, PV.list, plainM_common, gts_pair]
        exact ⟨by simp, by simp, by simp, rfl, rfl, rfl⟩
  | model m =>
    simp only [or_] at h
    split at h
    · rename_i single hs
      simp only [asC, hs]
      cases single with
      | negIntercept => cases q <;> simp [orC, PV.toObj] at h
      | intercept =>
        cases q with
        | t f =>
          simp only [orC, PV.toObj, pure, Except.pure] at h; injection h with h; subst h
          simp only [effL_icpt, PV.list, List.map_cons, List.map_nil, gts_single]
          exact ⟨by simp, by simp, by simp, rfl, rfl, rfl⟩
        | m O =>
          simp only [orC, PV.toObj, pure, Except.pure] at h; injection h with h; subst h
          simp only [effL_icpt, PV.list, plainM_common]
          exact ⟨by simp, by simp, by simp, rfl, rfl, rfl⟩
      | term a =>
        cases q with
        | t f =>
          simp only [orC, PV.toObj, pure, Except.pure] at h; injection h with h; subst h
          simp only [effL_term, PV.list, List.map_cons, List.map_nil, gts_pair, gts_single]
          exact ⟨by simp, by simp, by simp, rfl, rfl, rfl⟩
        | m O =>
          simp only [orC, PV.toObj, pure, Except.pure] at h; injection h with h; subst h
          simp only [effL_term, PV.list, plainM_common, gts_pair]
          exact ⟨by simp, by simp, by simp, rfl, rfl, rfl⟩
    · cases q with
      | t f =>
        simp only [PV.toObj, pure, Except.pure] at h; injection h with h; subst h
        simp only [asC, PV.list, List.map_cons, List.map_nil, effectList_eq]
        exact ⟨by simp, by simp, by simp, rfl, rfl, rfl⟩
      | m O =>
        simp only [PV.toObj, pure, Except.pure] at h; injection h with h; subst h
        simp only [asC, PV.list, plainM_common, effectList_eq]
        exact ⟨by simp, by simp, by simp, rfl, rfl, rfl⟩

/-- the effects of the specification: implicit intercept unless removed, then the terms -/
def effsOf (icpt : Bool) (ets : List STerm) : List (Option STerm) :=
  (if icpt then [none] else []) ++ ets.map some

theorem cOf_eq_none_iff {e : CTerm} : cOf e = some none ↔ e = .intercept := by
  cases e <;> simp [cOf]

theorem cOf_eq_some_iff {e : CTerm} {t : STerm} : cOf e = some (some t) ↔ e = .term t := by
  cases e <;> simp [cOf]

theorem effL_spec {cs : List CTerm} {icpt : Bool} {ets : List STerm} (h : EffRep cs icpt ets) :
    (∀ e ∈ effL cs, e ≠ .negIntercept) ∧
    ∀ x, (∃ e ∈ effL cs, cOf e = some x) ↔ x ∈ effsOf icpt ets := by
  cases icpt with
  | true =>
    have hn : cs.contains .negIntercept = false := by
      rw [Bool.eq_false_iff]; intro hc; exact h.pos rfl (by simpa using hc)
    have hmem : ∀ e, e ∈ effL cs ↔ e = .intercept ∨ e ∈ cs := by
      intro e
      simp only [effL, effectList, hn, Bool.and_false, Bool.false_eq_true, if_false]
      by_cases hi : cs.contains .intercept = true
      · have : CTerm.intercept ∈ cs := by simpa using hi
        simp only [hi, Bool.not_true, Bool.false_eq_true, if_false]
        constructor
        · intro he; exact Or.inr he
        · rintro (rfl | he)
          · exact this
          · exact he
      · have hi' : CTerm.intercept ∉ cs := by simpa using hi
        simp [hi']
    refine ⟨?_, ?_⟩
    · intro e he
      rcases (hmem e).1 he with rfl | he
      · simp
      · intro e'; subst e'; exact h.pos rfl he
    · intro x
      cases x with
      | none =>
        simp only [effsOf, if_true, List.cons_append, List.nil_append, List.mem_cons, true_or,
          iff_true]
        exact ⟨.intercept, (hmem _).2 (Or.inl rfl), rfl⟩
      | some t =>
        simp only [effsOf, if_true, List.cons_append, List.nil_append, List.mem_cons,
          List.mem_map, Option.some.injEq, exists_eq_right, false_or, reduceCtorEq]
        constructor
        · rintro ⟨e, he, hc⟩
          rw [cOf_eq_some_iff.1 hc] at he
          rcases (hmem _).1 he with h1 | h1
          · simp at h1
          · exact (h.terms t).1 h1
        · intro ht
          exact ⟨.term t, (hmem _).2 (Or.inr ((h.terms t).2 ht)), rfl⟩
  | false =>
    obtain ⟨n1, n2, n3⟩ := h.neg rfl
    have hn : cs.contains .negIntercept = true := by simpa using n2
    have hi : cs.contains .intercept = false := by
      rw [Bool.eq_false_iff]; intro hc; exact n3 (by simpa using hc)
    have hE : effL cs = removeFirst .negIntercept cs := by
      simp [effL, effectList, n2, n3]
    have hmem : ∀ e, e ∈ effL cs ↔ e ∈ cs ∧ e ≠ .negIntercept := by
      intro e; rw [hE, mem_removeFirst_nodup n1]
    refine ⟨fun e he => ((hmem e).1 he).2, ?_⟩
    intro x
    cases x with
    | none =>
      simp only [effsOf, Bool.false_eq_true, if_false, List.nil_append, List.mem_map,
        reduceCtorEq, and_false, exists_false, iff_false]
      rintro ⟨e, he, hc⟩
      rw [cOf_eq_none_iff.1 hc] at he
      exact n3 ((hmem _).1 he).1
    | some t =>
      simp only [effsOf, Bool.false_eq_true, if_false, List.nil_append, List.mem_map,
        Option.some.injEq, exists_eq_right]
      constructor
      · rintro ⟨e, he, hc⟩
        rw [cOf_eq_some_iff.1 hc] at he
        exact (h.terms t).1 ((hmem _).1 he).1
      · intro ht
        exact ⟨.term t, (hmem _).2 ⟨(h.terms t).2 ht, by simp⟩, rfl⟩

theorem mem_gts {g : GTerm} {E F : List CTerm} :
    g ∈ gts E F ↔ ∃ e ∈ E, ∃ f ∈ F, g = ⟨e, f⟩ := by
  simp only [gts, List.mem_flatMap, List.mem_map]
  constructor
  · rintro ⟨e, he, f, hf, rfl⟩; exact ⟨e, he, f, hf, rfl⟩
  · rintro ⟨e, he, f, hf, rfl⟩; exact ⟨e, he, f, hf, rfl⟩

theorem sgOf_mk (e : CTerm) (f : STerm) :
    sgOf ⟨e, .term f⟩ = (cOf e).map (fun x => (⟨x, f⟩ : SG)) := by
  cases e <;> rfl

/-- the group-specific terms `|` builds are the product of the specification -/
theorem gts_spec {E : List CTerm} {L gts' : List STerm} {effs : List (Option STerm)}
    (hE : ∀ e ∈ E, e ≠ .negIntercept)
    (hx : ∀ x, (∃ e ∈ E, cOf e = some x) ↔ x ∈ effs) (hL : ∀ t, t ∈ L ↔ t ∈ gts') :
    (∀ g ∈ gts E (L.map .term), ∃ s, sgOf g = some s) ∧
    ∀ s, (∃ g ∈ gts E (L.map .term), sgOf g = some s) ↔
      s ∈ effs.flatMap (fun x => gts'.map (fun f => (⟨x, f⟩ : SG))) := by
  refine ⟨?_, ?_⟩
  · intro g hg
    obtain ⟨e, he, f, hf, rfl⟩ := mem_gts.1 hg
    obtain ⟨t, _, rfl⟩ := List.mem_map.1 hf
    rw [sgOf_mk]
    cases e with
    | negIntercept => exact absurd rfl (hE _ he)
    | intercept => exact ⟨_, rfl⟩
    | term a => exact ⟨_, rfl⟩
  · intro s
    simp only [List.mem_flatMap, List.mem_map]
    constructor
    · rintro ⟨g, hg, hs⟩
      obtain ⟨e, he, f, hf, rfl⟩ := mem_gts.1 hg
      obtain ⟨t, ht, rfl⟩ := List.mem_map.1 hf
      rw [sgOf_mk] at hs
      cases hc : cOf e with
      | none => simp [hc] at hs
      | some x =>
        simp only [hc, Option.map_some, Option.some.injEq] at hs
        exact ⟨x, (hx x).1 ⟨e, he, hc⟩, t, (hL t).1 ht, hs⟩
    · rintro ⟨x, hxe, t, ht, rfl⟩
      obtain ⟨e, he, hc⟩ := (hx x).2 hxe
      refine ⟨⟨e, .term t⟩, mem_gts.2 ⟨e, he, .term t, mem_map_term.2 ((hL t).2 ht), rfl⟩, ?_⟩
      rw [sgOf_mk, hc]; rfl

-- ---------------------------------------------------------------------------------------------
-- group-specific items
-- ---------------------------------------------------------------------------------------------
theorem resolve_stripGroup (r : Expr) : resolve docOps (stripGroup r) = resolve docOps r := by
  induction r using stripGroup.induct with
  | case1 lp e rp ih => simp only [stripGroup, resolve]; exact ih
  | case2 e h =>
    cases e with
    | grouping lp e rp => exact (h _ _ _ rfl).elim
    | _ => rfl

theorem NoGap.strip {r : Expr} (h : NoGap r) : NoGap (stripGroup r) := by
  induction r using stripGroup.induct with
  | case1 lp e rp ih => simp only [stripGroup]; exact ih h.grouping
  | case2 e hne =>
    cases e with
    | grouping lp e rp => exact (hne _ _ _ rfl).elim
    | _ => exact h

theorem grp_val {r : Expr} {gs' : List SG} {rv : Obj} (hd : denG r = some gs')
    (hr : resolve docOps r = .ok rv) (hng : NoGap r) (h3 : itemD3 r = false) :
    ∃ Lg, GroupVal rv Lg ∧ (∀ g ∈ Lg, ∃ s, sgOf g = some s) ∧
      ∀ s, (∃ g ∈ Lg, sgOf g = some s) ↔ s ∈ gs' := by
  rw [← resolve_stripGroup] at hr
  have hng' := hng.strip
  unfold denG at hd
  unfold itemD3 at h3
  generalize stripGroup r = x at hr hng' hd h3
  cases x with
  | binary eff op grp =>
    simp only at hd h3
    by_cases hk : op.kind = .PIPE
    · simp only [hk, beq_self_eq_true, if_true, Bool.true_and] at hd h3
      cases he : effChain (chain eff) with
      | none => simp [he] at hd
      | some st =>
        obtain ⟨icpt, ets⟩ := st
        cases hg : denT grp with
        | none => simp [he, hg] at hd
        | some gts' =>
          simp only [he, hg, Option.bind_eq_bind, Option.bind_some] at hd
          have hfold : (if icpt = true then [none] else []) ++ ets.map some = effsOf icpt ets := rfl
          rw [hfold] at hd
          by_cases hem : ((effsOf icpt ets).isEmpty || gts'.isEmpty) = true
          · simp [hem] at hd
          · simp only [hem, Bool.false_eq_true, if_false, pure, Option.some.injEq] at hd
            subst hd
            obtain ⟨ev, gv, hev, hgv, hv⟩ := resolve_binary_ok (o := .or_) (by rw [hk]; rfl) hr
            obtain ⟨hval, _⟩ := eff_main eff ev (icpt, ets) hev he h3 hng'.left
            obtain ⟨q, rfl, hq⟩ := plain_val hg hgv hng'.right
            simp only [apply] at hv
            have hgv := or_as hval.acc hv
            obtain ⟨hE1, hE2⟩ := effL_spec hval.rep
            obtain ⟨w1, w2⟩ := gts_spec hE1 hE2 hq
            exact ⟨_, hgv, w1, w2⟩
    · have : (op.kind == Kind.PIPE) = false := by simpa using hk
      simp [this] at hd
  | _ => simp at hd

end FormulaeModel.Resolver
