import FormulaeModel.Proofs.TermsList
set_option linter.unusedSectionVars false
set_option linter.unusedSimpArgs false
/-
C02, layer 1: the operator overloads of terms.py on *plain* values (a `Term`, or a `Model` that
holds only `Term`s, no group-specific terms, no response) computed in closed form.

`PV` is the shape of a plain value, `padd … ppow` are the list functions the overloads compute,
and `add_plain … pow_plain` say `op p.toObj q.toObj = .ok (pop p q).toObj`.
-/
namespace FormulaeModel.Terms
open FormulaeModel.Spec.C02

-- ---------------------------------------------------------------------------------------------
-- general facts about the model's helpers
-- ---------------------------------------------------------------------------------------------
theorem mapE_ok {α β : Type} (f : α → Except Err β) (g : α → β) (l : List α)
    (h : ∀ x ∈ l, f x = .ok (g x)) : mapE f l = .ok (l.map g) := by
  induction l with
  | nil => rfl
  | cons a l ih =>
    simp only [mapE, h a (by simp), ih (fun x hx => h x (by simp [hx])), bind, Except.bind, pure,
      Except.pure, List.map_cons]

theorem addTerm_c (m : ModelV) (x : CTerm) (hx : x ≠ .negIntercept) :
    addTerm m (.c x) = .ok { m with common := addL m.common [x] } := by
  cases x with
  | negIntercept => exact absurd rfl hx
  | intercept =>
    simp only [addTerm, addL, pure, Except.pure]
    split <;> rfl
  | term cs =>
    simp only [addTerm, addL, pure, Except.pure]
    split <;> rfl

theorem addTerm_g (m : ModelV) (x : GTerm) :
    addTerm m (.g x) = .ok { m with group := addL m.group [x] } := by
  simp only [addTerm, addL, pure, Except.pure]
  split <;> rfl

theorem addL_append_right {α : Type} [BEq α] (A B C : List α) :
    addL A (B ++ C) = addL (addL A B) C := by
  induction B generalizing A with
  | nil => rfl
  | cons b B ih => simp only [List.cons_append, addL, ih]

theorem addTerms_c (m : ModelV) (cs : List CTerm) (h : ∀ c ∈ cs, c ≠ .negIntercept) :
    addTerms m (cs.map .c) = .ok { m with common := addL m.common cs } := by
  induction cs generalizing m with
  | nil => rfl
  | cons c cs ih =>
    simp only [List.map_cons, addTerms, addTerm_c m c (h c (by simp)), bind, Except.bind]
    rw [ih _ (fun x hx => h x (by simp [hx]))]
    rfl

theorem addTerms_g (m : ModelV) (gs : List GTerm) :
    addTerms m (gs.map .g) = .ok { m with group := addL m.group gs } := by
  induction gs generalizing m with
  | nil => rfl
  | cons c cs ih =>
    simp only [List.map_cons, addTerms, addTerm_g, bind, Except.bind]
    rw [ih]
    rfl

theorem addTerms_append (m : ModelV) (a b : List Obj) :
    addTerms m (a ++ b) = (addTerms m a).bind (fun m' => addTerms m' b) := by
  induction a generalizing m with
  | nil => rfl
  | cons x a ih =>
    simp only [List.cons_append, addTerms, bind, Except.bind]
    cases addTerm m x with
    | error e => rfl
    | ok m' => exact ih m'

/-- `Model.__add__(Model)`: every term of `o` that is missing is appended, in order. -/
theorem addModel_eq (m o : ModelV) (h : ∀ c ∈ o.common, c ≠ .negIntercept) :
    addModel m o = .ok { common := addL m.common o.common, group := addL m.group o.group,
                         resp := m.resp } := by
  simp only [addModel, terms, addTerms_append, addTerms_c m _ h, Except.bind, addTerms_g]

-- ---------------------------------------------------------------------------------------------
-- transport along the injection `CTerm.term`
-- ---------------------------------------------------------------------------------------------
section inj
variable {α β : Type} [BEq α] [LawfulBEq α] [BEq β] [LawfulBEq β] (f : α → β)
  (hf : ∀ x y, f x = f y → x = y)
include hf

theorem contains_map_inj (A : List α) (x : α) : (A.map f).contains (f x) = A.contains x := by
  rw [Bool.eq_iff_iff]
  simp only [List.contains_iff_mem, List.mem_map]
  constructor
  · rintro ⟨y, hy, e⟩; exact hf _ _ e ▸ hy
  · intro h; exact ⟨x, h, rfl⟩

theorem addL_map_inj (A B : List α) : addL (A.map f) (B.map f) = (addL A B).map f := by
  induction B generalizing A with
  | nil => rfl
  | cons b B ih =>
    simp only [List.map_cons, addL, contains_map_inj f hf]
    rw [← ih]
    split <;> simp

theorem removeFirst_map_inj (A : List α) (x : α) :
    removeFirst (f x) (A.map f) = (removeFirst x A).map f := by
  induction A with
  | nil => rfl
  | cons a A ih =>
    simp only [List.map_cons, removeFirst]
    by_cases h : a = x
    · subst h; simp
    · have h1 : (a == x) = false := by simpa using h
      have h2 : (f a == f x) = false := by
        have : f a ≠ f x := fun e => h (hf _ _ e)
        simpa using this
      simp [h1, h2, ih]

theorem remL_map_inj (A B : List α) : remL (A.map f) (B.map f) = (remL A B).map f := by
  unfold remL
  induction B generalizing A with
  | nil => rfl
  | cons b B ih =>
    simp only [List.map_cons, List.foldl_cons, removeFirst_map_inj f hf, ih]

theorem sameSet_map_inj (A B : List α) : sameSet (A.map f) (B.map f) = sameSet A B := by
  unfold sameSet
  simp only [List.all_map, Function.comp_def, contains_map_inj f hf]

end inj

theorem term_inj : ∀ x y : List Atom, CTerm.term x = CTerm.term y → x = y := by
  intro x y h; injection h

theorem combinations_map {α β : Type} (f : α → β) (l : List α) (k : Nat) :
    combinations (l.map f) k = (combinations l k).map (List.map f) := by
  induction l generalizing k with
  | nil => cases k <;> simp [combinations]
  | cons a l ih =>
    cases k with
    | zero => simp [combinations]
    | succ k => simp [combinations, ih, Function.comp_def]

theorem combinations_mem_sub {α : Type} {l : List α} {k : Nat} {ts : List α}
    (h : ts ∈ combinations l k) : ∀ x ∈ ts, x ∈ l := by
  induction l generalizing k ts with
  | nil =>
    cases k with
    | zero => simp [combinations] at h; subst h; simp
    | succ k => simp [combinations] at h
  | cons a l ih =>
    cases k with
    | zero => simp [combinations] at h; subst h; simp
    | succ k =>
      simp only [combinations, List.mem_append, List.mem_map] at h
      rcases h with ⟨ts', h', rfl⟩ | h
      · intro x hx
        simp only [List.mem_cons] at hx
        rcases hx with rfl | hx
        · simp
        · exact List.mem_cons_of_mem _ (ih h' x hx)
      · intro x hx; exact List.mem_cons_of_mem _ (ih h x hx)

theorem combinations_short {α : Type} (l : List α) (k : Nat) (h : l.length < k) :
    combinations l k = [] := by
  induction l generalizing k with
  | nil => cases k with
    | zero => simp at h
    | succ k => rfl
  | cons a l ih =>
    cases k with
    | zero => simp at h
    | succ k =>
      simp only [List.length_cons] at h
      simp [combinations, ih k (by omega), ih (k + 1) (by omega)]

-- ---------------------------------------------------------------------------------------------
-- plain values
-- ---------------------------------------------------------------------------------------------
/-- the shape of a plain value: a `Term`, or a `Model` of `Term`s only -/
inductive PV
  | t (a : STerm)
  | m (L : List STerm)

def plainM (L : List STerm) : ModelV := modelOfC (L.map .term)

def PV.toObj : PV → Obj
  | .t a => .c (.term a)
  | .m L => .model (plainM L)

/-- the terms of a plain value, in the order the implementation holds them -/
def PV.list : PV → List STerm
  | .t a => [a]
  | .m L => L

theorem plainM_common (L : List STerm) : (plainM L).common = L.map .term := rfl
theorem plainM_group (L : List STerm) : (plainM L).group = [] := rfl
theorem plainM_resp (L : List STerm) : (plainM L).resp = none := rfl

theorem ne_neg_of_map_term {L : List STerm} : ∀ c ∈ L.map CTerm.term, c ≠ .negIntercept := by
  intro c hc e; subst e; simp at hc

theorem addModel_plain (A B : List STerm) :
    addModel (plainM A) (plainM B) = .ok (plainM (addL A B)) := by
  rw [addModel_eq _ _ ne_neg_of_map_term]
  simp only [plainM_common, plainM_group, plainM_resp, addL_map_inj _ term_inj]
  rfl

theorem addTerm_plain (A : List STerm) (b : STerm) :
    addTerm (plainM A) (.c (.term b)) = .ok (plainM (addL A [b])) := by
  rw [addTerm_c _ _ (by simp)]
  have := addL_map_inj _ term_inj A [b]
  simp only [List.map_cons, List.map_nil] at this
  simp only [plainM_common, this]
  rfl

theorem mapE_inter_left (a : STerm) (L : List STerm) :
    mapE (fun t => inter (.term a) t) (L.map .term) =
      .ok ((L.map (fun y => dedup (a ++ y))).map .term) := by
  rw [mapE_ok _ (fun t => match t with | .term y => .term (dedup (a ++ y)) | c => c)]
  · simp [List.map_map, Function.comp_def]
  · intro x hx
    simp only [List.mem_map] at hx
    obtain ⟨y, _, rfl⟩ := hx
    rfl

theorem mapE_inter_right (b : STerm) (L : List STerm) :
    mapE (fun t => inter t (.term b)) (L.map .term) =
      .ok ((L.map (fun x => dedup (x ++ b))).map .term) := by
  rw [mapE_ok _ (fun t => match t with | .term y => .term (dedup (y ++ b)) | c => c)]
  · simp [List.map_map, Function.comp_def]
  · intro x hx
    simp only [List.mem_map] at hx
    obtain ⟨y, _, rfl⟩ := hx
    rfl

def pairs (M O : List STerm) : List STerm := M.flatMap (fun x => O.map (fun y => dedup (x ++ y)))

theorem mapE_inter_pairs (M O : List STerm) :
    mapE (fun p => inter p.1 p.2)
        ((M.map CTerm.term).flatMap (fun x => (O.map CTerm.term).map (fun y => (x, y)))) =
      .ok ((pairs M O).map .term) := by
  rw [mapE_ok _ (fun p => match p with
      | (.term x, .term y) => .term (dedup (x ++ y)) | (c, _) => c)]
  · simp [pairs, List.map_flatMap, List.flatMap_map, List.map_map, Function.comp_def]
  · intro p hp
    simp only [List.mem_flatMap, List.mem_map] at hp
    obtain ⟨x, ⟨x', _, rfl⟩, y, ⟨y', _, rfl⟩, rfl⟩ := hp
    rfl

theorem commonComponents_plain (M : List STerm) : commonComponents (plainM M) = M.flatten := by
  simp only [commonComponents, plainM_common]
  induction M with
  | nil => rfl
  | cons a M ih => simp [ih]

theorem hashable_plain (M : List STerm) : hashable (plainM M) = true := by
  simp [hashable, plainM_common, plainM_group]

theorem modelEq_plain (M O : List STerm) :
    modelEq (plainM M) (plainM O) = .ok (sameSet M O) := by
  simp only [modelEq, hashable_plain, Bool.and_self, if_true, plainM_common, plainM_group,
    plainM_resp, sameSet_map_inj _ term_inj, pure, Except.pure]
  simp [sameSet]

-- ---------------------------------------------------------------------------------------------
-- the operators in closed form
-- ---------------------------------------------------------------------------------------------
def padd : PV → PV → PV
  | .t a, .t b => if a == b then .t a else .m [a, b]
  | .t a, .m O => .m (addL [a] O)
  | .m M, .t b => .m (addL M [b])
  | .m M, .m O => .m (addL M O)

def psub : PV → PV → PV
  | .t a, .t b => if a == b then .m [] else .t a
  | .t a, .m O => if O.contains a then .m [] else .t a
  | .m M, .t b => .m (removeFirst b M)
  | .m M, .m O => .m (remL M O)

def pmatmul : PV → PV → PV
  | .t a, .t b => if a == b then .t a else .t (dedup (a ++ b))
  | .t a, .m O => .m (O.map (fun y => dedup (a ++ y)))
  | .m M, .t b => .m (M.map (fun x => dedup (x ++ b)))
  | .m M, .m O => .m (pairs M O)

def pmul : PV → PV → PV
  | .t a, .t b => if a == b then .t a else .m [a, b, dedup (a ++ b)]
  | .t a, .m O => .m (addL (a :: O) (O.map (fun y => dedup (a ++ y))))
  | .m M, .t b => .m (addL (M ++ [b]) (M.map (fun x => dedup (x ++ b))))
  | .m M, .m O => if sameSet M O then .m M else .m (addL (M ++ O) (pairs M O))

def pdiv : PV → PV → PV
  | .t a, .t b => if a == b then .t a else .m [a, dedup (a ++ b)]
  | .t a, .m O => .m (addL [a] (O.map (fun y => dedup (a ++ y))))
  | .m M, .t b => .m (addL M [dedup (M.flatten ++ b)])
  | .m M, .m O => .m (addL M (O.map (fun y => dedup (M.flatten ++ y))))

/-- all combinations of 2 … n elements, by size (`itertools.combinations` for each size) -/
def combsUpTo {α : Type} (M : List α) (n : Nat) : List (List α) :=
  (List.range (n + 1)).flatMap (fun i => if i ≥ 2 then combinations M i else [])

def ppow (p : PV) (n : Nat) : PV :=
  match p with
  | .t a => .t a
  | .m M => .m (addL M ((combsUpTo M n).map (fun ts => dedup ts.flatten)))

/-- no component of the term has a numeric name (`Term.__mul__` & co. refuse a right operand that
is a single numeric component) -/
def NonNum (t : STerm) : Prop := ∀ a ∈ t, a.isNumericName = false

theorem numericSingle_false {b : STerm} (h : NonNum b) : numericSingle (.term b) = false := by
  unfold numericSingle
  split
  · rename_i a heq
    injection heq with heq
    subst heq
    exact h a (by simp)
  · rfl

theorem add_plain (p q : PV) : add p.toObj q.toObj = .ok (padd p q).toObj := by
  cases p with
  | t a =>
    cases q with
    | t b =>
      simp only [PV.toObj, add, padd]
      split <;> rfl
    | m O =>
      have h1 : modelOfC [CTerm.term a] = plainM [a] := rfl
      simp only [PV.toObj, add, padd, bind, Except.bind, pure, Except.pure, h1, addModel_plain]
  | m M =>
    cases q with
    | t b =>
      simp only [PV.toObj, add, padd, bind, Except.bind, pure, Except.pure, addTerm_plain]
    | m O =>
      simp only [PV.toObj, add, padd, bind, Except.bind, pure, Except.pure, addModel_plain]

theorem plainM_nil : ({} : ModelV) = plainM [] := rfl
theorem modelOfC_map_term (L : List STerm) : modelOfC (L.map .term) = plainM L := rfl
theorem modelOfC_cons_term (a : STerm) (L : List STerm) :
    modelOfC (.term a :: L.map .term) = plainM (a :: L) := rfl

theorem sub_plain (p q : PV) : sub p.toObj q.toObj = .ok (psub p q).toObj := by
  cases p with
  | t a =>
    cases q with
    | t b =>
      simp only [PV.toObj, sub, psub]
      split <;> rfl
    | m O =>
      simp only [PV.toObj, sub, psub, plainM_common, contains_map_inj _ term_inj]
      split <;> rfl
  | m M =>
    cases q with
    | t b =>
      simp only [PV.toObj, sub, psub, plainM_common, removeFirst_map_inj _ term_inj, pure,
        Except.pure]
      rfl
    | m O =>
      have h := remL_map_inj _ term_inj M O
      unfold remL at h
      simp only [PV.toObj, sub, psub, plainM_common, plainM_group, h, pure, Except.pure,
        List.foldl_nil]
      rfl

theorem matmul_plain (p q : PV) (hq : ∀ t ∈ q.list, NonNum t) :
    matmul p.toObj q.toObj = .ok (pmatmul p q).toObj := by
  cases p with
  | t a =>
    cases q with
    | t b =>
      have hb := numericSingle_false (hq b (by simp [PV.list]))
      simp only [PV.toObj, matmul, pmatmul, hb, mkTerm]
      split <;> simp [PV.toObj, pure, Except.pure]
    | m O =>
      simp only [PV.toObj, matmul, pmatmul, plainM_common, mapE_inter_left, bind, Except.bind,
        pure, Except.pure, modelOfC_map_term]
  | m M =>
    cases q with
    | t b =>
      simp only [PV.toObj, matmul, pmatmul, plainM_common, mapE_inter_right, bind, Except.bind,
        pure, Except.pure, modelOfC_map_term]
    | m O =>
      simp only [PV.toObj, matmul, pmatmul, plainM_common, mapE_inter_pairs, bind, Except.bind,
        pure, Except.pure, modelOfC_map_term]

theorem mul_plain (p q : PV) (hq : ∀ t ∈ q.list, NonNum t) :
    mul p.toObj q.toObj = .ok (pmul p q).toObj := by
  cases p with
  | t a =>
    cases q with
    | t b =>
      have hb := numericSingle_false (hq b (by simp [PV.list]))
      simp only [PV.toObj, mul, pmul, hb, mkTerm]
      split <;> simp [PV.toObj, pure, Except.pure, plainM]
    | m O =>
      simp only [PV.toObj, mul, pmul, plainM_common, mapE_inter_left, bind, Except.bind,
        pure, Except.pure, addInteractions, modelOfC_map_term, modelOfC_cons_term,
        addModel_plain]
  | m M =>
    cases q with
    | t b =>
      have hb := numericSingle_false (hq b (by simp [PV.list]))
      have h1 : (M.map CTerm.term ++ [CTerm.term b]) = (M ++ [b]).map CTerm.term := by simp
      simp only [PV.toObj, mul, pmul, hb, plainM_common, mapE_inter_right, bind, Except.bind,
        pure, Except.pure, addInteractions, h1, modelOfC_map_term, addModel_plain]
      simp
    | m O =>
      have h1 : (M.map CTerm.term ++ O.map CTerm.term) = (M ++ O).map CTerm.term := by simp
      simp only [PV.toObj, mul, pmul, modelEq_plain, bind, Except.bind, pure, Except.pure]
      by_cases hs : sameSet M O = true
      · simp [hs, PV.toObj]
      · have hs' : sameSet M O = false := by simpa using hs
        simp only [hs', Bool.false_eq_true, if_false, plainM_common, mapE_inter_pairs, h1,
          addInteractions, modelOfC_map_term, addModel_plain, PV.toObj]
        cases O with
        | nil => rfl
        | cons y O =>
          cases O with
          | nil => rfl
          | cons z O => rfl

theorem filterMap_term (F : CTerm → Option CTerm) (g : STerm → STerm)
    (h : ∀ cs, F (.term cs) = some (.term (g cs))) (O : List STerm) :
    (O.map CTerm.term).filterMap F = (O.map g).map .term := by
  induction O with
  | nil => rfl
  | cons y O ih => simp only [List.map_cons, List.filterMap_cons, h, ih]

theorem div_plain (p q : PV) (hq : ∀ t ∈ q.list, NonNum t) :
    div p.toObj q.toObj = .ok (pdiv p q).toObj := by
  cases p with
  | t a =>
    cases q with
    | t b =>
      have hb := numericSingle_false (hq b (by simp [PV.list]))
      simp only [PV.toObj, div, pdiv, hb, mkTerm]
      split <;> simp [PV.toObj, pure, Except.pure, plainM]
    | m O =>
      have h1 : modelOfC [CTerm.term a] = plainM [a] := rfl
      simp only [PV.toObj, div, pdiv, plainM_common, mapE_inter_left, bind, Except.bind,
        pure, Except.pure, modelOfC_map_term, h1, addModel_plain]
  | m M =>
    cases q with
    | t b =>
      simp only [PV.toObj, div, pdiv, mkTerm, commonComponents_plain, addTerm_plain, bind,
        Except.bind, pure, Except.pure]
    | m O =>
      simp only [PV.toObj, div, pdiv, commonComponents_plain, plainM_common]
      rw [filterMap_term _ (fun y => dedup (M.flatten ++ y)) (fun cs => rfl)]
      simp only [modelOfC_map_term, addModel_plain, bind, Except.bind, pure, Except.pure]

theorem combsUpTo_map {α β : Type} (f : α → β) (M : List α) (n : Nat) :
    combsUpTo (M.map f) n = (combsUpTo M n).map (List.map f) := by
  unfold combsUpTo
  simp only [List.map_flatMap, combinations_map]
  congr 1
  funext i
  split <;> simp

theorem mapE_comps (ts : List STerm) : mapE comps (ts.map .term) = .ok ts := by
  rw [mapE_ok _ (fun c => match c with | .term cs => cs | _ => [])]
  · simp [List.map_map, Function.comp_def]
  · intro x hx
    simp only [List.mem_map] at hx
    obtain ⟨y, _, rfl⟩ := hx
    rfl

theorem mapE_combs (F : List CTerm → Except Err CTerm)
    (hF : ∀ ts : List STerm, F (ts.map .term) = .ok (CTerm.term (dedup ts.flatten)))
    (L : List (List STerm)) :
    mapE F (L.map (List.map CTerm.term)) =
      .ok ((L.map (fun ts => dedup ts.flatten)).map .term) := by
  induction L with
  | nil => rfl
  | cons ts L ih =>
    simp only [List.map_cons, mapE, hF, ih, bind, Except.bind, pure, Except.pure]

theorem pow_plain (p : PV) (n : Nat) (lv : Option String) (hn : 1 ≤ n) :
    pow p.toObj (.c (.term [.var (.int (n : Int)) lv])) = .ok (ppow p n).toObj := by
  have hn' : (n : Int) ≥ 1 := by omega
  cases p with
  | t a =>
    simp only [PV.toObj, pow, ppow, hn', if_true, pure, Except.pure]
  | m M =>
    have h1 := combsUpTo_map CTerm.term M n
    unfold combsUpTo at h1
    simp only [PV.toObj, pow, ppow, hn', if_true, plainM_common, Int.toNat_natCast, h1]
    rw [mapE_combs _ (fun ts => by simp only [mapE_comps, mkTerm, bind, Except.bind, pure, Except.pure])]
    simp only [bind, Except.bind, pure, Except.pure, modelOfC_map_term, addModel_plain]
    rfl

end FormulaeModel.Terms
