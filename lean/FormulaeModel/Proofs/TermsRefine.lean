import FormulaeModel.Proofs.TermsGroup
set_option linter.unusedSectionVars false
set_option linter.unusedSimpArgs false
set_option linter.unusedVariables false
/-
C02, layer 6: the right-hand side that starts with the implicit `1 +`, item by item, and the
whole formula read through `semOfModel`.
-/
namespace FormulaeModel.Resolver
open FormulaeModel FormulaeModel.Terms FormulaeModel.Spec.C02

/-- what the value of a chain item looks like, by the kind of item -/
inductive ItemVal : Bool → Item → Obj → Prop
  | addI : ItemVal true .addI (.c .intercept)
  | remI0 : ItemVal true .remI (.c .negIntercept)
  | remI1 : ItemVal false .remI (.c .intercept)
  | plain (s : Bool) (p : PV) (ts : List STerm) (h : ∀ t, t ∈ p.list ↔ t ∈ ts) :
      ItemVal s (.plain s ts) p.toObj
  | grp (s : Bool) (rv : Obj) (Lg : List GTerm) (gs' : List SG) (hv : GroupVal rv Lg)
      (hwf : ∀ g ∈ Lg, ∃ x, sgOf g = some x)
      (hL : ∀ x, (∃ g ∈ Lg, sgOf g = some x) ↔ x ∈ gs') : ItemVal s (.grp s gs') rv

theorem item_val {s : Bool} {r : Expr} {it : Item} {rv : Obj} (h : topItem (s, r) = some it)
    (hr : resolve docOps r = .ok rv) (hng : NoGap r) (h3 : itemD3 r = false) :
    ItemVal s it rv := by
  unfold topItem at h
  simp only at h
  cases hlit : literalItem s r with
  | some i =>
    simp only [hlit, Option.some.injEq] at h
    subst h
    rcases literal_val hlit hr with ⟨rfl, rfl, rfl⟩ | ⟨rfl, rfl, rfl⟩ | ⟨rfl, rfl, rfl⟩
    · exact .addI
    · exact .remI0
    · exact .remI1
  | none =>
    simp only [hlit] at h
    have plainCase : ∀ ts, denT r = some ts → it = .plain s ts → ItemVal s it rv := by
      intro ts hd hit
      obtain ⟨p, rfl, hp⟩ := plain_val hd hr hng
      rw [hit]; exact .plain s p ts hp
    by_cases hgx : isGroupExpr r = true
    · simp only [hgx, if_true] at h
      cases hd : denG r with
      | none => simp [hd] at h
      | some gs' =>
        simp only [hd, Option.map_some, Option.some.injEq] at h
        subst h
        obtain ⟨Lg, hv, hwf, hL⟩ := grp_val hd hr hng h3
        exact .grp s rv Lg gs' hv hwf hL
    · simp only [hgx, Bool.false_eq_true, if_false] at h
      cases hd : denT r with
      | none =>
        cases r <;> simp [hd, hgx] at h
      | some ts =>
        apply plainCase ts hd
        cases r <;> simp [hd, hgx] at h <;> exact h.symm

-- ---------------------------------------------------------------------------------------------
-- one step of the top-level chain
-- ---------------------------------------------------------------------------------------------
structure TopVal (v : Obj) (st : ChainSt) : Prop where
  nd : NodupV v
  nor : asResp v = none
  rep : Rep (asC v) (asG v) st

theorem NodupV.acc {v : Obj} (h : NodupV v) : isAcc v = true := by cases h <;> rfl
theorem NodupV.ne_neg {v : Obj} (h : NodupV v) : v ≠ .c .negIntercept := by
  cases h <;> simp
theorem NodupV.nodupC {v : Obj} (h : NodupV v) : (asC v).Nodup := by
  cases h with
  | icpt => simp [asC]
  | model m hm => exact hm.1
theorem NodupV.nodupG {v : Obj} (h : NodupV v) : (asG v).Nodup := by
  cases h with
  | icpt => simp [asG]
  | model m hm => exact hm.2

theorem top_add {lv rv v' : Obj} {st : ChainSt} {it : Item} (hl : TopVal lv st)
    (hi : ItemVal true it rv) (hv : add lv rv = .ok v') : TopVal v' (stepItem st it) := by
  have hnd := add_nodupV hl.nd hv
  cases hi with
  | addI =>
    obtain ⟨h1, h2, h3, _⟩ := add_as hv hl.nd.acc (by simp) (by simp) (by simp [asC])
      (fun e => absurd e hl.nd.ne_neg)
    refine ⟨hnd, by rw [h3, hl.nor], ?_⟩
    have e1 : asC (Obj.c CTerm.intercept) = [CTerm.intercept] := rfl
    have e2 : asG (Obj.c CTerm.intercept) = [] := rfl
    rw [h1, h2, e1, e2, addL_nil_right]
    exact hl.rep.addI
  | remI0 =>
    obtain ⟨h1, h2, h3, _⟩ := add_neg_as hv hl.nd.acc
    refine ⟨hnd, by rw [h3, hl.nor], ?_⟩
    rw [h1, h2]
    exact hl.rep.remI hl.nd.nodupC
  | plain _ p ts hp =>
    obtain ⟨h1, h2, h3, _⟩ := add_as hv hl.nd.acc (toObj_ne_neg p) (toObj_ne_resp p)
      (asC_toObj_ne_neg p) (fun _ => toObj_ne_icpt p)
    refine ⟨hnd, by rw [h3, hl.nor], ?_⟩
    rw [h1, h2, asC_toObj, asG_toObj, addL_nil_right]
    exact hl.rep.addPlain p.list ts hp
  | grp _ _ Lg gs' hg hwf hL =>
    obtain ⟨h1, h2, h3, _⟩ := add_as hv hl.nd.acc hg.nneg hg.nresp (by rw [hg.c]; simp)
      (fun _ => hg.nicpt)
    refine ⟨hnd, by rw [h3, hl.nor], ?_⟩
    rw [h1, h2, hg.c, hg.g, addL_nil_right]
    exact hl.rep.addGrp Lg gs' hwf hL

theorem top_sub {lv rv v' : Obj} {st : ChainSt} {it : Item} (hl : TopVal lv st)
    (hi : ItemVal false it rv) (hv : sub lv rv = .ok v') : TopVal v' (stepItem st it) := by
  have hnd := sub_nodupV hl.nd hv
  cases hi with
  | remI1 =>
    obtain ⟨h1, h2, h3, _⟩ := sub_as hv hl.nd.acc (by simp) (by simp)
    refine ⟨hnd, by rw [h3, hl.nor], ?_⟩
    have e1 : asC (Obj.c CTerm.intercept) = [CTerm.intercept] := rfl
    have e2 : asG (Obj.c CTerm.intercept) = [] := rfl
    rw [h1, h2, e1, e2, remL_nil_right, remL_single_right]
    exact hl.rep.remI hl.nd.nodupC
  | plain _ p ts hp =>
    obtain ⟨h1, h2, h3, _⟩ := sub_as hv hl.nd.acc (toObj_ne_neg p) (toObj_ne_resp p)
    refine ⟨hnd, by rw [h3, hl.nor], ?_⟩
    rw [h1, h2, asC_toObj, asG_toObj, remL_nil_right]
    exact hl.rep.subPlain hl.nd.nodupC p.list ts hp
  | grp _ _ Lg gs' hg hwf hL =>
    obtain ⟨h1, h2, h3, _⟩ := sub_as hv hl.nd.acc hg.nneg hg.nresp
    refine ⟨hnd, by rw [h3, hl.nor], ?_⟩
    rw [h1, h2, hg.c, hg.g, remL_nil_right]
    exact hl.rep.subGrp hl.nd.nodupG Lg gs' hL

-- ---------------------------------------------------------------------------------------------
-- the chain
-- ---------------------------------------------------------------------------------------------
def denItems (items : List (Bool × Expr)) : Option ChainSt := do
  let is ← items.mapM topItem
  pure (is.foldl stepItem (false, [], []))

theorem denRhs_eq (x : Expr) : denRhs x = denItems (chain x) := rfl

theorem denItems_snoc (A : List (Bool × Expr)) (y : Bool × Expr) :
    denItems (A ++ [y]) = (denItems A).bind (fun st => (topItem y).map (stepItem st)) := by
  simp only [denItems, List.mapM_append, List.mapM_cons, List.mapM_nil]
  cases List.mapM topItem A with
  | none => rfl
  | some is =>
    cases topItem y with
    | none => rfl
    | some it => simp [List.foldl_append]

theorem denItems_single (y : Bool × Expr) :
    denItems [y] = (topItem y).map (stepItem (false, [], [])) := by
  simp only [denItems, List.mapM_cons, List.mapM_nil]
  cases topItem y <;> rfl

/-- no item of the chain is in the D3 class -/
def chainD3Free (x : Expr) : Prop := ∀ it ∈ chain x, itemD3 it.2 = false

def TopAt (x : Expr) : Prop :=
  ∀ v st, isLit (chainHead x) "1" = true → resolve docOps x = .ok v → denRhs x = some st →
    NoGap x → chainD3Free x → TopVal v st

theorem top_main (x : Expr) : TopAt x := by
  induction x using chainHead.induct with
  | case1 l op r hk ih =>
    intro v st hh hr hd hng h3
    simp only [chainHead, hk, if_true] at hh
    simp only [Bool.or_eq_true, beq_iff_eq] at hk
    rcases hk with hk | hk
    · rw [denRhs_eq, chain_plus hk, denItems_snoc] at hd
      obtain ⟨stl, hdl, hit⟩ := opt_bind_some hd
      cases hti : topItem (true, r) with
      | none => simp [hti] at hit
      | some it =>
        simp only [hti, Option.map_some, Option.some.injEq] at hit
        subst hit
        obtain ⟨lv, rv, hl, hrr, hv⟩ := resolve_binary_ok (o := .add) (by rw [hk]; rfl) hr
        have h3l : chainD3Free l := fun it hi => h3 it (by rw [chain_plus hk]; simp [hi])
        have h3r : itemD3 r = false := h3 (true, r) (by rw [chain_plus hk]; simp)
        exact top_add (ih lv stl hh hl hdl hng.left h3l) (item_val hti hrr hng.right h3r) hv
    · rw [denRhs_eq, chain_minus hk, denItems_snoc] at hd
      obtain ⟨stl, hdl, hit⟩ := opt_bind_some hd
      cases hti : topItem (false, r) with
      | none => simp [hti] at hit
      | some it =>
        simp only [hti, Option.map_some, Option.some.injEq] at hit
        subst hit
        obtain ⟨lv, rv, hl, hrr, hv⟩ := resolve_binary_ok (o := .sub) (by rw [hk]; rfl) hr
        have h3l : chainD3Free l := fun it hi => h3 it (by rw [chain_minus hk]; simp [hi])
        have h3r : itemD3 r = false := h3 (false, r) (by rw [chain_minus hk]; simp)
        exact top_sub (ih lv stl hh hl hdl hng.left h3l) (item_val hti hrr hng.right h3r) hv
  | case2 l op r hk =>
    intro v st hh hr hd hng h3
    simp only [chainHead, hk] at hh
    simp [isLit] at hh
  | case3 e h1 =>
    intro v st hh hr hd hng h3
    cases e with
    | binary l op r => exact (h1 _ _ _ rfl).elim
    | literal t =>
      simp only [chainHead] at hh
      rw [resolve_one hh] at hr
      injection hr with hr; subst hr
      have hc : chain (.literal t) = [(true, .literal t)] := rfl
      have hti : topItem (true, .literal t) = some .addI := by
        simp [topItem, literalItem, hh]
      rw [denRhs_eq, hc, denItems_single, hti] at hd
      simp only [Option.map_some, Option.some.injEq] at hd
      subst hd
      refine ⟨.icpt, rfl, ?_⟩
      exact ⟨by simp [asC], by simp [asG], by simp [asC, stepItem], by simp [asC, stepItem],
        by simp [asG, stepItem]⟩
    | _ => simp [chainHead, isLit] at hh

-- ---------------------------------------------------------------------------------------------
-- reading the result: `semOfModel`
-- ---------------------------------------------------------------------------------------------
theorem mapM_option {α β : Type} (f : α → Option β) (l : List α)
    (h : ∀ x ∈ l, ∃ y, f x = some y) :
    ∃ L, l.mapM f = some L ∧ ∀ y, y ∈ L ↔ ∃ x ∈ l, f x = some y := by
  induction l with
  | nil => exact ⟨[], by simp, by simp⟩
  | cons a l ih =>
    obtain ⟨b, hb⟩ := h a (by simp)
    obtain ⟨L, hL, hm⟩ := ih (fun x hx => h x (by simp [hx]))
    refine ⟨b :: L, by simp [List.mapM_cons, hb, hL], ?_⟩
    intro y
    simp only [List.mem_cons, hm y]
    constructor
    · rintro (rfl | ⟨x, hx, hy⟩)
      · exact ⟨a, Or.inl rfl, hb⟩
      · exact ⟨x, Or.inr hx, hy⟩
    · rintro ⟨x, rfl | hx, hy⟩
      · left; rw [hb] at hy; injection hy with hy; exact hy.symm
      · exact Or.inr ⟨x, hx, hy⟩

theorem sem_of_rep {cs : List CTerm} {gs : List GTerm} {st : ChainSt} (h : Rep cs gs st)
    (ρ : Option (List Atom)) (ra : Option Atom)
    (hρ : (ρ = none ∧ ra = none) ∨ ∃ a, ρ = some [a] ∧ ra = some a) :
    ∃ s, semOfModel { common := cs, group := gs, resp := ρ } = some s ∧
      semEq s ⟨ra, st.1, st.2.1, st.2.2⟩ = true := by
  obtain ⟨Lc, hLc, hmc⟩ := mapM_option cOf cs (by
    intro c hc
    cases c with
    | negIntercept => exact absurd rfl (h.wfc _ hc)
    | intercept => exact ⟨_, rfl⟩
    | term a => exact ⟨_, rfl⟩)
  obtain ⟨Lg, hLg, hmg⟩ := mapM_option sgOf gs h.wfg
  refine ⟨⟨ra, Lc.contains none, Lc.filterMap id, Lg⟩, ?_, ?_⟩
  · rcases hρ with ⟨rfl, rfl⟩ | ⟨a, rfl, rfl⟩ <;>
      simp only [semOfModel, hLc, hLg, Option.bind_eq_bind, Option.bind_some, pure]
  · simp only [semEq, Bool.and_eq_true, beq_self_eq_true, true_and, beq_iff_eq]
    refine ⟨⟨?_, ?_⟩, ?_⟩
    · rw [← h.icpt, Bool.eq_iff_iff]
      simp only [List.contains_iff_mem, hmc]
      constructor
      · rintro ⟨c, hc, hcc⟩; rw [cOf_eq_none_iff.1 hcc] at hc; exact hc
      · intro hc; exact ⟨_, hc, rfl⟩
    · apply sameSet_iff.2
      intro t
      rw [← h.terms t]
      simp only [List.mem_filterMap, id, exists_eq_right, hmc]
      constructor
      · rintro ⟨c, hc, hcc⟩; rw [cOf_eq_some_iff.1 hcc] at hc; exact hc
      · intro hc; exact ⟨_, hc, rfl⟩
    · apply sameSet_iff.2
      intro x
      rw [hmg x, h.groups x]

-- ---------------------------------------------------------------------------------------------
-- the response
-- ---------------------------------------------------------------------------------------------
theorem atom_resolve {e : Expr} {a : Atom} {v : Obj} (ha : atomOf e = some a)
    (hr : resolve docOps e = .ok v) : v = .c (.term [a]) := by
  cases e with
  | «variable» n =>
    simp only [atomOf, Option.some.injEq] at ha
    simp only [resolve, pure, Except.pure] at hr
    injection hr with hr; rw [← hr, ← ha]
  | quoted t =>
    simp only [atomOf, Option.some.injEq] at ha
    simp only [resolve, pure, Except.pure] at hr
    injection hr with hr; rw [← hr, ← ha]
  | call c lp as rp =>
    simp only [atomOf] at ha
    simp only [resolve, bind, Except.bind, pure, Except.pure] at hr
    cases hc : callAtom c as with
    | error er => simp [hc] at hr
    | ok a' =>
      simp only [hc] at hr ha
      injection hr with hr
      simp only [Except.toOption, Option.some.injEq] at ha
      rw [← hr, ← ha]
  | brace lb e rb =>
    simp only [atomOf] at ha
    simp only [resolve, bind, Except.bind, pure, Except.pure] at hr
    cases hc : noKw (lazyArg (.brace lb e rb)) with
    | error er => simp [hc] at hr
    | ok a' =>
      obtain ⟨nm, key⟩ := a'
      simp only [hc] at hr ha
      injection hr with hr
      simp only [Option.some.injEq] at ha
      rw [← hr, ← ha]
  | _ => simp [atomOf] at ha

theorem resp_resolve {l : Expr} {a : Atom} {lv : Obj} (ha : respAtom l = some a)
    (hr : resolve docOps l = .ok lv) : lv = .c (.term [a]) := by
  cases l with
  | subset n lb lvl rb =>
    cases lvl with
    | «variable» x =>
      simp only [respAtom, Option.some.injEq] at ha
      simp only [resolve, pure, Except.pure] at hr
      injection hr with hr; rw [← hr, ← ha]
    | literal t =>
      simp only [respAtom] at ha
      split at ha
      · simp only [Option.some.injEq] at ha
        simp only [resolve, pure, Except.pure] at hr
        injection hr with hr; rw [← hr, ← ha]
      · simp at ha
    | _ => simp [respAtom] at ha
  | «variable» n => exact atom_resolve (by simpa [respAtom] using ha) hr
  | quoted t => exact atom_resolve (by simpa [respAtom] using ha) hr
  | call c lp as rp => exact atom_resolve (by simpa [respAtom] using ha) hr
  | brace lb e rb => exact atom_resolve (by simpa [respAtom] using ha) hr
  | _ => simp [respAtom, atomOf] at ha

-- ---------------------------------------------------------------------------------------------
-- the whole formula
-- ---------------------------------------------------------------------------------------------
theorem d3free_of_hasGapD3 {e : Expr} (h : hasGapD3 e = false) : chainD3Free (rhsOf e) := by
  intro it hit
  unfold hasGapD3 at h
  rw [List.any_eq_false] at h
  simpa using h it hit

theorem response_add {a : Atom} {rv v : Obj} (hv : NodupV rv)
    (h : add (.response [a]) rv = .ok v) :
    v = .model { common := asC rv, group := asG rv, resp := some [a] } := by
  cases hv with
  | icpt =>
    simp only [add, pure, Except.pure] at h; injection h with h; subst h; rfl
  | model m hm =>
    simp only [add, pure, Except.pure] at h; injection h with h; subst h; rfl

/-- `C02_refines` for right-hand sides that start with the implicit `1 +`, outside the
wrong-answer gap classes -/
theorem refines_main (e : Expr) (m : ModelV) (d : Sem) (hdesc : describe docOps e = .ok m)
    (hden : den e = some d) (h1 : implicitOne e = true) (h3 : hasGapD3 e = false)
    (hng : NoGap e) : ∃ s, semOfModel m = some s ∧ semEq s d = true := by
  have h3' := d3free_of_hasGapD3 h3
  unfold implicitOne at h1
  simp only [describe, bind, Except.bind] at hdesc
  cases hr : resolve docOps e with
  | error er => simp [hr] at hdesc
  | ok v =>
    simp only [hr] at hdesc
    -- the non-`~` case, for any expression whose right-hand side is itself
    have plainCase : rhsOf e = e → respOf e = none →
        ∃ s, semOfModel m = some s ∧ semEq s d = true := by
      intro hrhs hresp
      rw [hrhs] at h1 h3'
      simp only [den, hresp, hrhs, Option.bind_eq_bind, Option.bind_some] at hden
      cases hst : denRhs e with
      | none => simp [hst] at hden
      | some st =>
        simp only [hst, Option.bind_some, pure, Option.some.injEq] at hden
        subst hden
        have htv := top_main e v st h1 hr hst hng h3'
        have hm : m = { common := asC v, group := asG v, resp := none } := by
          cases htv.nd with
          | icpt =>
            simp only [pure, Except.pure] at hdesc; injection hdesc with hdesc; rw [← hdesc]; rfl
          | model m' hm' =>
            simp only [pure, Except.pure] at hdesc; injection hdesc with hdesc
            have := htv.nor
            simp only [asResp] at this
            rw [← hdesc, ← this]; rfl
        rw [hm]
        exact sem_of_rep htv.rep none none (Or.inl ⟨rfl, rfl⟩)
    cases e with
    | binary l op r =>
      by_cases hk : op.kind = .TILDE
      · simp only [rhsOf, hk, beq_self_eq_true, if_true] at h1 h3'
        simp only [den, respOf, rhsOf, hk, beq_self_eq_true, if_true, Option.bind_eq_bind] at hden
        cases hra : respAtom l with
        | none => simp [hra] at hden
        | some a =>
          simp only [hra, Option.map_some, Option.bind_some] at hden
          cases hst : denRhs r with
          | none => simp [hst] at hden
          | some st =>
            simp only [hst, Option.bind_some, pure, Option.some.injEq] at hden
            subst hden
            obtain ⟨lv, rv, hl, hrr, hv⟩ := resolve_binary_ok (o := .tilde) (by rw [hk]; rfl) hr
            have htv := top_main r rv st h1 hrr hst hng.right h3'
            have hlv := resp_resolve hra hl
            subst hlv
            simp only [apply, mkResponse, bind, Except.bind, pure, Except.pure] at hv
            have hv' := response_add htv.nd hv
            subst hv'
            simp only [pure, Except.pure] at hdesc; injection hdesc with hdesc
            rw [← hdesc]
            exact sem_of_rep htv.rep (some [a]) (some a) (Or.inr ⟨a, rfl, rfl⟩)
      · have hk' : (op.kind == Kind.TILDE) = false := by simpa using hk
        exact plainCase (by simp [rhsOf, hk']) (by simp [respOf, hk'])
    | _ => exact plainCase rfl rfl

/-- `C02_refines` for a formula that is one bare `eff | grp` -/
theorem refines_barepipe (e : Expr) (m : ModelV) (d : Sem) (hdesc : describe docOps e = .ok m)
    (hden : den e = some d) (h1 : barePipe e = true) (h3 : hasGapD3 e = false)
    (hng : NoGap e) : ∃ s, semOfModel m = some s ∧ semEq s d = true := by
  cases e with
  | binary l op r =>
    simp only [barePipe, beq_iff_eq] at h1
    have hrhs : rhsOf (.binary l op r) = .binary l op r := by simp [rhsOf, h1]
    have hresp : respOf (.binary l op r) = none := by simp [respOf, h1]
    have hc : chain (.binary l op r) = [(true, .binary l op r)] :=
      chain_other (by rw [h1]; simp) (by rw [h1]; simp)
    have h3' := d3free_of_hasGapD3 h3
    rw [hrhs] at h3'
    have h3i : itemD3 (.binary l op r) = false := h3' (true, _) (by rw [hc]; simp)
    simp only [den, hresp, hrhs, Option.bind_eq_bind, Option.bind_some] at hden
    cases hst : denRhs (.binary l op r) with
    | none => simp [hst] at hden
    | some st =>
      simp only [hst, Option.bind_some, pure, Option.some.injEq] at hden
      subst hden
      rw [denRhs_eq, hc, denItems_single] at hst
      cases hti : topItem (true, .binary l op r) with
      | none => simp [hti] at hst
      | some it =>
        simp only [hti, Option.map_some, Option.some.injEq] at hst
        subst hst
        have hti' : topItem (true, .binary l op r) = (denG (.binary l op r)).map (.grp true) := by
          simp [topItem, literalItem, isLit, isGroupExpr, stripGroup, h1]
        rw [hti'] at hti
        cases hdg : denG (.binary l op r) with
        | none => simp [hdg] at hti
        | some gs0 =>
        simp only [hdg, Option.map_some, Option.some.injEq] at hti
        subst hti
        have hti : topItem (true, .binary l op r) = some (.grp true gs0) := by rw [hti', hdg]; rfl
        cases hr : resolve docOps (.binary l op r) with
        | error er => simp [describe, hr, bind, Except.bind] at hdesc
        | ok v =>
          have hiv := item_val hti hr hng h3i
          cases hiv with
          | grp _ _ Lg gs' hg hwf hL =>
            have hd2 := describe_eq hr hg.nresp
            rw [hd2] at hdesc
            injection hdesc with hdesc
            rw [← hdesc, hg.c, hg.g, hg.r]
            refine sem_of_rep ?_ none none (Or.inl ⟨rfl, rfl⟩)
            refine ⟨by simp, hwf, by simp [stepItem], by simp [stepItem], ?_⟩
            intro x
            simp only [stepItem]
            rw [mem_union, ← hL x]
            simp
  | _ => simp [barePipe] at h1

end FormulaeModel.Resolver
