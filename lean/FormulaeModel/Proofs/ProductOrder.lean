import FormulaeModel.Model.Matrices
/-
Helper lemmas for C04/C05: the nested loops of `get_interaction_matrix` / `khatri_rao` and
`itertools.product` of the labels enumerate pairs in the same order (first factor slowest).
-/
namespace FormulaeModel.Design
open FormulaeModel

/-- labelled row: one design-matrix row with the label of every column -/
abbrev LRow := List (String × Entry)

/-- interaction of two labelled rows: labels combined with `f`, entries multiplied, first slowest -/
def interL (f : String → String → String) (a b : LRow) : LRow :=
  a.flatMap (fun p => b.map (fun q => (f p.1 q.1, Entry.mul p.2 q.2)))

def rowProd (rx ry : List Entry) : List Entry := rx.flatMap (fun a => ry.map (fun b => Entry.mul a b))

def labelProd (f : String → String → String) (lx ly : List String) : List String :=
  lx.flatMap (fun a => ly.map (fun b => f a b))

/-- `a:b` -/
def colon (a b : String) : String := a ++ ":" ++ b
/-- `effect|group` for (group, effect) enumerated group-slowest -/
def bar (g l : String) : String := l ++ "|" ++ g

theorem zip_map_map {α β γ δ : Type} (f : α → γ) (g : β → δ) (xs : List α) (ys : List β) :
    List.zip (xs.map f) (ys.map g) = (List.zip xs ys).map (fun p => (f p.1, g p.2)) := by
  induction xs generalizing ys with
  | nil => simp
  | cons x xs ih => cases ys <;> simp [ih]

/-- The label product and the data product of one row enumerate the pairs in the same order. -/
theorem zip_labelProd_rowProd (f : String → String → String) (lx ly : List String) (rx ry : List Entry)
    (hx : lx.length = rx.length) (hy : ly.length = ry.length) :
    List.zip (labelProd f lx ly) (rowProd rx ry) = interL f (List.zip lx rx) (List.zip ly ry) := by
  induction lx generalizing rx with
  | nil => cases rx <;> simp_all [labelProd, rowProd, interL]
  | cons a lx ih =>
    cases rx with
    | nil => simp at hx
    | cons b rx =>
      simp only [List.length_cons, Nat.add_right_cancel_iff] at hx
      simp only [labelProd, rowProd, interL, List.flatMap_cons, List.zip_cons_cons] at *
      rw [List.zip_append (by simp [hy])]
      rw [ih rx hx]
      congr 1
      rw [zip_map_map]

theorem length_labelProd (f : String → String → String) (lx ly : List String) :
    (labelProd f lx ly).length = lx.length * ly.length := by
  induction lx with
  | nil => simp [labelProd]
  | cons a lx ih =>
    simp only [labelProd, List.flatMap_cons, List.length_append, List.length_map, List.length_cons] at *
    rw [ih]; rw [Nat.add_mul, Nat.one_mul, Nat.add_comm]

theorem length_rowProd (rx ry : List Entry) : (rowProd rx ry).length = rx.length * ry.length := by
  induction rx with
  | nil => simp [rowProd]
  | cons a rx ih =>
    simp only [rowProd, List.flatMap_cons, List.length_append, List.length_map, List.length_cons] at *
    rw [ih]; rw [Nat.add_mul, Nat.one_mul, Nat.add_comm]

end FormulaeModel.Design

namespace FormulaeModel.Design
open FormulaeModel

theorem interactionLabels_eq (x y : List String) : interactionLabels x y = labelProd colon x y := rfl

def reduceRows : List (List Entry) → List Entry
  | [] => []
  | r :: rs => rs.foldl rowProd r

/-- n-ary: folding the labels and folding the data of one row keep labels and entries aligned -/
theorem zip_foldl_products (f : String → String → String) (comps : List (List String × List Entry))
    (accL : List String) (accR : List Entry) (hacc : accL.length = accR.length)
    (h : ∀ c ∈ comps, c.1.length = c.2.length) :
    List.zip ((comps.map (·.1)).foldl (labelProd f) accL) ((comps.map (·.2)).foldl rowProd accR)
      = comps.foldl (fun acc c => interL f acc (List.zip c.1 c.2)) (List.zip accL accR)
    ∧ ((comps.map (·.1)).foldl (labelProd f) accL).length
      = ((comps.map (·.2)).foldl rowProd accR).length := by
  induction comps generalizing accL accR with
  | nil => simp [hacc]
  | cons c comps ih =>
    have hc := h c (by simp)
    have hlen : (labelProd f accL c.1).length = (rowProd accR c.2).length := by
      rw [length_labelProd, length_rowProd, hacc, hc]
    have := ih (labelProd f accL c.1) (rowProd accR c.2) hlen (fun c' hc' => h c' (by simp [hc']))
    simp only [List.map_cons, List.foldl_cons]
    rw [← zip_labelProd_rowProd f accL c.1 accR c.2 hacc hc]
    exact this

/-- row `r` of the interaction matrix is the product of the rows `r` -/
theorem interactionMatrix_row (x y : Matrix) (r : Nat) (hx : r < x.length) (hy : r < y.length) :
    (interactionMatrix x y)[r]'(by simp [interactionMatrix]; omega) = rowProd x[r] y[r] := by
  simp [interactionMatrix, rowProd]

theorem interactionMatrix_length (x y : Matrix) :
    (interactionMatrix x y).length = min x.length y.length := by
  simp [interactionMatrix]

end FormulaeModel.Design
