import FormulaeModel.Proofs.TermsGood
set_option linter.unusedSectionVars false
set_option linter.unusedSimpArgs false
/-
C02, layer 2: each closed-form operator, read through `dedup` (first-occurrence de-duplication of
the implementation's term list), is the Wilkinson–Rogers set operation of `Spec.C02.denT`.
-/
namespace FormulaeModel.Terms
open FormulaeModel.Spec.C02

theorem map_eq_flatMap_singleton {α β : Type} (f : α → β) (k : List α) :
    k.flatMap (fun x => [f x]) = k.map f := by
  induction k <;> simp_all

theorem interS_dedup (A B : List STerm) : interS (dedup A) (dedup B) = dedup (pairs A B) := by
  unfold interS pairs interT
  rw [nub_eq, dedup_flatMap_dedup]
  apply dedup_flatMap_congr
  intro x _
  exact dedup_map_dedup _ _

theorem sameSet_iff {α : Type} [BEq α] [LawfulBEq α] {A B : List α} :
    sameSet A B = true ↔ ∀ x, x ∈ A ↔ x ∈ B := by
  simp only [sameSet, Bool.and_eq_true, List.all_eq_true, List.contains_iff_mem]
  constructor
  · rintro ⟨h1, h2⟩ x; exact ⟨h1 x, h2 x⟩
  · intro h; exact ⟨fun x hx => (h x).1 hx, fun x hx => (h x).2 hx⟩

-- ---------------------------------------------------------------------------------------------
theorem spec_padd (p q : PV) :
    dedup (padd p q).list = union (dedup p.list) (dedup q.list) := by
  rw [union_dedup]
  cases p with
  | t a =>
    cases q with
    | t b =>
      by_cases hab : (a == b) = true
      · have : a = b := eq_of_beq hab
        subst this
        simp [padd, PV.list, dedup]
      · simp [padd, hab, PV.list]
    | m O => simp only [padd, PV.list, dedup_addL]
  | m M =>
    cases q with
    | t b => simp only [padd, PV.list, dedup_addL]
    | m O => simp only [padd, PV.list, dedup_addL]

/-- the left operand of `-` holds no term twice (always true of a bare `Term`) -/
def PV.NodupL : PV → Prop
  | .t _ => True
  | .m M => M.Nodup

theorem spec_psub (p q : PV) (hp : p.NodupL) :
    dedup (psub p q).list = diff (dedup p.list) (dedup q.list) := by
  rw [diff_dedup]
  cases p with
  | t a =>
    cases q with
    | t b =>
      by_cases hab : (a == b) = true
      · have : a = b := eq_of_beq hab
        subst this
        simp [psub, PV.list]
      · have : a ≠ b := fun e => hab (by simp [e])
        simp [psub, hab, PV.list, this]
    | m O =>
      by_cases hab : O.contains a = true
      · have h' : a ∈ O := by simpa using hab
        simp [psub, hab, PV.list, h']
      · have h' : a ∉ O := by simpa using hab
        simp [psub, hab, PV.list, h']
  | m M =>
    have hM : M.Nodup := hp
    cases q with
    | t b =>
      simp only [psub, PV.list, removeFirst_of_nodup hM]
      congr 1
      apply List.filter_congr
      intro x _
      by_cases hx : x = b <;> simp [hx, List.contains_cons]
    | m O =>
      simp only [psub, PV.list, remL_of_nodup hM]

theorem pairs_singleton_left (a : STerm) (O : List STerm) :
    pairs [a] O = O.map (fun y => dedup (a ++ y)) := by
  simp [pairs]

theorem pairs_singleton_right (M : List STerm) (b : STerm) :
    pairs M [b] = M.map (fun x => dedup (x ++ b)) := by
  simp [pairs, map_eq_flatMap_singleton]

theorem spec_pmatmul (p q : PV) (hp : Good p) :
    dedup (pmatmul p q).list = interS (dedup p.list) (dedup q.list) := by
  rw [interS_dedup]
  cases p with
  | t a =>
    cases q with
    | t b =>
      by_cases hab : (a == b) = true
      · have : a = b := eq_of_beq hab
        subst this
        have ha : a.Nodup := (hp a (by simp [PV.list])).1
        simp [pmatmul, PV.list, pairs, dedup_append_self ha]
      · simp [pmatmul, hab, PV.list, pairs]
    | m O => simp only [pmatmul, PV.list, pairs_singleton_left]
  | m M =>
    cases q with
    | t b => simp only [pmatmul, PV.list, pairs_singleton_right]
    | m O => simp only [pmatmul, PV.list]

/-- `m * m` for equal models with at most one distinct term is still right -/
theorem mul_same {M O : List STerm} (hM : ∀ t ∈ M, GoodT t) (hs : sameSet M O = true)
    (hl : (dedup M).length < 2) : dedup M = dedup ((M ++ O) ++ pairs M O) := by
  have hmem := sameSet_iff.1 hs
  match hd : dedup M with
  | [] =>
    have hMnil : M = [] := by
      apply List.eq_nil_iff_forall_not_mem.2
      intro x hx
      have : x ∈ dedup M := mem_dedup.2 hx
      rw [hd] at this; simp at this
    have hOnil : O = [] := by
      apply List.eq_nil_iff_forall_not_mem.2
      intro x hx
      have := (hmem x).2 hx
      rw [hMnil] at this; simp at this
    subst hMnil; subst hOnil
    simp [pairs]
  | [t] =>
    have hMt : ∀ x ∈ M, x = t := by
      intro x hx
      have : x ∈ dedup M := mem_dedup.2 hx
      rw [hd] at this; simpa using this
    have hOt : ∀ x ∈ O, x = t := fun x hx => hMt x ((hmem x).2 hx)
    have hne : M ≠ [] := by
      intro e; rw [e] at hd; simp at hd
    have htM : t ∈ M := by
      have : t ∈ dedup M := by rw [hd]; simp
      exact mem_dedup.1 this
    symm
    apply dedup_eq_singleton
    · simp [hne]
    · intro x hx
      simp only [List.mem_append] at hx
      rcases hx with (h | h) | h
      · exact hMt x h
      · exact hOt x h
      · obtain ⟨u, hu, v, hv, rfl⟩ := mem_pairs.1 h
        rw [hMt u hu, hOt v hv]
        exact dedup_append_self (hM t htM).1
  | _ :: _ :: _ =>
    rw [hd] at hl
    simp only [List.length_cons] at hl
    omega

/-- the `if self == other: return self` shortcut of `Model.__mul__` is only taken when the two
models hold at most one distinct term (outside the D22 class) -/
def NoD22 : PV → PV → Prop
  | .m M, .m O => sameSet M O = true → (dedup M).length < 2
  | _, _ => True

theorem spec_pmul (p q : PV) (hp : Good p) (h22 : NoD22 p q) :
    dedup (pmul p q).list =
      union (union (dedup p.list) (dedup q.list)) (interS (dedup p.list) (dedup q.list)) := by
  rw [interS_dedup, union_dedup, union_dedup]
  cases p with
  | t a =>
    cases q with
    | t b =>
      by_cases hab : (a == b) = true
      · have : a = b := eq_of_beq hab
        subst this
        have ha : a.Nodup := (hp a (by simp [PV.list])).1
        simp [pmul, PV.list, pairs, dedup_append_self ha, dedup]
      · simp [pmul, hab, PV.list, pairs]
    | m O =>
      simp only [pmul, PV.list, dedup_addL, pairs_singleton_left]
      rfl
  | m M =>
    cases q with
    | t b => simp only [pmul, PV.list, dedup_addL, pairs_singleton_right]
    | m O =>
      by_cases hs : sameSet M O = true
      · simp only [pmul, hs, if_true, PV.list]
        exact mul_same hp hs (h22 hs)
      · simp only [pmul, hs, Bool.false_eq_true, if_false, PV.list, dedup_addL]

theorem spec_pdiv (p q : PV) (hp : Good p) :
    dedup (pdiv p q).list =
      union (dedup p.list)
        (nub ((dedup q.list).map (fun y => interT (dedup (dedup p.list).flatten) y))) := by
  have h1 : (fun y => interT (dedup (dedup p.list).flatten) y) =
      (fun y => dedup (p.list.flatten ++ y)) := by
    funext y
    simp only [interT, dedup_flatten_dedup, dedup_dedup_append]
  rw [h1, nub_eq, dedup_map_dedup, union_dedup]
  cases p with
  | t a =>
    cases q with
    | t b =>
      by_cases hab : (a == b) = true
      · have : a = b := eq_of_beq hab
        subst this
        have ha : a.Nodup := (hp a (by simp [PV.list])).1
        simp [pdiv, PV.list, dedup_append_self ha, dedup]
      · simp [pdiv, hab, PV.list]
    | m O =>
      simp only [pdiv, PV.list, dedup_addL]
      simp
  | m M =>
    cases q with
    | t b => simp only [pdiv, PV.list, dedup_addL, List.map_cons, List.map_nil]
    | m O => simp only [pdiv, PV.list, dedup_addL]

theorem combsUpTo_short {α : Type} (M : List α) (n : Nat) (h : M.length < 2) :
    combsUpTo M n = [] := by
  unfold combsUpTo
  apply List.flatMap_eq_nil_iff.2
  intro i _
  split
  · exact combinations_short M i (by omega)
  · rfl

theorem spec_ppow (p : PV) (n : Nat) (hp : p.NodupL) :
    dedup (ppow p n).list =
      union (dedup p.list)
        (nub ((combsUpTo (dedup p.list) n).map (fun ts => dedup ts.flatten))) := by
  cases p with
  | t a =>
    simp [ppow, PV.list, combsUpTo_short, nub_eq, union]
  | m M =>
    have hM : M.Nodup := hp
    simp only [ppow, PV.list, dedup_addL, nub_eq]
    rw [union_dedup, dedup_of_nodup hM]

end FormulaeModel.Terms
