import FormulaeModel.Spec.C01
import FormulaeModel.Proofs.ParserYield
import FormulaeModel.Proofs.ParserStrat
set_option linter.unusedSimpArgs false
set_option linter.unusedVariables false
/-
Helper lemmas for C01_roundtrip / C01_fullparen.

Part 1: fuel.  A result other than `.error .fuel` does not change when more fuel is given
(`MonoAt`), and `fuelFor` is enough: with it no parser function ever answers `.error .fuel`
(`NoFuelAt`).
Part 2: completeness.  For every tree `e` (mutual structural recursion over `Expr`/`Args`) the
bundle `RT e`: each parser function, run on the yield of `e` followed by any `rest` whose first
token is in the follow set of that position, returns `(e, rest)` for some fuel; the binary loops are
handled by the "resume the loop with accumulator `e`" statement `RT.loop`.
Part 3: `groupAll` preserves derivations and `ungroup ∘ groupAll = ungroup`.
-/
namespace FormulaeModel.Parser
open FormulaeModel FormulaeModel.Spec.C01

variable (T : Table)

/-- More fuel does not change an answer that is not "out of fuel". -/
structure MonoAt (n : Nat) : Prop where
  expression : ∀ ts, expression T n ts ≠ .error .fuel → expression T (n + 1) ts = expression T n ts
  assignment : ∀ ts, assignment T n ts ≠ .error .fuel → assignment T (n + 1) ts = assignment T n ts
  tilde : ∀ ts, tilde T n ts ≠ .error .fuel → tilde T (n + 1) ts = tilde T n ts
  binLevel : ∀ lv ts, binLevel T n lv ts ≠ .error .fuel → binLevel T (n + 1) lv ts = binLevel T n lv ts
  binLoop : ∀ ops lv acc ts, binLoop T n ops lv acc ts ≠ .error .fuel →
    binLoop T (n + 1) ops lv acc ts = binLoop T n ops lv acc ts
  unary : ∀ ts, unary T n ts ≠ .error .fuel → unary T (n + 1) ts = unary T n ts
  call : ∀ ts, call T n ts ≠ .error .fuel → call T (n + 1) ts = call T n ts
  callLoop : ∀ acc ts, callLoop T n acc ts ≠ .error .fuel → callLoop T (n + 1) acc ts = callLoop T n acc ts
  argList : ∀ ts, argList T n ts ≠ .error .fuel → argList T (n + 1) ts = argList T n ts
  primary : ∀ ts, primary T n ts ≠ .error .fuel → primary T (n + 1) ts = primary T n ts

theorem bind_mono {α β : Type} (x x' : Except ParseErr α) (f f' : α → Except ParseErr β)
    (hx : x ≠ .error .fuel → x' = x)
    (hf : ∀ a, x = .ok a → f a ≠ .error .fuel → f' a = f a)
    (h : (x >>= f) ≠ .error .fuel) : (x' >>= f') = (x >>= f) := by
  cases x with
  | error e =>
    have : x' = .error e := hx (by intro hc; apply h; cases hc; rfl)
    subst this; rfl
  | ok a =>
    have : x' = .ok a := hx (by simp)
    subst this
    exact hf a rfl h

theorem monoAt_zero : MonoAt T 0 := by
  constructor <;> intros <;> simp_all [expression, assignment, tilde, binLevel, binLoop, unary, call, callLoop, argList, primary]

theorem monoAt_succ (n : Nat) (ih : MonoAt T n) : MonoAt T (n + 1) := by
  have h1 := ih.expression; have h2 := ih.assignment; have h3 := ih.tilde
  have h4 := ih.binLevel; have h5 := ih.binLoop; have h6 := ih.unary; have h7 := ih.call
  have h8 := ih.callLoop; have h9 := ih.argList; have h10 := ih.primary
  constructor
  · intro ts h
    simp only [expression] at h ⊢
    exact h2 _ h
  · intro ts h
    simp only [assignment] at h ⊢
    refine bind_mono _ _ _ _ (h3 ts) ?_ h
    rintro ⟨e, ts1⟩ heq hne
    cases ts1 with
    | nil => rfl
    | cons t ts2 =>
      simp only [] at hne ⊢
      split
      · rename_i hk
        simp only [hk, if_true] at hne
        refine bind_mono _ _ _ _ (h4 _ _) ?_ hne
        rintro ⟨r, ts3⟩ heq2 hne2
        rfl
      · rfl
  · intro ts h
    simp only [tilde] at h ⊢
    refine bind_mono _ _ _ _ (h4 _ ts) ?_ h
    rintro ⟨e, ts1⟩ heq hne
    cases ts1 with
    | nil => rfl
    | cons t ts2 =>
      simp only [] at hne ⊢
      split
      · rename_i hk
        simp only [hk, if_true] at hne
        refine bind_mono _ _ _ _ (h4 _ _) ?_ hne
        rintro ⟨r, ts3⟩ heq2 hne2
        rfl
      · rfl
  · intro lv ts h
    cases lv with
    | nil => simp only [binLevel] at h ⊢; exact h6 _ h
    | cons ops rest =>
      simp only [binLevel] at h ⊢
      refine bind_mono _ _ _ _ (h4 _ ts) ?_ h
      rintro ⟨e, ts1⟩ heq hne
      exact h5 _ _ _ _ hne
  · intro ops lv acc ts h
    cases ts with
    | nil => rfl
    | cons t ts1 =>
      simp only [binLoop] at h ⊢
      split
      · rename_i hk
        simp only [hk, if_true] at h
        refine bind_mono _ _ _ _ (h4 _ _) ?_ h
        rintro ⟨r, ts2⟩ heq hne
        exact h5 _ _ _ _ hne
      · rfl
  · intro ts h
    cases ts with
    | nil => simp only [unary] at h ⊢; exact h7 _ h
    | cons t ts1 =>
      simp only [unary] at h ⊢
      split
      · rename_i hk
        simp only [hk, if_true] at h
        refine bind_mono _ _ _ _ (h6 _) ?_ h
        rintro ⟨r, ts2⟩ heq hne
        rfl
      · rename_i hk
        simp only [hk] at h
        exact h7 _ h
  · intro ts h
    simp only [call] at h ⊢
    refine bind_mono _ _ _ _ (h10 ts) ?_ h
    rintro ⟨e, ts1⟩ heq hne
    exact h8 _ _ hne
  · intro acc ts h
    cases ts with
    | nil => rfl
    | cons t ts1 =>
      simp only [callLoop] at h ⊢
      split
      · rename_i hk
        simp only [hk, if_true] at h
        cases ts1 with
        | nil =>
          simp only [] at h ⊢
          refine bind_mono _ _ _ _ (h9 _) ?_ h
          rintro ⟨as, ts3⟩ heq hne
          refine bind_mono _ _ _ _ (fun _ => rfl) ?_ hne
          rintro ⟨rp, ts4⟩ heq2 hne2
          exact h8 _ _ hne2
        | cons u ts2 =>
          simp only [] at h ⊢
          split
          · rename_i hu
            simp only [hu, if_true] at h
            exact h8 _ _ h
          · rename_i hu
            simp only [hu, if_false] at h
            refine bind_mono _ _ _ _ (h9 _) ?_ h
            rintro ⟨as, ts3⟩ heq hne
            refine bind_mono _ _ _ _ (fun _ => rfl) ?_ hne
            rintro ⟨rp, ts4⟩ heq2 hne2
            exact h8 _ _ hne2
      · rfl
  · intro ts h
    simp only [argList] at h ⊢
    refine bind_mono _ _ _ _ (h1 ts) ?_ h
    rintro ⟨e, ts1⟩ heq hne
    cases ts1 with
    | nil => rfl
    | cons t ts2 =>
      simp only [] at hne ⊢
      split
      · rename_i hk
        simp only [hk, if_true] at hne
        refine bind_mono _ _ _ _ (h9 _) ?_ hne
        rintro ⟨r, ts3⟩ heq2 hne2
        rfl
      · rfl
  · intro ts h
    cases ts with
    | nil => rfl
    | cons t ts1 =>
      simp only [primary] at h ⊢
      cases hk : t.kind <;> simp only [hk] at h ⊢ <;> try rfl
      · -- LEFT_PAREN
        refine bind_mono _ _ _ _ (h1 _) ?_ h
        rintro ⟨e, ts2⟩ heq hne
        rfl
      · -- LEFT_BRACE
        refine bind_mono _ _ _ _ (h1 _) ?_ h
        rintro ⟨e, ts2⟩ heq hne
        rfl
      · -- IDENTIFIER
        cases ts1 with
        | nil => rfl
        | cons lb ts2 =>
          simp only [] at h ⊢
          split
          · rename_i hk
            simp only [hk, if_true] at h
            refine bind_mono _ _ _ _ (h10 _) ?_ h
            rintro ⟨lv, ts3⟩ heq hne
            rfl
          · rfl

theorem monoAt (n : Nat) : MonoAt T n := by
  induction n with
  | zero => exact monoAt_zero T
  | succ n ih => exact monoAt_succ T n ih

theorem mono_of_step {α β : Type} (f : Nat → α → Except ParseErr β)
    (hs : ∀ n x, f n x ≠ .error .fuel → f (n + 1) x = f n x) {n n' : Nat} (h : n ≤ n') (x : α)
    (hne : f n x ≠ .error .fuel) : f n' x = f n x := by
  induction n' with
  | zero => have : n = 0 := by omega
            subst this; rfl
  | succ k ih =>
    by_cases hk : n ≤ k
    · have e := ih hk
      rw [hs k x (by rw [e]; exact hne), e]
    · have : n = k + 1 := by omega
      subst this; rfl

theorem expression_mono {n n' : Nat} (h : n ≤ n') {ts : List Token} {r}
    (hr : expression T n ts = .ok r) : expression T n' ts = .ok r := by
  rw [mono_of_step (fun n ts => expression T n ts) (fun n x => (monoAt T n).expression x) h ts
    (by simp [hr]), hr]

theorem binLevel_mono {n n' : Nat} (h : n ≤ n') {lv} {ts : List Token} {r}
    (hr : binLevel T n lv ts = .ok r) : binLevel T n' lv ts = .ok r := by
  rw [mono_of_step (fun n (p : List (List Kind) × List Token) => binLevel T n p.1 p.2)
    (fun n x => (monoAt T n).binLevel x.1 x.2) h (lv, ts) (by simp [hr])]; exact hr

theorem binLoop_mono {n n' : Nat} (h : n ≤ n') {ops lv acc} {ts : List Token} {r}
    (hr : binLoop T n ops lv acc ts = .ok r) : binLoop T n' ops lv acc ts = .ok r := by
  rw [mono_of_step (fun n (p : List Kind × List (List Kind) × Expr × List Token) =>
      binLoop T n p.1 p.2.1 p.2.2.1 p.2.2.2)
    (fun n x => (monoAt T n).binLoop x.1 x.2.1 x.2.2.1 x.2.2.2) h (ops, lv, acc, ts) (by simp [hr])]
  exact hr

theorem unary_mono {n n' : Nat} (h : n ≤ n') {ts : List Token} {r}
    (hr : unary T n ts = .ok r) : unary T n' ts = .ok r := by
  rw [mono_of_step (fun n ts => unary T n ts) (fun n x => (monoAt T n).unary x) h ts
    (by simp [hr]), hr]

theorem call_mono {n n' : Nat} (h : n ≤ n') {ts : List Token} {r}
    (hr : call T n ts = .ok r) : call T n' ts = .ok r := by
  rw [mono_of_step (fun n ts => call T n ts) (fun n x => (monoAt T n).call x) h ts
    (by simp [hr]), hr]

theorem callLoop_mono {n n' : Nat} (h : n ≤ n') {acc} {ts : List Token} {r}
    (hr : callLoop T n acc ts = .ok r) : callLoop T n' acc ts = .ok r := by
  rw [mono_of_step (fun n (p : Expr × List Token) => callLoop T n p.1 p.2)
    (fun n x => (monoAt T n).callLoop x.1 x.2) h (acc, ts) (by simp [hr])]; exact hr

theorem argList_mono {n n' : Nat} (h : n ≤ n') {ts : List Token} {r}
    (hr : argList T n ts = .ok r) : argList T n' ts = .ok r := by
  rw [mono_of_step (fun n ts => argList T n ts) (fun n x => (monoAt T n).argList x) h ts
    (by simp [hr]), hr]

theorem primary_mono {n n' : Nat} (h : n ≤ n') {ts : List Token} {r}
    (hr : primary T n ts = .ok r) : primary T n' ts = .ok r := by
  rw [mono_of_step (fun n ts => primary T n ts) (fun n x => (monoAt T n).primary x) h ts
    (by simp [hr]), hr]

/-- `parseFuel` is monotone in the fuel: an answer other than "out of fuel" is final. -/
theorem parseFuel_mono {n n' : Nat} (h : n ≤ n') (ts : List Token)
    (hne : parseFuel T n ts ≠ .error .fuel) : parseFuel T n' ts = parseFuel T n ts := by
  have hx : expression T n ts ≠ .error .fuel := by
    intro hc; apply hne; simp [parseFuel, hc, bind, Except.bind]
  have this : expression T n' ts = expression T n ts :=
    mono_of_step (fun n ts => expression T n ts) (fun n x => (monoAt T n).expression x) h ts hx
  simp only [parseFuel, this]

/-! ### `fuelFor` is enough -/

/-- fuel per token -/
abbrev fc : Nat := T.levels.length + 12

theorem fc_lt (C a b : Nat) (h : a < b) : C * a + C ≤ C * b := by
  rw [← Nat.mul_succ]; exact Nat.mul_le_mul_left _ h
theorem fc_le (C a b : Nat) (h : a ≤ b) : C * a ≤ C * b := Nat.mul_le_mul_left _ h

theorem bind_nofuel {α β : Type} (x : Except ParseErr α) (f : α → Except ParseErr β)
    (hx : x ≠ .error .fuel) (hf : ∀ a, x = .ok a → f a ≠ .error .fuel) :
    (x >>= f) ≠ .error .fuel := by
  cases x with
  | error e => intro hc; apply hx; cases hc; rfl
  | ok a => exact hf a rfl

structure NoFuelAt (n : Nat) : Prop where
  expression : ∀ ts, fc T * ts.length + 7 + T.levels.length ≤ n → expression T n ts ≠ .error .fuel
  assignment : ∀ ts, fc T * ts.length + 6 + T.levels.length ≤ n → assignment T n ts ≠ .error .fuel
  tilde : ∀ ts, fc T * ts.length + 5 + T.levels.length ≤ n → tilde T n ts ≠ .error .fuel
  binLevel : ∀ lv ts, lv.length ≤ T.levels.length → fc T * ts.length + 4 + lv.length ≤ n →
    binLevel T n lv ts ≠ .error .fuel
  binLoop : ∀ ops lv acc ts, lv.length ≤ T.levels.length → fc T * ts.length + 1 ≤ n →
    binLoop T n ops lv acc ts ≠ .error .fuel
  unary : ∀ ts, fc T * ts.length + 3 ≤ n → unary T n ts ≠ .error .fuel
  call : ∀ ts, fc T * ts.length + 2 ≤ n → call T n ts ≠ .error .fuel
  callLoop : ∀ acc ts, fc T * ts.length + 1 ≤ n → callLoop T n acc ts ≠ .error .fuel
  argList : ∀ ts, fc T * ts.length + 8 + T.levels.length ≤ n → argList T n ts ≠ .error .fuel
  primary : ∀ ts, fc T * ts.length + 1 ≤ n → primary T n ts ≠ .error .fuel

theorem noFuelAt_zero : NoFuelAt T 0 := by
  constructor <;> intros <;> omega

theorem noFuelAt_succ (n : Nat) (ih : NoFuelAt T n) : NoFuelAt T (n + 1) := by
  have h1 := ih.expression; have h2 := ih.assignment; have h3 := ih.tilde
  have h4 := ih.binLevel; have h5 := ih.binLoop; have h6 := ih.unary; have h7 := ih.call
  have h8 := ih.callLoop; have h9 := ih.argList; have h10 := ih.primary
  have y := yieldAt T n
  have hc := @consume_ok
  have hdrop : (T.levels.drop T.tildeRight).length ≤ T.levels.length := by simp
  have hfc : fc T = T.levels.length + 12 := rfl
  constructor
  · intro ts h
    simp only [expression]
    exact h2 _ (by omega)
  · intro ts h
    simp only [assignment]
    refine bind_nofuel _ _ (h3 ts (by omega)) ?_
    rintro ⟨e, ts1⟩ heq
    have hy := congrArg List.length (y.tilde _ _ _ heq)
    simp only [List.length_append] at hy
    cases ts1 with
    | nil => simp [pure, Except.pure]
    | cons t ts2 =>
      simp only []
      split
      · simp only [List.length_cons] at hy
        have := fc_lt (fc T) ts2.length ts.length (by omega)
        refine bind_nofuel _ _ (h4 _ ts2 hdrop (by omega)) ?_
        rintro ⟨r, ts3⟩ heq2
        simp only []
        split <;> simp [pure, Except.pure]
      · simp [pure, Except.pure]
  · intro ts h
    simp only [tilde]
    refine bind_nofuel _ _ (h4 _ ts (Nat.le_refl _) (by omega)) ?_
    rintro ⟨e, ts1⟩ heq
    have hy := congrArg List.length (y.binLevel _ _ _ _ heq)
    simp only [List.length_append] at hy
    cases ts1 with
    | nil => simp [pure, Except.pure]
    | cons t ts2 =>
      simp only []
      split
      · simp only [List.length_cons] at hy
        have := fc_lt (fc T) ts2.length ts.length (by omega)
        refine bind_nofuel _ _ (h4 _ ts2 hdrop (by omega)) ?_
        rintro ⟨r, ts3⟩ heq2
        simp [pure, Except.pure]
      · simp [pure, Except.pure]
  · intro lv ts hlv h
    cases lv with
    | nil => simp only [binLevel]; exact h6 _ (by simp at h; omega)
    | cons ops rest =>
      simp only [binLevel]
      simp only [List.length_cons] at h hlv
      refine bind_nofuel _ _ (h4 _ ts (by omega) (by omega)) ?_
      rintro ⟨e, ts1⟩ heq
      have hy := congrArg List.length (y.binLevel _ _ _ _ heq)
      simp only [List.length_append] at hy
      have := fc_le (fc T) ts1.length ts.length (by omega)
      exact h5 _ _ _ _ (by omega) (by show fc T * ts1.length + 1 ≤ n; omega)
  · intro ops lv acc ts hlv h
    cases ts with
    | nil => simp [binLoop, pure, Except.pure]
    | cons t ts1 =>
      simp only [binLoop]
      simp only [List.length_cons] at h
      have h' : fc T * ts1.length + fc T ≤ n := by rw [Nat.mul_succ] at h; omega
      split
      · refine bind_nofuel _ _ (h4 _ ts1 hlv (by omega)) ?_
        rintro ⟨r, ts2⟩ heq
        have hy := congrArg List.length (y.binLevel _ _ _ _ heq)
        simp only [List.length_append] at hy
        have := fc_le (fc T) ts2.length ts1.length (by omega)
        exact h5 _ _ _ _ hlv (by show fc T * ts2.length + 1 ≤ n; omega)
      · simp [pure, Except.pure]
  · intro ts h
    cases ts with
    | nil => simp only [unary]; exact h7 _ (by simp at h ⊢; omega)
    | cons t ts1 =>
      simp only [unary]
      split
      · simp only [List.length_cons] at h
        have h' : fc T * ts1.length + fc T + 2 ≤ n := by rw [Nat.mul_succ] at h; omega
        refine bind_nofuel _ _ (h6 ts1 (by omega)) ?_
        rintro ⟨r, ts2⟩ heq
        simp [pure, Except.pure]
      · exact h7 _ (by omega)
  · intro ts h
    simp only [call]
    refine bind_nofuel _ _ (h10 ts (by omega)) ?_
    rintro ⟨e, ts1⟩ heq
    have hy := congrArg List.length (y.primary _ _ _ heq)
    simp only [List.length_append] at hy
    have := fc_le (fc T) ts1.length ts.length (by omega)
    exact h8 _ _ (by show fc T * ts1.length + 1 ≤ n; omega)
  · intro acc ts h
    cases ts with
    | nil => simp [callLoop, pure, Except.pure]
    | cons t ts1 =>
      simp only [callLoop]
      simp only [List.length_cons] at h
      have h' : fc T * ts1.length + fc T ≤ n := by rw [Nat.mul_succ] at h; omega
      split
      · cases ts1 with
        | nil =>
          simp only []
          refine bind_nofuel _ _ (h9 _ (by simp at h' ⊢; omega)) ?_
          rintro ⟨as, ts3⟩ heq
          have hy := congrArg List.length (y.argList _ _ _ heq)
          simp only [List.length_append, List.length_nil] at hy
          refine bind_nofuel _ _ ?_ ?_
          · unfold consume; repeat' split
            all_goals simp
          · rintro ⟨rp, ts4⟩ heq2
            have := (hc heq2).1
            subst this
            simp at hy
        | cons u ts2 =>
          simp only []
          have := fc_le (fc T) ts2.length (u :: ts2).length (by simp)
          split
          · exact h8 _ _ (by omega)
          · refine bind_nofuel _ _ (h9 _ (by omega)) ?_
            rintro ⟨as, ts3⟩ heq
            have hy := congrArg List.length (y.argList _ _ _ heq)
            simp only [List.length_append] at hy
            refine bind_nofuel _ _ ?_ ?_
            · unfold consume; repeat' split
              all_goals simp
            · rintro ⟨rp, ts4⟩ heq2
              have := (hc heq2).1
              subst this
              simp only [List.length_cons] at hy
              have := fc_le (fc T) ts4.length (u :: ts2).length (by simp; omega)
              exact h8 _ _ (by show fc T * ts4.length + 1 ≤ n; omega)
      · simp [pure, Except.pure]
  · intro ts h
    simp only [argList]
    refine bind_nofuel _ _ (h1 ts (by omega)) ?_
    rintro ⟨e, ts1⟩ heq
    have hy := congrArg List.length (y.expression _ _ _ heq)
    simp only [List.length_append] at hy
    cases ts1 with
    | nil => simp [pure, Except.pure]
    | cons t ts2 =>
      simp only []
      split
      · simp only [List.length_cons] at hy
        have := fc_lt (fc T) ts2.length ts.length (by omega)
        refine bind_nofuel _ _ (h9 ts2 (by omega)) ?_
        rintro ⟨r, ts3⟩ heq2
        simp [pure, Except.pure]
      · simp [pure, Except.pure]
  · intro ts h
    cases ts with
    | nil => simp [primary]
    | cons t ts1 =>
      simp only [primary]
      simp only [List.length_cons] at h
      have h' : fc T * ts1.length + fc T ≤ n := by rw [Nat.mul_succ] at h; omega
      have hcons : ∀ k ts, consume k ts ≠ .error .fuel := by
        intro k ts; unfold consume; repeat' split
        all_goals simp
      cases hk : t.kind <;> simp only [hk] <;> try (simp [pure, Except.pure]; done)
      · refine bind_nofuel _ _ (h1 _ (by omega)) ?_
        rintro ⟨e, ts2⟩ heq
        refine bind_nofuel _ _ (hcons _ _) ?_
        rintro ⟨rp, ts3⟩ heq2
        simp [pure, Except.pure]
      · refine bind_nofuel _ _ (h1 _ (by omega)) ?_
        rintro ⟨e, ts2⟩ heq
        refine bind_nofuel _ _ (hcons _ _) ?_
        rintro ⟨rp, ts3⟩ heq2
        simp [pure, Except.pure]
      · cases ts1 with
        | nil => simp [pure, Except.pure]
        | cons lb ts2 =>
          simp only []
          have := fc_le (fc T) ts2.length (lb :: ts2).length (by simp)
          split
          · refine bind_nofuel _ _ (h10 _ (by omega)) ?_
            rintro ⟨lv, ts3⟩ heq
            simp only []
            split
            · refine bind_nofuel _ _ (hcons _ _) ?_
              rintro ⟨rp, ts4⟩ heq2
              simp [pure, Except.pure]
            · simp
          · simp [pure, Except.pure]

theorem noFuelAt (n : Nat) : NoFuelAt T n := by
  induction n with
  | zero => exact noFuelAt_zero T
  | succ n ih => exact noFuelAt_succ T n ih

/-- The model never rejects for lack of fuel. -/
theorem parse_ne_fuel (ts : List Token) : parse T ts ≠ .error .fuel := by
  unfold parse parseFuel
  refine bind_nofuel _ _ ((noFuelAt T _).expression ts ?_) ?_
  · unfold fuelFor fc
    rw [Nat.mul_add]; omega
  · rintro ⟨e, rest⟩ _
    simp only []
    repeat' split
    all_goals simp [pure, Except.pure]

/-- If some amount of fuel gives `.ok e`, the fuel `Parser.parse` uses gives it too. -/
theorem parse_of_parseFuel {n : Nat} {ts : List Token} {e : Expr}
    (h : parseFuel T n ts = .ok e) : parse T ts = .ok e := by
  rcases Nat.le_total n (fuelFor T ts) with hle | hle
  · unfold parse
    rw [parseFuel_mono T hle ts (by simp [h]), h]
  · have := parseFuel_mono T hle ts (parse_ne_fuel T ts)
    unfold parse
    rw [← this, h]

/-! ### Part 2: completeness -/

/-- What may follow a complete operand of level `m`: not a postfix opener, not an operator of a
level `≥ m`. -/
def followOk (m : Nat) (rest : List Token) : Prop :=
  ∀ t tl, rest = t :: tl → t.kind ≠ .LEFT_PAREN ∧ t.kind ≠ .LEFT_BRACKET ∧
    ∀ i, opLevel T t.kind = some i → i < m

/-- What may follow an `expression`: end of input, a closing bracket or a comma. -/
def topFollow (rest : List Token) : Prop :=
  ∀ t tl, rest = t :: tl →
    t.kind = .RIGHT_PAREN ∨ t.kind = .RIGHT_BRACKET ∨ t.kind = .RIGHT_BRACE ∨ t.kind = .COMMA

theorem followOk_mono {m m' : Nat} (h : m ≤ m') {rest} (hf : followOk T m rest) : followOk T m' rest := by
  intro t tl ht
  obtain ⟨a, b, c⟩ := hf t tl ht
  exact ⟨a, b, fun i hi => Nat.lt_of_lt_of_le (c i hi) h⟩

theorem followOk_of_top (hW : TableWF T = true) {rest} (h : topFollow rest) (m : Nat) :
    followOk T m rest := by
  intro t tl ht
  have hc : closers.contains t.kind = true := by
    rcases h t tl ht with h | h | h | h <;> rw [h] <;> decide
  have hn := opLevel_closer T hW _ hc
  refine ⟨?_, ?_, ?_⟩
  · rcases h t tl ht with h | h | h | h <;> rw [h] <;> decide
  · rcases h t tl ht with h | h | h | h <;> rw [h] <;> decide
  · intro i hi; rw [hn] at hi; cases hi

theorem not_closer_of_opLevel (hW : TableWF T = true) {k : Kind} {i : Nat}
    (h : opLevel T k = some i) : closers.contains k = false := by
  cases hc : closers.contains k with
  | false => rfl
  | true => rw [opLevel_closer T hW k hc] at h; cases h

theorem opLevel_lt {k : Kind} {i : Nat} (h : opLevel T k = some i) : i < T.levels.length := by
  unfold opLevel at h
  have := List.findIdx?_eq_some_iff_getElem.mp h
  exact this.1

theorem mem_of_opLevel {k : Kind} {i : Nat} (h : opLevel T k = some i) {ops lv}
    (hd : T.levels.drop i = ops :: lv) : ops.contains k = true := by
  unfold opLevel at h
  obtain ⟨hi, h1, _⟩ := List.findIdx?_eq_some_iff_getElem.mp h
  have : T.levels[i] = ops := by
    have := congrArg List.head? hd
    rw [List.head?_drop] at this
    simpa [List.getElem?_eq_getElem hi] using this
  rw [← this]; exact h1

theorem drop_succ_of_drop {m : Nat} {ops : List Kind} {lv} (hd : T.levels.drop m = ops :: lv) :
    T.levels.drop (m + 1) = lv ∧ m < T.levels.length := by
  constructor
  · have := congrArg List.tail hd
    simpa [List.tail_drop] using this
  · have := congrArg List.length hd
    simp at this; omega

theorem drop_cons_of_lt {m : Nat} (h : m < T.levels.length) :
    ∃ ops, T.levels.drop m = ops :: T.levels.drop (m + 1) :=
  ⟨T.levels[m], List.drop_eq_getElem_cons h⟩

/-! combinators -/

theorem binLevel_cons {n1 n2 : Nat} {ops lv ts e0 r0 res}
    (h1 : binLevel T n1 lv ts = .ok (e0, r0)) (h2 : binLoop T n2 ops lv e0 r0 = .ok res) :
    ∃ n, binLevel T n (ops :: lv) ts = .ok res := by
  refine ⟨max n1 n2 + 1, ?_⟩
  simp only [binLevel, bind, Except.bind]
  rw [binLevel_mono T (Nat.le_max_left n1 n2) h1]
  exact binLoop_mono T (Nat.le_max_right n1 n2) h2

theorem binLoop_step {n1 n2 : Nat} {ops lv acc t ts1 r ts2 res}
    (hk : ops.contains t.kind = true)
    (h1 : binLevel T n1 lv ts1 = .ok (r, ts2))
    (h2 : binLoop T n2 ops lv (.binary acc t r) ts2 = .ok res) :
    ∃ n, binLoop T n ops lv acc (t :: ts1) = .ok res := by
  refine ⟨max n1 n2 + 1, ?_⟩
  simp only [binLoop, hk, if_true, bind, Except.bind]
  rw [binLevel_mono T (Nat.le_max_left n1 n2) h1]
  exact binLoop_mono T (Nat.le_max_right n1 n2) h2

theorem binLoop_exit {ops lv acc ts}
    (h : ∀ t tl, ts = t :: tl → ops.contains t.kind = false) :
    binLoop T 1 ops lv acc ts = .ok (acc, ts) := by
  cases ts with
  | nil => rfl
  | cons t tl =>
    have := h t tl rfl
    simp only [binLoop, this, pure, Except.pure]; rfl

theorem exit_of_followOk (hW : TableWF T = true) {m ops lv rest}
    (hd : T.levels.drop m = ops :: lv) (hf : followOk T m rest) :
    ∀ t tl, rest = t :: tl → ops.contains t.kind = false := by
  have hL : levelsOK T = true := by
    unfold TableWF at hW; simp only [Bool.and_eq_true] at hW; exact hW.1.1.1
  intro t tl ht
  cases hc : ops.contains t.kind with
  | false => rfl
  | true =>
    have := opLevel_of_mem T hL m ops lv hd t.kind hc
    have := (hf t tl ht).2.2 m this
    omega

/-- A result of a higher level is a result of a lower level when no loop in between fires. -/
theorem binLevel_lift (hW : TableWF T = true) {j : Nat} {ts e rest} (hj : j ≤ T.levels.length)
    (h : ∃ n, binLevel T n (T.levels.drop j) ts = .ok (e, rest)) :
    ∀ d m, m + d = j → followOk T m rest → ∃ n, binLevel T n (T.levels.drop m) ts = .ok (e, rest) := by
  intro d
  induction d with
  | zero => intro m hm _; have : m = j := by omega
            subst this; exact h
  | succ d ih =>
    intro m hm hf
    obtain ⟨n1, h1⟩ := ih (m + 1) (by omega) (followOk_mono T (by omega) hf)
    obtain ⟨ops, hd⟩ := drop_cons_of_lt T (m := m) (by omega)
    rw [hd]
    exact binLevel_cons T h1 (binLoop_exit T (exit_of_followOk T hW hd hf))


/-! first tokens -/

theorem firstTok1 (e : Expr) (h : stratBin T e = true) (hp : (isPrimary e || isCall e) = true) :
    ∃ t tl, e.flat = t :: tl ∧ starters.contains t.kind = true := by
  match e with
  | .call c lp as rp =>
    simp only [stratBin, Bool.and_eq_true] at h
    obtain ⟨t, tl, h1, h2⟩ := firstTok1 c h.1.1.1.2 h.1.1.1.1
    exact ⟨t, tl ++ lp :: as.flat ++ [rp], by simp [Expr.flat, h1], h2⟩
  | .variable n => simp_all [stratBin, Expr.flat, starters]
  | .literal n => simp_all [stratBin, Expr.flat, starters]; grind
  | .quoted n => simp_all [stratBin, Expr.flat, starters]
  | .subset .. => simp_all [stratBin, Expr.flat, starters]
  | .grouping .. => simp_all [stratBin, Expr.flat, starters]
  | .brace .. => simp_all [stratBin, Expr.flat, starters]
  | .binary .. => simp [isPrimary, isCall] at hp
  | .unary .. => simp [isPrimary, isCall] at hp
  | .assign .. => simp [isPrimary, isCall] at hp

def startOk (k : Kind) : Prop := starters.contains k = true ∨ T.unaryOps.contains k = true

theorem firstTok2 (e : Expr) (h : stratBin T e = true) :
    ∃ t tl, e.flat = t :: tl ∧ startOk T t.kind := by
  match e with
  | .binary l op r =>
    have hl : stratBin T l = true := by
      simp only [stratBin] at h; split at h
      · simp only [Bool.and_eq_true] at h; exact h.1.1.1
      · cases h
    obtain ⟨t, tl, h1, h2⟩ := firstTok2 l hl
    exact ⟨t, tl ++ op :: r.flat, by simp [Expr.flat, h1], h2⟩
  | .unary op r =>
    simp only [stratBin, Bool.and_eq_true] at h
    exact ⟨op, r.flat, rfl, Or.inr h.1.1⟩
  | .assign .. => simp [stratBin] at h
  | .call c lp as rp =>
    obtain ⟨t, tl, h1, h2⟩ := firstTok1 T (.call c lp as rp) h (by simp [isCall])
    exact ⟨t, tl, h1, Or.inl h2⟩
  | .variable n =>
    obtain ⟨t, tl, h1, h2⟩ := firstTok1 T (.variable n) h (by simp [isPrimary])
    exact ⟨t, tl, h1, Or.inl h2⟩
  | .literal n =>
    obtain ⟨t, tl, h1, h2⟩ := firstTok1 T (.literal n) h (by simp [isPrimary])
    exact ⟨t, tl, h1, Or.inl h2⟩
  | .quoted n =>
    obtain ⟨t, tl, h1, h2⟩ := firstTok1 T (.quoted n) h (by simp [isPrimary])
    exact ⟨t, tl, h1, Or.inl h2⟩
  | .subset a b c d =>
    obtain ⟨t, tl, h1, h2⟩ := firstTok1 T (.subset a b c d) h (by simp [isPrimary])
    exact ⟨t, tl, h1, Or.inl h2⟩
  | .grouping a b c =>
    obtain ⟨t, tl, h1, h2⟩ := firstTok1 T (.grouping a b c) h (by simp [isPrimary])
    exact ⟨t, tl, h1, Or.inl h2⟩
  | .brace a b c =>
    obtain ⟨t, tl, h1, h2⟩ := firstTok1 T (.brace a b c) h (by simp [isPrimary])
    exact ⟨t, tl, h1, Or.inl h2⟩

theorem firstTok3 (e : Expr) (h : stratTop T e = true) :
    ∃ t tl, e.flat = t :: tl ∧ startOk T t.kind := by
  cases e with
  | assign n eq v =>
    simp only [stratTop, Bool.and_eq_true] at h
    obtain ⟨t, tl, h1, h2⟩ := firstTok2 T n h.1.1.1.2
    exact ⟨t, tl ++ eq :: v.flat, by simp [Expr.flat, h1], h2⟩
  | binary l op r =>
    simp only [stratTop] at h
    split at h
    · simp only [Bool.and_eq_true] at h
      obtain ⟨t, tl, h1, h2⟩ := firstTok2 T l h.1.1
      exact ⟨t, tl ++ op :: r.flat, by simp [Expr.flat, h1], h2⟩
    · exact firstTok2 T _ h
  | _ => exact firstTok2 T _ (by simpa [stratTop] using h)

theorem startOk_not_rparen (hW : TableWF T = true) {k : Kind} (h : startOk T k) :
    k ≠ .RIGHT_PAREN := by
  rcases h with h | h
  · revert h; cases k <;> decide
  · unfold TableWF at hW
    simp only [Bool.and_eq_true, List.all_eq_true] at hW
    have := hW.1.2 k (by simpa using h)
    simp only [Bool.not_eq_true', Bool.and_eq_true] at this
    intro hc; rw [hc] at this; revert this; decide

theorem firstTokArgs (hW : TableWF T = true) (a : Args) (h : stratArgs T a = true) (hn : a ≠ .nil) :
    ∃ t tl, a.flat = t :: tl ∧ t.kind ≠ .RIGHT_PAREN := by
  cases a with
  | nil => exact absurd rfl hn
  | last e =>
    simp only [stratArgs] at h
    obtain ⟨t, tl, h1, h2⟩ := firstTok3 T e h
    exact ⟨t, tl, by simp [Args.flat, h1], startOk_not_rparen T hW h2⟩
  | more e c rest =>
    unfold stratArgs at h
    simp only [Bool.and_eq_true] at h
    obtain ⟨t, tl, h1, h2⟩ := firstTok3 T e h.1.1.1
    exact ⟨t, tl ++ c :: rest.flat, by simp [Args.flat, h1], startOk_not_rparen T hW h2⟩

/-! the statements, per tree -/

structure RT (e : Expr) : Prop where
  top : stratTop T e = true → ∀ rest, topFollow rest →
    ∃ n, expression T n (e.flat ++ rest) = .ok (e, rest)
  bin : stratBin T e = true → ∀ m, m ≤ lvl T e → m ≤ T.levels.length → ∀ rest, followOk T m rest →
    ∃ n, binLevel T n (T.levels.drop m) (e.flat ++ rest) = .ok (e, rest)
  loop : stratBin T e = true → ∀ m ops lv, T.levels.drop m = ops :: lv → m ≤ lvl T e →
    ∀ rest, followOk T (m + 1) rest → ∀ res n1, binLoop T n1 ops lv e rest = .ok res →
    ∃ n, binLevel T n (ops :: lv) (e.flat ++ rest) = .ok res
  un : stratBin T e = true → T.levels.length ≤ lvl T e → ∀ rest, followOk T T.levels.length rest →
    ∃ n, unary T n (e.flat ++ rest) = .ok (e, rest)
  prim : stratBin T e = true → isPrimary e = true →
    ∀ rest, (∀ t tl, rest = t :: tl → t.kind ≠ .LEFT_BRACKET) →
    ∃ n, primary T n (e.flat ++ rest) = .ok (e, rest)
  callS : stratBin T e = true → (isPrimary e || isCall e) = true →
    ∀ rest, (∀ t tl, rest = t :: tl → t.kind ≠ .LEFT_BRACKET) →
    ∀ res n1, callLoop T n1 e rest = .ok res → ∃ n, call T n (e.flat ++ rest) = .ok res

structure RTA (a : Args) : Prop where
  args : stratArgs T a = true → a ≠ .nil →
    ∀ rest, (∀ t tl, rest = t :: tl → t.kind = .RIGHT_PAREN) →
    ∃ n, argList T n (a.flat ++ rest) = .ok (a, rest)

/-! generic derivations -/

theorem bin_of_un (hW : TableWF T = true) (e : Expr)
    (hU : ∀ rest, followOk T T.levels.length rest → ∃ n, unary T n (e.flat ++ rest) = .ok (e, rest)) :
    ∀ m, m ≤ T.levels.length → ∀ rest, followOk T m rest →
    ∃ n, binLevel T n (T.levels.drop m) (e.flat ++ rest) = .ok (e, rest) := by
  intro m hm rest hf
  obtain ⟨n, hn⟩ := hU rest (followOk_mono T hm hf)
  refine binLevel_lift T hW (j := T.levels.length) (Nat.le_refl _) ⟨n + 1, ?_⟩ (T.levels.length - m) m
    (by omega) hf
  rw [List.drop_length]; simpa [binLevel] using hn

theorem loop_of_bin (e : Expr) (m : Nat) {ops lv} (hd : T.levels.drop m = ops :: lv)
    (hB : ∀ rest, followOk T (m + 1) rest →
      ∃ n, binLevel T n (T.levels.drop (m + 1)) (e.flat ++ rest) = .ok (e, rest)) :
    ∀ rest, followOk T (m + 1) rest → ∀ res n1, binLoop T n1 ops lv e rest = .ok res →
    ∃ n, binLevel T n (ops :: lv) (e.flat ++ rest) = .ok res := by
  intro rest hf res n1 h1
  obtain ⟨n, hn⟩ := hB rest hf
  rw [(drop_succ_of_drop T hd).1] at hn
  exact binLevel_cons T hn h1

theorem tilde_of_bin {n : Nat} {ts e r} (h : binLevel T n T.levels ts = .ok (e, r))
    (hr : ∀ t tl, r = t :: tl → t.kind ≠ .TILDE) : tilde T (n + 1) ts = .ok (e, r) := by
  simp only [tilde, bind, Except.bind, h]
  cases r with
  | nil => rfl
  | cons t tl => simp [hr t tl rfl, pure, Except.pure]

theorem expression_of_tilde {n : Nat} {ts e r} (h : tilde T n ts = .ok (e, r))
    (hr : ∀ t tl, r = t :: tl → t.kind ≠ .EQUAL) : expression T (n + 2) ts = .ok (e, r) := by
  simp only [expression, assignment, bind, Except.bind, h]
  cases r with
  | nil => rfl
  | cons t tl => simp [hr t tl rfl, pure, Except.pure]

theorem top_of_bin (hW : TableWF T = true) (e : Expr)
    (hB : ∀ rest, followOk T 0 rest → ∃ n, binLevel T n (T.levels.drop 0) (e.flat ++ rest) = .ok (e, rest)) :
    ∀ rest, topFollow rest → ∃ n, expression T n (e.flat ++ rest) = .ok (e, rest) := by
  intro rest hf
  obtain ⟨n, hn⟩ := hB rest (followOk_of_top T hW hf 0)
  rw [List.drop_zero] at hn
  refine ⟨n + 3, expression_of_tilde T (tilde_of_bin T hn ?_) ?_⟩
  · intro t tl ht hc; rcases hf t tl ht with h | h | h | h <;> rw [h] at hc <;> cases hc
  · intro t tl ht hc; rcases hf t tl ht with h | h | h | h <;> rw [h] at hc <;> cases hc

theorem callLoop_exit {acc ts} (h : ∀ t tl, ts = t :: tl → t.kind ≠ .LEFT_PAREN) :
    callLoop T 1 acc ts = .ok (acc, ts) := by
  cases ts with
  | nil => rfl
  | cons t tl => simp [callLoop, h t tl rfl, pure, Except.pure]

theorem un_of_callS (hW : TableWF T = true) (e : Expr) (hs : stratBin T e = true)
    (hp : (isPrimary e || isCall e) = true)
    (hC : ∀ rest, (∀ t tl, rest = t :: tl → t.kind ≠ .LEFT_BRACKET) →
      ∀ res n1, callLoop T n1 e rest = .ok res → ∃ n, call T n (e.flat ++ rest) = .ok res) :
    ∀ rest, followOk T T.levels.length rest → ∃ n, unary T n (e.flat ++ rest) = .ok (e, rest) := by
  intro rest hf
  obtain ⟨n, hn⟩ := hC rest (fun t tl ht => (hf t tl ht).2.1) (e, rest) 1
    (callLoop_exit T (fun t tl ht => (hf t tl ht).1))
  obtain ⟨t, tl, h1, h2⟩ := firstTok1 T e hs hp
  have hnu : T.unaryOps.contains t.kind = false := by
    cases hc : T.unaryOps.contains t.kind with
    | false => rfl
    | true =>
      unfold TableWF at hW
      simp only [Bool.and_eq_true, List.all_eq_true] at hW
      have := hW.1.2 t.kind (by simpa using hc)
      simp only [Bool.not_eq_true', Bool.and_eq_true] at this
      rw [this.2] at h2; cases h2
  refine ⟨n + 1, ?_⟩
  rw [h1] at hn ⊢
  simp only [List.cons_append, unary, hnu]
  simpa using hn

theorem callS_of_prim (e : Expr)
    (hP : ∀ rest, (∀ t tl, rest = t :: tl → t.kind ≠ .LEFT_BRACKET) →
      ∃ n, primary T n (e.flat ++ rest) = .ok (e, rest)) :
    ∀ rest, (∀ t tl, rest = t :: tl → t.kind ≠ .LEFT_BRACKET) →
      ∀ res n1, callLoop T n1 e rest = .ok res → ∃ n, call T n (e.flat ++ rest) = .ok res := by
  intro rest hr res n1 h1
  obtain ⟨n, hn⟩ := hP rest hr
  refine ⟨max n n1 + 1, ?_⟩
  simp only [call, bind, Except.bind]
  rw [primary_mono T (Nat.le_max_left n n1) hn]
  exact callLoop_mono T (Nat.le_max_right n n1) h1

/-! assembling `RT` -/

theorem rt_nonbin (hW : TableWF T = true) (e : Expr) (hlv : T.levels.length ≤ lvl T e)
    (htop : stratTop T e = stratBin T e)
    (hU : stratBin T e = true → ∀ rest, followOk T T.levels.length rest →
      ∃ n, unary T n (e.flat ++ rest) = .ok (e, rest))
    (hP : stratBin T e = true → isPrimary e = true →
      ∀ rest, (∀ t tl, rest = t :: tl → t.kind ≠ .LEFT_BRACKET) →
      ∃ n, primary T n (e.flat ++ rest) = .ok (e, rest))
    (hC : stratBin T e = true → (isPrimary e || isCall e) = true →
      ∀ rest, (∀ t tl, rest = t :: tl → t.kind ≠ .LEFT_BRACKET) →
      ∀ res n1, callLoop T n1 e rest = .ok res → ∃ n, call T n (e.flat ++ rest) = .ok res) :
    RT T e := by
  refine ⟨?_, ?_, ?_, ?_, hP, hC⟩
  · intro hs rest hf
    rw [htop] at hs
    exact top_of_bin T hW e (bin_of_un T hW e (hU hs) 0 (Nat.zero_le _)) rest hf
  · intro hs m _ hm rest hf
    exact bin_of_un T hW e (hU hs) m hm rest hf
  · intro hs m ops lv hd _ rest hf res n1 h1
    have hm := (drop_succ_of_drop T hd).2
    exact loop_of_bin T e m hd (bin_of_un T hW e (hU hs) (m + 1) hm) rest hf res n1 h1
  · intro hs _ rest hf
    exact hU hs rest hf

theorem stratTop_eq_of_pc (e : Expr) (hp : (isPrimary e || isCall e) = true) :
    stratTop T e = stratBin T e := by
  cases e <;> simp_all [stratTop, isPrimary, isCall]

theorem rt_primlike (hW : TableWF T = true) (e : Expr) (hp : isPrimary e = true)
    (hP : stratBin T e = true →
      ∀ rest, (∀ t tl, rest = t :: tl → t.kind ≠ .LEFT_BRACKET) →
      ∃ n, primary T n (e.flat ++ rest) = .ok (e, rest)) : RT T e := by
  have hpc : (isPrimary e || isCall e) = true := by simp [hp]
  have hC : stratBin T e = true → (isPrimary e || isCall e) = true →
      ∀ rest, (∀ t tl, rest = t :: tl → t.kind ≠ .LEFT_BRACKET) →
      ∀ res n1, callLoop T n1 e rest = .ok res → ∃ n, call T n (e.flat ++ rest) = .ok res :=
    fun hs _ => callS_of_prim T e (hP hs)
  refine rt_nonbin T hW e ?_ (stratTop_eq_of_pc T e hpc) ?_ (fun hs _ => hP hs) hC
  · rw [lvl_of_primary_or_call T e hpc]; omega
  · intro hs
    exact un_of_callS T hW e hs hpc (hC hs hpc)

theorem rt_variable (hW : TableWF T = true) (t : Token) : RT T (.variable t) := by
  refine rt_primlike T hW _ rfl ?_
  intro hs rest hr
  simp only [stratBin, beq_iff_eq] at hs
  refine ⟨1, ?_⟩
  cases rest with
  | nil => simp [primary, Expr.flat, hs, pure, Except.pure]
  | cons u tl => simp [primary, Expr.flat, hs, hr u tl rfl, pure, Except.pure]

theorem rt_literal (hW : TableWF T = true) (t : Token) : RT T (.literal t) := by
  refine rt_primlike T hW _ rfl ?_
  intro hs rest hr
  simp only [stratBin, beq_iff_eq, Bool.or_eq_true] at hs
  refine ⟨1, ?_⟩
  rcases hs with (hs | hs) | hs <;> simp [primary, Expr.flat, hs, pure, Except.pure]

theorem rt_quoted (hW : TableWF T = true) (t : Token) : RT T (.quoted t) := by
  refine rt_primlike T hW _ rfl ?_
  intro hs rest hr
  simp only [stratBin, beq_iff_eq] at hs
  exact ⟨1, by simp [primary, Expr.flat, hs, pure, Except.pure]⟩

theorem consume_cons {k : Kind} {t : Token} {ts : List Token} (h : t.kind = k) :
    consume k (t :: ts) = .ok (t, ts) := by simp [consume, h]

theorem rt_grouping (hW : TableWF T = true) (lp : Token) (e : Expr) (rp : Token) (he : RT T e) :
    RT T (.grouping lp e rp) := by
  refine rt_primlike T hW _ rfl ?_
  intro hs rest hr
  simp only [stratBin, beq_iff_eq, Bool.and_eq_true] at hs
  obtain ⟨n, hn⟩ := he.top hs.2 (rp :: rest) (by intro t tl ht; cases ht; exact Or.inl hs.1.2)
  refine ⟨n + 1, ?_⟩
  simp only [Expr.flat, List.cons_append, List.append_assoc, List.nil_append, primary, hs.1.1, bind, Except.bind, hn,
    consume_cons hs.1.2, pure, Except.pure]

theorem rt_brace (hW : TableWF T = true) (lb : Token) (e : Expr) (rb : Token) (he : RT T e) :
    RT T (.brace lb e rb) := by
  refine rt_primlike T hW _ rfl ?_
  intro hs rest hr
  simp only [stratBin, beq_iff_eq, Bool.and_eq_true] at hs
  obtain ⟨n, hn⟩ := he.top hs.2 (rb :: rest) (by intro t tl ht; cases ht; exact Or.inr (Or.inr (Or.inl hs.1.2)))
  refine ⟨n + 1, ?_⟩
  simp only [Expr.flat, List.cons_append, List.append_assoc, List.nil_append, primary, hs.1.1, bind, Except.bind, hn,
    consume_cons hs.1.2, pure, Except.pure]

theorem rt_subset (hW : TableWF T = true) (nm lb : Token) (lv : Expr) (rb : Token) (hlv : RT T lv) :
    RT T (.subset nm lb lv rb) := by
  refine rt_primlike T hW _ rfl ?_
  intro hs rest hr
  simp only [stratBin, beq_iff_eq, Bool.and_eq_true] at hs
  obtain ⟨⟨⟨⟨⟨h1, h2⟩, h3⟩, h4⟩, h5⟩, h6⟩ := hs
  obtain ⟨n, hn⟩ := hlv.prim h6 h4 (rb :: rest) (by intro t tl ht; cases ht; rw [h3]; decide)
  refine ⟨n + 1, ?_⟩
  simp only [Expr.flat, List.cons_append, List.append_assoc, List.nil_append, primary, h1, h2, if_true, bind, Except.bind, hn,
    consume_cons h3, pure, Except.pure, h5]

theorem rt_unary (hW : TableWF T = true) (op : Token) (r : Expr) (hr : RT T r) :
    RT T (.unary op r) := by
  refine rt_nonbin T hW _ (by simp [lvl]) (by simp [stratTop]) ?_ (by intro _ h; cases h) (by intro _ h; cases h)
  intro hs rest hf
  simp only [stratBin, Bool.and_eq_true, decide_eq_true_eq] at hs
  obtain ⟨n, hn⟩ := hr.un hs.1.2 hs.2 rest hf
  refine ⟨n + 1, ?_⟩
  simp only [Expr.flat, List.cons_append, unary, hs.1.1, if_true, bind, Except.bind, hn, pure, Except.pure]


theorem rta_nil : RTA T .nil := ⟨fun _ h => absurd rfl h⟩

theorem rta_last (e : Expr) (he : RT T e) : RTA T (.last e) := by
  refine ⟨?_⟩
  intro hs _ rest hr
  simp only [stratArgs] at hs
  obtain ⟨n, hn⟩ := he.top hs rest (by intro t tl ht; exact Or.inl (hr t tl ht))
  refine ⟨n + 1, ?_⟩
  simp only [Args.flat, argList, bind, Except.bind, hn]
  cases rest with
  | nil => rfl
  | cons t tl =>
    have : t.kind ≠ .COMMA := by rw [hr t tl rfl]; decide
    simp [this, pure, Except.pure]

theorem rta_more (e : Expr) (c : Token) (a : Args) (he : RT T e) (ha : RTA T a) :
    RTA T (.more e c a) := by
  refine ⟨?_⟩
  intro hs _ rest hr
  unfold stratArgs at hs
  simp only [Bool.and_eq_true, beq_iff_eq] at hs
  obtain ⟨⟨⟨h1, h2⟩, h3⟩, h4⟩ := hs
  have hne : a ≠ .nil := by intro hc; subst hc; simp at h4
  obtain ⟨n1, hn1⟩ := he.top h1 (c :: (a.flat ++ rest))
    (by intro t tl ht; cases ht; exact Or.inr (Or.inr (Or.inr h2)))
  obtain ⟨n2, hn2⟩ := ha.args h3 hne rest hr
  refine ⟨max n1 n2 + 1, ?_⟩
  simp only [Args.flat, List.append_assoc, List.cons_append, argList, bind, Except.bind,
    expression_mono T (Nat.le_max_left n1 n2) hn1, h2, if_true,
    argList_mono T (Nat.le_max_right n1 n2) hn2, pure, Except.pure]

theorem rt_call (hW : TableWF T = true) (c : Expr) (lp : Token) (as : Args) (rp : Token)
    (hc : RT T c) (ha : RTA T as) : RT T (.call c lp as rp) := by
  have hpc : (isPrimary (.call c lp as rp) || isCall (.call c lp as rp)) = true := by simp [isCall]
  have hC : stratBin T (.call c lp as rp) = true →
      (isPrimary (.call c lp as rp) || isCall (.call c lp as rp)) = true →
      ∀ rest, (∀ t tl, rest = t :: tl → t.kind ≠ .LEFT_BRACKET) →
      ∀ res n1, callLoop T n1 (.call c lp as rp) rest = .ok res →
      ∃ n, call T n ((Expr.call c lp as rp).flat ++ rest) = .ok res := by
    intro hs _ rest hr res n1 h1
    simp only [stratBin, Bool.and_eq_true, beq_iff_eq] at hs
    obtain ⟨⟨⟨⟨h1c, h2c⟩, hlp⟩, hrp⟩, hsa⟩ := hs
    have hflat : (Expr.call c lp as rp).flat ++ rest = c.flat ++ lp :: (as.flat ++ rp :: rest) := by
      simp [Expr.flat]
    rw [hflat]
    suffices h : ∃ n, callLoop T n c (lp :: (as.flat ++ rp :: rest)) = .ok res by
      obtain ⟨n, hn⟩ := h
      exact hc.callS h2c h1c _ (by intro t tl ht; cases ht; rw [hlp]; decide) res n hn
    by_cases hnil : as = .nil
    · subst hnil
      refine ⟨n1 + 1, ?_⟩
      simp only [Args.flat, List.nil_append, callLoop, hlp, hrp, if_true]
      exact h1
    · obtain ⟨u, tl, hu, hune⟩ := firstTokArgs T hW as hsa hnil
      obtain ⟨n2, hn2⟩ := ha.args hsa hnil (rp :: rest) (by intro t tl ht; cases ht; exact hrp)
      refine ⟨max n1 n2 + 1, ?_⟩
      have hts : as.flat ++ rp :: rest = u :: (tl ++ rp :: rest) := by simp [hu]
      have hn2' := argList_mono T (Nat.le_max_right n1 n2) hn2
      rw [hts] at hn2' ⊢
      simp only [callLoop, hlp, if_true, hune, if_false, bind, Except.bind, hn2', consume_cons hrp]
      exact callLoop_mono T (Nat.le_max_left n1 n2) h1
  refine rt_nonbin T hW _ ?_ (stratTop_eq_of_pc T _ hpc) ?_ (by intro _ h; cases h) hC
  · rw [lvl_of_primary_or_call T _ hpc]; omega
  · intro hs
    exact un_of_callS T hW _ hs hpc (hC hs hpc)


theorem stratBin_binary {l : Expr} {op : Token} {r : Expr} (h : stratBin T (.binary l op r) = true) :
    ∃ i, opLevel T op.kind = some i ∧ stratBin T l = true ∧ stratBin T r = true ∧ i ≤ lvl T l ∧
      i < lvl T r := by
  simp only [stratBin] at h
  split at h
  · rename_i i hi
    simp only [Bool.and_eq_true, decide_eq_true_eq] at h
    exact ⟨i, hi, h.1.1.1, h.1.1.2, h.1.2, h.2⟩
  · cases h

theorem rt_binary (hW : TableWF T = true) (l : Expr) (op : Token) (r : Expr)
    (hl : RT T l) (hr : RT T r) : RT T (.binary l op r) := by
  have hTR : T.tildeRight ≤ T.levels.length := by
    unfold TableWF at hW; simp only [Bool.and_eq_true, decide_eq_true_eq] at hW; exact hW.2
  have hflat : ∀ rest, (Expr.binary l op r).flat ++ rest = l.flat ++ op :: (r.flat ++ rest) := by
    intro rest; simp [Expr.flat]
  -- the loop statement at the node's own level
  have loopI : stratBin T (.binary l op r) = true → ∀ i, opLevel T op.kind = some i →
      ∀ ops lv, T.levels.drop i = ops :: lv →
      ∀ rest, followOk T (i + 1) rest → ∀ res n1, binLoop T n1 ops lv (.binary l op r) rest = .ok res →
      ∃ n, binLevel T n (ops :: lv) ((Expr.binary l op r).flat ++ rest) = .ok res := by
    intro hs i hop ops lv hd rest hf res n1 h1
    obtain ⟨i', hop', hsl, hsr, hil, hir⟩ := stratBin_binary T hs
    have : i' = i := by rw [hop] at hop'; cases hop'; rfl
    subst this
    have hiL := opLevel_lt T hop
    have hnc := not_closer_of_opLevel T hW hop
    obtain ⟨n2, hn2⟩ := hr.bin hsr (i' + 1) (by omega) (by omega) rest hf
    rw [(drop_succ_of_drop T hd).1] at hn2
    obtain ⟨n3, hn3⟩ := binLoop_step T (acc := l) (mem_of_opLevel T hop hd) hn2 h1
    rw [hflat]
    refine hl.loop hsl i' ops lv hd hil _ ?_ res n3 hn3
    intro t tl ht
    cases ht
    refine ⟨?_, ?_, ?_⟩
    · intro hc; rw [hc] at hnc; revert hnc; decide
    · intro hc; rw [hc] at hnc; revert hnc; decide
    · intro j hj; rw [hop] at hj; cases hj; omega
  have binAll : stratBin T (.binary l op r) = true → ∀ m, m ≤ lvl T (.binary l op r) →
      m ≤ T.levels.length → ∀ rest, followOk T m rest →
      ∃ n, binLevel T n (T.levels.drop m) ((Expr.binary l op r).flat ++ rest) = .ok (.binary l op r, rest) := by
    intro hs m hm _ rest hf
    obtain ⟨i, hop, _⟩ := stratBin_binary T hs
    have hlv : lvl T (.binary l op r) = i := by simp [lvl, hop]
    rw [hlv] at hm
    have hiL := opLevel_lt T hop
    obtain ⟨ops, hd⟩ := drop_cons_of_lt T hiL
    have hfi : followOk T i rest := followOk_mono T hm hf
    have := loopI hs i hop ops _ hd rest (followOk_mono T (by omega) hfi) _ 1
      (binLoop_exit T (exit_of_followOk T hW hd hfi))
    rw [← hd] at this
    exact binLevel_lift T hW (j := i) (by omega) this (i - m) m (by omega) hf
  refine ⟨?_, binAll, ?_, ?_, (by intro _ h; cases h), (by intro _ h; cases h)⟩
  · -- top
    intro hs rest hf
    simp only [stratTop] at hs
    split at hs
    · rename_i hk
      have hk' : op.kind = .TILDE := by simpa using hk
      simp only [Bool.and_eq_true, decide_eq_true_eq] at hs
      obtain ⟨⟨hsl, hsr⟩, htr⟩ := hs
      obtain ⟨n1, hn1⟩ := hl.bin hsl 0 (Nat.zero_le _) (Nat.zero_le _) (op :: (r.flat ++ rest)) (by
        intro t tl ht; cases ht
        have := opLevel_closer T hW .TILDE (by decide)
        rw [hk']
        exact ⟨by decide, by decide, fun i hi => by rw [this] at hi; cases hi⟩)
      obtain ⟨n2, hn2⟩ := hr.bin hsr T.tildeRight htr hTR rest (followOk_of_top T hW hf _)
      rw [List.drop_zero] at hn1
      rw [hflat]
      refine ⟨max n1 n2 + 3, ?_⟩
      refine expression_of_tilde T (n := max n1 n2 + 1) ?_ ?_
      · simp only [tilde, bind, Except.bind, binLevel_mono T (Nat.le_max_left n1 n2) hn1, hk', if_true,
          binLevel_mono T (Nat.le_max_right n1 n2) hn2, pure, Except.pure]
      · intro t tl ht hc; rcases hf t tl ht with h | h | h | h <;> rw [h] at hc <;> cases hc
    · exact top_of_bin T hW _ (binAll hs 0 (Nat.zero_le _) (Nat.zero_le _)) rest hf
  · -- loop
    intro hs m ops lv hd hm rest hf res n1 h1
    obtain ⟨i, hop, _⟩ := stratBin_binary T hs
    have hlv : lvl T (.binary l op r) = i := by simp [lvl, hop]
    by_cases hmi : m = i
    · subst hmi
      exact loopI hs m hop ops lv hd rest hf res n1 h1
    · have hmL := (drop_succ_of_drop T hd).2
      exact loop_of_bin T _ m hd (binAll hs (m + 1) (by omega) (by omega)) rest hf res n1 h1
  · -- un
    intro hs hL
    obtain ⟨i, hop, _⟩ := stratBin_binary T hs
    have hlv : lvl T (.binary l op r) = i := by simp [lvl, hop]
    have := opLevel_lt T hop
    omega

theorem rt_assign (hW : TableWF T = true) (nm : Expr) (eq : Token) (v : Expr)
    (hn : RT T nm) (hv : RT T v) : RT T (.assign nm eq v) := by
  have hTR : T.tildeRight ≤ T.levels.length := by
    unfold TableWF at hW; simp only [Bool.and_eq_true, decide_eq_true_eq] at hW; exact hW.2
  have hF : stratBin T (.assign nm eq v) = false := by simp [stratBin]
  refine ⟨?_, by simp [hF], by simp [hF], by simp [hF], by simp [hF], by simp [hF]⟩
  intro hs rest hf
  simp only [stratTop, Bool.and_eq_true, decide_eq_true_eq, beq_iff_eq] at hs
  obtain ⟨⟨⟨⟨hvar, hsn⟩, heq⟩, hsv⟩, htr⟩ := hs
  obtain ⟨n1, hn1⟩ := hn.bin hsn 0 (Nat.zero_le _) (Nat.zero_le _) (eq :: (v.flat ++ rest)) (by
    intro t tl ht; cases ht
    have := opLevel_closer T hW .EQUAL (by decide)
    rw [heq]
    exact ⟨by decide, by decide, fun i hi => by rw [this] at hi; cases hi⟩)
  obtain ⟨n2, hn2⟩ := hv.bin hsv T.tildeRight htr hTR rest (followOk_of_top T hW hf _)
  rw [List.drop_zero] at hn1
  have ht := tilde_of_bin T hn1 (by intro t tl ht hc; cases ht; rw [heq] at hc; cases hc)
  have hflat : (Expr.assign nm eq v).flat ++ rest = nm.flat ++ eq :: (v.flat ++ rest) := by
    simp [Expr.flat]
  rw [hflat]
  refine ⟨max (n1 + 1) n2 + 2, ?_⟩
  have ht' : tilde T (max (n1 + 1) n2) (nm.flat ++ eq :: (v.flat ++ rest)) =
      .ok (nm, eq :: (v.flat ++ rest)) :=
    (mono_of_step (fun n ts => tilde T n ts) (fun n x => (monoAt T n).tilde x)
      (Nat.le_max_left (n1 + 1) n2) _ (by simp [ht])).trans ht
  simp only [expression, assignment, bind, Except.bind, ht', heq, if_true,
    binLevel_mono T (Nat.le_max_right (n1 + 1) n2) hn2, hvar, pure, Except.pure]

mutual
theorem rt (hW : TableWF T = true) : (e : Expr) → RT T e
  | .assign n eq v => rt_assign T hW n eq v (rt hW n) (rt hW v)
  | .grouping lp e rp => rt_grouping T hW lp e rp (rt hW e)
  | .binary l op r => rt_binary T hW l op r (rt hW l) (rt hW r)
  | .unary op r => rt_unary T hW op r (rt hW r)
  | .call c lp as rp => rt_call T hW c lp as rp (rt hW c) (rta hW as)
  | .brace lb e rb => rt_brace T hW lb e rb (rt hW e)
  | .variable t => rt_variable T hW t
  | .subset n lb lv rb => rt_subset T hW n lb lv rb (rt hW lv)
  | .quoted t => rt_quoted T hW t
  | .literal t => rt_literal T hW t
theorem rta (hW : TableWF T = true) : (a : Args) → RTA T a
  | .nil => rta_nil T
  | .last e => rta_last T e (rt hW e)
  | .more e c rest => rta_more T e c rest (rt hW e) (rta hW rest)
end

/-- Completeness: a derivation is what the parser returns for its yield. -/
theorem roundtrip_fuel (hW : TableWF T = true) (e : Expr) (h : stratTop T e = true) :
    ∃ n, parseFuel T n e.flat = .ok e := by
  obtain ⟨n, hn⟩ := (rt T hW e).top h [] (by intro t tl ht; cases ht)
  rw [List.append_nil] at hn
  refine ⟨n, ?_⟩
  simp only [parseFuel, bind, Except.bind, hn]
  split <;> rfl

theorem roundtrip (hW : TableWF T = true) (e : Expr) (h : stratTop T e = true) :
    parse T e.flat = .ok e := by
  obtain ⟨n, hn⟩ := roundtrip_fuel T hW e h
  exact parse_of_parseFuel T hn

/-! ### Part 3: the fully parenthesised form -/

theorem isPrimary_groupAll (e : Expr) : isPrimary (groupAll e) = isPrimary e := by
  cases e <;> simp [groupAll, isPrimary]

theorem isCall_groupAll (e : Expr) : isCall (groupAll e) = isCall e := by
  cases e <;> simp [groupAll, isCall]

theorem groupAllArgs_eq_nil (a : Args) : groupAllArgs a = .nil ↔ a = .nil := by
  cases a <;> simp [groupAllArgs]

theorem stratBin_grouping_of (hW : TableWF T = true) (e : Expr) (h : stratBin T e = true) :
    stratBin T (.grouping lp e rp) = true := by
  simp [stratBin, lp, rp, stratTop_of_stratBin T hW e h]

mutual
theorem groupAll_strat (hW : TableWF T = true) : (e : Expr) →
    (stratBin T e = true → stratBin T (groupAll e) = true) ∧
    (stratTop T e = true → stratTop T (groupAll e) = true)
  | .assign n eq v => by
    refine ⟨by simp [stratBin], ?_⟩
    intro h
    simp only [stratTop, Bool.and_eq_true, decide_eq_true_eq, beq_iff_eq] at h
    obtain ⟨⟨⟨⟨hvar, hsn⟩, heq⟩, hsv⟩, htr⟩ := h
    have hTR : T.tildeRight ≤ T.levels.length := by
      unfold TableWF at hW; simp only [Bool.and_eq_true, decide_eq_true_eq] at hW; exact hW.2
    have := stratBin_grouping_of T hW _ ((groupAll_strat hW v).1 hsv)
    simp only [groupAll, stratTop, hvar, hsn, heq, this, Bool.and_eq_true, decide_eq_true_eq, beq_self_eq_true, and_self, true_and]
    simp only [lvl]; omega
  | .grouping l e r => by
    have ih := groupAll_strat hW e
    have : stratBin T (.grouping l e r) = true → stratBin T (groupAll (.grouping l e r)) = true := by
      intro h
      simp only [stratBin, Bool.and_eq_true] at h
      simp [groupAll, stratBin, h.1.1, h.1.2, ih.2 h.2]
    exact ⟨this, fun h => by simpa [groupAll, stratTop] using this (by simpa [stratTop] using h)⟩
  | .binary l op r => by
    have ihl := groupAll_strat hW l
    have ihr := groupAll_strat hW r
    have hb : stratBin T (.binary l op r) = true → stratBin T (groupAll (.binary l op r)) = true := by
      intro h
      obtain ⟨i, hop, hsl, hsr, _, _⟩ := stratBin_binary T h
      have := opLevel_lt T hop
      simp only [groupAll, stratBin, hop, stratBin_grouping_of T hW _ (ihl.1 hsl),
        stratBin_grouping_of T hW _ (ihr.1 hsr), Bool.and_eq_true, decide_eq_true_eq, Bool.true_and, and_self, true_and]
      simp only [lvl]; omega
    refine ⟨hb, ?_⟩
    intro h
    simp only [stratTop] at h
    split at h
    · rename_i hk
      simp only [Bool.and_eq_true, decide_eq_true_eq] at h
      have hTR : T.tildeRight ≤ T.levels.length := by
        unfold TableWF at hW; simp only [Bool.and_eq_true, decide_eq_true_eq] at hW; exact hW.2
      simp only [groupAll, stratTop, hk, if_true, stratBin_grouping_of T hW _ (ihl.1 h.1.1),
        stratBin_grouping_of T hW _ (ihr.1 h.1.2), Bool.and_eq_true, decide_eq_true_eq, Bool.true_and, and_self, true_and]
      simp only [lvl]; omega
    · exact stratTop_of_stratBin T hW _ (hb h)
  | .unary op r => by
    have ih := groupAll_strat hW r
    have : stratBin T (.unary op r) = true → stratBin T (groupAll (.unary op r)) = true := by
      intro h
      simp only [stratBin, Bool.and_eq_true, decide_eq_true_eq] at h
      simp only [groupAll, stratBin, h.1.1, stratBin_grouping_of T hW _ (ih.1 h.1.2),
        Bool.and_eq_true, decide_eq_true_eq, Bool.true_and, and_self, true_and]
      simp only [lvl]; omega
    exact ⟨this, fun h => by simpa [groupAll, stratTop] using this (by simpa [stratTop] using h)⟩
  | .call c l as r => by
    have ih := groupAll_strat hW c
    have iha := groupAllArgs_strat hW as
    have : stratBin T (.call c l as r) = true → stratBin T (groupAll (.call c l as r)) = true := by
      intro h
      simp only [stratBin, Bool.and_eq_true] at h
      obtain ⟨⟨⟨⟨h1, h2⟩, h3⟩, h4⟩, h5⟩ := h
      simp only [groupAll, stratBin, isPrimary_groupAll, isCall_groupAll, h1, ih.1 h2, h3, h4, iha h5,
        Bool.and_self]
    exact ⟨this, fun h => by simpa [groupAll, stratTop] using this (by simpa [stratTop] using h)⟩
  | .brace l e r => by
    have ih := groupAll_strat hW e
    have : stratBin T (.brace l e r) = true → stratBin T (groupAll (.brace l e r)) = true := by
      intro h
      simp only [stratBin, Bool.and_eq_true] at h
      simp [groupAll, stratBin, h.1.1, h.1.2, ih.2 h.2]
    exact ⟨this, fun h => by simpa [groupAll, stratTop] using this (by simpa [stratTop] using h)⟩
  | .variable t => by simp [groupAll]
  | .subset n lb lv rb => by simp [groupAll]
  | .quoted t => by simp [groupAll]
  | .literal t => by simp [groupAll]
theorem groupAllArgs_strat (hW : TableWF T = true) : (a : Args) →
    stratArgs T a = true → stratArgs T (groupAllArgs a) = true
  | .nil => by simp [groupAllArgs]
  | .last e => by
    intro h
    simp only [stratArgs] at h
    simpa [groupAllArgs, stratArgs] using (groupAll_strat hW e).2 h
  | .more e c rest => by
    intro h
    unfold stratArgs at h
    simp only [Bool.and_eq_true] at h
    obtain ⟨⟨⟨h1, h2⟩, h3⟩, h4⟩ := h
    have hne : rest ≠ .nil := by intro hc; subst hc; simp at h4
    have hne' : groupAllArgs rest ≠ .nil := fun hc => hne ((groupAllArgs_eq_nil rest).1 hc)
    unfold groupAllArgs stratArgs
    simp only [(groupAll_strat hW e).2 h1, h2, groupAllArgs_strat hW rest h3, Bool.true_and]
end

mutual
theorem ungroup_groupAll : (e : Expr) → ungroup (groupAll e) = ungroup e
  | .assign n eq v => by simp [groupAll, ungroup, ungroup_groupAll v]
  | .grouping l e r => by simp [groupAll, ungroup, ungroup_groupAll e]
  | .binary l op r => by simp [groupAll, ungroup, ungroup_groupAll l, ungroup_groupAll r]
  | .unary op r => by simp [groupAll, ungroup, ungroup_groupAll r]
  | .call c l as r => by simp [groupAll, ungroup, ungroup_groupAll c, ungroupArgs_groupAllArgs as]
  | .brace l e r => by simp [groupAll, ungroup, ungroup_groupAll e]
  | .variable t => by simp [groupAll]
  | .subset n lb lv rb => by simp [groupAll]
  | .quoted t => by simp [groupAll]
  | .literal t => by simp [groupAll]
theorem ungroupArgs_groupAllArgs : (a : Args) → ungroupArgs (groupAllArgs a) = ungroupArgs a
  | .nil => by simp [groupAllArgs]
  | .last e => by simp [groupAllArgs, ungroupArgs, ungroup_groupAll e]
  | .more e c rest => by simp [groupAllArgs, ungroupArgs, ungroup_groupAll e, ungroupArgs_groupAllArgs rest]
end

end FormulaeModel.Parser

