import FormulaeModel.Model.Matrices
/-
Helper lemmas for C04: the rows of the treatment contrast matrices are level indicators.
-/
namespace FormulaeModel.Design
open FormulaeModel

theorem unitRow_length (n j : Nat) : (unitRow n j).length = n := by simp [unitRow]

theorem unitRow_get (n j k : Nat) (hk : k < n) :
    (unitRow n j)[k]'(by simp [unitRow]; exact hk) = if k = j then 1 else 0 := by
  simp [unitRow]

theorem indexOf?_some {α} [DecidableEq α] (x : α) (xs : List α) (i : Nat)
    (h : indexOf? x xs = some i) : ∃ hi : i < xs.length, xs[i] = x := by
  unfold indexOf? at h
  simp only at h
  split at h
  · rename_i hlt
    simp only [Option.some.injEq] at h
    subst h
    refine ⟨hlt, ?_⟩
    have := List.findIdx_getElem (w := hlt)
    simpa using this
  · simp at h

/-- with distinct levels, a level sits at exactly one index -/
theorem nodup_index_unique {α} (xs : List α) (hn : xs.Nodup) (i j : Nat) (hi : i < xs.length)
    (hj : j < xs.length) (h : xs[i] = xs[j]) : i = j :=
  (List.getElem_inj hn).mp h

/-- Full treatment coding: the row of level number `i` is the indicator of column `i`;
column `j` is labelled with level `j`. -/
theorem treatmentFull_entry (levels : List Level) (i j : Nat) (hi : i < levels.length)
    (hj : j < levels.length) :
    ((treatmentFull levels).rows[i]'(by simp [treatmentFull]; exact hi))[j]'(by
        simp [treatmentFull, unitRow]; exact hj) = if j = i then 1 else 0 := by
  simp [treatmentFull, unitRow]

theorem treatmentFull_labels (levels : List Level) :
    (treatmentFull levels).labels = levels.map Level.label := rfl

/-- "a column labelled v[l] is 1 exactly on the rows where v equals level l" (full coding) -/
theorem treatmentFull_indicator (levels : List Level) (hn : levels.Nodup) (i j : Nat)
    (hi : i < levels.length) (hj : j < levels.length) :
    ((treatmentFull levels).rows[i]'(by simp [treatmentFull]; exact hi))[j]'(by
        simp [treatmentFull, unitRow]; exact hj) = if levels[i] = levels[j] then 1 else 0 := by
  rw [treatmentFull_entry levels i j hi hj]
  by_cases h : j = i
  · subst h; simp
  · have : levels[i] ≠ levels[j] := fun he => h (nodup_index_unique levels hn i j hi hj he).symm
    simp [h, this]

end FormulaeModel.Design

namespace FormulaeModel.Design
open FormulaeModel

/-- the matrix `treatmentReduced` builds once the reference index `r` is known -/
def reducedRows (n r : Nat) : List (List Int) :=
  (List.range n).map (fun i =>
    if i < r then unitRow (n - 1) i else if i == r then List.replicate (n - 1) 0
    else unitRow (n - 1) (i - 1))

theorem treatmentReduced_ok (reference : Option Level) (levels : List Level) (cm : ContrastMatrix)
    (h : treatmentReduced reference levels = .ok cm) :
    ∃ r, (reference = none ∧ r = 0 ∨ ∃ l, reference = some l ∧ indexOf? l levels = some r) ∧
      cm.rows = reducedRows levels.length r ∧
      cm.labels = ((levels.take r) ++ (levels.drop (r + 1))).map Level.label := by
  unfold treatmentReduced at h
  cases reference with
  | none =>
    simp only [bind, Except.bind, pure, Except.pure] at h
    refine ⟨0, Or.inl ⟨rfl, rfl⟩, ?_⟩
    cases h
    simp [reducedRows]
  | some l =>
    simp only [bind, Except.bind, pure, Except.pure] at h
    split at h
    · rename_i i hi
      simp only [Except.ok.injEq] at h
      subst h
      exact ⟨i, Or.inr ⟨l, rfl, hi⟩, by simp [reducedRows], by simp [List.map_take, List.map_drop]⟩
    · simp at h

/-- entry (i, j) of the reduced treatment matrix: 1 iff level `i` is the level of column `j`,
where column `j` stands for level `j` below the reference and level `j + 1` from the reference on -/
theorem reducedRows_entry (n r i j : Nat) (hi : i < n) (hj : j < n - 1) :
    ((reducedRows n r)[i]'(by simp [reducedRows]; exact hi))[j]? =
      some (if i = (if j < r then j else j + 1) then 1 else 0) := by
  simp only [reducedRows, List.getElem_map, List.getElem_range]
  by_cases h1 : i < r
  · simp only [h1, if_true]
    rw [List.getElem?_eq_getElem (by simp [unitRow]; exact hj)]
    rw [unitRow_get _ _ _ hj]
    congr 1
    by_cases h2 : j < r <;> simp [h2] <;> (split <;> split <;> omega)
  · by_cases h2 : i = r
    · subst h2
      simp only [Nat.lt_irrefl, if_false, beq_self_eq_true, if_true]
      rw [List.getElem?_eq_getElem (by simp; exact hj)]
      simp only [List.getElem_replicate, Option.some.injEq]
      by_cases h3 : j < i <;> simp [h3] <;> omega
    · have : (i == r) = false := by simpa using h2
      simp only [h1, if_false, this, Bool.false_eq_true]
      rw [List.getElem?_eq_getElem (by simp [unitRow]; exact hj)]
      rw [unitRow_get _ _ _ hj]
      congr 1
      by_cases h3 : j < r <;> simp [h3] <;> (split <;> split <;> omega)

/-- the labels of the reduced coding are the levels with the reference removed, in order -/
theorem take_drop_eq_eraseIdx {α} (xs : List α) (r : Nat) :
    xs.take r ++ xs.drop (r + 1) = xs.eraseIdx r := by
  rw [List.eraseIdx_eq_take_drop_succ]

/-- "a column labelled v[l] is 1 exactly on the rows where v equals level l" (reduced coding):
the entry for data level `levels[i]` in the column labelled `(levels.eraseIdx r)[j]` -/
theorem reduced_indicator (levels : List Level) (hn : levels.Nodup) (r i j : Nat)
    (hr : r < levels.length) (hi : i < levels.length) (hj : j < levels.length - 1) :
    ((reducedRows levels.length r)[i]'(by simp [reducedRows]; exact hi))[j]? =
      some (if levels[i] = (levels.eraseIdx r)[j]'(by rw [List.length_eraseIdx]; simp [hr]; exact hj)
            then 1 else 0) := by
  rw [reducedRows_entry _ _ _ _ hi hj]
  congr 1
  rw [List.getElem_eraseIdx]
  by_cases h : j < r
  · simp only [h, if_true, dif_pos]
    by_cases h2 : i = j
    · subst h2; simp
    · have : levels[i] ≠ levels[j] := fun he => h2 (nodup_index_unique levels hn i j hi (by omega) he)
      simp [h2, this]
  · simp only [h, if_false, dif_neg, not_false_eq_true]
    by_cases h2 : i = j + 1
    · subst h2; simp
    · have : levels[i] ≠ levels[j + 1] :=
        fun he => h2 (nodup_index_unique levels hn i (j + 1) hi (by omega) he)
      simp [h2, this]

end FormulaeModel.Design
