import FormulaeModel.Proofs.TransformsPoly
import FormulaeModel.Proofs.TransformsDistinct
/-
Assembling the Spec-level statements about `poly`.
-/
namespace FormulaeModel.Transforms.Poly
open FormulaeModel.Transforms FormulaeModel.Transforms.Ortho

theorem dot_map (x : List Rat) (f g : Rat → Rat) :
    Spec.C14.dot (x.map f) (x.map g) = ip x f g := by
  unfold Spec.C14.dot ip
  rw [sum_eq_spec]
  congr 1
  induction x with
  | nil => rfl
  | cons a l ih => simp [ih]

/-- symmetric form of `Ortho.orthogonal` -/
theorem orthogonal_ne (x : List Rat) (D : Nat) (hN : ∀ j < D, norm2 x j ≠ 0) (j k : Nat)
    (hj : j ≤ D) (hk : k ≤ D) (hjk : j ≠ k) : ip x (p x k) (p x j) = 0 := by
  rcases Nat.lt_or_gt_of_ne hjk with h | h
  · exact orthogonal x D hN k hk j h
  · rw [ip_comm]; exact orthogonal x D hN j hj k h

/-- the exact (root-free) orthonormality contract for any list of pairwise distinct indices -/
theorem orthoExact_of (x : List Rat) (D : Nat) (hN : ∀ j ≤ D, norm2 x j ≠ 0) :
    ∀ ks : List Nat, ks.Nodup → (∀ k ∈ ks, 1 ≤ k ∧ k ≤ D) →
      Spec.C14.orthoExact (ks.map (fun k => (x.map (p x k), norm2 x k))) = true := by
  intro ks
  induction ks with
  | nil => intro _ _; rfl
  | cons k ks ih =>
    intro hnd hr
    rw [List.nodup_cons] at hnd
    have hk := hr k (by simp)
    simp only [List.map_cons, Spec.C14.orthoExact, Bool.and_eq_true, decide_eq_true_eq,
      List.all_eq_true]
    refine ⟨⟨⟨⟨?_, ?_⟩, ?_⟩, ?_⟩, ih hnd.2 (fun k' hk' => hr k' (by simp [hk']))⟩
    · exact norm2_pos x k (hN k hk.2)
    · rw [dot_map]; rfl
    · rw [sum_eq_spec]
      exact orthogonal_const x D (fun j hj => hN j (by omega)) k hk.2 hk.1
    · intro d hd
      obtain ⟨k', hk', rfl⟩ := List.mem_map.mp hd
      simp only
      rw [dot_map, ip_comm]
      have hne : k ≠ k' := fun h => hnd.1 (h ▸ hk')
      exact orthogonal_ne x D (fun j hj => hN j (by omega)) k k' hk.2 (hr k' (by simp [hk'])).2 hne

theorem nodup_range' (s n : Nat) : (List.range' s n).Nodup := List.nodup_range' (step := 1) (by omega)

theorem mem_range'_1 (D k : Nat) (h : k ∈ List.range' 1 D) : 1 ≤ k ∧ k ≤ D := by
  rw [List.mem_range'_1] at h; omega

end FormulaeModel.Transforms.Poly
