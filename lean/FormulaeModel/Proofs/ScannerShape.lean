import FormulaeModel.Spec.C01
import FormulaeModel.Spec.C02
import FormulaeModel.Model.Scanner
import FormulaeModel.Proofs.LazyTree
import FormulaeModel.Proofs.ScannerLemmas
/-
Helper lemmas for `C02_scanner_shape`: what the scanner's implicit `1 +` looks like in the parse
tree.  A derivation of the documented grammar whose yield starts with the tokens `1 +` has the
literal `1` at the bottom of its left spine, directly under a `+`; every operator above it on the
spine binds at most as tightly as `+`.
-/
namespace FormulaeModel.Proofs.ScannerShape
open FormulaeModel FormulaeModel.Parser FormulaeModel.Spec.C01 FormulaeModel.Spec.C02
open FormulaeModel.Scanner FormulaeModel.Lazy

abbrev T : Table := documentedTable

def isOne : Expr → Bool
  | .literal t => t == one
  | _ => false

/-- the left spine of `e` ends in `1 + …` -/
def spineOne : Expr → Bool
  | .binary l op _ => (isOne l && op == plus) || spineOne l
  | _ => false

theorem flat_ne_nil (e : Expr) : e.flat ≠ [] := by
  cases e <;> simp [Expr.flat]

/-- a derivation whose yield is the single token `1` is the literal `1` -/
theorem isOne_of_flat (e : Expr) (hs : stratBin T e = true) (hf : e.flat = [one]) :
    isOne e = true := by
  match e with
  | .literal t => simp [Expr.flat] at hf; simp [isOne, hf]
  | .variable n =>
    simp [Expr.flat] at hf; subst hf; simp [stratBin, one] at hs
  | .quoted n =>
    simp [Expr.flat] at hf; subst hf; simp [stratBin, one] at hs
  | .assign n eq v => simp [stratBin] at hs
  | .grouping lp e rp => simp [Expr.flat] at hf
  | .brace lb e rb => simp [Expr.flat] at hf
  | .unary op r =>
    simp only [Expr.flat, List.cons.injEq] at hf
    exact absurd hf.2 (flat_ne_nil r)
  | .subset n lb lv rb => simp [Expr.flat] at hf
  | .call c lp as rp =>
    have := congrArg List.length hf
    simp [Expr.flat] at this
    omega
  | .binary l op r =>
    have := congrArg List.length hf
    have hr : r.flat.length ≠ 0 := fun h => flat_ne_nil r (List.length_eq_zero_iff.mp h)
    simp [Expr.flat] at this
    omega

theorem spine : (e : Expr) → stratBin T e = true → (rest : List Token) →
    e.flat = one :: plus :: rest → spineOne e = true
  | .binary l op r, hs, rest, hf => by
    have hl : stratBin T l = true := by
      simp only [stratBin] at hs; split at hs
      · simp only [Bool.and_eq_true] at hs; exact hs.1.1.1
      · cases hs
    simp only [Expr.flat] at hf
    match hlf : l.flat with
    | [] => exact absurd hlf (flat_ne_nil l)
    | [t] =>
      rw [hlf] at hf
      simp only [List.cons_append, List.nil_append, List.cons.injEq] at hf
      obtain ⟨h1, h2, _⟩ := hf
      subst h1
      have := isOne_of_flat l hl hlf
      simp [spineOne, this, h2]
    | t :: u :: tl =>
      rw [hlf] at hf
      simp only [List.cons_append, List.cons.injEq] at hf
      obtain ⟨h1, h2, _⟩ := hf
      subst h1; subst h2
      have := spine l hl tl hlf
      simp [spineOne, this]
  | .call c lp as rp, hs, rest, hf => by
    simp only [stratBin, Bool.and_eq_true] at hs
    obtain ⟨⟨⟨⟨hpc, hc⟩, hlp⟩, _⟩, _⟩ := hs
    simp only [Expr.flat] at hf
    match hcf : c.flat with
    | [] => exact absurd hcf (flat_ne_nil c)
    | [t] =>
      rw [hcf] at hf
      simp only [List.cons_append, List.nil_append, List.cons.injEq] at hf
      obtain ⟨_, h2, _⟩ := hf
      subst h2
      simp [plus] at hlp
    | t :: u :: tl =>
      rw [hcf] at hf
      simp only [List.cons_append, List.cons.injEq] at hf
      obtain ⟨h1, h2, _⟩ := hf
      subst h1; subst h2
      have := spine c hc tl hcf
      cases c <;> simp_all [spineOne, isPrimary, isCall]
  | .grouping lp e rp, hs, rest, hf => by
    simp only [Expr.flat, List.cons_append, List.cons.injEq] at hf
    simp only [stratBin, Bool.and_eq_true] at hs
    obtain ⟨h1, _⟩ := hf
    subst h1
    simp [one] at hs
  | .brace lb e rb, hs, rest, hf => by
    simp only [Expr.flat, List.cons_append, List.cons.injEq] at hf
    simp only [stratBin, Bool.and_eq_true] at hs
    obtain ⟨h1, _⟩ := hf
    subst h1
    simp [one] at hs
  | .unary op r, hs, rest, hf => by
    simp only [Expr.flat, List.cons.injEq] at hf
    simp only [stratBin, Bool.and_eq_true] at hs
    obtain ⟨h1, _⟩ := hf
    subst h1
    have h := hs.1.1
    exact absurd h (by decide)
  | .subset n lb lv rb, hs, rest, hf => by
    simp only [Expr.flat, List.cons_append, List.cons.injEq] at hf
    simp only [stratBin, Bool.and_eq_true] at hs
    obtain ⟨_, h2, _⟩ := hf
    subst h2
    simp [plus] at hs
  | .variable n, _, rest, hf => by simp [Expr.flat] at hf
  | .quoted n, _, rest, hf => by simp [Expr.flat] at hf
  | .literal n, _, rest, hf => by simp [Expr.flat] at hf
  | .assign .., hs, _, _ => by simp [stratBin] at hs

/-- every operator on that spine binds at most as tightly as `+` -/
theorem spine_lvl : (e : Expr) → stratBin T e = true → spineOne e = true → lvl T e ≤ 2
  | .binary l op r, hs, hsp => by
    simp only [stratBin, opLevel_doc] at hs
    cases hi : docLevelOf op.kind with
    | none => simp [hi] at hs
    | some i =>
      simp only [hi, Bool.and_eq_true, decide_eq_true_eq] at hs
      obtain ⟨⟨⟨hsl, _⟩, h1⟩, _⟩ := hs
      simp only [spineOne, Bool.or_eq_true, Bool.and_eq_true] at hsp
      rcases hsp with ⟨_, hop⟩ | hsp
      · have : op = plus := by simpa using hop
        subst this
        simp [lvl, opLevel_doc, docLevelOf, plus]
      · have := spine_lvl l hsl hsp
        simp only [lvl, opLevel_doc, hi, Option.getD_some]
        omega
  | .assign .., _, h | .grouping .., _, h | .unary .., _, h | .call .., _, h | .brace .., _, h
  | .variable _, _, h | .subset .., _, h | .quoted _, _, h | .literal _, _, h => by
    simp [spineOne] at h

theorem eq_of_isOne : (l : Expr) → isOne l = true → l = .literal one
  | .literal t, h => by
    have : t = one := by simpa [isOne] using h
    rw [this]
  | .assign .., h | .grouping .., h | .unary .., h | .call .., h | .brace .., h
  | .variable _, h | .subset .., h | .quoted _, h | .binary .., h => by
    simp [isOne] at h

theorem kind_of_lvl2 (k : Kind) (h : docLevelOf k = some 2) :
    (k == .PLUS || k == .MINUS) = true := by
  cases k <;> simp [docLevelOf] at h <;> rfl

theorem kind_of_lvl0 (k : Kind) (h : docLevelOf k = some 0) : k = .PIPE := by
  cases k <;> simp [docLevelOf] at h <;> rfl

/-- if the root is at the level of `+`, the additive chain starts with the literal `1` -/
theorem chainHead_one : (e : Expr) → stratBin T e = true → spineOne e = true →
    (∀ l op r, e = .binary l op r → docLevelOf op.kind = some 2) →
    isLit (chainHead e) "1" = true
  | .binary l op r, hs, hsp, hl => by
    have hi : docLevelOf op.kind = some 2 := hl l op r rfl
    simp only [stratBin, opLevel_doc, hi, Bool.and_eq_true, decide_eq_true_eq] at hs
    obtain ⟨⟨⟨hsl, _⟩, h1⟩, _⟩ := hs
    have hk := kind_of_lvl2 op.kind hi
    simp only [chainHead, hk, if_true]
    simp only [spineOne, Bool.or_eq_true, Bool.and_eq_true] at hsp
    rcases hsp with ⟨hone, _⟩ | hsp
    · rw [eq_of_isOne l hone]
      rfl
    · have h2 := spine_lvl l hsl hsp
      refine chainHead_one l hsl hsp ?_
      intro l' op' r' he
      subst he
      simp only [lvl, opLevel_doc] at h1 h2
      cases hj : docLevelOf op'.kind with
      | none =>
        simp only [stratBin, opLevel_doc, hj] at hsl
        cases hsl
      | some j =>
        simp only [hj, Option.getD_some] at h1 h2
        have : j = 2 := by omega
        rw [this]
  | .assign .., _, h, _ | .grouping .., _, h, _ | .unary .., _, h, _ | .call .., _, h, _
  | .brace .., _, h, _ | .variable _, _, h, _ | .subset .., _, h, _ | .quoted _, _, h, _
  | .literal _, _, h, _ => by
    simp [spineOne] at h

/-- a comparison at the root of a formula without `~` is outside the documented language -/
theorem not_lang_of_lvl1 (l r : Expr) (op : Token) (h : docLevelOf op.kind = some 1) :
    Lang (.binary l op r) = false := by
  obtain ⟨k, lx⟩ := op
  cases k <;> simp [docLevelOf] at h <;>
    simp [Lang, den, respOf, rhsOf, denRhs, chain, topItem, literalItem, isLit, isGroupExpr,
      stripGroup, denT]

/-- the yield `1 + …` of a stratified tree at an operator position: the two scanner shapes, or a
comparison on top (not a formula of the language) -/
theorem shape_of_yield : (e : Expr) → stratBin T e = true → (rest : List Token) →
    e.flat = one :: plus :: rest → Lang e = true →
    (isLit (chainHead e) "1" || barePipe e) = true
  | .binary l op r, hs, rest, hf, hl => by
    have hsp := spine _ hs rest hf
    have hlv := spine_lvl _ hs hsp
    have hs' := hs
    simp only [stratBin, opLevel_doc] at hs'
    cases hi : docLevelOf op.kind with
    | none => simp [hi] at hs'
    | some i =>
      simp only [lvl, opLevel_doc, hi, Option.getD_some] at hlv
      have : i = 0 ∨ i = 1 ∨ i = 2 := by omega
      rcases this with rfl | rfl | rfl
      · have := kind_of_lvl0 op.kind hi
        simp [barePipe, this]
      · rw [not_lang_of_lvl1 l r op hi] at hl; cases hl
      · have := chainHead_one (.binary l op r) hs hsp (by
          intro l' op' r' he
          injection he with _ h2 _
          subst h2
          exact hi)
        simp [this]
  | .assign .., hs, rest, hf, _ | .grouping .., hs, rest, hf, _ | .unary .., hs, rest, hf, _
  | .call .., hs, rest, hf, _ | .brace .., hs, rest, hf, _ | .variable _, hs, rest, hf, _
  | .subset .., hs, rest, hf, _ | .quoted _, hs, rest, hf, _ | .literal _, hs, rest, hf, _ => by
    have := spine _ hs rest hf
    simp [spineOne] at this

/-! ### The token list the scanner hands to the parser -/

def tildeFree (ts : List Token) : Bool := ts.all (fun t => !isTilde t)

theorem tildeFree_iff (ts : List Token) : tildeFree ts = !ts.any isTilde := by
  induction ts with
  | nil => rfl
  | cons a as ih =>
    simp only [tildeFree, List.all_cons, List.any_cons, Bool.not_or] at ih ⊢
    rw [ih]

theorem tildeFree_filter (ts : List Token) (h : ts.filter isTilde = []) : tildeFree ts = true := by
  induction ts with
  | nil => rfl
  | cons a as ih =>
    cases ha : isTilde a
    · have h' : as.filter isTilde = [] := by simpa [List.filter_cons, ha] using h
      have := ih h'
      simp only [tildeFree, List.all_cons, ha, Bool.not_false, Bool.true_and] at this ⊢
      exact this
    · simp [List.filter_cons, ha] at h

theorem filter_tildeFree (ts : List Token) (h : tildeFree ts = true) : ts.filter isTilde = [] := by
  induction ts with
  | nil => rfl
  | cons a as ih =>
    simp only [tildeFree, List.all_cons, Bool.and_eq_true, Bool.not_eq_true'] at h
    simp only [List.filter_cons, h.1]
    exact ih h.2

theorem scan_addIntercept (code : List Char) (ts : List Token)
    (h : scan code true = .ok ts) :
    ∃ ts0, (ts0.filter isTilde).length ≤ 1 ∧ ts = addIntercept ts0 := by
  unfold scan at h
  split at h
  · cases h
  · split at h
    · cases h
    · simp only [bind, Except.bind] at h
      split at h
      · cases h
      · rename_i ts0 _
        split at h
        · cases h
        · rename_i hc
          simp only [pure, Except.pure, if_true, Except.ok.injEq] at h
          exact ⟨ts0, by omega, h.symm⟩

theorem addIntercept_cases (ts0 : List Token) (hc : (ts0.filter isTilde).length ≤ 1) :
    (tildeFree ts0 = true ∧ addIntercept ts0 = one :: plus :: ts0) ∨
    (∃ pre tl rest, isTilde tl = true ∧ tildeFree pre = true ∧ tildeFree rest = true ∧
      addIntercept ts0 = pre ++ tl :: one :: plus :: rest) := by
  cases hany : ts0.any isTilde
  · left
    refine ⟨by rw [tildeFree_iff, hany]; rfl, ?_⟩
    simp [addIntercept, hany]
  · right
    have hsp := span_spec (fun t => !isTilde t) ts0
    have hsplit : ts0.takeWhile (fun t => !isTilde t) ++ ts0.dropWhile (fun t => !isTilde t) = ts0 :=
      List.takeWhile_append_dropWhile
    have hpre : tildeFree (ts0.takeWhile (fun t => !isTilde t)) = true := by
      simp only [tildeFree]; exact List.all_takeWhile
    cases hd : ts0.dropWhile (fun t => !isTilde t) with
    | nil =>
      rw [hd, List.append_nil] at hsplit
      rw [hsplit, tildeFree_iff, hany] at hpre
      cases hpre
    | cons tl rest =>
      have htl : isTilde tl = true := by
        have := List.head_dropWhile_not (fun t => !isTilde t) (l := ts0) (by rw [hd]; simp)
        simp only [hd, List.head_cons] at this
        simpa using this
      have hrest : tildeFree rest = true := by
        apply tildeFree_filter
        rw [← hsplit, hd, List.filter_append, filter_tildeFree _ hpre, List.nil_append,
          List.filter_cons, htl] at hc
        simp only [if_true, List.length_cons] at hc
        exact List.length_eq_zero_iff.mp (by omega)
      refine ⟨_, tl, rest, htl, hpre, hrest, ?_⟩
      simp only [addIntercept, hany, if_true, hsp, hd]

/-- the position of the only tilde fixes the split of the token list -/
theorem split_unique : (a c b d : List Token) → (x y : Token) → isTilde x = true →
    tildeFree c = true → tildeFree d = true → a ++ x :: b = c ++ y :: d → a = c ∧ b = d
  | [], [], b, d, x, y, _, _, _, h => by
    simp only [List.nil_append, List.cons.injEq] at h; exact ⟨rfl, h.2⟩
  | [], c0 :: cs, b, d, x, y, hx, hc, _, h => by
    simp only [List.nil_append, List.cons_append, List.cons.injEq] at h
    simp only [tildeFree, List.all_cons, Bool.and_eq_true, Bool.not_eq_true'] at hc
    rw [← h.1, hx] at hc; cases hc.1
  | a0 :: as, [], b, d, x, y, hx, _, hd, h => by
    simp only [List.nil_append, List.cons_append, List.cons.injEq] at h
    have hmem : x ∈ d := by rw [← h.2]; simp
    simp only [tildeFree, List.all_eq_true, Bool.not_eq_true'] at hd
    rw [hd x hmem] at hx; cases hx
  | a0 :: as, c0 :: cs, b, d, x, y, hx, hc, hd, h => by
    simp only [List.cons_append, List.cons.injEq] at h
    simp only [tildeFree, List.all_cons, Bool.and_eq_true] at hc
    obtain ⟨h1, h2⟩ := split_unique as cs b d x y hx hc.2 hd h.2
    exact ⟨by rw [h.1, h1], h2⟩

/-! ### The two cases of the implicit intercept -/

theorem one_not_tilde : isTilde one = false := by decide
theorem plus_not_tilde : isTilde plus = false := by decide

theorem var_not_one : (n : Expr) → isVariable n = true → stratBin T n = true →
    (x y : List Token) → n.flat ++ x = one :: y → False
  | .variable t, _, hn, x, y, hf => by
    simp only [Expr.flat, List.cons_append, List.nil_append, List.cons.injEq] at hf
    rw [hf.1] at hn
    simp [stratBin, one] at hn
  | .subset t lb lv rb, _, hn, x, y, hf => by
    simp only [Expr.flat, List.cons_append, List.cons.injEq] at hf
    rw [hf.1] at hn
    simp [stratBin, one] at hn
  | .assign .., hv, _, _, _, _ | .grouping .., hv, _, _, _, _ | .unary .., hv, _, _, _, _
  | .call .., hv, _, _, _, _ | .brace .., hv, _, _, _, _ | .binary .., hv, _, _, _, _
  | .quoted _, hv, _, _, _, _ | .literal _, hv, _, _, _, _ => by
    simp [isVariable] at hv

/-- no `~` in the formula: the `1 +` was put in front -/
theorem shape_noTilde : (e : Expr) → (ts0 : List Token) → stratTop T e = true →
    e.flat = one :: plus :: ts0 → tildeFree ts0 = true → Lang e = true →
    (implicitOne e || barePipe e) = true
  | .binary l op r, ts0, hst, hf, hnt, hl => by
    cases hk : op.kind == .TILDE
    · simp only [stratTop, hk] at hst
      have := shape_of_yield _ hst ts0 hf hl
      simpa [implicitOne, rhsOf, hk] using this
    · -- a `~` node has its operator token in the yield
      have hmem : op ∈ one :: plus :: ts0 := by rw [← hf]; simp [Expr.flat]
      have hop : isTilde op = true := hk
      simp only [List.mem_cons] at hmem
      rcases hmem with h | h | h
      · rw [h, one_not_tilde] at hop; cases hop
      · rw [h, plus_not_tilde] at hop; cases hop
      · simp only [tildeFree, List.all_eq_true, Bool.not_eq_true'] at hnt
        rw [hnt op h] at hop; cases hop
  | .assign n eq v, ts0, hst, hf, _, _ => by
    simp only [stratTop, Bool.and_eq_true] at hst
    obtain ⟨⟨⟨⟨hv, hn⟩, _⟩, _⟩, _⟩ := hst
    simp only [Expr.flat] at hf
    exact (var_not_one n hv hn _ _ hf).elim
  | .grouping a b c, ts0, hst, hf, _, hl => by
    simp only [stratTop] at hst
    have := shape_of_yield _ hst ts0 hf hl
    simpa [implicitOne, rhsOf] using this
  | .unary a b, ts0, hst, hf, _, hl => by
    simp only [stratTop] at hst
    have := shape_of_yield _ hst ts0 hf hl
    simpa [implicitOne, rhsOf] using this
  | .call a b c d, ts0, hst, hf, _, hl => by
    simp only [stratTop] at hst
    have := shape_of_yield _ hst ts0 hf hl
    simpa [implicitOne, rhsOf] using this
  | .brace a b c, ts0, hst, hf, _, hl => by
    simp only [stratTop] at hst
    have := shape_of_yield _ hst ts0 hf hl
    simpa [implicitOne, rhsOf] using this
  | .variable a, ts0, hst, hf, _, hl => by simp [Expr.flat] at hf
  | .quoted a, ts0, hst, hf, _, hl => by simp [Expr.flat] at hf
  | .literal a, ts0, hst, hf, _, hl => by simp [Expr.flat] at hf
  | .subset a b c d, ts0, hst, hf, _, hl => by
    simp only [stratTop] at hst
    have := shape_of_yield _ hst ts0 hf hl
    simpa [implicitOne, rhsOf] using this

/-- a `~` at the root: the `1 +` was put right after it, and the right-hand side is an additive
chain that starts with the literal `1` -/
theorem shape_tilde (l r : Expr) (op : Token) (hk : (op.kind == .TILDE) = true)
    (hst : stratTop T (.binary l op r) = true) (pre rest : List Token) (tl : Token)
    (hf : (Expr.binary l op r).flat = pre ++ tl :: one :: plus :: rest)
    (hpre : tildeFree pre = true) (hrest : tildeFree rest = true) :
    implicitOne (.binary l op r) = true := by
  simp only [stratTop, hk, if_true, Bool.and_eq_true, decide_eq_true_eq] at hst
  obtain ⟨⟨_, hr⟩, hlv⟩ := hst
  have hd : tildeFree (one :: plus :: rest) = true := by
    simp only [tildeFree, List.all_cons, one_not_tilde, plus_not_tilde, Bool.not_false,
      Bool.true_and] at hrest ⊢
    exact hrest
  simp only [Expr.flat] at hf
  obtain ⟨_, hrf⟩ := split_unique _ _ _ _ op tl hk hpre hd hf
  have hsp := spine r hr rest hrf
  have h2 := spine_lvl r hr hsp
  have : isLit (chainHead r) "1" = true := by
    refine chainHead_one r hr hsp ?_
    intro l' op' r' he
    subst he
    simp only [lvl, opLevel_doc] at h2 hlv
    cases hj : docLevelOf op'.kind with
    | none =>
      simp only [stratBin, opLevel_doc, hj] at hr
      cases hr
    | some j =>
      simp only [hj, Option.getD_some] at h2 hlv
      have ht : T.tildeRight = 2 := rfl
      rw [ht] at hlv
      have : j = 2 := by omega
      rw [this]
  simp only [implicitOne, rhsOf, hk, if_true]
  exact this

def rootTilde : Expr → Bool
  | .binary _ op _ => op.kind == .TILDE
  | _ => false

theorem shape_tilde_root : (e : Expr) → rootTilde e = true → stratTop T e = true →
    (pre rest : List Token) → (tl : Token) → e.flat = pre ++ tl :: one :: plus :: rest →
    tildeFree pre = true → tildeFree rest = true → implicitOne e = true
  | .binary l op r, ht, hst, pre, rest, tl, hf, hpre, hrest =>
    shape_tilde l r op ht hst pre rest tl hf hpre hrest
  | .assign .., ht, _, _, _, _, _, _, _ | .grouping .., ht, _, _, _, _, _, _, _
  | .unary .., ht, _, _, _, _, _, _, _ | .call .., ht, _, _, _, _, _, _, _
  | .brace .., ht, _, _, _, _, _, _, _ | .variable _, ht, _, _, _, _, _, _, _
  | .subset .., ht, _, _, _, _, _, _, _ | .quoted _, ht, _, _, _, _, _, _, _
  | .literal _, ht, _, _, _, _, _, _, _ => by
    simp [rootTilde] at ht

end FormulaeModel.Proofs.ScannerShape
