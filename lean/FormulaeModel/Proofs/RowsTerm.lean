import FormulaeModel.Proofs.RowsComp
import FormulaeModel.Proofs.ProductOrder
set_option linter.unusedSimpArgs false
/-
Helper lemmas for C06 (part 5): terms, group-specific terms and the stacked matrices.
`interactionMatrix` / `reduceMatrices` / `khatriRao` / `hstack` commute with row selection.
-/
namespace FormulaeModel.Design
open FormulaeModel FormulaeModel.Spec.C06

/-! ### matrices -/

theorem selectRows_length' (m : Matrix) (is : List Nat) : (selectRows m is).length = is.length := by
  simp [selectRows]

theorem getD_interactionMatrix (x y : Matrix) (i : Nat) :
    (interactionMatrix x y).getD i [] = rowProd (x.getD i []) (y.getD i []) := by
  simp only [interactionMatrix, List.getD_eq_getElem?_getD, List.getElem?_zipWith]
  cases x[i]? <;> cases y[i]? <;> simp [rowProd]

/-- the row-wise product of two matrices commutes with row selection (any index list) -/
theorem selectRows_interactionMatrix (x y : Matrix) (is : List Nat) :
    selectRows (interactionMatrix x y) is = interactionMatrix (selectRows x is) (selectRows y is) := by
  induction is with
  | nil => rfl
  | cons i is ih =>
    simp only [selectRows, List.map_cons, interactionMatrix, List.zipWith_cons_cons] at ih ⊢
    rw [ih]
    congr 1
    exact getD_interactionMatrix x y i

theorem selectRows_foldl (ms : List Matrix) (m : Matrix) (is : List Nat) :
    selectRows (ms.foldl interactionMatrix m) is =
      (ms.map (selectRows · is)).foldl interactionMatrix (selectRows m is) := by
  induction ms generalizing m with
  | nil => rfl
  | cons a ms ih => simp only [List.foldl_cons, List.map_cons]; rw [ih, selectRows_interactionMatrix]

/-- `reduceMatrices` commutes with row selection (for a term with at least one component) -/
theorem selectRows_reduceMatrices (ms : List Matrix) (hne : ms ≠ []) (is : List Nat) :
    selectRows (reduceMatrices ms) is = reduceMatrices (ms.map (selectRows · is)) := by
  cases ms with
  | nil => exact absurd rfl hne
  | cons m ms => simp only [reduceMatrices, List.map_cons]; exact selectRows_foldl ms m is

theorem foldl_interaction_length (ms : List Matrix) (m : Matrix) (n : Nat) (hm : m.length = n)
    (h : ∀ a ∈ ms, a.length = n) : (ms.foldl interactionMatrix m).length = n := by
  induction ms generalizing m with
  | nil => exact hm
  | cons a ms ih =>
    simp only [List.foldl_cons]
    apply ih
    · rw [interactionMatrix_length, hm, h a (by simp)]; simp
    · intro b hb; exact h b (by simp [hb])

theorem reduceMatrices_length (ms : List Matrix) (hne : ms ≠ []) (n : Nat) (h : ∀ a ∈ ms, a.length = n) :
    (reduceMatrices ms).length = n := by
  cases ms with
  | nil => exact absurd rfl hne
  | cons m ms =>
    exact foldl_interaction_length ms m n (h m (by simp)) (fun a ha => h a (by simp [ha]))

/-! ### all-zero rows -/

theorem isZeroRow_false_iff (r : List Entry) : isZeroRow r = false ↔ ∃ x ∈ r, x ≠ some 0 := by
  simp [isZeroRow, List.all_eq_false]

theorem entry_mul_ne_zero (a b : Entry) (ha : a ≠ some 0) (hb : b ≠ some 0) : Entry.mul a b ≠ some 0 := by
  cases a with
  | none => simp [Entry.mul]
  | some a =>
    cases b with
    | none => simp [Entry.mul]
    | some b =>
      simp only [Entry.mul, ne_eq, Option.some.injEq, Rat.mul_eq_zero, not_or] at ha hb ⊢
      exact ⟨ha, hb⟩

theorem rowProd_nonzero (rx ry : List Entry) (hx : isZeroRow rx = false) (hy : isZeroRow ry = false) :
    isZeroRow (rowProd rx ry) = false := by
  rw [isZeroRow_false_iff] at hx hy ⊢
  obtain ⟨a, ha, ha0⟩ := hx
  obtain ⟨b, hb, hb0⟩ := hy
  refine ⟨Entry.mul a b, ?_, entry_mul_ne_zero a b ha0 hb0⟩
  simp only [rowProd, List.mem_flatMap, List.mem_map]
  exact ⟨a, ha, b, hb, rfl⟩

theorem interactionMatrix_nonzero (x y : Matrix) (hx : NoZeroRow x) (hy : NoZeroRow y) :
    NoZeroRow (interactionMatrix x y) := by
  intro r hr
  obtain ⟨k, hk, rfl⟩ := List.mem_iff_getElem.1 hr
  simp only [interactionMatrix, List.length_zipWith] at hk
  rw [interactionMatrix_row x y k (by omega) (by omega)]
  exact rowProd_nonzero _ _ (hx _ (List.getElem_mem _)) (hy _ (List.getElem_mem _))

theorem reduceMatrices_nonzero (ms : List Matrix) (hne : ms ≠ []) (h : ∀ a ∈ ms, NoZeroRow a) :
    NoZeroRow (reduceMatrices ms) := by
  cases ms with
  | nil => exact absurd rfl hne
  | cons m ms =>
    simp only [reduceMatrices]
    have hm := h m (by simp)
    have hms : ∀ a ∈ ms, NoZeroRow a := fun a ha => h a (by simp [ha])
    clear h hne
    induction ms generalizing m with
    | nil => exact hm
    | cons a ms ih =>
      simp only [List.foldl_cons]
      exact ih _ (interactionMatrix_nonzero m a hm (hms a (by simp))) (fun b hb => hms b (by simp [hb]))

theorem selectRows_nonzero (m : Matrix) (is : List Nat) (h : NoZeroRow m) (his : ∀ i ∈ is, i < m.length) :
    NoZeroRow (selectRows m is) := by
  intro r hr
  exact h r (mem_pick is [] m his r hr)

/-! ### terms -/

theorem mapM_map_ok {α β γ δ : Type} (f : α → M β) (g : γ → M δ) (p : β → γ) (k : β → δ)
    (xs : List α) (ys : List β) (hxs : xs.mapM f = .ok ys)
    (hstep : ∀ x ∈ xs, ∀ y, f x = .ok y → g (p y) = .ok (k y)) :
    (ys.map p).mapM g = .ok (ys.map k) := by
  induction xs generalizing ys with
  | nil => simp [pure, Except.pure] at hxs; subst hxs; simp [pure, Except.pure]
  | cons x xs ih =>
    rw [List.mapM_cons] at hxs
    simp only [bind_ok, pure_ok] at hxs
    obtain ⟨y, hy, ys', hys', rfl⟩ := hxs
    simp only [List.map_cons]
    rw [List.mapM_cons, hstep x (by simp) y hy, ih ys' hys' (fun x' hx' => hstep x' (by simp [hx']))]
    rfl

theorem mapM_forall {α β : Type} (f : α → M β) (P : β → Prop) (xs : List α) (ys : List β)
    (hxs : xs.mapM f = .ok ys) (hstep : ∀ x ∈ xs, ∀ y, f x = .ok y → P y) : ∀ y ∈ ys, P y := by
  induction xs generalizing ys with
  | nil => simp [pure, Except.pure] at hxs; subst hxs; simp
  | cons x xs ih =>
    rw [List.mapM_cons] at hxs
    simp only [bind_ok, pure_ok] at hxs
    obtain ⟨y, hy, ys', hys', rfl⟩ := hxs
    intro y' hy'
    simp only [List.mem_cons] at hy'
    rcases hy' with rfl | hy'
    · exact hstep x (by simp) _ hy
    · exact ih ys' hys' (fun x' hx' => hstep x' (by simp [hx'])) y' hy'

/-- the components of a term are in the row-wise fragment -/
def TermOk (env : Env) (table : List (String × Expr)) (spec : TermSpec) : Prop :=
  spec.comps ≠ [] ∧
  ∀ c ∈ spec.comps, ∀ e, compExpr table c.1 = .ok e → RowwiseOk e = true ∧ D13Free env e = true

theorem trainTerm_rows (env : Env) (hwf : env.frame.wellFormed = true) (hn : env.namesScalar = true)
    (is : List Nat) (his : ∀ i ∈ is, i < env.frame.nrows) (table : List (String × Expr))
    (spec : TermSpec) (forced : Bool) (mode : UnseenMode) (out : TermOut)
    (hok : TermOk env table spec)
    (h : trainTerm env table spec forced false = .ok out) :
    newTerm out.st (env.rows is) mode = .ok (selectRows out.data is, false) ∧
      out.data.length = env.frame.nrows := by
  unfold trainTerm at h
  simp only [bind_ok, pure_ok] at h
  obtain ⟨outs, houts, rfl⟩ := h
  have hlen := (mapM_ok_get _ _ _ houts).1
  have hne : outs ≠ [] := by
    intro h0; subst h0
    exact hok.1 (List.length_eq_zero_iff.1 hlen.symm)
  have hcomp : ∀ c ∈ spec.comps, ∀ o,
      (do trainComp env c.1 (← compExpr table c.1) forced false c.2) = Except.ok o →
      newComp o.st (env.rows is) mode = .ok (selectRows o.value is, false) ∧
        o.value.length = env.frame.nrows := by
    intro c hc o ho
    simp only [bind_ok] at ho
    obtain ⟨e, he, ho⟩ := ho
    obtain ⟨h1, h2⟩ := hok.2 c hc e he
    exact trainComp_rows env hwf hn is his c.1 e forced c.2 mode o h1 h2 ho
  have hnew := mapM_map_ok _ (fun c => newComp c (env.rows is) mode) (·.st)
    (fun o => (selectRows o.value is, false)) _ _ houts (fun c hc o ho => (hcomp c hc o ho).1)
  have hlens := mapM_forall _ (fun o => o.value.length = env.frame.nrows) _ _ houts
    (fun c hc o ho => (hcomp c hc o ho).2)
  constructor
  · unfold newTerm
    simp only [hnew, ok_bind, pure_ok, Prod.mk.injEq, List.map_map, List.any_map]
    constructor
    · rw [selectRows_reduceMatrices _ (by simpa using hne)]
      simp [List.map_map, Function.comp_def]
    · simp [Function.comp_def]
  · exact reduceMatrices_length _ (by simpa using hne) _ (by simpa using hlens)


/-! ### group-specific terms -/

/-- a grouping factor (every component forced to categoric and coded full) has no all-zero row -/
theorem trainTerm_nonzero (env : Env) (table : List (String × Expr)) (spec : TermSpec) (out : TermOut)
    (hne : spec.comps ≠ []) (hfull : ∀ c ∈ spec.comps, c.2 = true)
    (h : trainTerm env table spec true false = .ok out) : NoZeroRow out.data := by
  unfold trainTerm at h
  simp only [bind_ok, pure_ok] at h
  obtain ⟨outs, houts, rfl⟩ := h
  have hlen := (mapM_ok_get _ _ _ houts).1
  have hne' : outs ≠ [] := by
    intro h0; subst h0
    exact hne (List.length_eq_zero_iff.1 hlen.symm)
  have := mapM_forall _ (fun o => NoZeroRow o.value) _ _ houts (by
    intro c hc o ho
    simp only [bind_ok] at ho
    obtain ⟨e, he, ho⟩ := ho
    rw [hfull c hc] at ho
    exact trainComp_nonzero env c.1 e o ho)
  exact reduceMatrices_nonzero _ (by simpa using hne') (by simpa using this)

theorem selectRows_onesCol (n : Nat) (is : List Nat) (h : ∀ i ∈ is, i < n) :
    selectRows (onesCol n) is = onesCol is.length := by
  simp only [selectRows_eq_pick, onesCol]
  exact pick_replicate is _ _ n h

/-- the terms of a group-specific term are in the row-wise fragment -/
def GroupOk (env : Env) (table : List (String × Expr)) (spec : GroupSpec) : Prop :=
  TermOk env table spec.factor ∧ ∀ ts, spec.expr = some ts → TermOk env table ts

theorem trainGroup_rows (env : Env) (hwf : env.frame.wellFormed = true) (hn : env.namesScalar = true)
    (is : List Nat) (his : ∀ i ∈ is, i < env.frame.nrows) (table : List (String × Expr))
    (spec : GroupSpec) (mode : UnseenMode) (out : GroupOut)
    (hok : GroupOk env table spec)
    (h : trainGroup env table spec = .ok out) :
    newGroup out.st (env.rows is) mode = .ok (selectRows out.data is, false) ∧
      out.data.length = env.frame.nrows := by
  have hnr := frame_nrows_rows env.frame is his
  unfold trainGroup at h
  simp only [bind_ok] at h
  obtain ⟨f, hf, h⟩ := h
  have hokf : TermOk env table { spec.factor with comps := spec.factor.comps.map (fun c => (c.1, true)) } := by
    refine ⟨by simpa using hok.1.1, ?_⟩
    intro c hc e he
    simp only [List.mem_map] at hc
    obtain ⟨c0, hc0, rfl⟩ := hc
    exact hok.1.2 c0 hc0 e he
  obtain ⟨hfnew, hflen⟩ := trainTerm_rows env hwf hn is his table _ true mode f hokf hf
  have hfz := trainTerm_nonzero env table _ f hokf.1 (by simp) hf
  have hz : (selectRows f.data is).any (fun r => r.all (fun x => x == some 0)) = false := by
    rw [List.any_eq_false]
    intro r hr
    have := selectRows_nonzero f.data is hfz (fun i hi => hflen ▸ his i hi) r hr
    simpa [isZeroRow] using this
  have fin : ∀ (xi : Matrix) (exprState : Option TermState) (name kind : String) (groups : List String)
      (labels : Option (List String)), xi.length = env.frame.nrows →
      (match exprState with
        | none => pure (onesCol (env.rows is).frame.nrows, false)
        | some t => newTerm t (env.rows is) mode) = Except.ok (selectRows xi is, false) →
      newGroup ⟨name, exprState, f.st, groups, kind⟩ (env.rows is) mode =
          .ok (selectRows (khatriRao f.data xi) is, false) ∧
        (khatriRao f.data xi).length = env.frame.nrows := by
    intro xi exprState name kind groups labels hxl hxn
    constructor
    · unfold newGroup
      cases exprState with
      | none =>
        simp only [pure_ok, Prod.mk.injEq, and_true] at hxn
        simp only [pure, Except.pure, ok_bind, hxn, hfnew, hz, Bool.false_eq_true, if_false,
          Bool.or_self, khatriRao, selectRows_interactionMatrix]
      | some t =>
        simp only at hxn
        simp only [hxn, hfnew, ok_bind, hz, Bool.false_eq_true, if_false, pure, Except.pure,
          Bool.or_self, khatriRao, selectRows_interactionMatrix]
    · simp only [khatriRao, interactionMatrix_length, hflen, hxl, Nat.min_self]
  cases hse : spec.expr with
  | none =>
    simp only [hse, ok_bind, pure_ok, pure, Except.pure, Except.bind, bind] at h
    cases h
    refine fin _ _ _ _ _ none (by simp [onesCol]) ?_
    simp only [Env.rows, hnr, pure, Except.pure, selectRows_onesCol _ is his]
  | some ts =>
    simp only [hse, bind_ok, pure_ok] at h
    obtain ⟨t, ht, _, rfl, rfl⟩ := h
    obtain ⟨h1, h2⟩ := trainTerm_rows env hwf hn is his table ts false mode t (hok.2 ts hse) ht
    exact fin _ _ _ _ _ none h2 h1


end FormulaeModel.Design
