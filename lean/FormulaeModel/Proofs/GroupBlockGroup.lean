import FormulaeModel.Proofs.GroupBlockTerm
set_option linter.unusedSimpArgs false
set_option linter.unusedVariables false
/-
Helper lemmas for C05 (part 4): `trainGroup` — the block of a group-specific term `(e | g)` is,
row by row, the Kronecker product of the indicator row of the row's cell with the effect row.
-/
namespace FormulaeModel.Design
open FormulaeModel

/-- the effect matrix of `(e | g)`: a column of ones for the intercept, else the matrix of `e` -/
def effectData (env : Env) (table : List (String × Expr)) (spec : GroupSpec) : M Matrix :=
  match spec.expr with
  | none => pure (onesCol env.frame.nrows)
  | some ts => (trainTerm env table ts false false).map (·.data)

/-- the labels of the effect columns (`"1"` for the intercept) -/
def effectLabels (env : Env) (table : List (String × Expr)) (spec : GroupSpec) : M (Option (List String)) :=
  match spec.expr with
  | none => pure (some ["1"])
  | some ts => (trainTerm env table ts false false).map (·.labels)

/-- the grouping factor as `trainGroup` trains it: every component coded full -/
def factorSpecOf (spec : GroupSpec) : TermSpec :=
  { spec.factor with comps := spec.factor.comps.map (fun c => (c.1, true)) }

/-- the anatomy of a successful `trainGroup` -/
theorem trainGroup_parts (env : Env) (table : List (String × Expr)) (spec : GroupSpec) (out : GroupOut)
    (h : trainGroup env table spec = .ok out) :
    ∃ f X el, trainTerm env table (factorSpecOf spec) true false = .ok f ∧
      effectData env table spec = .ok X ∧ effectLabels env table spec = .ok el ∧
      out.data = khatriRao f.data X ∧ out.st.factor = f.st ∧ out.st.name = spec.name ∧
      out.st.groups = reduceLabels (f.st.comps.map (fun c => (c.contrast.map (·.labels)).getD [])) ∧
      out.labels = (do
        let fl ← f.labels
        let el ← el
        pure (fl.flatMap (fun g => el.map (fun l => l ++ "|" ++ g)))) := by
  unfold trainGroup at h
  simp only [bind_ok] at h
  obtain ⟨f, hf, h⟩ := h
  cases hse : spec.expr with
  | none =>
    simp only [hse, pure_bind, pure_ok] at h
    subst h
    exact ⟨f, onesCol env.frame.nrows, some ["1"], hf, by simp [effectData, hse, pure, Except.pure],
      by simp [effectLabels, hse, pure, Except.pure], rfl, rfl, rfl, rfl, rfl⟩
  | some ts =>
    simp only [hse, bind_ok, pure_ok] at h
    obtain ⟨t, ht, _, rfl, rfl⟩ := h
    exact ⟨f, t.data, t.labels, hf, by simp [effectData, hse, ht, Except.map],
      by simp [effectLabels, hse, ht, Except.map], rfl, rfl, rfl, rfl, rfl⟩

/-- the anatomy of the trained grouping factor -/
theorem trainTerm_factor_parts (env : Env) (table : List (String × Expr)) (spec : GroupSpec) (f : TermOut)
    (h : trainTerm env table (factorSpecOf spec) true false = .ok f) :
    ∃ outs cols, factorColumns env table (spec.factor.comps.map (·.1)) = .ok cols ∧
      FactorOuts outs cols ∧ outs.map (·.st.name) = spec.factor.comps.map (·.1) ∧
      f.st.comps = outs.map (·.st) ∧ f.data = reduceMatrices (outs.map (·.value)) ∧
      f.labels = (outs.mapM (fun (o : CompOut) => o.labels)).map reduceLabels := by
  unfold trainTerm at h
  simp only [bind_ok, pure_ok] at h
  obtain ⟨outs, houts, rfl⟩ := h
  obtain ⟨cols, h1, h2, h3⟩ := factor_outs env table (factorSpecOf spec).comps
    (by intro c hc; simp only [factorSpecOf, List.mem_map] at hc; obtain ⟨_, _, rfl⟩ := hc; rfl) outs houts
  have hn : (factorSpecOf spec).comps.map (·.1) = spec.factor.comps.map (·.1) := by
    simp [factorSpecOf, List.map_map, Function.comp_def]
  rw [hn] at h1 h3
  exact ⟨outs, cols, h1, h2, h3, rfl, rfl, rfl⟩

theorem FactorOuts.length_eq {outs : List CompOut} {cols : List (Val × List (Option Level))}
    (hF : FactorOuts outs cols) : outs.length = cols.length := by
  induction hF with
  | nil => rfl
  | cons _ _ ih => simp [ih]

theorem FactorOuts.get {outs : List CompOut} {cols : List (Val × List (Option Level))}
    (hF : FactorOuts outs cols) (i : Nat) (o : CompOut) (col : Val × List (Option Level))
    (ho : outs[i]? = some o) (hc : cols[i]? = some col) :
    FactorComp o.st.name o.st.expr true col.1 col.2 o := by
  induction hF generalizing i with
  | nil => simp at ho
  | cons hf _ ih =>
    cases i with
    | zero =>
      simp only [List.getElem?_cons_zero, Option.some.injEq] at ho hc
      subst ho; subst hc
      exact hf
    | succ i =>
      simp only [List.getElem?_cons_succ] at ho hc
      exact ih i ho hc

/-- labels of the components under the complete indicator coding: `name[level]` -/
theorem FactorOuts.labels {outs : List CompOut} {cols : List (Val × List (Option Level))}
    (hF : FactorOuts outs cols)
    (ht : ∀ o ∈ outs, o.st.contrast = some (treatmentFull o.st.levels)) :
    outs.mapM (fun (o : CompOut) => o.labels) =
      some (outs.map (fun o => o.st.levels.map (fun l => o.st.name ++ "[" ++ l.label ++ "]"))) := by
  induction hF with
  | nil => rfl
  | @cons o col outs cols hf _ ih =>
    obtain ⟨hl, _, _⟩ := hf.indicator (ht o (by simp))
    rw [List.mapM_cons, hl, ih (fun o' ho' => ht o' (by simp [ho']))]
    rfl

/-- `a ∘ b`-free form of the group labels under the complete indicator coding -/
theorem groups_of_treatment (cs : List CompState)
    (ht : ∀ c ∈ cs, c.contrast = some (treatmentFull c.levels)) :
    cs.map (fun c => (c.contrast.map (·.labels)).getD []) = cs.map (fun c => c.levels.map Level.label) := by
  apply List.map_congr_left
  intro c hc
  rw [ht c hc]
  rfl

/-- **block structure of `trainGroup`** (every frame, every effect, every number of grouping
components, all sizes): under the complete indicator coding of the factor, every row of the block
is the Kronecker product of the indicator row of the row's cell with the row of the effect matrix -/
theorem trainGroup_block (env : Env) (table : List (String × Expr)) (spec : GroupSpec) (out : GroupOut)
    (h : trainGroup env table spec = .ok out)
    (ht : ∀ c ∈ out.st.factor.comps, c.contrast = some (treatmentFull c.levels)) :
    ∃ cols X, factorColumns env table (spec.factor.comps.map (·.1)) = .ok cols ∧
      effectData env table spec = .ok X ∧
      out.st.factor.comps.map (·.name) = spec.factor.comps.map (·.1) ∧
      out.st.factor.comps.length = cols.length ∧
      (∀ (i : Nat) (c : CompState) (col : Val × List (Option Level)),
        out.st.factor.comps[i]? = some c → cols[i]? = some col →
        LevelOrder (valDeclared col.1) col.2 c.levels) ∧
      ∀ r (hr : r < out.data.length), ∃ ps x,
        rowCell (out.st.factor.comps.map (·.levels)) (cols.map (·.2)) r = some ps ∧
        (∀ p ∈ ps, p.2 < p.1) ∧ ps.map (·.1) = out.st.factor.comps.map (·.levels.length) ∧
        cellIndex 0 ps < cellCount 1 (ps.map (·.1)) ∧
        X[r]? = some x ∧
        out.data[r] = rowProd (unitE (cellCount 1 (ps.map (·.1))) (cellIndex 0 ps)) x := by
  obtain ⟨f, X, el, hf, hX, _, hdata, hst, _, _, _⟩ := trainGroup_parts env table spec out h
  obtain ⟨outs, cols, hcols, hF, hnames, hcomps, hfd, _⟩ := trainTerm_factor_parts env table spec f hf
  have hcs : out.st.factor.comps = outs.map (·.st) := by rw [hst, hcomps]
  have ht' : ∀ o ∈ outs, o.st.contrast = some (treatmentFull o.st.levels) := by
    intro o ho
    exact ht o.st (by rw [hcs]; exact List.mem_map.2 ⟨o, ho, rfl⟩)
  refine ⟨cols, X, hcols, hX, ?_, ?_, ?_, ?_⟩
  · rw [hcs, List.map_map]; exact hnames
  · rw [hcs, List.length_map]; exact hF.length_eq
  · intro i c col hc hcol
    rw [hcs, List.getElem?_map] at hc
    cases ho : outs[i]? with
    | none => rw [ho] at hc; simp at hc
    | some o =>
      rw [ho] at hc
      simp only [Option.map_some, Option.some.injEq] at hc
      subst hc
      exact (hF.get i o col ho hcol).order
  · intro r hr
    have hr' := hr
    simp only [hdata, khatriRao, interactionMatrix_length] at hr'
    have hrf : r < f.data.length := by omega
    have hrX : r < X.length := by omega
    have hrf' : r < (reduceMatrices (outs.map (·.value))).length := by rw [← hfd]; exact hrf
    obtain ⟨ps, h1, h2, h3, h4, h5⟩ := reduceMatrices_factor_row outs cols hF ht' r hrf'
    refine ⟨ps, X[r], ?_, h2, ?_, h4, List.getElem?_eq_getElem hrX, ?_⟩
    · rw [hcs, List.map_map]; exact h1
    · rw [hcs, List.map_map]; exact h3
    · have := interactionMatrix_row f.data X r hrf hrX
      simp only [hdata, khatriRao]
      rw [this]
      congr 1
      simp only [hfd]
      exact h5

/-- **labels of `trainGroup`**: factor labels `name[level]` joined by `:` in cell order, then
`effect|cell`, cell slowest -/
theorem trainGroup_labels (env : Env) (table : List (String × Expr)) (spec : GroupSpec) (out : GroupOut)
    (h : trainGroup env table spec = .ok out)
    (ht : ∀ c ∈ out.st.factor.comps, c.contrast = some (treatmentFull c.levels)) :
    ∃ el, effectLabels env table spec = .ok el ∧
      out.st.groups = reduceLabels (out.st.factor.comps.map (fun c => c.levels.map Level.label)) ∧
      out.labels = el.map (fun el =>
        labelProd bar (reduceLabels (out.st.factor.comps.map (fun c =>
          c.levels.map (fun l => c.name ++ "[" ++ l.label ++ "]")))) el) := by
  obtain ⟨f, X, el, hf, _, hel, _, hst, _, hgroups, hlabels⟩ := trainGroup_parts env table spec out h
  obtain ⟨outs, cols, _, hF, _, hcomps, _, hfl⟩ := trainTerm_factor_parts env table spec f hf
  have hcs : out.st.factor.comps = outs.map (·.st) := by rw [hst, hcomps]
  have ht' : ∀ o ∈ outs, o.st.contrast = some (treatmentFull o.st.levels) := by
    intro o ho
    exact ht o.st (by rw [hcs]; exact List.mem_map.2 ⟨o, ho, rfl⟩)
  refine ⟨el, hel, ?_, ?_⟩
  · rw [hgroups, ← hst, groups_of_treatment _ ht]
  · rw [hlabels, hfl, hF.labels ht', hcs]
    cases el with
    | none => rfl
    | some el =>
      simp only [Option.map_some, List.map_map, Function.comp_def]
      rfl

end FormulaeModel.Design
