import FormulaeModel.Proofs.TermsOps
set_option linter.unusedSectionVars false
set_option linter.unusedSimpArgs false
/-
C02: the invariant of plain values — every term is a duplicate-free component list without
numeric-named components — is preserved by the closed-form operators.
-/
namespace FormulaeModel.Terms
open FormulaeModel.Spec.C02

def GoodT (t : STerm) : Prop := t.Nodup ∧ NonNum t
def Good (p : PV) : Prop := ∀ t ∈ p.list, GoodT t

theorem goodT_dedup {l : List Atom} (h : NonNum l) : GoodT (dedup l) :=
  ⟨nodup_dedup l, fun a ha => h a (mem_dedup.1 ha)⟩

theorem nonNum_append {x y : List Atom} (hx : NonNum x) (hy : NonNum y) : NonNum (x ++ y) := by
  intro a ha
  rcases List.mem_append.1 ha with h | h
  · exact hx a h
  · exact hy a h

theorem nonNum_flatten {M : List STerm} (h : ∀ t ∈ M, NonNum t) : NonNum M.flatten := by
  intro a ha
  obtain ⟨t, ht, hat⟩ := List.mem_flatten.1 ha
  exact h t ht a hat

theorem goodT_inter {x y : STerm} (hx : GoodT x) (hy : GoodT y) : GoodT (dedup (x ++ y)) :=
  goodT_dedup (nonNum_append hx.2 hy.2)

theorem Good.nonNum {p : PV} (h : Good p) : ∀ t ∈ p.list, NonNum t := fun t ht => (h t ht).2

theorem mem_removeFirst {α : Type} [BEq α] [LawfulBEq α] {x y : α} {l : List α}
    (h : y ∈ removeFirst x l) : y ∈ l := (removeFirst_sublist x l).subset h

theorem mem_remL {α : Type} [BEq α] [LawfulBEq α] {y : α} {A B : List α}
    (h : y ∈ remL A B) : y ∈ A := (remL_sublist A B).subset h

theorem mem_pairs {t : STerm} {M O : List STerm} :
    t ∈ pairs M O ↔ ∃ x ∈ M, ∃ y ∈ O, t = dedup (x ++ y) := by
  simp only [pairs, List.mem_flatMap, List.mem_map]
  constructor
  · rintro ⟨x, hx, y, hy, rfl⟩; exact ⟨x, hx, y, hy, rfl⟩
  · rintro ⟨x, hx, y, hy, rfl⟩; exact ⟨x, hx, y, hy, rfl⟩

theorem good_padd {p q : PV} (hp : Good p) (hq : Good q) : Good (padd p q) := by
  intro t ht
  cases p with
  | t a =>
    cases q with
    | t b =>
      by_cases hab : (a == b) = true <;>
        simp only [padd, hab, if_true, Bool.false_eq_true, if_false, PV.list, List.mem_cons,
          List.not_mem_nil, or_false] at ht
      · exact ht ▸ hp _ (by simp [PV.list])
      · rcases ht with rfl | rfl
        · exact hp _ (by simp [PV.list])
        · exact hq _ (by simp [PV.list])
    | m O =>
      rcases (mem_addL _ _).1 ht with h | h
      · exact hp _ (by simpa [PV.list] using h)
      · exact hq _ (by simpa [PV.list] using h)
  | m M =>
    cases q with
    | t b =>
      rcases (mem_addL _ _).1 ht with h | h
      · exact hp _ (by simpa [PV.list] using h)
      · exact hq _ (by simpa [PV.list] using h)
    | m O =>
      rcases (mem_addL _ _).1 ht with h | h
      · exact hp _ (by simpa [PV.list] using h)
      · exact hq _ (by simpa [PV.list] using h)

theorem good_psub {p q : PV} (hp : Good p) : Good (psub p q) := by
  intro t ht
  cases p with
  | t a =>
    cases q with
    | t b =>
      by_cases hab : (a == b) = true <;>
        simp only [psub, hab, if_true, Bool.false_eq_true, if_false, PV.list, List.mem_cons,
          List.not_mem_nil, or_false] at ht
      exact ht ▸ hp _ (by simp [PV.list])
    | m O =>
      by_cases hab : O.contains a = true <;>
        simp only [psub, hab, if_true, Bool.false_eq_true, if_false, PV.list, List.mem_cons,
          List.not_mem_nil, or_false] at ht
      exact ht ▸ hp _ (by simp [PV.list])
  | m M =>
    cases q with
    | t b => exact hp _ (mem_removeFirst ht)
    | m O => exact hp _ (mem_remL ht)

theorem good_pmatmul {p q : PV} (hp : Good p) (hq : Good q) : Good (pmatmul p q) := by
  intro t ht
  cases p with
  | t a =>
    cases q with
    | t b =>
      by_cases hab : (a == b) = true <;>
        simp only [pmatmul, hab, if_true, Bool.false_eq_true, if_false, PV.list, List.mem_cons,
          List.not_mem_nil, or_false] at ht
      · exact ht ▸ hp _ (by simp [PV.list])
      · exact ht ▸ goodT_inter (hp _ (by simp [PV.list])) (hq _ (by simp [PV.list]))
    | m O =>
      simp only [pmatmul, PV.list, List.mem_map] at ht
      obtain ⟨y, hy, rfl⟩ := ht
      exact goodT_inter (hp _ (by simp [PV.list])) (hq _ hy)
  | m M =>
    cases q with
    | t b =>
      simp only [pmatmul, PV.list, List.mem_map] at ht
      obtain ⟨x, hx, rfl⟩ := ht
      exact goodT_inter (hp _ hx) (hq _ (by simp [PV.list]))
    | m O =>
      obtain ⟨x, hx, y, hy, rfl⟩ := mem_pairs.1 ht
      exact goodT_inter (hp _ hx) (hq _ hy)

theorem good_pmul {p q : PV} (hp : Good p) (hq : Good q) : Good (pmul p q) := by
  intro t ht
  cases p with
  | t a =>
    cases q with
    | t b =>
      by_cases hab : (a == b) = true <;>
        simp only [pmul, hab, if_true, Bool.false_eq_true, if_false, PV.list, List.mem_cons,
          List.not_mem_nil, or_false] at ht
      · exact ht ▸ hp _ (by simp [PV.list])
      · rcases ht with rfl | rfl | rfl
        · exact hp _ (by simp [PV.list])
        · exact hq _ (by simp [PV.list])
        · exact goodT_inter (hp _ (by simp [PV.list])) (hq _ (by simp [PV.list]))
    | m O =>
      simp only [pmul, PV.list, mem_addL, List.mem_cons, List.mem_map] at ht
      rcases ht with (rfl | h) | ⟨y, hy, rfl⟩
      · exact hp _ (by simp [PV.list])
      · exact hq _ h
      · exact goodT_inter (hp _ (by simp [PV.list])) (hq _ hy)
  | m M =>
    cases q with
    | t b =>
      simp only [pmul, PV.list, mem_addL, List.mem_append, List.mem_cons, List.not_mem_nil,
        or_false, List.mem_map] at ht
      rcases ht with (h | rfl) | ⟨x, hx, rfl⟩
      · exact hp _ h
      · exact hq _ (by simp [PV.list])
      · exact goodT_inter (hp _ hx) (hq _ (by simp [PV.list]))
    | m O =>
      by_cases hs : sameSet M O = true <;>
        simp only [pmul, hs, if_true, Bool.false_eq_true, if_false, PV.list, mem_addL,
          List.mem_append] at ht
      · exact hp _ ht
      · rcases ht with (h | h) | h
        · exact hp _ h
        · exact hq _ h
        · obtain ⟨x, hx, y, hy, rfl⟩ := mem_pairs.1 h
          exact goodT_inter (hp _ hx) (hq _ hy)

theorem good_pdiv {p q : PV} (hp : Good p) (hq : Good q) : Good (pdiv p q) := by
  intro t ht
  cases p with
  | t a =>
    cases q with
    | t b =>
      by_cases hab : (a == b) = true <;>
        simp only [pdiv, hab, if_true, Bool.false_eq_true, if_false, PV.list, List.mem_cons,
          List.not_mem_nil, or_false] at ht
      · exact ht ▸ hp _ (by simp [PV.list])
      · rcases ht with rfl | rfl
        · exact hp _ (by simp [PV.list])
        · exact goodT_inter (hp _ (by simp [PV.list])) (hq _ (by simp [PV.list]))
    | m O =>
      simp only [pdiv, PV.list, mem_addL, List.mem_cons, List.not_mem_nil, or_false,
        List.mem_map] at ht
      rcases ht with rfl | ⟨y, hy, rfl⟩
      · exact hp _ (by simp [PV.list])
      · exact goodT_inter (hp _ (by simp [PV.list])) (hq _ hy)
  | m M =>
    have hM : NonNum M.flatten := nonNum_flatten (fun t ht => (hp t ht).2)
    cases q with
    | t b =>
      simp only [pdiv, PV.list, mem_addL, List.mem_cons, List.not_mem_nil, or_false] at ht
      rcases ht with h | rfl
      · exact hp _ h
      · exact goodT_dedup (nonNum_append hM (hq _ (by simp [PV.list])).2)
    | m O =>
      simp only [pdiv, PV.list, mem_addL, List.mem_map] at ht
      rcases ht with h | ⟨y, hy, rfl⟩
      · exact hp _ h
      · exact goodT_dedup (nonNum_append hM (hq _ hy).2)

theorem mem_combsUpTo {α : Type} {M : List α} {n : Nat} {ts : List α}
    (h : ts ∈ combsUpTo M n) : ∀ x ∈ ts, x ∈ M := by
  simp only [combsUpTo, List.mem_flatMap] at h
  obtain ⟨i, _, hi⟩ := h
  split at hi
  · exact combinations_mem_sub hi
  · simp at hi

theorem good_ppow {p : PV} (hp : Good p) (n : Nat) : Good (ppow p n) := by
  intro t ht
  cases p with
  | t a => exact hp _ ht
  | m M =>
    simp only [ppow, PV.list, mem_addL, List.mem_map] at ht
    rcases ht with h | ⟨ts, hts, rfl⟩
    · exact hp _ h
    · exact goodT_dedup (nonNum_flatten (fun t ht => (hp t (mem_combsUpTo hts t ht)).2))

end FormulaeModel.Terms
